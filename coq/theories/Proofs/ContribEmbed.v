(* ContribEmbed.v — C10 for embed and for mask / signature(partial):
   contributors, the default-dropping rule, the order of positional parameters,
   the keyword-only conversion of bound keywords.

   Part 1  the merger against a star-only operand (what _embed does to the inner
           signature), in closed form, for all classified signatures
   Part 2  the parameter list of embed [o; i] in closed form (`embed2_params`)
   Part 3  C10 for embed: contributors, defaults dropped, order
   Part 4  C10 for mask / partial: contributors, C10_partial_kw, order *)
From Coq Require Import List NArith Bool Arith Lia Btauto.
From Sigtools.Model Require Import Base Bind Roles Algebra.
From Sigtools.Proofs Require Import SmallModel Basics Prov MaskLaws MaskExact MergeNeutral Annot ProvKeys Contrib ProvNoDup.
Import ListNotations.
Open Scope N_scope.

Lemma Ok_inj {A} (a b : A) : @Ok A a = Ok b -> a = b.
Proof. intros H. inversion H. reflexivity. Qed.

(* ================================================================== *)
(* Part 1 — merger l (stars only)                                      *)
Section Stars.
Variables (l : sorted) (ova ovk : option param) (sr : srcmap) (dr : depths).
Let r := mkSorted [] [] ova [] ovk sr dr.

Lemma kwo_match_s lk : forall st,
  shp (kwo_match l r lk st) =
  (m_pos st, m_pok st, m_kwo st, m_xva_l st, m_xvk_l st, od_update (m_lunm st) lk, m_runm st).
Proof.
  induction lk as [|p lk IH]; intros st; [reflexivity|].
  cbn [kwo_match]. unfold r at 1. cbn [kwoargs find_param]. rewrite IH. reflexivity.
Qed.

Lemma unb_pos_all_s lp : forall st st' c,
  unb_pos_all l r L lp [] st = Ok (st', c) ->
  c = [] /\
  shp st' = (m_pos st ++ (if isSome ova then lp else []), m_pok st, m_kwo st, m_xva_l st, m_xvk_l st,
             m_lunm st, m_runm st) /\
  (isSome ova = false -> forallb has_def lp = true).
Proof.
  induction lp as [|p lp IH]; intros st st' c; cbn [unb_pos_all].
  - intros E; inversion E; subst. split; [reflexivity|]. split; [|reflexivity].
    unfold shp. destruct (isSome ova); rewrite app_nil_r; reflexivity.
  - unfold unb_pos1 at 1. cbn [other]. unfold r at 1. cbn [varargs].
    destruct ova as [a|] eqn:Ea; cbn [isSome].
    + cbn [bind fst snd]. intros E. destruct (IH _ _ _ E) as (A & B & C). split; [exact A|]. split; [|discriminate].
      rewrite B. unfold shp. cbn. rewrite <- app_assoc. reflexivity.
    + destruct (has_def p) eqn:Ed; cbn [negb]; [|discriminate]. cbn [bind fst snd forallb]. rewrite Ed.
      intros E. destruct (IH _ _ _ E) as (A & B & C). split; [exact A|]. split; [exact B|]. intros _. apply C. reflexivity.
Qed.

(* the four treatments of a left-over positional-or-keyword parameter *)
Lemma unb_pok_all_s il : forall st st',
  m_runm st = [] -> unb_pok_all l r L il st = Ok st' ->
  match ova, ovk with
  | Some _, Some _ =>
      shp st' = (m_pos st, m_pok st ++ il, m_kwo st, m_xva_l st, m_xvk_l st, m_lunm st, m_runm st)
  | None, Some _ =>
      shp st' = (m_pos st, m_pok st, od_update (m_kwo st) (map (set_kind KO) il), m_xva_l st, m_xvk_l st,
                 m_lunm st, m_runm st)
  | Some _, None =>
      m_pok st = [] ->
      shp st' = (m_pos st ++ map (set_kind PO) il, [], m_kwo st, m_xva_l st, m_xvk_l st, m_lunm st, m_runm st)
  | None, None =>
      shp st' = shp st /\ forallb has_def il = true
  end.
Proof.
  induction il as [|p il IH]; intros st st' Hr; cbn [unb_pok_all].
  - intros E; inversion E; subst. destruct ova, ovk; unfold shp; cbn [map od_update fold_left];
      rewrite ?app_nil_r; try reflexivity; [intros ->; reflexivity | split; reflexivity].
  - unfold unb_pok1 at 1. cbn [other unm]. rewrite Hr. cbn [find_param]. unfold r at 1 2 3. cbn [varargs varkwargs].
    destruct ova as [a|], ovk as [k|]; cbn [isSome andb negb].
    + cbn [bind]. intros E. pose proof (fun H => IH _ _ H E) as E'. specialize (E' Hr). rewrite E'. unfold shp. cbn.
      rewrite <- app_assoc, ?Hr. reflexivity.
    + cbn [bind]. intros E Hp. pose proof (fun H => IH _ _ H E) as E'. specialize (E' Hr eq_refl). rewrite E'. unfold shp. cbn.
      rewrite Hp. cbn [map app]. rewrite <- app_assoc, ?Hr. reflexivity.
    + cbn [bind]. intros E. pose proof (fun H => IH _ _ H E) as E'. specialize (E' Hr). rewrite E'. unfold shp. cbn. rewrite ?Hr. reflexivity.
    + destruct (has_def p) eqn:Ed; cbn [negb]; [|discriminate]. cbn [bind forallb]. rewrite Ed.
      intros E. pose proof (fun H => IH _ _ H E) as E'. exact (E' Hr).
Qed.

Lemma unmatched_kwo_L_s st st' :
  unmatched_kwo l r L st = Ok st' ->
  shp st' = (m_pos st, m_pok st, (if isSome ovk then od_update (m_kwo st) (m_lunm st) else m_kwo st),
             m_xva_l st, m_xvk_l st, m_lunm st, m_runm st) /\
  (isSome ovk = false -> forallb has_def (m_lunm st) = true).
Proof.
  unfold unmatched_kwo. cbn [unm other]. destruct (m_lunm st) as [|q u] eqn:Eu.
  - intros E; inversion E; subst. split; [|reflexivity]. unfold shp. rewrite Eu. destruct (isSome ovk); reflexivity.
  - unfold r at 1. cbn [varkwargs]. destruct (isSome ovk).
    + intros E. apply Ok_inj in E. subst st'. split; [|discriminate].
      change (shp (excl_vk ?x R)) with (shp x). rewrite shp_fold_src. unfold shp. cbn. rewrite Eu. reflexivity.
    + destruct (forallb has_def (q :: u)) eqn:Ef; [|discriminate]. intros E; inversion E; subst.
      split; [unfold shp; rewrite Eu; reflexivity | intros _; reflexivity].
Qed.

Hypothesis PKl : Forall (fun p => pkind p = PK) (pokargs l).

(* closed form of the named parameters of `merger l (stars)` *)
Theorem merger_stars m : merger l r = Ok m ->
  posargs m = (if isSome ova then posargs l else [])
              ++ (if isSome ova && negb (isSome ovk) then map (set_kind PO) (pokargs l) else []) /\
  pokargs m = (if isSome ova && isSome ovk then pokargs l else []) /\
  kwoargs m = (if isSome ovk
               then od_update (od_update [] (if isSome ova then [] else map (set_kind KO) (pokargs l)))
                              (od_update [] (kwoargs l))
               else []) /\
  (isSome ova = false -> forallb has_def (posargs l) = true) /\
  (isSome ova = false -> isSome ovk = false -> forallb has_def (pokargs l) = true) /\
  (isSome ovk = false -> forallb has_def (od_update [] (kwoargs l)) = true).
Proof.
  unfold merger. intros E.
  set (st0 := mkM [] [] [] [] false false false false [] []) in *.
  pose proof (kwo_match_s (kwoargs l) st0) as H1.
  set (st1 := kwo_match l r (kwoargs l) st0) in *.
  cbn [st0 m_pos m_pok m_kwo m_xva_l m_xvk_l m_lunm m_runm] in H1.
  assert (Hru : r_unmatched l r = []) by reflexivity. rewrite Hru in E.
  set (st2 := set_unm st1 R []) in *.
  assert (H2 : shp st2 = ([], [], [], false, false, od_update [] (kwoargs l), [])).
  { apply shp_inv in H1. destruct H1 as (A1 & A2 & A3 & A4 & A5 & A6 & A7).
    apply shp_intro; unfold st2; cbn; assumption || reflexivity. }
  apply bind_ok in E. destruct E as [[[st3 il] ir] [E3 E]].
  assert (H3 : il = pokargs l /\ ir = [] /\
               shp st3 = ((if isSome ova then posargs l else []), [], [], false, false, od_update [] (kwoargs l), []) /\
               (isSome ova = false -> forallb has_def (posargs l) = true)).
  { unfold r at 1 2 in E3. cbn [posargs pokargs] in E3. destruct (posargs l) as [|p lp] eqn:Ep.
    - cbn [zip_pos unb_pos_all bind fst snd] in E3. apply Ok_inj in E3. injection E3 as X1 X2 X3. subst st3 il ir.
      repeat split; auto. rewrite H2. destruct (isSome ova); reflexivity.
    - cbn [zip_pos] in E3. apply bind_ok in E3. destruct E3 as [[st3' c] [E3 E3']].
      cbn [fst snd] in E3'. apply Ok_inj in E3'. injection E3' as X1 X2 X3. subst st3 il ir.
      destruct (unb_pos_all_s _ _ _ _ E3) as (A & B & C).
      repeat split; auto. rewrite B. apply shp_inv in H2. destruct H2 as (A1 & A2 & A3 & A4 & A5 & A6 & A7).
      rewrite A1, A2, A3, A4, A5, A6, A7. reflexivity. }
  destruct H3 as (-> & -> & H3 & D1).
  pose proof (shp_inv _ _ _ _ _ _ _ _ H3) as (B1 & B2 & B3 & B4 & B5 & B6 & B7).
  apply bind_ok in E. destruct E as [st4 [E4 E]].
  assert (E4' : unb_pok_all l r L (pokargs l) st3 = Ok st4).
  { destruct (pokargs l); exact E4. }
  pose proof (unb_pok_all_s _ _ _ B7 E4') as H4.
  apply bind_ok in E. destruct E as [st5 [E5 E]].
  destruct (unmatched_kwo_L_s _ _ E5) as [H5 D3].
  apply bind_ok in E. destruct E as [st6 [E6 E]].
  assert (H6 : st6 = st5).
  { unfold unmatched_kwo in E6. cbn [unm] in E6.
    assert (A : m_runm st5 = []).
    { apply shp_inv in H5. destruct H5 as (_ & _ & _ & _ & _ & _ & A7). rewrite A7.
      destruct ova, ovk; try (apply shp_inv in H4; destruct H4 as (_ & _ & _ & _ & _ & _ & X); rewrite X; exact B7).
      - specialize (H4 B2). apply shp_inv in H4. destruct H4 as (_ & _ & _ & _ & _ & _ & X). rewrite X. exact B7.
      - destruct H4 as [H4 _]. unfold shp in H4. injection H4. intros X _ _ _ _ _ _. rewrite X. exact B7. }
    rewrite A in E6. inversion E6. reflexivity. }
  subst st6.
  (* the three buckets after the unmatched keyword-only step *)
  assert (H7 : m_pos st5 = (if isSome ova then posargs l else [])
                           ++ (if isSome ova && negb (isSome ovk) then map (set_kind PO) (pokargs l) else []) /\
               m_pok st5 = (if isSome ova && isSome ovk then pokargs l else []) /\
               m_kwo st5 = (if isSome ovk
                            then od_update (od_update [] (if isSome ova then [] else map (set_kind KO) (pokargs l)))
                                           (od_update [] (kwoargs l))
                            else []) /\
               (isSome ova = false -> isSome ovk = false -> forallb has_def (pokargs l) = true) /\
               m_lunm st4 = od_update [] (kwoargs l)).
  { apply shp_inv in H5. destruct H5 as (A1 & A2 & A3 & A4 & A5 & A6 & A7).
    rewrite A1, A2, A3.
    destruct ova as [a|], ovk as [k|]; cbn [isSome andb negb] in *.
    - apply shp_inv in H4. destruct H4 as (X1 & X2 & X3 & _ & _ & X6 & _).
      rewrite X1, X2, X3, X6, B1, B2, B3, B6. rewrite app_nil_r. cbn [app]. repeat split; auto; discriminate.
    - specialize (H4 B2). apply shp_inv in H4. destruct H4 as (X1 & X2 & X3 & _ & _ & X6 & _).
      rewrite X1, X2, X3, X6, B1, B3, B6. repeat split; auto; discriminate.
    - apply shp_inv in H4. destruct H4 as (X1 & X2 & X3 & _ & _ & X6 & _).
      rewrite X1, X2, X3, X6, B1, B2, B3, B6. repeat split; auto; discriminate.
    - destruct H4 as [H4 Hd]. unfold shp in H4. injection H4. intros _ X6 _ _ X3 X2 X1.
      rewrite X1, X2, X3, X6, B1, B2, B3, B6. repeat split; auto. }
  destruct H7 as (P1 & P2 & P3 & D2 & P4).
  assert (Hnorm : shp (normalise_pok st5) = shp st5).
  { unfold normalise_pok.
    assert (Hpk : Forall (fun p => pkind p = PK) (m_pok st5)).
    { rewrite P2. destruct (isSome ova && isSome ovk); [exact PKl | constructor]. }
    rewrite (split_po_prefix_pk _ Hpk). unfold shp. cbn. rewrite app_nil_r. reflexivity. }
  set (st7 := normalise_pok st5) in *.
  pose proof (add_star_shp l r (m_xva_l st7) (m_xva_r st7) (varargs l) (varargs r) st7) as S8.
  destruct (add_star l r (m_xva_l st7) (m_xva_r st7) (varargs l) (varargs r) st7) as [va st8].
  cbn [snd] in S8.
  pose proof (add_star_shp l r (m_xvk_l st8) (m_xvk_r st8) (varkwargs l) (varkwargs r) st8) as S9.
  destruct (add_star l r (m_xvk_l st8) (m_xvk_r st8) (varkwargs l) (varkwargs r) st8) as [vk st9].
  cbn [snd] in S9. inversion E; subst. clear E. cbn [posargs pokargs kwoargs].
  rewrite S8, Hnorm in S9. unfold shp in S9. injection S9. intros _ _ _ _ X3 X2 X1.
  rewrite X1, X2, X3. repeat split; auto.
  intros Hk. rewrite <- P4. apply D3. exact Hk.
Qed.
End Stars.

(* ================================================================== *)
(* Part 2 — the parameter list of embed [o; i]                         *)

Definition clrl (c : bool) (ps : list param) : list param := if c then clear_defaults ps else ps.
Definition first_required (ps : list param) : bool :=
  match ps with f :: _ => negb (has_def f) | [] => false end.
Definition isnil {A} (l : list A) : bool := match l with [] => true | _ => false end.

(* the star-only operand _embed merges the inner signature with *)
Definition estars (uva uvk : bool) (so : sorted) : sorted :=
  mkSorted [] [] (opt_if uva (varargs so)) [] (opt_if uvk (varkwargs so)) [] [].

Lemma check_no_dupes_ok seen ps seen' :
  check_no_dupes seen ps = Ok seen' ->
  seen' = seen ++ names_of ps /\ forall x, In x (names_of ps) -> ~ In x seen.
Proof.
  unfold check_no_dupes. destruct (existsb (fun p => mem (pname p) seen) ps) eqn:E; [discriminate|].
  intros H. apply Ok_inj in H. split; [symmetry; exact H|].
  intros x Hx Hs. unfold names_of in Hx. apply in_map_iff in Hx. destruct Hx as [p [<- Hp]].
  assert (Ht : existsb (fun p => mem (pname p) seen) ps = true).
  { apply existsb_exists. exists p. split; [exact Hp | apply mem_In; exact Hs]. }
  rewrite Ht in E. discriminate.
Qed.

Theorem embed2_form o i uva uvk r :
  embed [o; i] uva uvk = Ok r ->
  exists m, merger (sort_params i) (estars uva uvk (sort_params o)) = Ok m /\
    params r = clrl (first_required (posargs m ++ pokargs m)) (posargs (sort_params o))
               ++ clrl (first_required (posargs m ++ pokargs m))
                       (if isnil (posargs m) then pokargs (sort_params o)
                        else map (set_kind PO) (pokargs (sort_params o)))
               ++ posargs m ++ pokargs m
               ++ opt_list (if uva then varargs m else varargs (sort_params o))
               ++ od_update (od_update [] (kwoargs (sort_params o))) (kwoargs m)
               ++ opt_list (if uvk then varkwargs m else varkwargs (sort_params o)) /\
    srcs r = overlay (pop_star uvk (varkwargs (sort_params o))
                        (pop_star uva (varargs (sort_params o)) (srcs o))) (ssrc m) /\
    (forall x, In x (names_of (pokargs (sort_params o))) -> ~ In x (names_of (posargs (sort_params o)))) /\
    (forall x, In x (names_of (posargs m ++ pokargs m)) ->
               ~ In x (names_of (posargs (sort_params o) ++ pokargs (sort_params o)))) /\
    (forall x, In x (names_of (kwoargs (sort_params o))) ->
               ~ In x (names_of (posargs (sort_params o) ++ pokargs (sort_params o) ++ posargs m ++ pokargs m))) /\
    (forall x, In x (names_of (kwoargs m)) ->
               ~ In x (names_of (posargs (sort_params o) ++ pokargs (sort_params o) ++ posargs m ++ pokargs m
                                 ++ kwoargs (sort_params o)))).
Proof.
  cbn [embed embed_steps]. intros E.
  apply bind_ok in E. destruct E as [acc [E1 E2]].
  apply bind_ok in E1. destruct E1 as [acc1 [E0 E1]]. apply to_incompatible_ok in E0.
  apply Ok_inj in E1. subst acc1.
  destruct (apply_params_fields _ _ _ E2) as [Ep Es]. rewrite Ep, Es. clear E2 Ep Es.
  set (so := sort_params o) in *.
  unfold embed_step in E0. apply bind_ok in E0. destruct E0 as [m [Em E0]].
  exists m. split; [exact Em|].
  apply bind_ok in E0. destruct E0 as [n1 [C1 E0]]. apply check_no_dupes_ok in C1. destruct C1 as [-> _].
  apply bind_ok in E0. destruct E0 as [n2 [C2 E0]]. apply check_no_dupes_ok in C2. destruct C2 as [-> D2].
  cbn [app] in *.
  apply bind_ok in E0. destruct E0 as [[[e_pos e_pok] n3] [Ee E0]].
  assert (He : e_pos ++ e_pok =
               clrl (first_required (posargs m ++ pokargs m)) (posargs so)
               ++ clrl (first_required (posargs m ++ pokargs m))
                       (if isnil (posargs m) then pokargs so else map (set_kind PO) (pokargs so))
               ++ posargs m /\
               n3 = names_of (posargs so) ++ names_of (pokargs so) ++ names_of (posargs m) /\
               (forall x, In x (names_of (posargs m)) -> ~ In x (names_of (posargs so) ++ names_of (pokargs so)))).
  { destruct (posargs m) as [|ip0 ips] eqn:Epi.
    - cbn [isnil app]. rewrite !app_nil_r. destruct (pokargs m) as [|ik0 iks] eqn:Epk.
      + apply Ok_inj in Ee. injection Ee as <- <- <-. cbn [first_required clrl]. repeat split; auto; try (intros x []).
      + cbn [first_required]. destruct (has_def ik0); cbn [negb clrl];
          apply Ok_inj in Ee; injection Ee as <- <- <-; repeat split; auto; try (intros x []).
    - apply bind_ok in Ee. destruct Ee as [n3' [C3 Ee]]. apply check_no_dupes_ok in C3. destruct C3 as [-> D3].
      apply Ok_inj in Ee. injection Ee as <- <- <-. cbn [isnil app first_required]. rewrite app_nil_r.
      split; [|split; [rewrite <- app_assoc; reflexivity | exact D3]].
      destruct (has_def ip0); cbn [negb clrl].
      + rewrite <- app_assoc. reflexivity.
      + unfold clear_defaults. rewrite map_app, <- app_assoc. reflexivity. }
  destruct He as (He & -> & D3).
  apply bind_ok in E0. destruct E0 as [n4 [C4 E0]]. apply check_no_dupes_ok in C4. destruct C4 as [-> D4].
  apply bind_ok in E0. destruct E0 as [n5 [C5 E0]]. apply check_no_dupes_ok in C5. destruct C5 as [-> D5].
  apply bind_ok in E0. destruct E0 as [n6 [C6 E0]]. apply check_no_dupes_ok in C6. destruct C6 as [-> D6].
  apply Ok_inj in E0. subst acc. unfold flatten. cbn [posargs pokargs varargs kwoargs varkwargs ssrc].
  split; [|split].
  - rewrite (app_assoc e_pos), (app_assoc e_pos e_pok), He. rewrite <- !app_assoc. reflexivity.
  - unfold so. rewrite sort_params_ssrc. unfold overlay, pop_star.
    destruct (varargs (sort_params o)); destruct (varkwargs (sort_params o)); reflexivity.
  - assert (Hn : forall a b : list param, names_of (a ++ b) = names_of a ++ names_of b)
      by (intros a b; unfold names_of; apply map_app).
    split; [exact D2|]. split; [|split].
    + intros x Hx. rewrite Hn in Hx. rewrite Hn. apply in_app_or in Hx. destruct Hx as [Hx|Hx].
      * apply D3. exact Hx.
      * intros Hin. apply (D4 x Hx). rewrite app_assoc. apply in_or_app. left. exact Hin.
    + intros x Hx. rewrite !Hn. intros Hin. apply (D5 x Hx). rewrite <- !app_assoc. exact Hin.
    + intros x Hx. rewrite !Hn. intros Hin. apply (D6 x Hx). rewrite <- !app_assoc. exact Hin.
Qed.

(* ================================================================== *)
(* Part 3 — C10 for embed                                              *)

Lemma od_update_In u : forall d p, In p (od_update d u) -> In p d \/ In p u.
Proof.
  unfold od_update. induction u as [|q u IH]; intros d p H; cbn [fold_left] in H; [left; exact H|].
  apply IH in H. destruct H as [H|H]; [|right; right; exact H].
  apply od_set_In in H. destruct H as [H| ->]; [left; exact H | right; left; reflexivity].
Qed.

(* every parameter of embed [o; i] is
   - a parameter of o, possibly positional-only instead of positional-or-keyword,
     possibly (positional parameters only) without its default;
   - a parameter of i with a legally restricted kind, default and annotation kept;
   - the inner star conciled with the outer star it is forwarded through *)
Definition econtrib (O I : list param) (p : param) : Prop :=
  (exists q, In q O /\ (restr q p \/ (is_positional q = true /\ restr (set_def None q) p))) \/
  (exists q, In q I /\ restr q p) \/
  (exists a b, In a I /\ In b O /\ (pkind a = VP \/ pkind a = VK) /\ pkind b = pkind a /\ p = concile a b).

Lemma restr_PO q : pkind q = PK -> restr q (set_kind PO q).
Proof. intros H. apply restr_set_kind. right. auto. Qed.
Lemma restr_KO q : pkind q = PK -> restr q (set_kind KO q).
Proof. intros H. apply restr_set_kind. right. auto. Qed.

Theorem embed2_contrib o i uva uvk r :
  embed [o; i] uva uvk = Ok r -> Forall (econtrib (params o) (params i)) (params r).
Proof.
  intros E. destruct (embed2_form o i uva uvk r E) as (m & Em & Ep & _).
  set (so := sort_params o) in *. set (si := sort_params i) in *.
  destruct (sort_params_kinds o) as (Ko1 & Ko2 & Ko3 & Ko4 & Ko5). fold so in Ko1, Ko2, Ko3, Ko4, Ko5.
  destruct (sort_params_kinds i) as (Ki1 & Ki2 & Ki3 & Ki4 & Ki5). fold si in Ki1, Ki2, Ki3, Ki4, Ki5.
  destruct (merger_stars si _ _ [] [] Ki2 m Em) as (M1 & M2 & M3 & _).
  assert (Ko2' : Forall (fun p => pkind p = PK) (pokargs (estars uva uvk so))) by constructor.
  destruct (merger_contrib si (estars uva uvk so) Ki2 Ko2' m Em) as (_ & _ & _ & S4 & S5).
  rewrite Forall_forall in Ko1, Ko2, Ko4, Ki1, Ki2, Ki4.
  assert (InO : forall q, In q (flatten so) -> In q (params o)) by (intros q; apply sort_params_In).
  assert (InI : forall q, In q (flatten si) -> In q (params i)) by (intros q; apply sort_params_In).
  assert (Fpos : forall q, In q (posargs so) -> In q (flatten so)) by (intros q H; apply named_flatten; apply (pos_named so so L); exact H).
  assert (Fpok : forall q, In q (pokargs so) -> In q (flatten so)) by (intros q H; apply named_flatten; apply (pok_named so so L); exact H).
  assert (Fipos : forall q, In q (posargs si) -> In q (flatten si)) by (intros q H; apply named_flatten; apply (pos_named si si L); exact H).
  assert (Fipok : forall q, In q (pokargs si) -> In q (flatten si)) by (intros q H; apply named_flatten; apply (pok_named si si L); exact H).
  (* outer positional with or without its default *)
  assert (Hclr : forall c qs, (forall q, In q qs -> exists q0, In q0 (params o) /\ is_positional q0 = true /\ restr q0 q /\
                                          restr (set_def None q0) (set_def None q)) ->
                 Forall (econtrib (params o) (params i)) (clrl c qs)).
  { intros c qs H. apply Forall_forall. intros p Hp. destruct c; cbn [clrl] in Hp.
    - unfold clear_defaults in Hp. apply in_map_iff in Hp. destruct Hp as [q [<- Hq]].
      destruct (H q Hq) as (q0 & A & B & _ & D). left. exists q0. split; [exact A|]. right. auto.
    - destruct (H p Hp) as (q0 & A & B & C & _). left. exists q0. auto. }
  (* inner named *)
  assert (Hm : forall p, In p (posargs m ++ pokargs m ++ kwoargs m) -> econtrib (params o) (params i) p).
  { intros p Hp. right; left. rewrite M1, M2, M3 in Hp.
    assert (G : (exists q, In q (posargs si) /\ p = q) \/ (exists q, In q (pokargs si) /\ (p = q \/ p = set_kind PO q \/ p = set_kind KO q))
                \/ (exists q, In q (kwoargs si) /\ p = q)).
    { repeat (apply in_app_or in Hp; destruct Hp as [Hp|Hp]).
      - destruct (isSome (opt_if uva (varargs so))); [left; exists p; auto | destruct Hp].
      - destruct (isSome (opt_if uva (varargs so)) && negb (isSome (opt_if uvk (varkwargs so)))); [|destruct Hp].
        apply in_map_iff in Hp. destruct Hp as [q [<- Hq]].
        right; left. exists q. auto.
      - destruct (isSome (opt_if uva (varargs so)) && isSome (opt_if uvk (varkwargs so))); [|destruct Hp].
        right; left. exists p. auto.
      - destruct (isSome (opt_if uvk (varkwargs so))); [|destruct Hp].
        apply od_update_In in Hp. destruct Hp as [Hp|Hp].
        + apply od_update_In in Hp. destruct Hp as [[]|Hp].
          destruct (isSome (opt_if uva (varargs so))); [destruct Hp|].
          apply in_map_iff in Hp. destruct Hp as [q [<- Hq]]. right; left. exists q. auto.
        + apply od_update_In in Hp. destruct Hp as [[]|Hp]. right; right. exists p. auto. }
    destruct G as [(q & Hq & ->) | [(q & Hq & Hp') | (q & Hq & ->)]].
    - exists q. split; [apply InI; apply Fipos; exact Hq | apply restr_refl].
    - exists q. split; [apply InI; apply Fipok; exact Hq|].
      destruct Hp' as [->|[->| ->]]; [apply restr_refl | apply restr_PO; apply Ki2; exact Hq | apply restr_KO; apply Ki2; exact Hq].
    - exists q. split; [apply InI; apply kwo_flatten; exact Hq | apply restr_refl]. }
  (* stars *)
  assert (Hstar : forall (b : bool) om osi oso k, star_contrib om osi (opt_if b oso) ->
            (forall x, osi = Some x -> In x (params i) /\ pkind x = k) ->
            (forall x, oso = Some x -> In x (params o) /\ pkind x = k) -> (k = VP \/ k = VK) ->
            Forall (econtrib (params o) (params i)) (opt_list (if b then om else oso))).
  { intros b om osi oso k Hs Hi Ho Hk. destruct b; cbn [opt_if] in Hs.
    - destruct om as [p|]; [|constructor]. constructor; [|constructor]. cbn in Hs.
      destruct Hs as [(x & y & -> & -> & ->) | [(x & -> & _ & ->) | (y & -> & _ & ->)]].
      + destruct (Hi x eq_refl) as [A B]. destruct (Ho y eq_refl) as [C D].
        right; right. exists x, y. repeat split; auto; [rewrite B; exact Hk | congruence].
      + destruct (Hi x eq_refl) as [A B]. right; left. exists x. split; [exact A | apply restr_refl].
      + destruct (Ho y eq_refl) as [C D]. left. exists y. split; [exact C | left; apply restr_refl].
    - destruct oso as [p|]; [|constructor]. constructor; [|constructor].
      destruct (Ho p eq_refl) as [A B]. left. exists p. split; [exact A | left; apply restr_refl]. }
  rewrite Ep. repeat (apply Forall_app; split).
  - apply Hclr. intros q Hq. exists q. pose proof (Ko1 _ Hq) as K. repeat split; try apply restr_refl.
    + apply InO. apply Fpos. exact Hq.
    + unfold is_positional. rewrite K. reflexivity.
  - apply Hclr. intros q Hq. destruct (isnil (posargs m)).
    + exists q. pose proof (Ko2 _ Hq) as K. repeat split; try apply restr_refl.
      * apply InO. apply Fpok. exact Hq.
      * unfold is_positional. rewrite K. reflexivity.
    + apply in_map_iff in Hq. destruct Hq as [q0 [<- Hq0]]. exists q0. pose proof (Ko2 _ Hq0) as K.
      split; [apply InO; apply Fpok; exact Hq0|]. split; [unfold is_positional; rewrite K; reflexivity|].
      split; [apply restr_PO; exact K|]. change (set_def None (set_kind PO q0)) with (set_kind PO (set_def None q0)).
      apply restr_PO. exact K.
  - apply Forall_forall. intros p Hp. apply Hm. apply in_or_app. left. exact Hp.
  - apply Forall_forall. intros p Hp. apply Hm. apply in_or_app. right. apply in_or_app. left. exact Hp.
  - apply (Hstar uva (varargs m) (varargs si) (varargs so) VP S4); [| |left; reflexivity].
    + intros x Hx. split; [apply InI; apply opt_in_flatten_va; exact Hx | apply Ki3; exact Hx].
    + intros x Hx. split; [apply InO; apply opt_in_flatten_va; exact Hx | apply Ko3; exact Hx].
  - apply Forall_forall. intros p Hp. apply od_update_In in Hp. destruct Hp as [Hp|Hp].
    + apply od_update_In in Hp. destruct Hp as [[]|Hp]. left. exists p.
      split; [apply InO; apply kwo_flatten; exact Hp | left; apply restr_refl].
    + apply Hm. apply in_or_app. right. apply in_or_app. right. exact Hp.
  - apply (Hstar uvk (varkwargs m) (varkwargs si) (varkwargs so) VK S5); [| |right; reflexivity].
    + intros x Hx. split; [apply InI; apply opt_in_flatten_vk; exact Hx | apply Ki5; exact Hx].
    + intros x Hx. split; [apply InO; apply opt_in_flatten_vk; exact Hx | apply Ko5; exact Hx].
Qed.

(* ---- the positional part of the result ---- *)
Lemma opt_forall (P : param -> Prop) o : (forall v, o = Some v -> P v) -> Forall P (opt_list o).
Proof. intros H. destruct o as [v|]; cbn [opt_list]; [constructor; [apply H; reflexivity | constructor] | constructor]. Qed.

Lemma all_positional_app a b : all_positional a -> all_positional b -> all_positional (a ++ b).
Proof. intros Ha Hb p Hp. apply in_app_or in Hp. destruct Hp; auto. Qed.

Lemma none_positional_app a b : none_positional a -> none_positional b -> none_positional (a ++ b).
Proof. intros Ha Hb p Hp. apply in_app_or in Hp. destruct Hp; auto. Qed.

Lemma all_positional_clrl c ps : all_positional ps -> all_positional (clrl c ps).
Proof.
  intros H. destruct c; cbn [clrl]; [|exact H]. intros p Hp. unfold clear_defaults in Hp.
  apply in_map_iff in Hp. destruct Hp as [q [<- Hq]]. exact (H q Hq).
Qed.

Lemma all_positional_kinds ps : Forall (fun p => pkind p = PO \/ pkind p = PK) ps -> all_positional ps.
Proof. intros H p Hp. rewrite Forall_forall in H. unfold is_positional. destruct (H p Hp) as [-> | ->]; reflexivity. Qed.

Lemma none_positional_kinds ps : Forall (fun p => pkind p = VP \/ pkind p = KO \/ pkind p = VK) ps -> none_positional ps.
Proof.
  intros H p Hp. rewrite Forall_forall in H. unfold is_positional.
  destruct (H p Hp) as [-> | [-> | ->]]; reflexivity.
Qed.

Lemma names_clrl c ps : names_of (clrl c ps) = names_of ps.
Proof. destruct c; [apply names_map_def | reflexivity]. Qed.

Lemma names_app (a b : list param) : names_of (a ++ b) = names_of a ++ names_of b.
Proof. unfold names_of. apply map_app. Qed.

(* kinds of the inner signature after the star-only merge *)
Lemma merger_estars_kinds o i uva uvk m :
  merger (sort_params i) (estars uva uvk (sort_params o)) = Ok m ->
  Forall (fun p => pkind p = PO \/ pkind p = PK) (posargs m ++ pokargs m) /\
  Forall (fun p => pkind p = KO) (kwoargs m) /\
  (forall v, varargs m = Some v -> pkind v = VP) /\ (forall v, varkwargs m = Some v -> pkind v = VK).
Proof.
  intros Em. set (so := sort_params o) in *. set (si := sort_params i) in *.
  destruct (sort_params_kinds o) as (Ko1 & Ko2 & Ko3 & Ko4 & Ko5). fold so in Ko1, Ko2, Ko3, Ko4, Ko5.
  destruct (sort_params_kinds i) as (Ki1 & Ki2 & Ki3 & Ki4 & Ki5). fold si in Ki1, Ki2, Ki3, Ki4, Ki5.
  destruct (merger_stars si _ _ [] [] Ki2 m Em) as (M1 & M2 & M3 & _).
  assert (Ko2' : Forall (fun p => pkind p = PK) (pokargs (estars uva uvk so))) by constructor.
  destruct (merger_contrib si (estars uva uvk so) Ki2 Ko2' m Em) as (_ & _ & _ & S4 & S5).
  rewrite Forall_forall in Ki1, Ki2, Ki4.
  split; [|split; [|split]].
  - rewrite M1, M2. apply Forall_forall. intros p Hp.
    repeat (apply in_app_or in Hp; destruct Hp as [Hp|Hp]).
    + destruct (isSome (opt_if uva (varargs so))); [left; apply Ki1; exact Hp | destruct Hp].
    + destruct (isSome (opt_if uva (varargs so)) && negb (isSome (opt_if uvk (varkwargs so)))); [|destruct Hp].
      apply in_map_iff in Hp. destruct Hp as [q [<- _]]. left. reflexivity.
    + destruct (isSome (opt_if uva (varargs so)) && isSome (opt_if uvk (varkwargs so))); [right; apply Ki2; exact Hp | destruct Hp].
  - rewrite M3. apply Forall_forall. intros p Hp.
    destruct (isSome (opt_if uvk (varkwargs so))); [|destruct Hp].
    apply od_update_In in Hp. destruct Hp as [Hp|Hp].
    + apply od_update_In in Hp. destruct Hp as [[]|Hp].
      destruct (isSome (opt_if uva (varargs so))); [destruct Hp|].
      apply in_map_iff in Hp. destruct Hp as [q [<- _]]. reflexivity.
    + apply od_update_In in Hp. destruct Hp as [[]|Hp]. apply Ki4. exact Hp.
  - intros v Hv. rewrite Hv in S4. cbn in S4.
    destruct S4 as [(x & y & Hx & _ & ->) | [(x & Hx & _ & ->) | (y & Hy & _ & ->)]].
    + change (pkind (concile x y)) with (pkind x). apply Ki3. exact Hx.
    + apply Ki3. exact Hx.
    + cbn [estars varargs] in Hy. destruct uva; [|discriminate Hy]. apply Ko3. exact Hy.
  - intros v Hv. rewrite Hv in S5. cbn in S5.
    destruct S5 as [(x & y & Hx & _ & ->) | [(x & Hx & _ & ->) | (y & Hy & _ & ->)]].
    + change (pkind (concile x y)) with (pkind x). apply Ki5. exact Hx.
    + apply Ki5. exact Hx.
    + cbn [estars varkwargs] in Hy. destruct uvk; [|discriminate Hy]. apply Ko5. exact Hy.
Qed.

Theorem embed2_positional o i uva uvk r :
  embed [o; i] uva uvk = Ok r ->
  exists m, merger (sort_params i) (estars uva uvk (sort_params o)) = Ok m /\
    positional (params r) =
      clrl (first_required (posargs m ++ pokargs m)) (posargs (sort_params o))
      ++ clrl (first_required (posargs m ++ pokargs m))
              (if isnil (posargs m) then pokargs (sort_params o) else map (set_kind PO) (pokargs (sort_params o)))
      ++ posargs m ++ pokargs m /\
    kwonly (params r) = od_update (od_update [] (kwoargs (sort_params o))) (kwoargs m).
Proof.
  intros E. destruct (embed2_form o i uva uvk r E) as (m & Em & Ep & _). exists m. split; [exact Em|].
  set (so := sort_params o) in *.
  destruct (sort_params_kinds o) as (Ko1 & Ko2 & Ko3 & Ko4 & Ko5). fold so in Ko1, Ko2, Ko3, Ko4, Ko5.
  destruct (merger_estars_kinds o i uva uvk m Em) as (Km1 & Km2 & Km3 & Km4). fold so in Km1.
  set (c := first_required (posargs m ++ pokargs m)) in *.
  assert (A1 : all_positional (clrl c (posargs so))).
  { apply all_positional_clrl. apply all_positional_kinds. eapply Forall_impl; [|exact Ko1]. cbn. auto. }
  assert (A2 : all_positional (clrl c (if isnil (posargs m) then pokargs so else map (set_kind PO) (pokargs so)))).
  { apply all_positional_clrl. destruct (isnil (posargs m)).
    - apply all_positional_kinds. eapply Forall_impl; [|exact Ko2]. cbn. auto.
    - intros p Hp. apply in_map_iff in Hp. destruct Hp as [q [<- _]]. reflexivity. }
  assert (A3 : all_positional (posargs m ++ pokargs m)) by (apply all_positional_kinds; exact Km1).
  assert (Hstar : forall (b : bool) om oso k, (forall v, om = Some v -> pkind v = k) -> (forall v, oso = Some v -> pkind v = k) ->
            (k = VP \/ k = VK) -> Forall (fun p => pkind p = VP \/ pkind p = KO \/ pkind p = VK) (opt_list (if b then om else oso))).
  { intros b om oso k H1 H2 Hk. destruct b.
    - destruct om as [v|]; [|constructor]. constructor; [|constructor]. rewrite (H1 v eq_refl). destruct Hk as [-> | ->]; auto.
    - destruct oso as [v|]; [|constructor]. constructor; [|constructor]. rewrite (H2 v eq_refl). destruct Hk as [-> | ->]; auto. }
  assert (Kkwo : Forall (fun p => pkind p = KO) (od_update (od_update [] (kwoargs so)) (kwoargs m))).
  { apply od_update_P; [apply od_update_P; [constructor | exact Ko4] | exact Km2]. }
  assert (B1 : none_positional (opt_list (if uva then varargs m else varargs so))).
  { apply none_positional_kinds. apply (Hstar uva _ _ VP Km3 Ko3). left; reflexivity. }
  assert (B2 : none_positional (od_update (od_update [] (kwoargs so)) (kwoargs m))).
  { apply none_positional_kinds. eapply Forall_impl; [|exact Kkwo]. cbn. auto. }
  assert (B3 : none_positional (opt_list (if uvk then varkwargs m else varkwargs so))).
  { apply none_positional_kinds. apply (Hstar uvk _ _ VK Km4 Ko5). right; reflexivity. }
  split.
  - rewrite Ep.
    match goal with |- positional (?g1 ++ ?g2 ++ ?pm ++ ?km ++ ?rest) = _ =>
      replace (g1 ++ g2 ++ pm ++ km ++ rest) with ((g1 ++ g2 ++ pm ++ km) ++ rest)
        by (rewrite <- !app_assoc; reflexivity) end.
    rewrite positional_app.
    rewrite (positional_none (opt_list _ ++ _)) by (apply none_positional_app; [exact B1 | apply none_positional_app; [exact B2 | exact B3]]).
    rewrite app_nil_r. apply positional_all.
    apply all_positional_app; [exact A1 | apply all_positional_app; [exact A2 | exact A3]].
  - rewrite Ep. unfold kwonly. rewrite !filter_app.
    assert (F0 : forall ps, all_positional ps -> filter (is_kind KO) ps = []) by (intros ps H; apply (kwonly_positional ps H)).
    assert (Fs : forall ps, Forall (fun p => pkind p = VP \/ pkind p = VK) ps -> filter (is_kind KO) ps = []).
    { induction 1 as [|p ps Hp _ IH]; [reflexivity|]. cbn [filter]. unfold is_kind at 1.
      destruct Hp as [-> | ->]; cbn; exact IH. }
    assert (Fk : forall ps, Forall (fun p => pkind p = KO) ps -> filter (is_kind KO) ps = ps).
    { induction 1 as [|p ps Hp _ IH]; [reflexivity|]. cbn [filter]. unfold is_kind at 1. rewrite Hp. cbn. rewrite IH. reflexivity. }
    rewrite (F0 _ A1), (F0 _ A2).
    rewrite (F0 (posargs m)) by (intros p Hp; apply A3; apply in_or_app; left; exact Hp).
    rewrite (F0 (pokargs m)) by (intros p Hp; apply A3; apply in_or_app; right; exact Hp).
    rewrite (Fk _ Kkwo).
    rewrite (Fs (opt_list (if uva then varargs m else varargs so))).
    2:{ apply opt_forall. intros v Hv. left. destruct uva; [apply Km3 | apply Ko3]; exact Hv. }
    rewrite (Fs (opt_list (if uvk then varkwargs m else varkwargs so))).
    2:{ apply opt_forall. intros v Hv. right. destruct uvk; [apply Km4 | apply Ko5]; exact Hv. }
    cbn [app]. rewrite app_nil_r. reflexivity.
Qed.

(* ---- small list facts ---- *)
Lemma filter_all {A} (f : A -> bool) l : (forall x, In x l -> f x = true) -> filter f l = l.
Proof.
  induction l as [|x l IH]; intros H; [reflexivity|]. cbn [filter]. rewrite (H x (or_introl eq_refl)).
  rewrite IH; [reflexivity|]. intros y Hy. apply H. right. exact Hy.
Qed.

Lemma filter_none {A} (f : A -> bool) l : (forall x, In x l -> f x = false) -> filter f l = [].
Proof.
  induction l as [|x l IH]; intros H; [reflexivity|]. cbn [filter]. rewrite (H x (or_introl eq_refl)).
  apply IH. intros y Hy. apply H. right. exact Hy.
Qed.

Lemma od_set_keep d p q : In q d -> pname q <> pname p -> In q (od_set d p).
Proof.
  induction d as [|e d IH]; intros Hq Hn; [destruct Hq|]. cbn [od_set].
  destruct (N.eqb_spec (pname p) (pname e)) as [E|E].
  - destruct Hq as [->|Hq]; [congruence | right; exact Hq].
  - destruct Hq as [->|Hq]; [left; reflexivity | right; apply IH; assumption].
Qed.

Lemma od_update_keep u : forall d q, In q d -> ~ In (pname q) (names_of u) -> In q (od_update d u).
Proof.
  unfold od_update. induction u as [|p u IH]; intros d q Hq Hn; cbn [fold_left]; [exact Hq|].
  apply IH.
  - apply od_set_keep; [exact Hq|]. intros E. apply Hn. left. symmetry. exact E.
  - intros H. apply Hn. right. exact H.
Qed.

Lemma kwonly_sorted s : valid_sig (params s) = true -> kwonly (params s) = kwoargs (sort_params s).
Proof.
  intros Hv. rewrite <- (sort_flatten_roundtrip s Hv).
  destruct (sort_params_kinds s) as (K1 & K2 & K3 & K4 & K5).
  unfold flatten, kwonly. rewrite !filter_app.
  assert (F0 : forall ps k, k <> KO -> Forall (fun p => pkind p = k) ps -> filter (is_kind KO) ps = []).
  { intros ps k Hk. induction 1 as [|p ps Hp _ IH]; [reflexivity|]. cbn [filter]. unfold is_kind at 1. rewrite Hp.
    destruct k; try contradiction; cbn; exact IH. }
  assert (Fk : forall ps, Forall (fun p => pkind p = KO) ps -> filter (is_kind KO) ps = ps).
  { induction 1 as [|p ps Hp _ IH]; [reflexivity|]. cbn [filter]. unfold is_kind at 1. rewrite Hp. cbn. rewrite IH. reflexivity. }
  rewrite (F0 _ PO ltac:(discriminate) K1), (F0 _ PK ltac:(discriminate) K2), (Fk _ K4).
  rewrite (F0 _ VP ltac:(discriminate)) by (apply opt_forall; exact K3).
  rewrite (F0 _ VK ltac:(discriminate)) by (apply opt_forall; exact K5).
  cbn [app]. apply app_nil_r.
Qed.

(* which outer parameters are still there *)
Definition survives (uva uvk : bool) (q : param) : Prop :=
  is_named q = true \/ (pkind q = VP /\ uva = false) \/ (pkind q = VK /\ uvk = false).

(* the defaults of the outer POSITIONAL parameters are dropped iff the first
   positional parameter of the result that is not an outer one is required *)
Definition cleared (o r : sigT) : bool :=
  first_required (filter (fun p => negb (mem (pname p) (names_of (positional (params o)))))
                         (positional (params r))).

Lemma cleared_spec o i uva uvk r m :
  embed [o; i] uva uvk = Ok r -> valid_sig (params o) = true ->
  merger (sort_params i) (estars uva uvk (sort_params o)) = Ok m ->
  cleared o r = first_required (posargs m ++ pokargs m).
Proof.
  intros E Hv Em. destruct (embed2_positional o i uva uvk r E) as (m' & Em' & Hp & _).
  rewrite Em in Em'. apply Ok_inj in Em'. subst m'.
  destruct (embed2_form o i uva uvk r E) as (m' & Em' & _ & _ & _ & D & _).
  rewrite Em in Em'. apply Ok_inj in Em'. subst m'.
  unfold cleared. rewrite Hp, (positional_sorted o Hv). set (so := sort_params o) in *.
  set (c := first_required (posargs m ++ pokargs m)).
  rewrite !filter_app. rewrite <- filter_app.
  rewrite (filter_none _ (clrl c (posargs so))), (filter_none _ (clrl c _)), (filter_all _ (posargs m ++ pokargs m)).
  - reflexivity.
  - intros p Hp'. apply negb_true_iff. apply mem_false_In. apply D. unfold names_of. apply in_map. exact Hp'.
  - intros p Hp'. apply negb_false_iff. apply mem_In. rewrite names_app. apply in_or_app. right.
    assert (Hn : In (pname p) (names_of (clrl c (if isnil (posargs m) then pokargs so else map (set_kind PO) (pokargs so)))))
      by (unfold names_of; apply in_map; exact Hp').
    rewrite names_clrl in Hn. destruct (isnil (posargs m)); [exact Hn | rewrite names_map_kind in Hn; exact Hn].
  - intros p Hp'. apply negb_false_iff. apply mem_In. rewrite names_app. apply in_or_app. left.
    assert (Hn : In (pname p) (names_of (clrl c (posargs so)))) by (unfold names_of; apply in_map; exact Hp').
    rewrite names_clrl in Hn. exact Hn.
Qed.

(* C10_defaults_dropped *)
Theorem embed2_outer o i uva uvk r :
  embed [o; i] uva uvk = Ok r -> valid_sig (params o) = true ->
  forall q, In q (params o) -> survives uva uvk q ->
  exists p, In p (params r) /\ pname p = pname q /\ pann p = pann q /\ puann p = puann q /\
            kind_ok (pkind q) (pkind p) /\
            pdef p = (if is_positional q && cleared o r then None else pdef q).
Proof.
  intros E Hv q Hq Hs. destruct (embed2_form o i uva uvk r E) as (m & Em & Ep & _ & _ & _ & _ & D6).
  rewrite (cleared_spec o i uva uvk r m E Hv Em). set (c := first_required (posargs m ++ pokargs m)) in *.
  rewrite <- (sort_flatten_roundtrip o Hv) in Hq. set (so := sort_params o) in *.
  destruct (sort_params_kinds o) as (Ko1 & Ko2 & Ko3 & Ko4 & Ko5). fold so in Ko1, Ko2, Ko3, Ko4, Ko5.
  rewrite Forall_forall in Ko1, Ko2, Ko4. rewrite Ep.
  unfold flatten in Hq. apply in_app_or in Hq. destruct Hq as [Hq|Hq].
  { (* positional-only *)
    pose proof (Ko1 _ Hq) as K. exists (if c then set_def None q else q).
    split; [|unfold is_positional; rewrite K; destruct c; cbn; repeat split; auto; left; exact K].
    apply in_or_app. left. destruct c; cbn [clrl]; [unfold clear_defaults; apply in_map; exact Hq | exact Hq]. }
  apply in_app_or in Hq. destruct Hq as [Hq|Hq].
  { (* positional-or-keyword *)
    pose proof (Ko2 _ Hq) as K.
    exists (if c then set_def None (if isnil (posargs m) then q else set_kind PO q)
                 else (if isnil (posargs m) then q else set_kind PO q)).
    split.
    - apply in_or_app. right. apply in_or_app. left.
      destruct c; cbn [clrl]; [unfold clear_defaults; apply in_map|]; destruct (isnil (posargs m)); try exact Hq; apply in_map; exact Hq.
    - unfold is_positional. rewrite K. destruct c, (isnil (posargs m)); cbn; repeat split; auto;
        first [left; exact K | right; auto]. }
  apply in_app_or in Hq. destruct Hq as [Hq|Hq].
  { (* star-args, kept only if not forwarded *)
    destruct (varargs so) as [v|] eqn:Ev; [|destruct Hq]. destruct Hq as [<-|[]].
    pose proof (Ko3 v eq_refl) as K.
    destruct Hs as [Hs|[[_ Hs]|[Hs _]]]; [unfold is_named in Hs; rewrite K in Hs; discriminate | | rewrite K in Hs; discriminate].
    subst uva. exists v. split.
    - do 4 (apply in_or_app; right). apply in_or_app. left. left. reflexivity.
    - unfold is_positional. rewrite K. cbn. repeat split; auto. left; first [exact K | reflexivity]. }
  apply in_app_or in Hq. destruct Hq as [Hq|Hq].
  { (* keyword-only *)
    pose proof (Ko4 _ Hq) as K. exists q. split.
    - do 5 (apply in_or_app; right). apply in_or_app. left.
      apply od_update_keep.
      + rewrite od_update_fresh; [exact Hq | | intros x _ []].
        apply nodup_kwo. apply sort_params_nodup. exact Hv.
      + intros Hin. apply (D6 _ Hin). rewrite !names_app. repeat (apply in_or_app; right).
        unfold names_of. apply in_map. exact Hq.
    - unfold is_positional. rewrite K. cbn. repeat split; auto. left; first [exact K | reflexivity]. }
  (* star-kwargs *)
  destruct (varkwargs so) as [v|] eqn:Ev; [|destruct Hq]. destruct Hq as [<-|[]].
  pose proof (Ko5 v eq_refl) as K.
  destruct Hs as [Hs|[[Hs _]|[_ Hs]]]; [unfold is_named in Hs; rewrite K in Hs; discriminate | rewrite K in Hs; discriminate |].
  subst uvk. exists v. split.
  - do 6 (apply in_or_app; right). left. reflexivity.
  - unfold is_positional. rewrite K. cbn. repeat split; auto. left; first [exact K | reflexivity].
Qed.

(* no parameter of the result is optional unless a contributor of that name is *)
Corollary embed2_optional o i uva uvk r p :
  embed [o; i] uva uvk = Ok r -> In p (params r) -> has_def p = true ->
  exists q, (In q (params o) \/ In q (params i)) /\ pname q = pname p /\ has_def q = true.
Proof.
  intros E Hp Hd. pose proof (embed2_contrib o i uva uvk r E) as H. rewrite Forall_forall in H.
  destruct (H p Hp) as [(q & Hq & [Hr|[_ Hr]]) | [(q & Hq & Hr) | (a & b & Ha & Hb & _ & _ & ->)]].
  - destruct (restr_fields _ _ Hr) as (A & B & _). exists q. repeat split; auto.
    unfold has_def in *. rewrite <- B. exact Hd.
  - destruct (restr_fields _ _ Hr) as (_ & B & _). unfold has_def in Hd. rewrite B in Hd. discriminate Hd.
  - destruct (restr_fields _ _ Hr) as (A & B & _). exists q. repeat split; auto.
    unfold has_def in *. rewrite <- B. exact Hd.
  - rewrite concile_optional_iff in Hd. apply andb_true_iff in Hd. exists a. repeat split; [right; exact Ha | apply Hd].
Qed.

(* the inner parameters keep their defaults *)
Corollary embed2_cleared_required o r :
  cleared o r = true ->
  exists f, In f (positional (params r)) /\ mem (pname f) (names_of (positional (params o))) = false /\
            has_def f = false.
Proof.
  unfold cleared, first_required.
  destruct (filter _ (positional (params r))) as [|f fs] eqn:E; [discriminate|]. intros H.
  assert (Hf : In f (f :: fs)) by (left; reflexivity). rewrite <- E in Hf. apply filter_In in Hf.
  exists f. destruct Hf as [A B]. apply negb_true_iff in B. apply negb_true_iff in H. auto.
Qed.

(* ---- C10_order for embed ---- *)
Lemma mem_names_app x (a b : list N) : mem x (a ++ b) = mem x a || mem x b.
Proof. apply mem_app. Qed.

Theorem embed2_order o i uva uvk r :
  embed [o; i] uva uvk = Ok r -> valid_sig (params o) = true -> valid_sig (params i) = true ->
  (* positional: outer first, in the outer order; then the surviving inner ones in the inner order *)
  names_of (positional (params r)) =
    names_of (positional (params o))
    ++ filter (fun x => mem x (names_of (positional (params r))) && negb (mem x (names_of (positional (params o)))))
              (names_of (positional (params i))) /\
  (* keyword-only: outer first, then the inner ones (converted positional-or-keyword before keyword-only) *)
  names_of (kwonly (params r)) =
    names_of (kwonly (params o))
    ++ filter (fun x => mem x (names_of (kwonly (params r))) && negb (mem x (names_of (kwonly (params o)))))
              (names_of (positional (params i) ++ kwonly (params i))).
Proof.
  intros E Vo Vi. destruct (embed2_positional o i uva uvk r E) as (m & Em & Hp & Hk).
  destruct (embed2_form o i uva uvk r E) as (m' & Em' & _ & _ & _ & D & _ & D6).
  rewrite Em in Em'. apply Ok_inj in Em'. subst m'.
  rewrite (positional_sorted o Vo), (positional_sorted i Vi), (kwonly_sorted o Vo), (kwonly_sorted i Vi).
  set (so := sort_params o) in *. set (si := sort_params i) in *.
  destruct (sort_params_kinds i) as (Ki1 & Ki2 & Ki3 & Ki4 & Ki5). fold si in Ki1, Ki2, Ki3, Ki4, Ki5.
  destruct (merger_stars si _ _ [] [] Ki2 m Em) as (M1 & M2 & M3 & _).
  set (hva := isSome (opt_if uva (varargs so))) in *. set (hvk := isSome (opt_if uvk (varkwargs so))) in *.
  pose proof (sort_params_nodup i Vi) as Ni. fold si in Ni.
  assert (Hcnt : forall y, (cntn y (posargs si) + cntn y (pokargs si) + cntn y (kwoargs si) <= 1)%nat).
  { intros y. pose proof (nodup_cntn _ y Ni) as H. unfold flatten in H. rewrite !cntn_app in H. lia. }
  (* positional names of the merged inner signature *)
  assert (Npm : names_of (posargs m ++ pokargs m) = if hva then names_of (posargs si ++ pokargs si) else []).
  { rewrite M1, M2. destruct hva, hvk; cbn [andb negb]; rewrite ?app_nil_r; try reflexivity.
    rewrite !names_app, names_map_kind. reflexivity. }
  split.
  - rewrite Hp, !names_app, !names_clrl.
    assert (E2 : names_of (if isnil (posargs m) then pokargs so else map (set_kind PO) (pokargs so)) = names_of (pokargs so))
      by (destruct (isnil (posargs m)); [reflexivity | apply names_map_kind]).
    rewrite E2, <- !names_app, app_assoc, names_app, Npm. rewrite (names_app (posargs so)) at 1.
    rewrite <- (names_app (posargs so) (pokargs so)). f_equal.
    destruct hva.
    + symmetry. apply filter_all. intros x Hx. rewrite mem_names_app.
      assert (A : mem x (names_of (posargs si ++ pokargs si)) = true) by (apply mem_In; exact Hx).
      rewrite A, orb_true_r. cbn [andb]. apply negb_true_iff. apply mem_false_In.
      apply D. rewrite Npm. exact Hx.
    + symmetry. apply filter_none. intros x _. rewrite app_nil_r.
      destruct (mem x (names_of (posargs so ++ pokargs so))); reflexivity.
  - rewrite Hk.
    (* the keyword-only parameters of the merged inner signature *)
    assert (Nkwo : NoDup (names_of (kwoargs si))) by (apply cntn_le_nodup; intros y; pose proof (Hcnt y); lia).
    assert (Nko : od_update [] (kwoargs si) = kwoargs si) by (rewrite od_update_fresh; [reflexivity | exact Nkwo | intros x _ []]).
    assert (Nkm : kwoargs m = if hvk then (if hva then [] else map (set_kind KO) (pokargs si)) ++ kwoargs si else []).
    { rewrite M3, Nko. destruct hvk; [|reflexivity]. destruct hva.
      - cbn [od_update fold_left app]. exact Nko.
      - rewrite (od_update_fresh [] (map (set_kind KO) (pokargs si))); [|rewrite names_map_kind; apply cntn_le_nodup; intros y; pose proof (Hcnt y); lia | intros x _ []].
        cbn [app]. apply od_update_fresh; [exact Nkwo|].
        intros x Hx Hin. rewrite names_map_kind in Hin. apply mem_In in Hx. apply mem_In in Hin.
        fold (memn x (kwoargs si)) in Hx. fold (memn x (pokargs si)) in Hin.
        apply memn_cntn in Hx. apply memn_cntn in Hin. pose proof (Hcnt x). lia. }
    pose proof (sort_params_nodup o Vo) as No. fold so in No.
    assert (Nko' : od_update [] (kwoargs so) = kwoargs so).
    { rewrite od_update_fresh; [reflexivity | apply nodup_kwo; exact No | intros x _ []]. }
    assert (Nkm' : NoDup (names_of (kwoargs m))).
    { rewrite Nkm. destruct hvk; [|constructor]. apply cntn_le_nodup. intros y. rewrite cntn_app.
      destruct hva; [rewrite cntn_nil | rewrite cntn_map_kind]; pose proof (Hcnt y); lia. }
    rewrite Nko', (od_update_fresh (kwoargs so) (kwoargs m)); [|exact Nkm'|].
    2:{ intros x Hx Hin. apply (D6 x Hx). rewrite !names_app. repeat (apply in_or_app; right). exact Hin. }
    rewrite names_app. f_equal.
    assert (NkmN : names_of (kwoargs m) = if hvk then (if hva then [] else names_of (pokargs si)) ++ names_of (kwoargs si) else []).
    { rewrite Nkm. destruct hvk; [|reflexivity]. rewrite names_app. destruct hva; [reflexivity | rewrite names_map_kind; reflexivity]. }
    assert (D6' : forall x, In x (names_of (kwoargs m)) -> mem x (names_of (kwoargs so)) = false).
    { intros x Hx. apply mem_false_In. intros Hin. apply (D6 x Hx). rewrite !names_app.
      repeat (apply in_or_app; right). exact Hin. }
    rewrite NkmN in *.
    assert (GT : forall x A B, mem x B = true -> mem x A = false -> mem x (A ++ B) && negb (mem x A) = true).
    { intros x A B H1 H2. rewrite mem_names_app, H1, H2. reflexivity. }
    assert (GF : forall x A B, mem x B = false -> mem x (A ++ B) && negb (mem x A) = false).
    { intros x A B H1. rewrite mem_names_app, H1. destruct (mem x A); reflexivity. }
    assert (Cpos : forall x, In x (names_of (posargs si)) -> mem x (names_of (pokargs si)) = false /\ mem x (names_of (kwoargs si)) = false).
    { intros x Hx. apply mem_In in Hx. fold (memn x (posargs si)) in Hx. apply memn_cntn in Hx. pose proof (Hcnt x).
      split; [apply (cntn_memn_false x (pokargs si)) | apply (cntn_memn_false x (kwoargs si))]; lia. }
    assert (Cpok : forall x, In x (names_of (pokargs si)) -> mem x (names_of (kwoargs si)) = false).
    { intros x Hx. apply mem_In in Hx. fold (memn x (pokargs si)) in Hx. apply memn_cntn in Hx. pose proof (Hcnt x).
      apply (cntn_memn_false x (kwoargs si)). lia. }
    rewrite (names_app (posargs si ++ pokargs si)), (names_app (posargs si)).
    rewrite !filter_app.
    destruct hvk.
    + destruct hva; cbn [app] in *.
      * rewrite (filter_none _ (names_of (posargs si))), (filter_none _ (names_of (pokargs si))), (filter_all _ (names_of (kwoargs si))); [reflexivity| | |].
        -- intros x Hx. apply GT; [apply mem_In; exact Hx | apply D6'; exact Hx].
        -- intros x Hx. apply GF. apply Cpok. exact Hx.
        -- intros x Hx. apply GF. apply Cpos. exact Hx.
      * rewrite (filter_none _ (names_of (posargs si))), (filter_all _ (names_of (pokargs si))), (filter_all _ (names_of (kwoargs si))); [reflexivity| | |].
        -- intros x Hx. apply GT; [rewrite mem_names_app; rewrite (proj2 (mem_In _ _) Hx); apply orb_true_r|].
           apply D6'. apply in_or_app. right. exact Hx.
        -- intros x Hx. apply GT; [rewrite mem_names_app; rewrite (proj2 (mem_In _ _) Hx); reflexivity|].
           apply D6'. apply in_or_app. left. exact Hx.
        -- intros x Hx. apply GF. rewrite mem_names_app. destruct (Cpos x Hx) as [A B]. rewrite A, B. reflexivity.
    + rewrite !(filter_none (fun x => mem x (names_of (kwoargs so) ++ []) && _)); try reflexivity; intros x _; apply GF; reflexivity.
Qed.

(* ================================================================== *)
(* Part 4 — mask / signature(partial)                                  *)

(* the provenance map only loses entries before the keyword loop *)
Definition src_sub (m0 m : srcmap) : Prop := forall x, src_get m x = src_get m0 x \/ src_get m x = [].

Lemma src_sub_refl m : src_sub m m.
Proof. intros x. left. reflexivity. Qed.
Lemma src_sub_pop m0 m k : src_sub m0 m -> src_sub m0 (src_pop m k).
Proof. intros H x. rewrite src_get_pop. destruct (N.eqb x k); [right; reflexivity | apply H]. Qed.
Lemma src_sub_pop_all m0 ks : forall m, src_sub m0 m -> src_sub m0 (src_pop_all m ks).
Proof.
  unfold src_pop_all. induction ks as [|k ks IH]; intros m H; cbn [fold_left]; [exact H|].
  apply IH. apply src_sub_pop. exact H.
Qed.

(* mask_gen, with the plumbing around the keyword loop removed *)
Theorem mask_gen_form s n h named pm r :
  mask_gen s n h named pm = Ok r ->
  let so := sort_params s in
  exists pos1 pok2 va1 kwo2 src3 bound named2 st vk3,
    (exists k, pos1 = skipn k (posargs so)) /\
    (exists a, pokargs so = a ++ pok2) /\
    (va1 = None \/ va1 = varargs so) /\
    (kwo2 = [] \/ kwo2 = kwoargs so) /\
    ((named2 = [] /\ h_kwargs h = true) \/ named2 = named) /\
    (vk3 = None \/ vk3 = varkwargs so) /\
    src_sub (srcs s) src3 /\
    mask_names pm (isSome (varkwargs so)) (mkK pok2 va1 kwo2 src3 bound) named2 = Ok st /\
    params r = pos1 ++ k_pok st ++ opt_list (k_va st) ++ k_kwo st ++ opt_list vk3 /\
    (srcs r = k_src st \/ exists v, varkwargs so = Some v /\ srcs r = src_pop (k_src st) (pname v)).
Proof.
  intros E so. unfold mask_gen in E. fold so in E.
  apply bind_ok in E. destruct E as [[[pos1 pok1] consumed] [Ec E]].
  assert (Hc : (exists k, pos1 = skipn k (posargs so)) /\ (exists a, pokargs so = a ++ pok1)).
  { destruct (h_args h).
    - apply Ok_inj in Ec. injection Ec as <- <- <-. split; [exists (length (posargs so)); symmetry; apply skipn_all|].
      exists (pokargs so). rewrite app_nil_r. reflexivity.
    - destruct (Nat.eqb n 0).
      + apply Ok_inj in Ec. injection Ec as <- <- <-. split; [exists 0%nat; reflexivity | exists []; reflexivity].
      + destruct (_ && _); [discriminate|]. apply Ok_inj in Ec. injection Ec as <- <- <-.
        split; [exists n; reflexivity|]. exists (firstn (n - length (posargs so)) (pokargs so)).
        symmetry. apply firstn_skipn. }
  destruct Hc as [Hc1 Hc2]. clear Ec.
  set (bound := if h_args h then names_of (pokargs so)
                else names_of (firstn (n - length (posargs so)) (pokargs so))) in *.
  assert (S1 : src_sub (srcs s) (src_pop_all (ssrc so) consumed)).
  { apply src_sub_pop_all. unfold so. rewrite sort_params_ssrc. apply src_sub_refl. }
  set (src1 := src_pop_all (ssrc so) consumed) in *.
  destruct (if h_args h || h_varargs h then _ else _) as [va1 src2] eqn:Eva.
  assert (C2 : (va1 = None \/ va1 = varargs so) /\ src_sub (srcs s) src2).
  { destruct (h_args h || h_varargs h); inversion Eva; subst; clear Eva.
    - split; [left; reflexivity|]. destruct (varargs so); [apply src_sub_pop|]; exact S1.
    - split; [right; reflexivity | exact S1]. }
  destruct C2 as [C2v S2].
  destruct (if h_kwargs h then _ else _) as [[[pok2 kwo2] src3] named2] eqn:Ek.
  assert (C3 : (exists a, pokargs so = a ++ pok2) /\ (kwo2 = [] \/ kwo2 = kwoargs so) /\
               ((named2 = [] /\ h_kwargs h = true) \/ named2 = named) /\ src_sub (srcs s) src3).
  { destruct (h_kwargs h); inversion Ek; subst; clear Ek.
    - split; [exists (pokargs so); rewrite app_nil_r; reflexivity|]. split; [left; reflexivity|].
      split; [left; split; reflexivity|]. apply src_sub_pop_all. apply src_sub_pop_all. exact S2.
    - split; [exact Hc2|]. split; [right; reflexivity|]. split; [right; reflexivity | exact S2]. }
  destruct C3 as (C3p & C3k & C3n & S3).
  apply bind_ok in E. destruct E as [st [Est E]].
  destruct (if h_kwargs h || h_varkwargs h then _ else _) as [vk3 src4] eqn:Evk.
  assert (C4 : (vk3 = None \/ vk3 = varkwargs so) /\
               (src4 = k_src st \/ exists v, varkwargs so = Some v /\ src4 = src_pop (k_src st) (pname v))).
  { destruct (h_kwargs h || h_varkwargs h); inversion Evk; subst; clear Evk.
    - split; [left; reflexivity|]. destruct (varkwargs so) as [v|]; [right; exists v; auto | left; reflexivity].
    - split; [right; reflexivity | left; reflexivity]. }
  destruct C4 as [C4v C4s].
  exists pos1, pok2, va1, kwo2, src3, bound, named2, st, vk3.
  assert (Hfin : params r = pos1 ++ k_pok st ++ opt_list (k_va st) ++ k_kwo st ++ opt_list vk3 /\ srcs r = src4).
  { destruct pm as [pobj|]; cbv beta iota in E; destruct (apply_params_fields _ _ _ E) as [A B];
      rewrite A, B; unfold flatten; cbn [posargs pokargs varargs kwoargs varkwargs ssrc]; auto. }
  destruct Hfin as [F1 F2]. rewrite F2. repeat split; auto.
Qed.

Lemma od_set_self d p : In p (od_set d p).
Proof.
  induction d as [|e d IH]; cbn [od_set]; [left; reflexivity|].
  destruct (N.eqb (pname p) (pname e)); [left; reflexivity | right; exact IH].
Qed.

Lemma split_at_name_before x ps : forall a q b, split_at_name x ps = Some (a, q, b) -> memn x a = false.
Proof.
  induction ps as [|p ps IH]; intros a q b; cbn [split_at_name]; [discriminate|].
  destruct (N.eqb_spec x (pname p)) as [E|E].
  - intros H; inversion H; subst. reflexivity.
  - destruct (split_at_name x ps) as [[[a' q'] b']|]; [|discriminate].
    intros H; inversion H; subst. rewrite memn_cons. destruct (N.eqb_spec x (pname p)); [contradiction|].
    cbn [orb]. eapply IH. reflexivity.
Qed.

Section MaskC.
Variables (pm : pmode) (named : list (name * N)) (PKs KWs : list param) (ova : option param).

(* what the keyword-only dictionary of _mask holds *)
Definition kclass (p : param) : Prop :=
  (exists q, In q KWs /\ p = q) \/
  (exists q, In q (PKs ++ KWs) /\ p = set_kind KO q) \/
  (pm <> None /\ exists q v, In q (PKs ++ KWs) /\ In (pname q, v) named /\ p = set_def (Some v) (set_kind KO q)) \/
  (pm <> None /\ exists x v, In (x, v) named /\ p = mkParam x KO (Some v) None UEmpty).

Definition MC (st : kstate) : Prop :=
  (exists a b, PKs = a ++ k_pok st ++ b) /\ Forall kclass (k_kwo st) /\ (k_va st = None \/ k_va st = ova).

Lemma kclass_bind p v : kclass p -> pm <> None -> In (pname p, v) named ->
  kclass (set_def (Some v) (set_kind KO p)).
Proof.
  intros [(q & Hq & ->) | [(q & Hq & ->) | [(_ & q & v0 & Hq & _ & ->) | (_ & x & v0 & _ & ->)]]] Hpm Hin.
  - right; right; left. split; [exact Hpm|]. exists q, v. repeat split; auto. apply in_or_app. right. exact Hq.
  - right; right; left. split; [exact Hpm|]. exists q, v. auto.
  - right; right; left. split; [exact Hpm|]. exists q, v. auto.
  - right; right; right. split; [exact Hpm|]. exists x, v. auto.
Qed.

Lemma mask_name_MC hv st kv st' :
  MC st -> In kv named -> mask_name pm hv st kv = Ok st' -> MC st'.
Proof.
  intros ((a & b & Hseg) & Hk & Hva) Hkv. unfold mask_name.
  destruct (mem (fst kv) (k_consumed st)); [discriminate|].
  destruct (split_at_name (fst kv) (k_pok st)) as [[[before p] after]|] eqn:Es.
  - destruct (split_at_name_spec _ _ _ _ _ Es) as [Hpok Hp].
    assert (HinP : forall q, In q (p :: after) -> In q (PKs ++ KWs)).
    { intros q Hq. apply in_or_app. left. rewrite Hseg, Hpok. apply in_or_app. right.
      apply in_or_app. left. apply in_or_app. right. exact Hq. }
    assert (Hk1 : Forall kclass (od_update (k_kwo st) (map (set_kind KO) after))).
    { apply od_update_P; [exact Hk|]. apply Forall_forall. intros q Hq. apply in_map_iff in Hq.
      destruct Hq as [q0 [<- Hq0]]. right; left. exists q0. split; [apply HinP; right; exact Hq0 | reflexivity]. }
    intros E. apply Ok_inj in E. subst st'. unfold MC. cbn [k_pok k_va k_kwo]. split; [|split; [|left; reflexivity]].
    + exists a, (p :: after ++ b). rewrite Hseg, Hpok, <- !app_assoc. reflexivity.
    + destruct pm as [pobj|] eqn:Epm; [|exact Hk1]. apply od_set_P; [exact Hk1|].
      right; right; left. split; [congruence|]. exists p, (snd kv). split; [apply HinP; left; reflexivity|].
      split; [rewrite Hp; destruct kv; exact Hkv | reflexivity].
  - destruct (find_param (fst kv) (k_kwo st)) as [p|] eqn:Ef.
    + destruct (find_param_In _ _ _ Ef) as [Hin Hp]. rewrite Forall_forall in Hk.
      destruct pm as [pobj|] eqn:Epm; intros E; apply Ok_inj in E; subst st'; unfold MC; cbn [k_pok k_va k_kwo].
      * split; [exists a, b; exact Hseg|]. split; [|exact Hva].
        apply od_set_P; [apply Forall_forall; exact Hk|].
        apply kclass_bind; [apply Hk; exact Hin | congruence | rewrite Hp; destruct kv; exact Hkv].
      * split; [exists a, b; exact Hseg|]. split; [|exact Hva]. apply remove_param_P. apply Forall_forall. exact Hk.
    + destruct (negb hv); [discriminate|].
      destruct pm as [pobj|] eqn:Epm; intros E; apply Ok_inj in E; subst st'; unfold MC; cbn [k_pok k_va k_kwo].
      * split; [exists a, b; exact Hseg|]. split; [|exact Hva]. apply od_set_P; [exact Hk|].
        right; right; right. split; [congruence|]. exists (fst kv), (snd kv). split; [destruct kv; exact Hkv | reflexivity].
      * split; [exists a, b; exact Hseg|]. split; [exact Hk | exact Hva].
Qed.

Lemma mask_names_MC hv kvs : forall st st',
  MC st -> (forall kv, In kv kvs -> In kv named) -> mask_names pm hv st kvs = Ok st' -> MC st'.
Proof.
  induction kvs as [|kv kvs IH]; intros st st' Hst Hin; cbn [mask_names].
  - intros E; apply Ok_inj in E; subst; exact Hst.
  - intros E. apply bind_ok in E. destruct E as [st1 [E1 E2]].
    eapply IH; [| |exact E2].
    + eapply mask_name_MC; [exact Hst | apply Hin; left; reflexivity | exact E1].
    + intros kv' H. apply Hin. right. exact H.
Qed.

(* ---- C10_partial_kw: a bound keyword stays, keyword-only, with the bound value ---- *)
Definition kgood (st : kstate) (p : param) : Prop :=
  In p (k_kwo st) /\ mem (pname p) (k_consumed st) = true /\ memn (pname p) (k_pok st) = false.

Definition kbound (kv : name * N) (p : param) : Prop :=
  pname p = fst kv /\
  ((exists q, In q (PKs ++ KWs) /\ pname q = fst kv /\ p = set_def (Some (snd kv)) (set_kind KO q)) \/
   (exists q, kclass q /\ pname q = fst kv /\ p = set_def (Some (snd kv)) (set_kind KO q)) \/
   p = mkParam (fst kv) KO (Some (snd kv)) None UEmpty).

Lemma mask_name_keeps pobj hv st kv st' p :
  pm = Some pobj -> kgood st p -> mask_name pm hv st kv = Ok st' -> kgood st' p.
Proof.
  intros Epm (G1 & G2 & G3). unfold mask_name.
  destruct (mem (fst kv) (k_consumed st)) eqn:Ec; [discriminate|].
  assert (Hne : pname p <> fst kv) by (intros E; rewrite E in G2; rewrite G2 in Ec; discriminate).
  assert (Hc : mem (pname p) (fst kv :: k_consumed st) = true) by (cbn [mem]; rewrite G2; apply orb_true_r).
  rewrite Epm.
  destruct (split_at_name (fst kv) (k_pok st)) as [[[before q] after]|] eqn:Es.
  - destruct (split_at_name_spec _ _ _ _ _ Es) as [Hpok Hq].
    rewrite Hpok, memn_app, memn_cons in G3. apply orb_false_iff in G3. destruct G3 as [G3a G3b].
    apply orb_false_iff in G3b. destruct G3b as [_ G3b].
    intros E. apply Ok_inj in E. subst st'. unfold kgood. cbn [k_kwo k_consumed k_pok]. split; [|split; [exact Hc | exact G3a]].
    apply od_set_keep; [|cbn [set_def set_kind pname]; congruence].
    apply od_update_keep; [exact G1|]. rewrite names_map_kind. intros Hin. apply mem_In in Hin.
    fold (memn (pname p) after) in Hin. rewrite G3b in Hin. discriminate.
  - destruct (find_param (fst kv) (k_kwo st)) as [q|] eqn:Ef.
    + destruct (find_param_In _ _ _ Ef) as [_ Hq].
      intros E. apply Ok_inj in E. subst st'. unfold kgood. cbn [k_kwo k_consumed k_pok]. split; [|split; [exact Hc | exact G3]].
      apply od_set_keep; [exact G1 | cbn [set_def set_kind pname]; congruence].
    + destruct (negb hv); [discriminate|].
      intros E. apply Ok_inj in E. subst st'. unfold kgood. cbn [k_kwo k_consumed k_pok]. split; [|split; [exact Hc | exact G3]].
      apply od_set_keep; [exact G1 | cbn [pname]; exact Hne].
Qed.

Lemma mask_name_binds pobj hv st kv st' :
  pm = Some pobj -> Forall kclass (k_kwo st) -> (exists a b, PKs = a ++ k_pok st ++ b) ->
  mask_name pm hv st kv = Ok st' ->
  exists p, kgood st' p /\ kbound kv p.
Proof.
  intros Epm Hk (a & b & Hseg). unfold mask_name.
  destruct (mem (fst kv) (k_consumed st)) eqn:Ec; [discriminate|]. rewrite Epm.
  assert (Hc : mem (fst kv) (fst kv :: k_consumed st) = true) by (cbn [mem]; rewrite N.eqb_refl; reflexivity).
  destruct (split_at_name (fst kv) (k_pok st)) as [[[before q] after]|] eqn:Es.
  - destruct (split_at_name_spec _ _ _ _ _ Es) as [Hpok Hq]. pose proof (split_at_name_before _ _ _ _ _ Es) as Hb.
    intros E. apply Ok_inj in E. subst st'.
    exists (set_def (Some (snd kv)) (set_kind KO q)). split.
    + unfold kgood. cbn [k_kwo k_consumed k_pok set_def set_kind pname]. rewrite Hq.
      split; [apply od_set_self | split; [exact Hc | exact Hb]].
    + split; [exact Hq|]. left. exists q. repeat split; auto.
      apply in_or_app. left. rewrite Hseg, Hpok. apply in_or_app. right. apply in_or_app. left. apply in_mid.
  - apply split_at_name_none in Es.
    destruct (find_param (fst kv) (k_kwo st)) as [q|] eqn:Ef.
    + destruct (find_param_In _ _ _ Ef) as [Hin Hq]. rewrite Forall_forall in Hk.
      intros E. apply Ok_inj in E. subst st'.
      exists (set_def (Some (snd kv)) (set_kind KO q)). split.
      * unfold kgood. cbn [k_kwo k_consumed k_pok set_def set_kind pname]. rewrite Hq.
        split; [apply od_set_self | split; [exact Hc | exact Es]].
      * split; [exact Hq|]. right; left. exists q. repeat split; auto.
    + destruct (negb hv); [discriminate|].
      intros E. apply Ok_inj in E. subst st'.
      exists (mkParam (fst kv) KO (Some (snd kv)) None UEmpty). split.
      * unfold kgood. cbn [k_kwo k_consumed k_pok pname]. split; [apply od_set_self | split; [exact Hc | exact Es]].
      * split; [reflexivity|]. right; right. reflexivity.
Qed.

Lemma mask_names_keeps pobj hv kvs : forall st st' p,
  pm = Some pobj -> kgood st p -> mask_names pm hv st kvs = Ok st' -> kgood st' p.
Proof.
  induction kvs as [|kv kvs IH]; intros st st' p Epm G; cbn [mask_names].
  - intros E; apply Ok_inj in E; subst; exact G.
  - intros E. apply bind_ok in E. destruct E as [st1 [E1 E2]].
    eapply IH; [exact Epm | | exact E2]. eapply mask_name_keeps; eauto.
Qed.

Lemma mask_names_binds pobj hv kvs : forall st st',
  pm = Some pobj -> MC st -> (forall kv, In kv kvs -> In kv named) ->
  mask_names pm hv st kvs = Ok st' ->
  forall kv, In kv kvs -> exists p, In p (k_kwo st') /\ kbound kv p.
Proof.
  induction kvs as [|kv kvs IH]; intros st st' Epm Hst Hin; cbn [mask_names]; [intros _ kv []|].
  intros E. apply bind_ok in E. destruct E as [st1 [E1 E2]].
  assert (Hst1 : MC st1) by (eapply mask_name_MC; [exact Hst | apply Hin; left; reflexivity | exact E1]).
  intros kv' [<-|Hkv'].
  - destruct Hst as (Hseg & Hk & _).
    destruct (mask_name_binds pobj hv st kv st1 Epm Hk Hseg E1) as (p & G & B).
    exists p. split; [|exact B]. apply (mask_names_keeps pobj hv kvs st1 st' p Epm G E2).
  - apply (IH st1 st' Epm Hst1); [intros k Hk; apply Hin; right; exact Hk | exact E2 | exact Hkv'].
Qed.
End MaskC.

(* every parameter of a _mask result: a parameter of s (kind PK -> KO at most),
   or in partial mode a bound keyword *)
Definition mcontrib (pm : pmode) (named : list (name * N)) (S : list param) (p : param) : Prop :=
  (exists q, In q S /\ restr q p) \/
  (pm <> None /\ exists q v, In q S /\ is_kwpassable q = true /\ In (pname q, v) named /\
                             p = set_def (Some v) (set_kind KO q)) \/
  (pm <> None /\ exists x v, In (x, v) named /\ p = mkParam x KO (Some v) None UEmpty).

Lemma skipn_In {A} k : forall (l : list A) x, In x (skipn k l) -> In x l.
Proof.
  induction k as [|k IH]; intros l x H; [exact H|]. destruct l as [|y l]; [destruct H|]. right. apply IH. exact H.
Qed.

Lemma mask_gen_MC s n h named pm r :
  mask_gen s n h named pm = Ok r ->
  let so := sort_params s in
  exists pos1 st vk3,
    (exists k, pos1 = skipn k (posargs so)) /\ (vk3 = None \/ vk3 = varkwargs so) /\
    MC pm named (pokargs so) (kwoargs so) (varargs so) st /\
    params r = pos1 ++ k_pok st ++ opt_list (k_va st) ++ k_kwo st ++ opt_list vk3.
Proof.
  intros E so. destruct (mask_gen_form s n h named pm r E)
    as (pos1 & pok2 & va1 & kwo2 & src3 & bound & named2 & st & vk3 & H1 & H2 & H3 & H4 & H5 & H6 & _ & Est & Hp & _).
  fold so in H1, H2, H3, H4, H6, Est. exists pos1, st, vk3. split; [exact H1|]. split; [exact H6|]. split; [|exact Hp].
  eapply mask_names_MC; [| |exact Est].
  - unfold MC. cbn [k_pok k_va k_kwo]. split; [|split; [|exact H3]].
    + destruct H2 as [a Ha]. exists a, []. rewrite app_nil_r. exact Ha.
    + destruct H4 as [-> | ->]; [constructor|]. apply Forall_forall. intros q Hq. left. exists q. auto.
  - intros kv Hkv. destruct H5 as [[-> _] | ->]; [destruct Hkv | exact Hkv].
Qed.

Theorem mask_gen_contrib s n h named pm r :
  mask_gen s n h named pm = Ok r -> Forall (mcontrib pm named (params s)) (params r).
Proof.
  intros E. destruct (mask_gen_MC s n h named pm r E) as (pos1 & st & vk3 & [k ->] & Hvk & ((a & b & Hseg) & Hk & Hva) & Hp).
  set (so := sort_params s) in *.
  destruct (sort_params_kinds s) as (K1 & K2 & K3 & K4 & K5). fold so in K1, K2, K3, K4, K5.
  rewrite Forall_forall in K1, K2, K4.
  assert (InS : forall q, In q (flatten so) -> In q (params s)) by (intros q; apply sort_params_In).
  assert (Hpk : forall q, In q (pokargs so ++ kwoargs so) -> In q (params s) /\ is_kwpassable q = true /\ restr q (set_kind KO q)).
  { intros q Hq. apply in_app_or in Hq. destruct Hq as [Hq|Hq].
    - split; [apply InS; apply named_flatten; apply (pok_named so so L); exact Hq|].
      unfold is_kwpassable. rewrite (K2 _ Hq). split; [reflexivity | apply restr_KO; apply K2; exact Hq].
    - split; [apply InS; apply kwo_flatten; exact Hq|].
      unfold is_kwpassable. rewrite (K4 _ Hq). split; [reflexivity|]. apply restr_set_kind. left. symmetry. apply K4. exact Hq. }
  rewrite Hp. repeat (apply Forall_app; split).
  - apply Forall_forall. intros p Hp'. left. exists p. split; [|apply restr_refl].
    apply InS. apply named_flatten. apply (pos_named so so L). eapply skipn_In. exact Hp'.
  - apply Forall_forall. intros p Hp'. left. exists p. split; [|apply restr_refl].
    apply InS. apply named_flatten. apply (pok_named so so L). cbn [my]. rewrite Hseg.
    apply in_or_app. right. apply in_or_app. left. exact Hp'.
  - apply opt_forall. intros v Hv. left. exists v. split; [|apply restr_refl].
    destruct Hva as [Hva|Hva]; [congruence|]. rewrite Hva in Hv. apply InS. apply opt_in_flatten_va. exact Hv.
  - eapply Forall_impl; [|exact Hk]. intros p [(q & Hq & ->) | [(q & Hq & ->) | [(Hn & q & v & Hq & Hin & ->) | (Hn & x & v & Hin & ->)]]].
    + left. exists q. split; [apply InS; apply kwo_flatten; exact Hq | apply restr_refl].
    + left. exists q. destruct (Hpk q Hq) as (A & _ & C). auto.
    + right; left. split; [exact Hn|]. exists q, v. destruct (Hpk q Hq) as (A & B & _). auto.
    + right; right. split; [exact Hn|]. exists x, v. auto.
  - apply opt_forall. intros v Hv. left. exists v. split; [|apply restr_refl].
    destruct Hvk as [Hvk|Hvk]; [congruence|]. rewrite Hvk in Hv. apply InS. apply opt_in_flatten_vk. exact Hv.
Qed.

(* mask proper never touches a default *)
Corollary mask_contrib s n names0 h r :
  mask s n names0 h = Ok r -> forall p, In p (params r) -> exists q, In q (params s) /\ restr q p.
Proof.
  unfold mask. intros E p Hp. pose proof (mask_gen_contrib _ _ _ _ _ _ E) as H. rewrite Forall_forall in H.
  destruct (H p Hp) as [Hq | [[Hn _] | [Hn _]]]; [exact Hq | congruence | congruence].
Qed.

(* C10_partial_kw *)
Theorem sig_partial_kw s n kw pobj r :
  sig_partial s n kw pobj = Ok r ->
  forall x v, In (x, v) kw ->
  exists p, In p (params r) /\ pname p = x /\ pkind p = KO /\ pdef p = Some v /\
    ((exists q, In q (params s) /\ pname q = x /\ is_kwpassable q = true /\ pann p = pann q /\ puann p = puann q) \/
     (pann p = None /\ puann p = UEmpty)).
Proof.
  unfold sig_partial. intros E x v Hxv.
  destruct (mask_gen_form s n _ kw (Some pobj) r E)
    as (pos1 & pok2 & va1 & kwo2 & src3 & bound & named2 & st & vk3 & H1 & H2 & H3 & H4 & H5 & H6 & _ & Est & Hp & _).
  set (so := sort_params s) in *.
  destruct H5 as [[_ H5] | ->]; [discriminate H5|].
  assert (HMC : MC (Some pobj) kw (pokargs so) (kwoargs so) (varargs so) (mkK pok2 va1 kwo2 src3 bound)).
  { unfold MC. cbn [k_pok k_va k_kwo]. split; [|split; [|exact H3]].
    - destruct H2 as [a Ha]. exists a, []. rewrite app_nil_r. exact Ha.
    - destruct H4 as [-> | ->]; [constructor|]. apply Forall_forall. intros q Hq. left. exists q. auto. }
  destruct (mask_names_binds (Some pobj) kw (pokargs so) (kwoargs so) (varargs so) pobj _ kw _ st eq_refl HMC
              (fun kv H => H) Est (x, v) Hxv) as (p & Hin & Hb).
  destruct (sort_params_kinds s) as (K1 & K2 & K3 & K4 & K5). fold so in K1, K2, K3, K4, K5.
  rewrite Forall_forall in K2, K4.
  assert (InS : forall q, In q (flatten so) -> In q (params s)) by (intros q; apply sort_params_In).
  assert (Hpk : forall q, In q (pokargs so ++ kwoargs so) -> In q (params s) /\ is_kwpassable q = true).
  { intros q Hq. apply in_app_or in Hq. destruct Hq as [Hq|Hq].
    - split; [apply InS; apply named_flatten; apply (pok_named so so L); exact Hq|].
      unfold is_kwpassable. rewrite (K2 _ Hq). reflexivity.
    - split; [apply InS; apply kwo_flatten; exact Hq|]. unfold is_kwpassable. rewrite (K4 _ Hq). reflexivity. }
  exists p. split.
  { rewrite Hp. apply in_or_app; right. apply in_or_app; right. apply in_or_app; right. apply in_or_app; left. exact Hin. }
  destruct Hb as [Hn Hb]. cbn [fst snd] in Hn, Hb.
  (* annotation of anything in the dictionary named x comes from a kw-passable parameter of s, or is empty *)
  assert (Hcls : forall q, kclass (Some pobj) kw (pokargs so) (kwoargs so) q ->
            (exists q0, In q0 (params s) /\ pname q0 = pname q /\ is_kwpassable q0 = true /\ pann q = pann q0 /\ puann q = puann q0)
            \/ (pann q = None /\ puann q = UEmpty)).
  { intros q [(q0 & Hq0 & ->) | [(q0 & Hq0 & ->) | [(_ & q0 & v0 & Hq0 & _ & ->) | (_ & x0 & v0 & _ & ->)]]].
    - left. exists q0. destruct (Hpk q0 (in_or_app _ _ _ (or_intror Hq0))) as [A B]. auto.
    - left. exists q0. destruct (Hpk q0 Hq0) as [A B]. auto.
    - left. exists q0. destruct (Hpk q0 Hq0) as [A B]. auto.
    - right. auto. }
  destruct Hb as [(q & Hq & Hqn & ->) | [(q & Hq & Hqn & ->) | ->]].
  - repeat split; auto. left. exists q. destruct (Hpk q Hq) as [A B]. auto.
  - repeat split; auto. cbn [set_def set_kind pann puann].
    destruct (Hcls q Hq) as [(q0 & A & B & C & D & F) | [A B]].
    + left. exists q0. repeat split; auto. congruence.
    + right. auto.
  - repeat split; auto.
Qed.

(* ---- C10_order for _mask: the surviving positional parameters, in their order ---- *)
Lemma kclass_kind pm named PKs KWs p :
  (forall q, In q KWs -> pkind q = KO) -> kclass pm named PKs KWs p -> pkind p = KO.
Proof.
  intros HK [(q & Hq & ->) | [(q & Hq & ->) | [(_ & q & v & _ & _ & ->) | (_ & x & v & _ & ->)]]];
    [apply HK; exact Hq | reflexivity | reflexivity | reflexivity].
Qed.

Theorem mask_gen_order s n h named pm r :
  mask_gen s n h named pm = Ok r -> valid_sig (params s) = true ->
  names_of (positional (params r)) =
  filter (fun x => mem x (names_of (positional (params r)))) (names_of (positional (params s))).
Proof.
  intros E Hv. destruct (mask_gen_MC s n h named pm r E) as (pos1 & st & vk3 & [k Hk1] & Hvk & ((a & b & Hseg) & Hk & Hva) & Hp).
  set (so := sort_params s) in *.
  destruct (sort_params_kinds s) as (K1 & K2 & K3 & K4 & K5). fold so in K1, K2, K3, K4, K5.
  rewrite (positional_sorted s Hv). fold so.
  assert (Hpos : positional (params r) = pos1 ++ k_pok st).
  { rewrite Hp, app_assoc, positional_app. rewrite (positional_none (opt_list (k_va st) ++ _)); [rewrite app_nil_r|].
    - apply positional_all. apply all_positional_kinds. apply Forall_app. split.
      + subst pos1. apply Forall_skipn'. eapply Forall_impl; [|exact K1]. cbn. auto.
      + rewrite Hseg in K2. apply Forall_app in K2. destruct K2 as [_ K2]. apply Forall_app in K2. destruct K2 as [K2 _].
        eapply Forall_impl; [|exact K2]. cbn. auto.
    - apply none_positional_kinds. repeat (apply Forall_app; split).
      + apply opt_forall. intros v Hv0. left. destruct Hva as [Hva|Hva]; [congruence|]. rewrite Hva in Hv0. apply K3. exact Hv0.
      + eapply Forall_impl; [|exact Hk]. intros p Hp'. right; left.
        eapply kclass_kind; [|exact Hp']. rewrite Forall_forall in K4. exact K4.
      + apply opt_forall. intros v Hv0. right; right. destruct Hvk as [Hvk|Hvk]; [congruence|]. rewrite Hvk in Hv0. apply K5. exact Hv0. }
  rewrite Hpos.
  (* the positional sequence of s, cut around the survivors *)
  assert (Hps : posargs so = firstn k (posargs so) ++ pos1) by (subst pos1; symmetry; apply firstn_skipn).
  pose proof (sort_params_nodup s Hv) as Hn. fold so in Hn.
  assert (Hcnt : forall y, (cntn y (firstn k (posargs so)) + cntn y pos1 + cntn y a + cntn y (k_pok st) + cntn y b <= 1)%nat).
  { intros y. pose proof (nodup_cntn _ y Hn) as H. unfold flatten in H. rewrite !cntn_app in H.
    rewrite Hps, Hseg, !cntn_app in H. lia. }
  rewrite Hps at 1. rewrite Hseg. rewrite !names_app, !filter_app.
  match goal with |- _ = (filter ?f _ ++ _) ++ _ => set (F := f) end.
  assert (HF : forall x, F x = memn x pos1 || memn x (k_pok st)).
  { intros x. unfold F. rewrite mem_names_app. reflexivity. }
  assert (Keep : forall l, (forall y, (cntn y l <= cntn y pos1 + cntn y (k_pok st))%nat) -> @filter name F (names_of l) = names_of l).
  { intros l Hl. apply filter_all. intros x Hx. apply mem_In in Hx. fold (memn x l) in Hx. apply memn_cntn in Hx.
    specialize (Hl x). rewrite HF.
    destruct (memn x pos1) eqn:E1; [reflexivity|]. destruct (memn x (k_pok st)) eqn:E2; [reflexivity|].
    apply memn_false_cntn in E1. apply memn_false_cntn in E2. lia. }
  assert (Drop : forall l, (forall y, (cntn y l + cntn y pos1 + cntn y (k_pok st) <= 1)%nat) -> @filter name F (names_of l) = []).
  { intros l Hl. apply filter_none. intros x Hx. apply mem_In in Hx. fold (memn x l) in Hx. apply memn_cntn in Hx.
    specialize (Hl x). rewrite HF.
    rewrite (cntn_memn_false x pos1), (cntn_memn_false x (k_pok st)) by lia. reflexivity. }
  rewrite (Drop (firstn k (posargs so))), (Keep pos1), (Drop a), (Keep (k_pok st)), (Drop b); try (intros y; pose proof (Hcnt y); lia).
  cbn [app]. rewrite app_nil_r. reflexivity.
Qed.

(* ---- hypotheses are satisfiable ---- *)
Example embed2_order_sat :
  exists r,
    embed [dsig 100 [mkParam 1 PK (Some 5) None UEmpty; bp 9 VP; mkParam 6 KO None None UEmpty; bp 10 VK];
           dsig 101 [bp 2 PO; mkParam 3 PK (Some 7) None UEmpty; mkParam 4 KO None None UEmpty]] true true = Ok r /\
    map pname (params r) = [1; 2; 3; 6; 4] /\ map pkind (params r) = [PO; PO; PK; KO; KO] /\
    map pdef (params r) = [None; None; Some 7; None; None].
Proof. eexists. split; [vm_compute; reflexivity|]. repeat split. Qed.

Example sig_partial_kw_sat :
  exists r, sig_partial (dsig 100 [mkParam 1 PK None (Some 50) (UPre 50); bp 2 PK; bp 10 VK]) 0 [(1, 7); (5, 8)] 200 = Ok r /\
    params r = [mkParam 2 KO None None UEmpty; mkParam 1 KO (Some 7) (Some 50) (UPre 50);
                mkParam 5 KO (Some 8) None UEmpty; bp 10 VK].
Proof. eexists. split; vm_compute; reflexivity. Qed.

Print Assumptions merger_stars.
Print Assumptions embed2_form.
Print Assumptions embed2_contrib.
Print Assumptions embed2_positional.
Print Assumptions embed2_outer.
Print Assumptions embed2_optional.
Print Assumptions embed2_cleared_required.
Print Assumptions embed2_order.
Print Assumptions mask_gen_form.
Print Assumptions mask_gen_contrib.
Print Assumptions mask_contrib.
Print Assumptions sig_partial_kw.
Print Assumptions mask_gen_order.
Print Assumptions embed2_order_sat.
Print Assumptions sig_partial_kw_sat.
