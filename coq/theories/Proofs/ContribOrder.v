(* ContribOrder.v — C10, the ORDER clause for merge.

   Part 1  one generic walk through every stage of the merger (all classified signatures,
           `merger_walk`: any invariant obeying seven step rules), instantiated twice:
           merger_pos_made      the positional parameters of the result (positional-only, then
                                positional-or-keyword), read left to right, each with the one
                                or two input parameters it is made from; the contributors taken
                                from the left operand, in that order, form an ordered sub-list
                                of the left operand's positional parameters; the same for the
                                right operand
           merger_pos_explicit  the explicit form: pairs position by position, then what is
                                kept of the longer operand's further parameters, in its order
   Part 2  merge [a; b], all signatures: merge2_order_sorted / merge2_order_explicit_sorted
           (no side condition, read on the classified inputs), merge2_order /
           merge2_order_explicit (valid inputs, on `positional (params _)`), the pairwise form
           merge2_order_pairwise, the by-name form merge2_order_names; without validity of
           the inputs the statement on `positional (params _)` is false
           (merge2_order_needs_valid)
   Part 3  keyword-only parameters: the relative order of ONE input is NOT kept in
           general (merge2_order_kwo_refuted, merge2_order_kwo_right_refuted); what is kept
           (merge2_order_kwo_partial)
   Part 4  any number of inputs (the fold): merge_order, merge_order_valid *)
From Coq Require Import List NArith Bool Arith Lia Btauto.
From Sigtools.Model Require Import Base Bind Roles Algebra.
From Sigtools.Proofs Require Import SmallModel Basics Prov MaskLaws MaskExact MergeNeutral Annot
     ProvKeys Contrib ProvNoDup ContribEmbed ProvNoDupOps ContribMore FoldLaw.
Import Base Bind Roles Algebra.
Import ListNotations.
Open Scope N_scope.

(* ================================================================== *)
(* Generalities                                                        *)

Fixpoint omap {A B : Type} (f : A -> option B) (l : list A) : list B :=
  match l with
  | [] => []
  | x :: l' => match f x with Some y => y :: omap f l' | None => omap f l' end
  end.

Lemma omap_app {A B} (f : A -> option B) l1 l2 : omap f (l1 ++ l2) = omap f l1 ++ omap f l2.
Proof.
  induction l1 as [|x l1 IH]; [reflexivity|]. cbn [app omap]. destruct (f x); [cbn [app]; f_equal|]; exact IH.
Qed.

Lemma Sub_refl {A} (l : list A) : Sub l l.
Proof. induction l; constructor; assumption. Qed.

Lemma Sub_trans {A} (a b c : list A) : Sub a b -> Sub b c -> Sub a c.
Proof.
  intros H1 H2. revert a H1. induction H2 as [|x l1 l2 H IH|x l1 l2 H IH]; intros a H1.
  - exact H1.
  - apply Sub_skip. apply IH. exact H1.
  - inversion H1 as [|y a1 a2 Ha|y a1 a2 Ha]; subst.
    + apply Sub_skip. apply IH. exact Ha.
    + apply Sub_take. apply IH. exact Ha.
Qed.

Lemma Sub_app {A} (a b c d : list A) : Sub a b -> Sub c d -> Sub (a ++ c) (b ++ d).
Proof.
  induction 1 as [|x l1 l2 H IH|x l1 l2 H IH]; intros Hc; cbn [app];
    [exact Hc | apply Sub_skip; auto | apply Sub_take; auto].
Qed.

Lemma Sub_omap {A B} (f : A -> option B) (a b : list A) : Sub a b -> Sub (omap f a) (omap f b).
Proof.
  induction 1 as [|x l1 l2 H IH|x l1 l2 H IH]; cbn [omap].
  - constructor.
  - destruct (f x); [apply Sub_skip|]; exact IH.
  - destruct (f x); [apply Sub_take|]; exact IH.
Qed.

Lemma Sub_map {A B} (f : A -> B) (a b : list A) : Sub a b -> Sub (map f a) (map f b).
Proof. induction 1; cbn [map]; constructor; assumption. Qed.

(* x stands before y in l *)
Definition before {A} (x y : A) (l : list A) : Prop := exists d m t, l = d ++ x :: m ++ y :: t.

Lemma Sub_cons_inv {A} (x : A) a b : Sub (x :: a) b -> exists d t, b = d ++ x :: t /\ Sub a t.
Proof.
  intros H. remember (x :: a) as xa eqn:E. revert x a E.
  induction H as [|y l1 l2 H IH|y l1 l2 H IH]; intros x a E; [discriminate E| |].
  - destruct (IH x a E) as (d & t & -> & Ht). exists (y :: d), t. auto.
  - injection E as -> ->. exists [], l2. auto.
Qed.

Lemma Sub_app_inv {A} (a1 a2 b : list A) : Sub (a1 ++ a2) b -> exists b1 b2, b = b1 ++ b2 /\ Sub a1 b1 /\ Sub a2 b2.
Proof.
  revert b. induction a1 as [|x a1 IH]; intros b H.
  - exists [], b. repeat split; [constructor | exact H].
  - cbn [app] in H. apply Sub_cons_inv in H. destruct H as (d & t & -> & Ht).
    destruct (IH t Ht) as (b1 & b2 & -> & H1 & H2). exists (d ++ x :: b1), b2.
    rewrite <- app_assoc. split; [reflexivity|]. split; [|exact H2].
    replace (x :: a1) with ([] ++ x :: a1) by reflexivity. apply Sub_app; [apply Sub_nil_l | apply Sub_take; exact H1].
Qed.

Lemma Sub_before {A} (x y : A) a b : Sub a b -> before x y a -> before x y b.
Proof.
  intros H (d & m & t & ->).
  apply Sub_app_inv in H. destruct H as (b1 & b2 & -> & _ & H).
  apply Sub_cons_inv in H. destruct H as (d1 & t1 & -> & H).
  apply Sub_app_inv in H. destruct H as (b3 & b4 & -> & _ & H).
  apply Sub_cons_inv in H. destruct H as (d2 & t2 & -> & _).
  exists (b1 ++ d1), (b3 ++ d2), t2. repeat (rewrite <- app_assoc; cbn [app]). reflexivity.
Qed.

(* ================================================================== *)
(* Part 1 — the walk                                                   *)

(* p is z, positional, with its kind kept or restricted to positional-only *)
Definition pmade (z p : param) : Prop :=
  p = set_kind (pkind p) z /\ is_positional z = true /\ (pkind p = pkind z \/ pkind p = PO).

Lemma pmade_refl z : is_positional z = true -> pmade z z.
Proof. intros H. split; [destruct z; reflexivity | split; [exact H | left; reflexivity]]. Qed.

Lemma pmade_PO z p : pmade z p -> pmade z (set_kind PO p).
Proof. intros (E & H & _). split; [cbn [set_kind pkind]; rewrite E; reflexivity | split; [exact H | right; reflexivity]]. Qed.

Lemma pmade_restr z p : pmade z p -> restr z p /\ is_positional p = true.
Proof.
  intros (E & H & K). unfold restr, kind_ok, is_positional in *. split; [split; [exact E|] |].
  - destruct K as [K|K]; [left; exact K|]. destruct (pkind z); try discriminate H; [left; exact K | right; auto].
  - destruct K as [K|K]; rewrite K; [exact H | reflexivity].
Qed.

(* the one or two contributors (left operand's, right operand's) of a positional parameter *)
Definition contribs := (option param * option param)%type.

Definition made2 (c : contribs) (p : param) : Prop :=
  match c with
  | (Some a, Some b) => pmade (zipw a b) p
  | (Some a, None) => pmade a p
  | (None, Some b) => pmade b p
  | (None, None) => False
  end.

Lemma made2_PO c p : made2 c p -> made2 c (set_kind PO p).
Proof. destruct c as [[a|] [b|]]; cbn [made2]; try apply pmade_PO. exact (fun H => H). Qed.

Definition sel (s : side) (c : contribs) : option param := match s with L => fst c | R => snd c end.

(* a list changed by kind restrictions to positional-only at most *)
Definition W (ps ps' : list param) : Prop := Forall2 (fun p p' => p' = p \/ p' = set_kind PO p) ps ps'.

Lemma W_refl ps : W ps ps.
Proof. induction ps; constructor; auto. Qed.

Lemma W_app a a' b b' : W a a' -> W b b' -> W (a ++ b) (a' ++ b').
Proof. apply Forall2_app. Qed.

Lemma W_map_PO ps : W ps (map (set_kind PO) ps).
Proof. induction ps; cbn [map]; constructor; auto. Qed.

Lemma made2_W cs : forall ps ps', Forall2 made2 cs ps -> W ps ps' -> Forall2 made2 cs ps'.
Proof.
  induction cs as [|c cs IH]; intros ps ps' H HW; inversion H; subst; inversion HW; subst; constructor.
  - match goal with Hd : _ \/ _ |- _ => destruct Hd as [-> | ->] end; [assumption | apply made2_PO; assumption].
  - eapply IH; eassumption.
Qed.

Section OrderP.
Variables l r : sorted.
Hypothesis Kl : kinds_ok l.
Hypothesis Kr : kinds_ok r.

Definition seqP (st : mstate) : list param := m_pos st ++ m_pok st.

Lemma Pseq_pos s q : In q (Pseq l r s) -> is_positional q = true.
Proof.
  destruct Kl as (Kl1 & Kl2 & _). destruct Kr as (Kr1 & Kr2 & _).
  rewrite Forall_forall in Kl1, Kl2, Kr1, Kr2. unfold Pseq, is_positional. intros H. apply in_app_or in H.
  destruct s; cbn [my] in H; destruct H as [H|H];
    rewrite ?(Kl1 _ H), ?(Kl2 _ H), ?(Kr1 _ H), ?(Kr2 _ H); reflexivity.
Qed.

Lemma seqP_pos_snoc st st' c : m_pok st = [] -> m_pos st' = m_pos st ++ [c] -> m_pok st' = [] ->
  seqP st' = seqP st ++ [c].
Proof. unfold seqP. intros H1 -> ->. rewrite H1, !app_nil_r. reflexivity. Qed.

Lemma W_eq st st' : m_pos st' = m_pos st -> m_pok st' = m_pok st -> W (seqP st) (seqP st').
Proof. unfold seqP. intros -> ->. apply W_refl. Qed.

Lemma zipw_pos a b : is_positional a = true -> is_positional b = true -> is_positional (zipw a b) = true.
Proof.
  unfold zipw, is_positional. destruct (pkind a) eqn:Ea; destruct (pkind b) eqn:Eb; cbn; rewrite ?Ea, ?Eb; auto.
Qed.


(* ---- the walk, for any invariant obeying the seven rules below ---- *)
Section Generic.
Variable INV : side -> list param -> list param -> mstate -> Prop.
Hypothesis R_sym : forall s a b st, INV s a b st -> INV (oside s) b a st.
Hypothesis R_frame : forall s a b st st', W (seqP st) (seqP st') -> INV s a b st -> INV s a b st'.
Hypothesis R_pair : forall s e rest o conv st st' pre c,
  INV s (e :: rest) (o :: conv) st -> W (seqP st) pre -> seqP st' = pre ++ [c] ->
  pmade (zipw (fst (side2 s e o)) (snd (side2 s e o))) c -> INV s rest conv st'.
Hypothesis R_keep : forall s e rest st st' pre c,
  INV s (e :: rest) [] st -> W (seqP st) pre -> seqP st' = pre ++ [c] -> pmade e c -> INV s rest [] st'.
Hypothesis R_drop : forall s e rest st st',
  INV s (e :: rest) [] st -> W (seqP st) (seqP st') -> INV s rest [] st'.
Hypothesis R_head : forall s e rest restO st, INV s (e :: rest) restO st -> is_positional e = true.
Hypothesis R_init : INV L (posargs l ++ pokargs l) (posargs r ++ pokargs r) (mkM [] [] [] [] false false false false [] []).

Lemma R_sym' s a b st : INV (oside s) a b st -> INV s b a st.
Proof. intros H. apply R_sym in H. rewrite oside_invol in H. exact H. Qed.

Lemma unb_pos1_P s e rest conv st st' conv' :
  INV s (e :: rest) conv st -> m_pok st = [] -> pkind e = PO ->
  (s = R -> forall o, In o conv -> pkind o = PK) ->
  unb_pos1 l r s e conv st = Ok (st', conv') ->
  INV s rest conv' st' /\ m_pok st' = [] /\ (forall o, In o conv' -> In o conv).
Proof.
  intros Hop Hpok Ke Kc. unfold unb_pos1. destruct conv as [|o conv].
  - destruct (isSome (varargs (other l r s))).
    + intros E. apply Ok_inj in E. injection E as <- <-. split; [|split; [destruct s; exact Hpok | auto]].
      apply (R_keep s e rest st _ (seqP st) e Hop (W_refl _)).
      * apply seqP_pos_snoc; [exact Hpok | destruct s; reflexivity | destruct s; exact Hpok].
      * apply pmade_refl. unfold is_positional. rewrite Ke. reflexivity.
    + destruct (negb (has_def e)); [discriminate|]. intros E. apply Ok_inj in E. injection E as <- <-.
      split; [|split; [exact Hpok | auto]]. apply (R_drop s e rest st st Hop). apply W_refl.
  - intros E. apply Ok_inj in E. injection E as <- <-.
    split; [|split; [destruct (N.eqb (pname o) (pname e)); exact Hpok | intros x Hx; right; exact Hx]].
    apply (R_pair s e rest o conv st _ (seqP st) (concile e o) Hop (W_refl _)).
    + apply seqP_pos_snoc; [exact Hpok | destruct (N.eqb (pname o) (pname e)); reflexivity
                            | destruct (N.eqb (pname o) (pname e)); exact Hpok].
    + assert (Ez : zipw (fst (side2 s e o)) (snd (side2 s e o)) = concile e o).
      { destruct s; cbn [side2 fst snd]; unfold zipw.
        - rewrite Ke. reflexivity.
        - rewrite (Kc eq_refl o (or_introl eq_refl)), Ke. reflexivity. }
      rewrite Ez. apply pmade_refl. unfold is_positional. cbn [concile pkind]. rewrite Ke. reflexivity.
Qed.

Lemma unb_pos_all_P s ps : forall iS conv st st' conv',
  INV s (ps ++ iS) conv st -> m_pok st = [] -> Forall (fun p => pkind p = PO) ps ->
  (s = R -> forall o, In o conv -> pkind o = PK) ->
  unb_pos_all l r s ps conv st = Ok (st', conv') ->
  INV s iS conv' st' /\ m_pok st' = [] /\ (forall o, In o conv' -> In o conv).
Proof.
  induction ps as [|p ps IH]; intros iS conv st st' conv' Hop Hpok Kp Kc; cbn [unb_pos_all].
  - intros E. apply Ok_inj in E. injection E as <- <-. auto.
  - inversion Kp as [|? ? K1 K2]; subst. intros E.
    apply bind_ok in E. destruct E as [[st1 conv1] [E1 E2]]. cbn [fst snd] in E2. cbn [app] in Hop.
    destruct (unb_pos1_P s p (ps ++ iS) conv st st1 conv1 Hop Hpok K1 Kc E1) as (H1 & H2 & H3).
    destruct (IH iS conv1 st1 st' conv' H1 H2 K2) as (G1 & G2 & G3); [|exact E2|].
    { intros Hs o Ho. apply (Kc Hs). apply H3. exact Ho. }
    split; [exact G1 | split; [exact G2 | intros o Ho; apply H3; apply G3; exact Ho]].
Qed.

Lemma zip_pos_P lp : forall rp il ir st st' il' ir',
  INV L (lp ++ il) (rp ++ ir) st -> m_pok st = [] ->
  Forall (fun p => pkind p = PO) lp -> Forall (fun p => pkind p = PO) rp ->
  (forall p, In p il -> pkind p = PK) -> (forall p, In p ir -> pkind p = PK) ->
  zip_pos l r lp rp il ir st = Ok (st', il', ir') ->
  INV L il' ir' st' /\ m_pok st' = [] /\ (forall p, In p il' -> pkind p = PK) /\ (forall p, In p ir' -> pkind p = PK).
Proof.
  induction lp as [|a lp IH]; intros rp il ir st st' il' ir' Hop Hpok Klp Krp Kil Kir.
  - cbn [zip_pos]. intros E. apply bind_ok in E. destruct E as [[st1 c1] [E1 E2]].
    cbn [fst snd] in E2. apply Ok_inj in E2. injection E2 as X1 X2 X3. subst st' il' ir'. cbn [app] in Hop.
    destruct (unb_pos_all_P R rp ir il st st1 c1) as (H1 & H2 & H3); [apply (R_sym L); exact Hop | exact Hpok | exact Krp | intros _; exact Kil | exact E1 |].
    split; [apply (R_sym' L); exact H1|]. split; [exact H2|]. split; [intros p Hp; apply Kil; apply H3; exact Hp | exact Kir].
  - destruct rp as [|b rp].
    + cbn [zip_pos]. intros E. apply bind_ok in E. destruct E as [[st1 c1] [E1 E2]].
      cbn [fst snd] in E2. apply Ok_inj in E2. injection E2 as X1 X2 X3. subst st' il' ir'. cbn [app] in Hop.
      destruct (unb_pos_all_P L (a :: lp) il ir st st1 c1 Hop Hpok Klp) as (H1 & H2 & H3); [intros Hs; discriminate Hs | exact E1 |].
      split; [exact H1|]. split; [exact H2|]. split; [exact Kil | intros p Hp; apply Kir; apply H3; exact Hp].
    + cbn [zip_pos]. inversion Klp as [|? ? Ka Klp']; subst. inversion Krp as [|? ? Kb Krp']; subst.
      apply IH; try assumption.
      * cbn [app] in Hop. apply (R_pair L a (lp ++ il) b (rp ++ ir) st _ (seqP st) (concile a b) Hop (W_refl _)).
        -- apply seqP_pos_snoc; [exact Hpok | destruct (N.eqb (pname a) (pname b)); reflexivity
                                 | destruct (N.eqb (pname a) (pname b)); exact Hpok].
        -- cbn [side2 fst snd]. unfold zipw. rewrite Ka. cbn [kind_eqb kind_rank Nat.eqb andb].
           apply pmade_refl. unfold is_positional. cbn [concile pkind]. rewrite Ka. reflexivity.
      * destruct (N.eqb (pname a) (pname b)); exact Hpok.
Qed.

(* ---- positional-or-keyword phase ---- *)
Lemma unb_pok1_P s e rest st st' :
  INV s (e :: rest) [] st -> unb_pok1 l r s e st = Ok st' -> INV s rest [] st'.
Proof.
  intros Hop. pose proof (R_head _ _ _ _ _ Hop) as He. unfold unb_pok1.
  destruct (find_param (pname e) (unm st (match s with L => R | R => L end))) as [q|].
  - intros E. apply Ok_inj in E. subst st'. apply (R_drop s e rest st _ Hop).
    apply W_eq; destruct s; reflexivity.
  - destruct (isSome (varargs (other l r s)) && isSome (varkwargs (other l r s))).
    { intros E. apply Ok_inj in E. subst st'. apply (R_keep s e rest st _ (seqP st) e Hop (W_refl _)).
      - unfold seqP. cbn [add_src1 set_src set_pok m_pos m_pok]. rewrite app_assoc. reflexivity.
      - apply pmade_refl. exact He. }
    destruct (isSome (varkwargs (other l r s))).
    { intros E. apply Ok_inj in E. subst st'. apply (R_drop s e rest st _ Hop).
      apply W_eq; reflexivity. }
    destruct (isSome (varargs (other l r s))).
    { intros E. apply Ok_inj in E. subst st'.
      apply (R_keep s e rest st _ (m_pos st ++ map (set_kind PO) (m_pok st)) (set_kind PO e) Hop).
      - unfold seqP. apply W_app; [apply W_refl | apply W_map_PO].
      - unfold seqP. cbn [add_src1 set_src set_pok set_pos m_pos m_pok]. rewrite app_nil_r, <- app_assoc. reflexivity.
      - apply pmade_PO. apply pmade_refl. exact He. }
    destruct (negb (has_def e)); [discriminate|]. intros E. apply Ok_inj in E. subst st'.
    apply (R_drop s e rest st st Hop). apply W_refl.
Qed.

Lemma unb_pok_all_P s ps : forall st st',
  INV s ps [] st -> unb_pok_all l r s ps st = Ok st' -> INV s [] [] st'.
Proof.
  induction ps as [|p ps IH]; intros st st' Hop; cbn [unb_pok_all].
  - intros E. apply Ok_inj in E. subst. exact Hop.
  - intros E. apply bind_ok in E. destruct E as [st1 [E1 E2]].
    eapply IH; [|exact E2]. eapply unb_pok1_P; eauto.
Qed.

Lemma zip_pok_P il : forall ir st st',
  INV L il ir st -> (forall p, In p il -> pkind p = PK) -> (forall p, In p ir -> pkind p = PK) ->
  zip_pok l r il ir st = Ok st' -> INV L [] [] st'.
Proof.
  induction il as [|a il IH]; intros ir st st' Hop Kil Kir.
  - cbn [zip_pok]. intros E. apply (R_sym' L). apply (unb_pok_all_P R ir st st'); [apply (R_sym L); exact Hop|].
    destruct ir; exact E.
  - destruct ir as [|b ir].
    + exact (unb_pok_all_P L (a :: il) st st' Hop).
    + cbn [zip_pok]. apply IH; [| intros p Hp; apply Kil; right; exact Hp | intros p Hp; apply Kir; right; exact Hp].
      assert (Ez : zipw a b = concile a b).
      { unfold zipw. rewrite (Kir b (or_introl eq_refl)). cbn. rewrite andb_false_r. reflexivity. }
      assert (Hz : pmade (zipw a b) (concile a b)).
      { rewrite Ez. apply pmade_refl. unfold is_positional. cbn [concile pkind]. rewrite (Kil a (or_introl eq_refl)). reflexivity. }
      destruct (N.eqb (pname a) (pname b)).
      * apply (R_pair L a il b ir st _ (seqP st) (concile a b) Hop (W_refl _)); [|exact Hz].
        unfold seqP. cbn [add_src2 set_src set_pok m_pos m_pok]. rewrite app_assoc. reflexivity.
      * apply (R_pair L a il b ir st _ (m_pos st ++ map (set_kind PO) (m_pok st)) (set_kind PO (concile a b)) Hop).
        -- unfold seqP. apply W_app; [apply W_refl | apply W_map_PO].
        -- unfold seqP. cbn [add_src1 set_src set_pok m_pos m_pok]. rewrite <- app_assoc. reflexivity.
        -- apply pmade_PO. exact Hz.
Qed.

Lemma unmatched_kwo_seqP s st st' : unmatched_kwo l r s st = Ok st' -> W (seqP st) (seqP st').
Proof.
  unfold unmatched_kwo. destruct (unm st s) as [|p0 u0]; [intros E; apply Ok_inj in E; subst; apply W_refl|].
  destruct (isSome (varkwargs (other l r s))).
  - intros E. apply Ok_inj in E. subst st'.
    pose proof (shp_fold_src l r s (p0 :: u0) (set_kwo st (od_update (m_kwo st) (p0 :: u0)))) as Hs.
    apply shp_inv in Hs. destruct Hs as (A1 & A2 & _).
    apply W_eq; destruct s; cbn [excl_vk m_pos m_pok]; assumption.
  - destruct (forallb has_def (p0 :: u0)); [|discriminate]. intros E. apply Ok_inj in E. subst. apply W_refl.
Qed.


(* every stage of the merger *)
Theorem merger_walk s : merger l r = Ok s ->
  exists st9, INV L [] [] st9 /\ seqP st9 = posargs s ++ pokargs s.
Proof.
  unfold merger. intros E.
  set (st0 := mkM [] [] [] [] false false false false [] []) in *.
  destruct (kwo_match_fields l r (kwoargs l) st0) as (F1 & F2 & _).
  set (st1 := kwo_match l r (kwoargs l) st0) in *.
  set (st2 := set_unm st1 R (r_unmatched l r)) in *.
  assert (H2 : INV L (posargs l ++ pokargs l) (posargs r ++ pokargs r) st2).
  { apply (R_frame L _ _ st0); [|apply R_init]. apply W_eq; [exact F1 | exact F2]. }
  assert (P2 : m_pok st2 = []) by exact F2.
  destruct Kl as (Kl1 & Kl2 & _). destruct Kr as (Kr1 & Kr2 & _).
  apply bind_ok in E. destruct E as [[[st3 il] ir] [E3 E]].
  destruct (zip_pos_P _ _ _ _ _ _ _ _ H2 P2 Kl1 Kr1 (proj1 (Forall_forall _ _) Kl2) (proj1 (Forall_forall _ _) Kr2) E3)
    as (H3 & P3 & Kil & Kir).
  apply bind_ok in E. destruct E as [st4 [E4 E]].
  pose proof (zip_pok_P _ _ _ _ H3 Kil Kir E4) as H4.
  apply bind_ok in E. destruct E as [st5 [E5 E]].
  apply bind_ok in E. destruct E as [st6 [E6 E]].
  pose proof (R_frame L [] [] st5 st6 (unmatched_kwo_seqP _ _ _ E6)
                (R_frame L [] [] st4 st5 (unmatched_kwo_seqP _ _ _ E5) H4)) as H6.
  assert (H7 : INV L [] [] (normalise_pok st6)).
  { apply (R_frame L [] [] st6); [|exact H6]. unfold normalise_pok, seqP.
    pose proof (ProvKeys.split_po_prefix_app (m_pok st6)) as Hs. destruct (split_po_prefix (m_pok st6)) as [a b].
    cbn [fst snd] in Hs. cbn [set_pok set_pos m_pos m_pok]. rewrite <- app_assoc, Hs. apply W_refl. }
  set (st7 := normalise_pok st6) in *.
  pose proof (Contrib.add_star_shp l r (m_xva_l st7) (m_xva_r st7) (varargs l) (varargs r) st7) as S8.
  destruct (add_star l r (m_xva_l st7) (m_xva_r st7) (varargs l) (varargs r) st7) as [va st8]. cbn [snd] in S8.
  pose proof (Contrib.add_star_shp l r (m_xvk_l st8) (m_xvk_r st8) (varkwargs l) (varkwargs r) st8) as S9.
  destruct (add_star l r (m_xvk_l st8) (m_xvk_r st8) (varkwargs l) (varkwargs r) st8) as [vk st9]. cbn [snd] in S9.
  apply Ok_inj in E. subst s. cbn [posargs pokargs].
  apply shp_inv in S8. destruct S8 as (A1 & A2 & _). apply shp_inv in S9. destruct S9 as (B1 & B2 & _).
  exists st9. split; [|reflexivity].
  apply (R_frame L [] [] st7); [|exact H7]. apply W_eq; congruence.
Qed.
End Generic.

(* dS / dO: the prefixes of the two positional sequences already walked through *)
Definition OPP (s : side) (restS restO : list param) (st : mstate) : Prop :=
  exists cs dS dO,
    Forall2 made2 cs (seqP st) /\
    Pseq l r s = dS ++ restS /\ Pseq l r (oside s) = dO ++ restO /\
    Sub (omap (sel s) cs) dS /\ Sub (omap (sel (oside s)) cs) dO.

Lemma OPP_sym s a b st : OPP s a b st -> OPP (oside s) b a st.
Proof.
  intros (cs & dS & dO & H1 & H2 & H3 & H4 & H5). exists cs, dO, dS. rewrite oside_invol. auto 10.
Qed.

Lemma OPP_sym' s a b st : OPP (oside s) a b st -> OPP s b a st.
Proof. intros H. apply OPP_sym in H. rewrite oside_invol in H. exact H. Qed.

Lemma OPP_frame s a b st st' : W (seqP st) (seqP st') -> OPP s a b st -> OPP s a b st'.
Proof.
  intros HW (cs & dS & dO & H1 & H). exists cs, dS, dO. split; [eapply made2_W; eassumption | exact H].
Qed.

Lemma sel_side2 s (x y : option param) : sel s (side2 s x y) = x /\ sel (oside s) (side2 s x y) = y.
Proof. destruct s; split; reflexivity. Qed.

Lemma omap_snoc_some s cs c q : sel s c = Some q -> omap (sel s) (cs ++ [c]) = omap (sel s) cs ++ [q].
Proof. intros H. rewrite omap_app. cbn [omap]. rewrite H. reflexivity. Qed.

Lemma omap_snoc_none s cs c : sel s c = None -> omap (sel s) (cs ++ [c]) = omap (sel s) cs.
Proof. intros H. rewrite omap_app. cbn [omap]. rewrite H. apply app_nil_r. Qed.

(* a pair: e of side s meets o of the other side *)
Lemma OPP_pair s e rest o conv st st' pre c :
  OPP s (e :: rest) (o :: conv) st -> W (seqP st) pre -> seqP st' = pre ++ [c] ->
  pmade (zipw (fst (side2 s e o)) (snd (side2 s e o))) c -> OPP s rest conv st'.
Proof.
  intros (cs & dS & dO & H1 & H2 & H3 & H4 & H5) HW Hst Hc.
  exists (cs ++ [side2 s (Some e) (Some o)]), (dS ++ [e]), (dO ++ [o]).
  destruct (sel_side2 s (Some e) (Some o)) as [S1 S2].
  rewrite <- !app_assoc. cbn [app]. split; [|split; [exact H2 | split; [exact H3 | split]]].
  - rewrite Hst. apply Forall2_app; [eapply made2_W; eassumption|]. constructor; [|constructor].
    destruct s; exact Hc.
  - rewrite (omap_snoc_some _ _ _ _ S1). apply Sub_snoc_take. exact H4.
  - rewrite (omap_snoc_some _ _ _ _ S2). apply Sub_snoc_take. exact H5.
Qed.

(* a parameter of side s without partner, kept *)
Lemma OPP_keep s e rest restO st st' pre c :
  OPP s (e :: rest) restO st -> W (seqP st) pre -> seqP st' = pre ++ [c] -> pmade e c -> OPP s rest restO st'.
Proof.
  intros (cs & dS & dO & H1 & H2 & H3 & H4 & H5) HW Hst Hc.
  exists (cs ++ [side2 s (Some e) None]), (dS ++ [e]), dO.
  destruct (sel_side2 s (Some e) None) as [S1 S2].
  rewrite <- !app_assoc. cbn [app]. split; [|split; [exact H2 | split; [exact H3 | split]]].
  - rewrite Hst. apply Forall2_app; [eapply made2_W; eassumption|]. constructor; [|constructor].
    destruct s; exact Hc.
  - rewrite (omap_snoc_some _ _ _ _ S1). apply Sub_snoc_take. exact H4.
  - rewrite (omap_snoc_none _ _ _ S2). exact H5.
Qed.

(* a parameter of side s without partner, gone (dropped, or made keyword-only) *)
Lemma OPP_drop s e rest restO st st' :
  OPP s (e :: rest) restO st -> W (seqP st) (seqP st') -> OPP s rest restO st'.
Proof.
  intros (cs & dS & dO & H1 & H2 & H3 & H4 & H5) HW.
  exists cs, (dS ++ [e]), dO. rewrite <- !app_assoc. cbn [app].
  split; [eapply made2_W; eassumption|]. split; [exact H2|]. split; [exact H3|]. split; [|exact H5].
  apply Sub_snoc_skip. exact H4.
Qed.

Lemma OPP_head s e rest restO st : OPP s (e :: rest) restO st -> is_positional e = true.
Proof. intros (cs & dS & dO & _ & H2 & _). apply (Pseq_pos s). rewrite H2. apply in_mid. Qed.

Lemma OPP_init : OPP L (posargs l ++ pokargs l) (posargs r ++ pokargs r) (mkM [] [] [] [] false false false false [] []).
Proof. exists [], [], []. cbn. repeat split; constructor. Qed.

(* the positional parameters of the merger's result, each with its contributors; the
   contributors drawn from one operand, in the order of the result, are an ordered
   sub-list of that operand's positional sequence *)
Theorem merger_pos_made s : merger l r = Ok s ->
  exists cs : list contribs,
    Forall2 made2 cs (posargs s ++ pokargs s) /\
    Sub (omap fst cs) (Pseq l r L) /\ Sub (omap snd cs) (Pseq l r R).
Proof.
  intros E.
  destruct (merger_walk OPP OPP_sym OPP_frame OPP_pair (fun s e rest => OPP_keep s e rest [])
              (fun s e rest => OPP_drop s e rest []) OPP_head OPP_init s E) as (st9 & H9 & Es).
  destruct H9 as (cs & dS & dO & Hm & E1 & E2 & S1 & S2). rewrite app_nil_r in E1, E2. cbn [oside] in E2.
  subst dS dO. exists cs. cbn [sel] in S1, S2. rewrite <- Es. split; [exact Hm | split; [exact S1 | exact S2]].
Qed.


(* ---- the explicit form: pairs position by position, then the kept left-over ones ---- *)
Lemma F2_W {A} (R : A -> param -> Prop) (HR : forall z p, R z p -> R z (set_kind PO p)) xs :
  forall ps ps', Forall2 R xs ps -> W ps ps' -> Forall2 R xs ps'.
Proof.
  induction xs as [|x xs IH]; intros ps ps' H HW; inversion H; subst; inversion HW; subst; constructor.
  - match goal with Hd : _ \/ _ |- _ => destruct Hd as [-> | ->] end; [assumption | apply HR; assumption].
  - eapply IH; eassumption.
Qed.

Lemma W_app_inv a b X : W (a ++ b) X -> exists a' b', X = a' ++ b' /\ W a a' /\ W b b'.
Proof. intros H. apply Forall2_app_inv_l in H. destruct H as (a' & b' & H1 & H2 & ->). exists a', b'. auto. Qed.

Definition OPX (s : side) (restS restO : list param) (st : mstate) : Prop :=
  exists dS dO kept zs ks,
    Pseq l r s = dS ++ restS /\ Pseq l r (oside s) = dO ++ restO /\
    (length dS = length dO \/ (restO = [] /\ (length dO <= length dS)%nat)
     \/ (restS = [] /\ (length dS <= length dO)%nat)) /\
    seqP st = zs ++ ks /\
    Forall2 pmade (zipl (fst (side2 s dS dO)) (snd (side2 s dS dO))) zs /\
    Forall2 pmade kept ks /\
    Sub kept (skipn (length dO) dS ++ skipn (length dS) dO).

Lemma OPX_sym s a b st : OPX s a b st -> OPX (oside s) b a st.
Proof.
  intros (dS & dO & kept & zs & ks & E1 & E2 & H & Hs & Hz & Hk & Hsub). exists dO, dS, kept, zs, ks. rewrite oside_invol.
  split; [exact E2|]. split; [exact E1|]. split.
  - destruct H as [H|[H|H]]; [left; auto | right; right; exact H | right; left; exact H].
  - split; [exact Hs|]. split; [destruct s; exact Hz|]. split; [exact Hk|].
    assert (E : skipn (length dS) dO ++ skipn (length dO) dS = skipn (length dO) dS ++ skipn (length dS) dO).
    { destruct H as [H|[[_ H]|[_ H]]].
      - rewrite H, !skipn_all, <- H, skipn_all. reflexivity.
      - rewrite (skipn_all2 dO) by exact H. rewrite app_nil_r. reflexivity.
      - rewrite (skipn_all2 dS) by exact H. rewrite app_nil_r. reflexivity. }
    rewrite E. exact Hsub.
Qed.

Lemma OPX_frame s a b st st' : W (seqP st) (seqP st') -> OPX s a b st -> OPX s a b st'.
Proof.
  intros HW (dS & dO & kept & zs & ks & E1 & E2 & H & Hs & Hz & Hk & Hsub). rewrite Hs in HW.
  apply W_app_inv in HW. destruct HW as (zs' & ks' & Hs' & W1 & W2).
  exists dS, dO, kept, zs', ks'. split; [exact E1|]. split; [exact E2|]. split; [exact H|]. split; [exact Hs'|].
  split; [eapply (F2_W pmade pmade_PO); eassumption|]. split; [eapply (F2_W pmade pmade_PO); eassumption | exact Hsub].
Qed.

Lemma OPX_pair s e rest o conv st st' pre c :
  OPX s (e :: rest) (o :: conv) st -> W (seqP st) pre -> seqP st' = pre ++ [c] ->
  pmade (zipw (fst (side2 s e o)) (snd (side2 s e o))) c -> OPX s rest conv st'.
Proof.
  intros (dS & dO & kept & zs & ks & E1 & E2 & H & Hs & Hz & Hk & Hsub) HW Hst Hc.
  assert (Hl : length dS = length dO).
  { destruct H as [H|[[H _]|[H _]]]; [exact H | discriminate H | discriminate H]. }
  rewrite Hl, <- Hl, !skipn_all in Hsub. cbn [app] in Hsub. rewrite Hl, skipn_all in Hsub.
  apply Sub_nil_inv in Hsub. subst kept. inversion Hk; subst. rewrite app_nil_r in Hs. rewrite Hs in HW.
  exists (dS ++ [e]), (dO ++ [o]), [], (pre ++ [c]), []. rewrite <- !app_assoc. cbn [app].
  split; [exact E1|]. split; [exact E2|]. split; [left; rewrite !app_length; cbn; lia|].
  split; [rewrite ?app_nil_r; exact Hst|]. split; [|split; [constructor|]].
  - assert (Hz' : Forall2 pmade (zipl (fst (side2 s dS dO)) (snd (side2 s dS dO))) pre)
      by (eapply (F2_W pmade pmade_PO); eassumption).
    destruct s; cbn [side2 fst snd] in *; rewrite zipl_snoc by (auto; lia);
      (apply Forall2_app; [exact Hz' | constructor; [exact Hc | constructor]]).
  - rewrite !app_length. cbn [length]. rewrite !skipn_all2 by (rewrite app_length; cbn; lia). constructor.
Qed.

Lemma OPX_left s e rest st pre :
  OPX s (e :: rest) [] st -> W (seqP st) pre ->
  exists dS dO kept zs ks,
    Pseq l r s = dS ++ e :: rest /\ Pseq l r (oside s) = dO /\ (length dO <= length dS)%nat /\
    pre = zs ++ ks /\
    Forall2 pmade (zipl (fst (side2 s (dS ++ [e]) dO)) (snd (side2 s (dS ++ [e]) dO))) zs /\
    Forall2 pmade kept ks /\ Sub kept (skipn (length dO) dS) /\
    skipn (length dO) (dS ++ [e]) ++ skipn (length (dS ++ [e])) dO = skipn (length dO) dS ++ [e].
Proof.
  intros (dS & dO & kept & zs & ks & E1 & E2 & H & Hs & Hz & Hk & Hsub) HW.
  assert (Hl : (length dO <= length dS)%nat).
  { destruct H as [H|[[_ H]|[H _]]]; [lia | exact H | discriminate H]. }
  rewrite (skipn_all2 dO) in Hsub by exact Hl. rewrite app_nil_r in Hsub. rewrite app_nil_r in E2.
  rewrite Hs in HW. apply W_app_inv in HW. destruct HW as (zs' & ks' & Hpre & W1 & W2).
  exists dS, dO, kept, zs', ks'. split; [exact E1|]. split; [exact E2|]. split; [exact Hl|]. split; [exact Hpre|].
  split; [|split; [eapply (F2_W pmade pmade_PO); eassumption | split; [exact Hsub|]]].
  - assert (Hzl : zipl (fst (side2 s (dS ++ [e]) dO)) (snd (side2 s (dS ++ [e]) dO))
                 = zipl (fst (side2 s dS dO)) (snd (side2 s dS dO))).
    { destruct s; cbn [side2 fst snd]; [apply zipl_long_l | apply zipl_long_r]; exact Hl. }
    rewrite Hzl. eapply (F2_W pmade pmade_PO); eassumption.
  - rewrite skipn_app. replace (length dO - length dS)%nat with 0%nat by lia. cbn [skipn].
    rewrite (skipn_all2 dO) by (rewrite app_length; cbn; lia). rewrite app_nil_r. reflexivity.
Qed.

Lemma OPX_keep s e rest st st' pre c :
  OPX s (e :: rest) [] st -> W (seqP st) pre -> seqP st' = pre ++ [c] -> pmade e c -> OPX s rest [] st'.
Proof.
  intros Hop HW Hst Hc.
  destruct (OPX_left s e rest st pre Hop HW) as (dS & dO & kept & zs & ks & E1 & E2 & Hl & Hpre & Hz & Hk & Hsub & Hsk).
  exists (dS ++ [e]), dO, (kept ++ [e]), zs, (ks ++ [c]). rewrite <- !app_assoc. cbn [app].
  split; [exact E1|]. split; [rewrite app_nil_r; exact E2|].
  split; [right; left; split; [reflexivity | rewrite app_length; cbn; lia]|].
  split; [rewrite Hst, Hpre, <- app_assoc; reflexivity|]. split; [exact Hz|].
  split; [apply Forall2_app; [exact Hk | constructor; [exact Hc | constructor]]|].
  rewrite Hsk. apply Sub_snoc_take. exact Hsub.
Qed.

Lemma OPX_drop s e rest st st' :
  OPX s (e :: rest) [] st -> W (seqP st) (seqP st') -> OPX s rest [] st'.
Proof.
  intros Hop HW.
  destruct (OPX_left s e rest st (seqP st') Hop HW) as (dS & dO & kept & zs & ks & E1 & E2 & Hl & Hpre & Hz & Hk & Hsub & Hsk).
  exists (dS ++ [e]), dO, kept, zs, ks. rewrite <- !app_assoc. cbn [app].
  split; [exact E1|]. split; [rewrite app_nil_r; exact E2|].
  split; [right; left; split; [reflexivity | rewrite app_length; cbn; lia]|].
  split; [exact Hpre|]. split; [exact Hz|]. split; [exact Hk|].
  rewrite Hsk. apply Sub_snoc_skip. exact Hsub.
Qed.

Lemma OPX_head s e rest restO st : OPX s (e :: rest) restO st -> is_positional e = true.
Proof. intros (dS & dO & kept & zs & ks & E1 & _). apply (Pseq_pos s). rewrite E1. apply in_mid. Qed.

Lemma OPX_init : OPX L (posargs l ++ pokargs l) (posargs r ++ pokargs r) (mkM [] [] [] [] false false false false [] []).
Proof. exists [], [], [], [], []. cbn. repeat split; auto; constructor. Qed.

(* the positional parameters of the merger's result, in full: first the operands'
   positional parameters conciled position by position (`zipl`), then what is kept of the
   longer operand's further positional parameters, in that operand's order; kinds kept or
   restricted to positional-only *)
Theorem merger_pos_explicit s : merger l r = Ok s ->
  exists zs ks kept,
    posargs s ++ pokargs s = zs ++ ks /\
    Forall2 pmade (zipl (Pseq l r L) (Pseq l r R)) zs /\
    Forall2 pmade kept ks /\
    Sub kept (skipn (length (Pseq l r R)) (Pseq l r L) ++ skipn (length (Pseq l r L)) (Pseq l r R)).
Proof.
  intros E.
  destruct (merger_walk OPX OPX_sym OPX_frame OPX_pair OPX_keep OPX_drop OPX_head OPX_init s E) as (st9 & H9 & Es).
  destruct H9 as (dS & dO & kept & zs & ks & E1 & E2 & _ & Hs & Hz & Hk & Hsub). rewrite app_nil_r in E1, E2. cbn [oside] in E2.
  subst dS dO. cbn [side2 fst snd] in Hz. exists zs, ks, kept. rewrite <- Es. auto.
Qed.
End OrderP.

(* ================================================================== *)
(* Part 2 — merge [a; b]                                               *)

(* what a positional parameter p of merge [a; b] is made from: a parameter qa of a, a
   parameter qb of b, or the two conciled (`zipw`: the left one gives name and kind, unless
   it is positional-or-keyword and the right one positional-only); the kind is the
   contributor's, or positional-only for a positional-or-keyword contributor *)
Definition pos_made (c : contribs) (p : param) : Prop :=
  match c with
  | (Some qa, Some qb) => restr (zipw qa qb) p
  | (Some qa, None) => restr qa p
  | (None, Some qb) => restr qb p
  | (None, None) => False
  end.

Lemma made2_pos_made c p : made2 c p -> pos_made c p.
Proof. destruct c as [[qa|] [qb|]]; cbn [made2 pos_made]; try (intros H; apply pmade_restr in H; apply H). exact (fun H => H). Qed.

Lemma positional_flatten acc : kinds_ok acc -> positional (flatten acc) = posargs acc ++ pokargs acc.
Proof.
  intros (K1 & K2 & K3 & K4 & K5). unfold flatten.
  rewrite app_assoc, positional_app. rewrite (positional_none (opt_list _ ++ _)); [rewrite app_nil_r|].
  - apply positional_all. apply all_positional_kinds. apply Forall_app.
    split; [eapply Forall_impl; [|exact K1] | eapply Forall_impl; [|exact K2]]; cbn; auto.
  - apply none_positional_kinds. repeat (apply Forall_app; split).
    + apply opt_forall. intros v Hv. left. apply K3. exact Hv.
    + eapply Forall_impl; [|exact K4]. cbn. auto.
    + apply opt_forall. intros v Hv. right; right. apply K5. exact Hv.
Qed.

(* C10_order for merge [a; b], ALL signatures (no side condition), on the classified
   inputs: the positional parameters of the result, read left to right, with their
   contributors; the contributors from a (from b), in the order of the result, are an
   ordered sub-list of a's (b's) positional-only-then-positional-or-keyword parameters *)
Theorem merge2_order_sorted a b r :
  merge [a; b] = Ok r ->
  exists cs : list contribs,
    Forall2 pos_made cs (positional (params r)) /\
    Sub (omap fst cs) (posargs (sort_params a) ++ pokargs (sort_params a)) /\
    Sub (omap snd cs) (posargs (sort_params b) ++ pokargs (sort_params b)).
Proof.
  intros E. destruct (FoldLaw.merge_pair_inv a b r E) as (acc & Em & Er & _).
  pose proof (sort_params_kinds a) as Ka. pose proof (sort_params_kinds b) as Kb.
  destruct (FoldLaw.merger_kinds _ _ _ Ka Kb Em) as [Kacc _].
  destruct (merger_pos_made (sort_params a) (sort_params b) Ka Kb acc Em) as (cs & Hm & S1 & S2).
  exists cs. rewrite Er. cbn [params]. rewrite (positional_flatten acc Kacc).
  split; [|split; [exact S1 | exact S2]].
  clear - Hm. induction Hm; constructor; [apply made2_pos_made|]; assumption.
Qed.

(* ... for valid inputs, on the parameter lists themselves: if two positional parameters
   of the result both have a contributor in the same input, these contributors stand in
   that input in the same order *)
Theorem merge2_order a b r :
  merge [a; b] = Ok r -> valid_sig (params a) = true -> valid_sig (params b) = true ->
  exists cs : list contribs,
    Forall2 pos_made cs (positional (params r)) /\
    Sub (omap fst cs) (positional (params a)) /\ Sub (omap snd cs) (positional (params b)).
Proof.
  intros E Va Vb. rewrite (positional_sorted a Va), (positional_sorted b Vb). apply merge2_order_sorted. exact E.
Qed.

Lemma F2_impl {A B} (R R' : A -> B -> Prop) (H : forall x y, R x y -> R' x y) xs ys : Forall2 R xs ys -> Forall2 R' xs ys.
Proof. induction 1; constructor; auto. Qed.

(* C10_order for merge [a; b] in explicit form, ALL signatures: the positional parameters of
   the result are, in this order,
   - the inputs' positional parameters conciled position by position (as many as the shorter
     input has), each with its kind kept or restricted from positional-or-keyword to
     positional-only;
   - then an ordered sub-list `kept` of the longer input's further positional parameters,
     again with kinds kept or restricted.
   (This gives ContribMore.merge2_order_pos parameter by parameter instead of name by name.) *)
Theorem merge2_order_explicit_sorted a b r :
  merge [a; b] = Ok r ->
  let LP := posargs (sort_params a) ++ pokargs (sort_params a) in
  let RP := posargs (sort_params b) ++ pokargs (sort_params b) in
  exists zs ks kept,
    positional (params r) = zs ++ ks /\
    Forall2 restr (zipl LP RP) zs /\ Forall2 restr kept ks /\
    Sub kept (skipn (length RP) LP ++ skipn (length LP) RP).
Proof.
  intros E LP RP. destruct (FoldLaw.merge_pair_inv a b r E) as (acc & Em & Er & _).
  pose proof (sort_params_kinds a) as Ka. pose proof (sort_params_kinds b) as Kb.
  destruct (FoldLaw.merger_kinds _ _ _ Ka Kb Em) as [Kacc _].
  destruct (merger_pos_explicit (sort_params a) (sort_params b) Ka Kb acc Em) as (zs & ks & kept & Hs & Hz & Hk & Hsub).
  exists zs, ks, kept. rewrite Er. cbn [params]. rewrite (positional_flatten acc Kacc).
  split; [exact Hs|]. split; [|split; [|exact Hsub]].
  - eapply F2_impl; [|exact Hz]. intros x y H. apply pmade_restr in H. apply H.
  - eapply F2_impl; [|exact Hk]. intros x y H. apply pmade_restr in H. apply H.
Qed.

Theorem merge2_order_explicit a b r :
  merge [a; b] = Ok r -> valid_sig (params a) = true -> valid_sig (params b) = true ->
  let LP := positional (params a) in let RP := positional (params b) in
  exists zs ks kept,
    positional (params r) = zs ++ ks /\
    Forall2 restr (zipl LP RP) zs /\ Forall2 restr kept ks /\
    Sub kept (skipn (length RP) LP ++ skipn (length LP) RP).
Proof.
  intros E Va Vb. cbv zeta. rewrite (positional_sorted a Va), (positional_sorted b Vb).
  apply merge2_order_explicit_sorted. exact E.
Qed.

Lemma before_omap {A B} (f : A -> option B) c c' q q' cs :
  before c c' cs -> f c = Some q -> f c' = Some q' -> before q q' (omap f cs).
Proof.
  intros (d & m & t & ->) H1 H2. exists (omap f d), (omap f m), (omap f t).
  rewrite omap_app. cbn [omap]. rewrite H1, omap_app. cbn [omap]. rewrite H2. reflexivity.
Qed.

Lemma Forall2_before {A B} (R : A -> B -> Prop) xs ys y y' :
  Forall2 R xs ys -> before y y' ys -> exists x x', R x y /\ R x' y' /\ before x x' xs.
Proof.
  intros H (d & m & t & ->).
  apply Forall2_app_inv_r in H. destruct H as (xd & x1 & Hd & H & ->).
  inversion H as [|x ? xr ? Hx H']; subst.
  apply Forall2_app_inv_r in H'. destruct H' as (xm & x2 & Hm & H' & ->).
  inversion H' as [|x' ? xt ? Hx' _]; subst.
  exists x, x'. split; [exact Hx | split; [exact Hx' | exists xd, xm, xt; reflexivity]].
Qed.

(* the pairwise reading: p stands before p' among the positional parameters of the result;
   whenever both have a contributor from a, the contributor of p stands before the
   contributor of p' in a; the same for b *)
Theorem merge2_order_pairwise a b r :
  merge [a; b] = Ok r -> valid_sig (params a) = true -> valid_sig (params b) = true ->
  forall p p', before p p' (positional (params r)) ->
  exists c c' : contribs, pos_made c p /\ pos_made c' p' /\
    (forall q q', fst c = Some q -> fst c' = Some q' -> before q q' (positional (params a))) /\
    (forall q q', snd c = Some q -> snd c' = Some q' -> before q q' (positional (params b))).
Proof.
  intros E Va Vb p p' Hb. destruct (merge2_order a b r E Va Vb) as (cs & Hm & S1 & S2).
  destruct (Forall2_before _ _ _ _ _ Hm Hb) as (c & c' & Hc & Hc' & Hcs).
  exists c, c'. split; [exact Hc|]. split; [exact Hc'|]. split.
  - intros q q' H1 H2. eapply Sub_before; [exact S1|]. eapply before_omap; eassumption.
  - intros q q' H1 H2. eapply Sub_before; [exact S2|]. eapply before_omap; eassumption.
Qed.

(* by name (valid inputs have distinct names): the names of the contributors from a, in
   the order of the result, are the names of a's positional parameters, in a's order, that
   contribute at all; the same for b *)
Theorem merge2_order_names a b r :
  merge [a; b] = Ok r -> valid_sig (params a) = true -> valid_sig (params b) = true ->
  exists cs : list contribs,
    Forall2 pos_made cs (positional (params r)) /\
    names_of (omap fst cs) = filter (fun x => mem x (names_of (omap fst cs))) (names_of (positional (params a))) /\
    names_of (omap snd cs) = filter (fun x => mem x (names_of (omap snd cs))) (names_of (positional (params b))).
Proof.
  intros E Va Vb. destruct (merge2_order a b r E Va Vb) as (cs & Hm & S1 & S2).
  exists cs. split; [exact Hm|].
  assert (Np : forall ps, valid_sig ps = true -> NoDup (names_of (positional ps))).
  { intros ps V. pose proof (validate_nodup _ (valid_sig_validate _ V)) as H.
    apply cntn_le_nodup. intros y. pose proof (nodup_cntn ps y H) as Hc.
    assert (H1 : (cntn y (positional ps) <= cntn y ps)%nat).
    { clear. induction ps as [|p ps IH]; [cbn; lia|]. unfold positional in *. cbn [filter].
      destruct (is_positional p); rewrite ?cntn_cons; lia. }
    lia. }
  split; apply Sub_filter; try (apply Sub_map; assumption); apply Np; assumption.
Qed.

(* without validity of the inputs (a positional-or-keyword parameter written before a
   positional-only one: not a signature Python can build) the classified order is not
   the written order *)
Theorem merge2_order_needs_valid :
  exists a b r, valid_sig (params b) = true /\ merge [a; b] = Ok r /\
    names_of (positional (params b)) = [] /\ names_of (positional (params a)) = [1; 2] /\
    names_of (positional (params r)) = [2; 1].
Proof.
  exists (dsig 100 [bp 1 PK; bp 2 PO]), (dsig 101 [bp 9 VP]). eexists.
  split; [vm_compute; reflexivity|]. split; [vm_compute; reflexivity|]. repeat split.
Qed.

Example merge2_order_example :
  exists r cs,
    valid_sig [bp 1 PO; bp 2 PK; bp 5 PK; mkParam 6 KO (Some 1) None UEmpty; bp 7 KO; bp 10 VK] = true /\
    valid_sig [bp 3 PK; bp 4 PK; mkParam 5 KO (Some 1) None UEmpty; bp 7 KO; mkParam 8 KO (Some 1) None UEmpty; bp 10 VK] = true /\
    merge [dsig 100 [bp 1 PO; bp 2 PK; bp 5 PK; mkParam 6 KO (Some 1) None UEmpty; bp 7 KO; bp 10 VK];
           dsig 101 [bp 3 PK; bp 4 PK; mkParam 5 KO (Some 1) None UEmpty; bp 7 KO; mkParam 8 KO (Some 1) None UEmpty; bp 10 VK]] = Ok r /\
    positional (params r) = [bp 1 PO; bp 2 PO] /\
    cs = [(Some (bp 1 PO), Some (bp 3 PK)); (Some (bp 2 PK), Some (bp 4 PK))] /\
    Forall2 pos_made cs (positional (params r)).
Proof.
  eexists. eexists. split; [vm_compute; reflexivity|]. split; [vm_compute; reflexivity|].
  split; [vm_compute; reflexivity|]. split; [reflexivity|]. split; [reflexivity|].
  constructor; [|constructor; [|constructor]]; cbn [pos_made]; (split; [reflexivity|]); [left | right]; cbn; auto.
Qed.

(* ================================================================== *)
(* Part 3 — keyword-only parameters                                    *)

(* FALSE: "the keyword-only parameters of the result that come from one input keep that
   input's relative order".  merge(( *, a, b), ( *, b, **kw)) = ( *, b, a, **kw): the parameters
   both inputs declare come first, whatever the left input's order.  (Keyword-only order has
   no effect on calls; it shows in the rendered signature.) *)
Theorem merge2_order_kwo_refuted :
  exists a b r, valid_sig (params a) = true /\ valid_sig (params b) = true /\ merge [a; b] = Ok r /\
    names_of (kwonly (params a)) = [1; 2] /\ names_of (kwonly (params b)) = [2] /\
    names_of (kwonly (params r)) = [2; 1] /\
    (* both stand for a parameter of a *)
    (forall p, In p (kwonly (params r)) -> exists q, In q (kwonly (params a)) /\ pname q = pname p).
Proof.
  exists (dsig 100 [bp 1 KO; bp 2 KO]), (dsig 101 [bp 2 KO; bp 10 VK]). eexists.
  split; [vm_compute; reflexivity|]. split; [vm_compute; reflexivity|]. split; [vm_compute; reflexivity|].
  split; [reflexivity|]. split; [reflexivity|]. split; [reflexivity|].
  intros p [<- | [<- | []]]; [exists (bp 2 KO) | exists (bp 1 KO)]; cbn; auto.
Qed.

(* ... nor the right input's order, even among the parameters both inputs declare *)
Theorem merge2_order_kwo_right_refuted :
  exists a b r, valid_sig (params a) = true /\ valid_sig (params b) = true /\ merge [a; b] = Ok r /\
    names_of (kwonly (params a)) = [1; 2] /\ names_of (kwonly (params b)) = [2; 1] /\
    names_of (kwonly (params r)) = [1; 2].
Proof.
  exists (dsig 100 [bp 1 KO; bp 2 KO]), (dsig 101 [bp 2 KO; bp 1 KO]). eexists.
  split; [vm_compute; reflexivity|]. split; [vm_compute; reflexivity|]. split; [vm_compute; reflexivity|].
  repeat split.
Qed.

Lemma names_inj ps p q : NoDup (names_of ps) -> In p ps -> In q ps -> pname p = pname q -> p = q.
Proof.
  intros Hn Hp Hq E. pose proof (find_param_nodup ps p Hn Hp) as H1. pose proof (find_param_nodup ps q Hn Hq) as H2.
  rewrite E in H1. rewrite H1 in H2. injection H2 as ->. reflexivity.
Qed.

(* a left-over positional-or-keyword name is not a keyword-only name of the same signature *)
Lemma pk_not_ko ps k x : NoDup (names_of ps) ->
  In x (names_of (filter (is_kind PK) (skipn k (positional ps)))) -> mem x (names_of (kwonly ps)) = false.
Proof.
  intros Hn Hx. apply mem_false_In. intros Hk.
  unfold names_of in Hx, Hk. apply in_map_iff in Hx. destruct Hx as [p [<- Hp]]. apply in_map_iff in Hk. destruct Hk as [q [Eq Hq]].
  apply filter_In in Hp. destruct Hp as [Hp Kp]. apply skipn_In in Hp. unfold positional in Hp. apply filter_In in Hp.
  unfold kwonly in Hq. apply filter_In in Hq. destruct Hq as [Hq Kq].
  assert (E : q = p) by (apply (names_inj ps); [exact Hn | exact Hq | apply Hp | exact Eq]).
  subst q. unfold is_kind in Kp, Kq. destruct (pkind p); discriminate.
Qed.

Lemma in_if_filter {A} (c : bool) (f : A -> bool) l x :
  In x (if c then filter f l else []) -> c = true /\ In x l /\ f x = true.
Proof. destruct c; [|intros []]. intros H. apply filter_In in H. destruct H. auto. Qed.

(* What IS kept.  The keyword-only parameters of merge [a; b] fall in five classes, laid out in
   this order (merge2_order_kwo): declared keyword-only by both; left-over positional-or-keyword
   of a turned keyword-only; the same of b; keyword-only in a only; keyword-only in b only.
   Inside each class the relative order is the one of the input that owns the class (the left
   input for the first class).  Missing with respect to the full statement: the order between
   parameters of different classes, which is the class order and not the input's order. *)
Theorem merge2_order_kwo_partial a b r :
  merge [a; b] = Ok r -> valid_sig (params a) = true -> valid_sig (params b) = true ->
  let LP := positional (params a) in let RP := positional (params b) in
  let lA := names_of (filter (is_kind PK) (skipn (length RP) LP)) in
  let lB := names_of (filter (is_kind PK) (skipn (length LP) RP)) in
  let KA := names_of (kwonly (params a)) in let KB := names_of (kwonly (params b)) in
  let RK := names_of (kwonly (params r)) in
  (* keyword-only in both: a's order *)
  filter (fun x => mem x KA && mem x KB) RK = filter (fun x => mem x KB) KA /\
  (* keyword-only in a only: a's order (all of them when b has star-kwargs, otherwise none) *)
  filter (fun x => mem x KA && negb (mem x KB) && negb (mem x lB)) RK =
    (if has_kind VK (params b) then filter (fun x => negb (mem x KB) && negb (mem x lB)) KA else []) /\
  (* keyword-only in b only: b's order *)
  filter (fun x => mem x KB && negb (mem x KA) && negb (mem x lA)) RK =
    (if has_kind VK (params a) then filter (fun x => negb (mem x KA) && negb (mem x lA)) KB else []) /\
  (* positional-or-keyword in a, turned keyword-only: a's positional order *)
  filter (fun x => mem x lA) RK =
    filter (fun x => mem x KB || (has_kind VK (params b) && negb (has_kind VP (params b)))) lA /\
  (* positional-or-keyword in b, turned keyword-only: b's positional order *)
  filter (fun x => mem x lB) RK =
    filter (fun x => mem x KA || (has_kind VK (params a) && negb (has_kind VP (params a)))) lB.
Proof.
  intros E Va Vb LP RP lA lB KA KB RK.
  pose proof (merge2_order_kwo a b r E Va Vb) as H. cbv zeta in H. fold LP RP in H. fold lA lB KA KB RK in H.
  pose proof (validate_nodup _ (valid_sig_validate _ Va)) as Na. pose proof (validate_nodup _ (valid_sig_validate _ Vb)) as Nb.
  assert (D1 : forall x, In x lA -> mem x KA = false) by (intros x Hx; eapply pk_not_ko; [exact Na | exact Hx]).
  assert (D2 : forall x, In x lB -> mem x KB = false) by (intros x Hx; eapply pk_not_ko; [exact Nb | exact Hx]).
  assert (D3 : lA = [] \/ lB = []).
  { unfold lA, lB. destruct (Nat.le_ge_cases (length LP) (length RP)) as [Hle|Hle].
    - left. rewrite (skipn_all2 LP) by exact Hle. reflexivity.
    - right. rewrite (skipn_all2 RP) by exact Hle. reflexivity. }
  assert (D3' : forall x, In x lA -> In x lB -> False).
  { intros x H1 H2. destruct D3 as [D3|D3]; [rewrite D3 in H1; exact H1 | rewrite D3 in H2; exact H2]. }
  set (G1 := filter (fun x => mem x KB) KA) in *.
  set (G2 := filter (fun x => mem x KB || (has_kind VK (params b) && negb (has_kind VP (params b)))) lA) in *.
  set (G3 := filter (fun x => mem x KA || (has_kind VK (params a) && negb (has_kind VP (params a)))) lB) in *.
  set (G4 := if has_kind VK (params b) then filter (fun x => negb (mem x KB) && negb (mem x lB)) KA else []) in *.
  set (G5 := if has_kind VK (params a) then filter (fun x => negb (mem x KA) && negb (mem x lA)) KB else []) in *.
  assert (I1 : forall x, In x G1 -> mem x KA = true /\ mem x KB = true).
  { intros x Hx. apply filter_In in Hx. destruct Hx as [Hx Hf]. split; [apply mem_In; exact Hx | exact Hf]. }
  assert (I2 : forall x, In x G2 -> In x lA) by (intros x Hx; apply filter_In in Hx; apply Hx).
  assert (I3 : forall x, In x G3 -> In x lB) by (intros x Hx; apply filter_In in Hx; apply Hx).
  assert (I4 : forall x, In x G4 -> mem x KA = true /\ mem x KB = false /\ mem x lB = false).
  { intros x Hx. apply in_if_filter in Hx. destruct Hx as (_ & Hx & Hf). apply andb_true_iff in Hf. destruct Hf as [F1 F2].
    apply negb_true_iff in F1. apply negb_true_iff in F2. split; [apply mem_In; exact Hx | auto]. }
  assert (I5 : forall x, In x G5 -> mem x KB = true /\ mem x KA = false /\ mem x lA = false).
  { intros x Hx. apply in_if_filter in Hx. destruct Hx as (_ & Hx & Hf). apply andb_true_iff in Hf. destruct Hf as [F1 F2].
    apply negb_true_iff in F1. apply negb_true_iff in F2. split; [apply mem_In; exact Hx | auto]. }
  assert (M : forall x (l0 : list N), In x l0 -> mem x l0 = true) by (intros x l0 Hx; apply mem_In; exact Hx).
  assert (NA : forall x, mem x KA = true -> mem x lA = false).
  { intros x Hx. destruct (mem x lA) eqn:El; [|reflexivity]. apply mem_In in El. rewrite (D1 x El) in Hx. discriminate. }
  assert (NB : forall x, mem x KB = true -> mem x lB = false).
  { intros x Hx. destruct (mem x lB) eqn:El; [|reflexivity]. apply mem_In in El. rewrite (D2 x El) in Hx. discriminate. }
  assert (NAB : forall x, In x lA -> mem x lB = false).
  { intros x Hx. destruct (mem x lB) eqn:El; [|reflexivity]. apply mem_In in El. destruct (D3' x Hx El). }
  assert (NBA : forall x, In x lB -> mem x lA = false).
  { intros x Hx. destruct (mem x lA) eqn:El; [|reflexivity]. apply mem_In in El. destruct (D3' x El Hx). }
  rewrite H. rewrite !filter_app.
  repeat split.
  - rewrite (filter_all _ G1), (filter_none _ G2), (filter_none _ G3), (filter_none _ G4), (filter_none _ G5);
      [rewrite !app_nil_r; reflexivity | | | | |].
    + intros x Hx. destruct (I5 x Hx) as (A & B & C). rewrite A, B. reflexivity.
    + intros x Hx. destruct (I4 x Hx) as (A & B & C). rewrite A, B. reflexivity.
    + intros x Hx. rewrite (D2 x (I3 x Hx)). apply andb_false_r.
    + intros x Hx. rewrite (D1 x (I2 x Hx)). reflexivity.
    + intros x Hx. destruct (I1 x Hx) as (A & B). rewrite A, B. reflexivity.
  - rewrite (filter_none _ G1), (filter_none _ G2), (filter_none _ G3), (filter_all _ G4), (filter_none _ G5);
      [rewrite !app_nil_r; reflexivity | | | | |].
    + intros x Hx. destruct (I5 x Hx) as (A & B & C). rewrite B. reflexivity.
    + intros x Hx. destruct (I4 x Hx) as (A & B & C). rewrite A, B, C. reflexivity.
    + intros x Hx. rewrite (M x lB (I3 x Hx)). cbn [negb]. apply andb_false_r.
    + intros x Hx. rewrite (D1 x (I2 x Hx)). reflexivity.
    + intros x Hx. destruct (I1 x Hx) as (A & B). rewrite A, B. reflexivity.
  - rewrite (filter_none _ G1), (filter_none _ G2), (filter_none _ G3), (filter_none _ G4), (filter_all _ G5);
      [reflexivity | | | | |].
    + intros x Hx. destruct (I5 x Hx) as (A & B & C). rewrite A, B, C. reflexivity.
    + intros x Hx. destruct (I4 x Hx) as (A & B & C). rewrite A, B. reflexivity.
    + intros x Hx. rewrite (D2 x (I3 x Hx)). reflexivity.
    + intros x Hx. rewrite (M x lA (I2 x Hx)). cbn [negb]. apply andb_false_r.
    + intros x Hx. destruct (I1 x Hx) as (A & B). rewrite A, B. reflexivity.
  - rewrite (filter_none _ G1), (filter_all _ G2), (filter_none _ G3), (filter_none _ G4), (filter_none _ G5);
      [rewrite !app_nil_r; reflexivity | | | | |].
    + intros x Hx. apply (I5 x Hx).
    + intros x Hx. apply NA. apply (I4 x Hx).
    + intros x Hx. apply NBA. apply (I3 x Hx).
    + intros x Hx. apply M. apply (I2 x Hx).
    + intros x Hx. apply NA. apply (I1 x Hx).
  - rewrite (filter_none _ G1), (filter_none _ G2), (filter_all _ G3), (filter_none _ G4), (filter_none _ G5);
      [rewrite !app_nil_r; reflexivity | | | | |].
    + intros x Hx. apply NB. apply (I5 x Hx).
    + intros x Hx. apply (I4 x Hx).
    + intros x Hx. apply M. apply (I3 x Hx).
    + intros x Hx. apply NAB. apply (I2 x Hx).
    + intros x Hx. apply NB. apply (I1 x Hx).
Qed.

(* ================================================================== *)
(* Part 4 — any number of inputs                                       *)

(* The contributors of a positional parameter of merge [s0; ...; sn]: one slot per input.
   The parameter is made by conciling its contributors from left to right (`zipw`), the
   kind being possibly restricted (positional-or-keyword to positional-only) on the way. *)
Inductive madeN : list (option param) -> param -> Prop :=
| mN_new n q p : restr q p -> madeN (repeat None n ++ [Some q]) p
| mN_pair cv z q p : madeN cv z -> restr (zipw z q) p -> madeN (cv ++ [Some q]) p
| mN_keep cv z p : madeN cv z -> restr z p -> madeN (cv ++ [None]) p.

Definition slot (k : nat) (cv : list (option param)) : option param := nth k cv None.

(* the positional sequence of an input, as classified *)
Definition PS (s : sigT) : list param := posargs (sort_params s) ++ pokargs (sort_params s).

Lemma Sub_Forall2 {A B} (R : A -> B -> Prop) xs ys : Sub xs ys ->
  forall cvs, Forall2 R cvs ys -> exists cx, Forall2 R cx xs /\ Sub cx cvs.
Proof.
  induction 1 as [|y l1 l2 H IH|y l1 l2 H IH]; intros cvs HF.
  - inversion HF; subst. exists []. split; constructor.
  - inversion HF as [|c ? cvs' ? Hc HF']; subst. destruct (IH cvs' HF') as (cx & H1 & H2).
    exists cx. split; [exact H1 | apply Sub_skip; exact H2].
  - inversion HF as [|c ? cvs' ? Hc HF']; subst. destruct (IH cvs' HF') as (cx & H1 & H2).
    exists (c :: cx). split; [constructor; assumption | apply Sub_take; exact H2].
Qed.

(* the contributor vectors after one more fold step *)
Fixpoint build (n : nat) (cs : list contribs) (zs : list (list (option param))) : list (list (option param)) :=
  match cs with
  | [] => []
  | (Some _, ob) :: cs' =>
      match zs with
      | z :: zs' => (z ++ [ob]) :: build n cs' zs'
      | [] => []
      end
  | (None, ob) :: cs' => (repeat None n ++ [ob]) :: build n cs' zs
  end.

Lemma build_made n cs : forall ps zs,
  Forall2 made2 cs ps -> Forall2 madeN zs (omap fst cs) -> Forall2 madeN (build n cs zs) ps.
Proof.
  induction cs as [|[[z0|] ob] cs IH]; intros ps zs Hm Hz; inversion Hm as [|? p ? ps' Hc Hm']; subst; cbn [build].
  - constructor.
  - cbn [omap fst] in Hz. inversion Hz as [|zc ? zs' ? Hzc Hz']; subst. constructor; [|apply IH; assumption].
    destruct ob as [q|]; cbn [made2] in Hc; apply pmade_restr in Hc; destruct Hc as [Hc _].
    + eapply mN_pair; eassumption.
    + eapply mN_keep; eassumption.
  - cbn [omap fst] in Hz. constructor; [|apply IH; assumption].
    destruct ob as [q|]; cbn [made2] in Hc; [|destruct Hc]. apply pmade_restr in Hc. destruct Hc as [Hc _].
    apply mN_new. exact Hc.
Qed.

Lemma build_length n cs : forall zs,
  Forall (fun z => length z = n) zs -> Forall (fun z => length z = S n) (build n cs zs).
Proof.
  induction cs as [|[[z0|] ob] cs IH]; intros zs Hz; cbn [build].
  - constructor.
  - destruct zs as [|z zs]; [constructor|]. inversion Hz; subst. constructor; [|apply IH; assumption].
    rewrite app_length. cbn [length]. lia.
  - constructor; [|apply IH; assumption]. rewrite app_length, repeat_length. cbn [length]. lia.
Qed.

Lemma slot_repeat_None k n ob : (k < n)%nat -> slot k (repeat None n ++ [ob]) = None.
Proof.
  intros H. unfold slot. rewrite app_nth1 by (rewrite repeat_length; exact H).
  destruct (nth_in_or_default k (repeat (@None param) n) None) as [Hin|E]; [|exact E].
  apply repeat_spec in Hin. exact Hin.
Qed.

Lemma build_slot_old n k cs : forall zs, (k < n)%nat ->
  Forall (fun z => length z = n) zs -> length zs = length (omap fst cs) ->
  omap (slot k) (build n cs zs) = omap (slot k) zs.
Proof.
  induction cs as [|[[z0|] ob] cs IH]; intros zs Hk Hz Hl; cbn [build omap fst] in *.
  - destruct zs; [reflexivity | discriminate Hl].
  - destruct zs as [|z zs]; [discriminate Hl|]. inversion Hz as [|? ? Hz1 Hz2]; subst. cbn [omap].
    assert (E : slot k (z ++ [ob]) = slot k z) by (unfold slot; apply app_nth1; lia).
    rewrite E, IH; [reflexivity | exact Hk | exact Hz2 | cbn in Hl; lia].
  - cbn [omap]. rewrite slot_repeat_None by exact Hk. apply IH; assumption.
Qed.

Lemma build_slot_new n cs : forall zs,
  Forall (fun z => length z = n) zs -> length zs = length (omap fst cs) ->
  omap (slot n) (build n cs zs) = omap snd cs.
Proof.
  induction cs as [|[[z0|] ob] cs IH]; intros zs Hz Hl; cbn [build omap fst snd] in *.
  - reflexivity.
  - destruct zs as [|z zs]; [discriminate Hl|]. inversion Hz as [|? ? Hz1 Hz2]; subst. cbn [omap].
    assert (E : slot (length z) (z ++ [ob]) = ob).
    { unfold slot. rewrite app_nth2 by lia. rewrite Nat.sub_diag. reflexivity. }
    rewrite E, IH; [reflexivity | exact Hz2 | cbn in Hl; lia].
  - cbn [omap].
    assert (E : slot n (repeat None n ++ [ob]) = ob).
    { unfold slot. rewrite app_nth2 by (rewrite repeat_length; lia). rewrite repeat_length, Nat.sub_diag. reflexivity. }
    rewrite E, IH by assumption. reflexivity.
Qed.

Lemma Forall2_length' {A B} (R : A -> B -> Prop) xs ys : Forall2 R xs ys -> length xs = length ys.
Proof. induction 1; cbn [length]; congruence. Qed.

Lemma Sub_Forall {A} (P : A -> Prop) a b : Sub a b -> Forall P b -> Forall P a.
Proof. intros H Hb. apply Forall_forall. intros x Hx. rewrite Forall_forall in Hb. apply Hb. eapply Sub_In; eassumption. Qed.

(* the invariant of the fold: `done` are the inputs merged so far *)
Definition FoldInv (done : list sigT) (acc : sorted) : Prop :=
  kinds_ok acc /\
  exists cvs : list (list (option param)),
    Forall2 madeN cvs (posargs acc ++ pokargs acc) /\
    Forall (fun cv => length cv = length done) cvs /\
    forall k s, nth_error done k = Some s -> Sub (omap (slot k) cvs) (PS s).

Lemma FoldInv_init s0 : FoldInv [s0] (sort_params s0).
Proof.
  split; [apply sort_params_kinds|].
  exists (map (fun q => [Some q]) (PS s0)). fold (PS s0). split; [|split].
  - induction (PS s0) as [|q ps IH]; cbn [map]; constructor; [|exact IH].
    apply (mN_new 0 q q). apply restr_refl.
  - apply Forall_forall. intros cv Hcv. apply in_map_iff in Hcv. destruct Hcv as [q [<- _]]. reflexivity.
  - intros k s Hk. destruct k as [|k]; [|destruct k; discriminate Hk]. cbn in Hk. injection Hk as <-.
    assert (E : omap (slot 0) (map (fun q => [Some q]) (PS s0)) = PS s0).
    { induction (PS s0) as [|q ps IH]; [reflexivity|]. cbn [map omap slot nth]. rewrite IH. reflexivity. }
    rewrite E. apply Sub_refl.
Qed.

Lemma FoldInv_step done acc s acc' :
  FoldInv done acc -> merger acc (sort_params s) = Ok acc' -> FoldInv (done ++ [s]) acc'.
Proof.
  intros (Kacc & cvs & Hm & Hl & Hs) E. pose proof (sort_params_kinds s) as Ks.
  destruct (FoldLaw.merger_kinds _ _ _ Kacc Ks E) as [Kacc' _]. split; [exact Kacc'|].
  destruct (merger_pos_made acc (sort_params s) Kacc Ks acc' E) as (cs & Hcs & S1 & S2).
  unfold Pseq in S1, S2. cbn [my] in S1, S2. fold (PS s) in S2.
  destruct (Sub_Forall2 madeN _ _ S1 cvs Hm) as (zs & Hz & Szs).
  pose proof (Sub_Forall _ _ _ Szs Hl) as Hlz.
  pose proof (Forall2_length' _ _ _ Hz) as Hlen.
  exists (build (length done) cs zs). split; [apply build_made; assumption|]. split.
  - rewrite app_length. cbn [length]. rewrite Nat.add_1_r. apply build_length. exact Hlz.
  - intros k s' Hk. destruct (Nat.lt_ge_cases k (length done)) as [Hlt|Hge].
    + rewrite nth_error_app1 in Hk by exact Hlt. rewrite (build_slot_old _ _ _ _ Hlt Hlz Hlen).
      eapply Sub_trans; [apply Sub_omap; exact Szs | apply Hs; exact Hk].
    + rewrite nth_error_app2 in Hk by exact Hge.
      destruct (k - length done)%nat as [|j] eqn:Ej; [|destruct j; discriminate Hk].
      cbn in Hk. injection Hk as <-. assert (k = length done) by lia. subst k.
      rewrite (build_slot_new _ _ _ Hlz Hlen). exact S2.
Qed.

Lemma FoldInv_steps ss : forall done acc res,
  FoldInv done acc -> merge_steps acc ss = Ok res -> FoldInv (done ++ ss) res.
Proof.
  induction ss as [|s ss IH]; intros done acc res HI E; cbn [merge_steps] in E.
  - apply Ok_inj in E. subst res. rewrite app_nil_r. exact HI.
  - apply bind_ok in E. destruct E as [acc' [E1 E2]]. apply to_incompatible_ok in E1.
    replace (done ++ s :: ss) with ((done ++ [s]) ++ ss) by (rewrite <- app_assoc; reflexivity).
    eapply IH; [|exact E2]. eapply FoldInv_step; eassumption.
Qed.

(* C10_order for merge of any number of signatures (the fold), ALL signatures: every
   positional parameter of the result with its contributors, one slot per input; for every
   input, the contributors it supplies, in the order of the result, are an ordered sub-list
   of its own positional parameters *)
Theorem merge_order ss r :
  merge ss = Ok r ->
  exists cvs : list (list (option param)),
    Forall2 madeN cvs (positional (params r)) /\
    Forall (fun cv => length cv = length ss) cvs /\
    forall k s, nth_error ss k = Some s -> Sub (omap (slot k) cvs) (PS s).
Proof.
  destruct ss as [|s0 ss]; [discriminate|]. cbn [merge]. intros E.
  apply bind_ok in E. destruct E as [acc [E1 E2]].
  destruct (FoldInv_steps ss [s0] (sort_params s0) acc (FoldInv_init s0) E1) as (Kacc & cvs & Hm & Hl & Hs).
  destruct (apply_params_fields _ _ _ E2) as [Ep _]. rewrite Ep, (positional_flatten acc Kacc).
  exists cvs. auto.
Qed.

(* for valid inputs, on the parameter lists themselves; and pairwise: two positional
   parameters of the result that both have a contributor in input number k have these
   contributors in the same order in that input *)
Theorem merge_order_valid ss r :
  merge ss = Ok r -> Forall (fun s => valid_sig (params s) = true) ss ->
  exists cvs : list (list (option param)),
    Forall2 madeN cvs (positional (params r)) /\
    Forall (fun cv => length cv = length ss) cvs /\
    (forall k s, nth_error ss k = Some s -> Sub (omap (slot k) cvs) (positional (params s))) /\
    (forall k s cv cv' q q', nth_error ss k = Some s -> before cv cv' cvs ->
       slot k cv = Some q -> slot k cv' = Some q' -> before q q' (positional (params s))).
Proof.
  intros E Hv. destruct (merge_order ss r E) as (cvs & Hm & Hl & Hs). exists cvs.
  assert (Hs' : forall k s, nth_error ss k = Some s -> Sub (omap (slot k) cvs) (positional (params s))).
  { intros k s Hk. rewrite Forall_forall in Hv. rewrite (positional_sorted s (Hv s (nth_error_In _ _ Hk))).
    apply (Hs k s Hk). }
  split; [exact Hm|]. split; [exact Hl|]. split; [exact Hs'|].
  intros k s cv cv' q q' Hk Hb H1 H2. eapply Sub_before; [apply (Hs' k s Hk)|]. eapply before_omap; eassumption.
Qed.

(* the binary case read in the n-ary vocabulary *)
Lemma pos_made_madeN c p : pos_made c p -> madeN [fst c; snd c] p.
Proof.
  destruct c as [[qa|] [qb|]]; cbn [pos_made fst snd]; intros H.
  - apply (mN_pair [Some qa] qa qb p); [apply (mN_new 0 qa qa); apply restr_refl | exact H].
  - apply (mN_keep [Some qa] qa p); [apply (mN_new 0 qa qa); apply restr_refl | exact H].
  - apply (mN_new 1 qb p). exact H.
  - destruct H.
Qed.

Example merge_order_example :
  exists r,
    Forall (fun s => valid_sig (params s) = true)
      [dsig 100 [bp 1 PO; bp 2 PK; bp 9 VP]; dsig 101 [bp 3 PK; bp 4 PK; bp 5 PK; bp 9 VP];
       dsig 102 [bp 6 PO; bp 9 VP; bp 10 VK]] /\
    merge [dsig 100 [bp 1 PO; bp 2 PK; bp 9 VP]; dsig 101 [bp 3 PK; bp 4 PK; bp 5 PK; bp 9 VP];
           dsig 102 [bp 6 PO; bp 9 VP; bp 10 VK]] = Ok r /\
    map pname (params r) = [1; 2; 5; 9] /\ map pkind (params r) = [PO; PO; PO; VP].
Proof.
  eexists. split; [repeat constructor|]. split; [vm_compute; reflexivity|]. split; reflexivity.
Qed.

Print Assumptions merger_pos_made.
Print Assumptions merger_pos_explicit.
Print Assumptions merge2_order_sorted.
Print Assumptions merge2_order_explicit_sorted.
Print Assumptions merge2_order_explicit.
Print Assumptions merge2_order.
Print Assumptions merge2_order_pairwise.
Print Assumptions merge2_order_names.
Print Assumptions merge2_order_needs_valid.
Print Assumptions merge2_order_example.
Print Assumptions merge2_order_kwo_refuted.
Print Assumptions merge2_order_kwo_right_refuted.
Print Assumptions merge2_order_kwo_partial.
Print Assumptions merge_order.
Print Assumptions merge_order_valid.
Print Assumptions merge_order_example.
