(* DiscoverSoundWalk.v -- what the walker records for every call site of a
   wrapper body of the grammar of Model/Exec.v: besides the use/hide flags
   (Proofs/Exec.v), the callee marker, the number of non-starred positional
   arguments and the literal keyword names of each forwarding call.  Used by
   DiscoverSound.v (C05 end to end). *)
From Sigtools.Model Require Import Base Visitor Exec.
From Sigtools.Proofs Require Import VisitorTotal Exec.
From Coq Require Import Lia.

(* a forwarding call site: callee, #literal positionals, literal keyword names,
   is *args written, is **kwargs written *)
Definition site := (N * nat * list N * bool * bool)%type.

(* one entry per call expression, in source order (as [absint] lists flags) *)
Fixpoint sites (s : stmt) : list (option site) :=
  let block := (fix go (l : list stmt) : list (option site) :=
                  match l with [] => [] | x :: l' => sites x ++ go l' end) in
  match s with
  | SFwd c n kw pa pk => [Some (c, n, kw, pa, pk)]
  | SMethod _ _ | SPass _ _ | SOther _ | SLambdaMut _ => [None]
  | SIf a b => block a ++ block b
  | _ => []
  end.

Fixpoint sites_block (l : list stmt) : list (option site) :=
  match l with [] => [] | x :: l' => sites x ++ sites_block l' end.

Lemma sites_if a b : sites (SIf a b) = sites_block a ++ sites_block b.
Proof.
  assert (E : forall l, (fix go (l : list stmt) : list (option site) :=
             match l with [] => [] | x :: l' => sites x ++ go l' end) l = sites_block l).
  { induction l as [|x l IH]; [reflexivity|]. cbn [sites_block]. now rewrite IH. }
  cbn [sites]. now rewrite !E.
Qed.

(* what the record of a site says *)
Definition rec_ok (d : option site) (c : callrec) : Prop :=
  match d with
  | Some (cal, n, kw, _, _) =>
      length (c_args c) = n /\ map fst (c_kwargs c) = kw /\
      (c_wrapped c = MName cal \/ c_wrapped c = MUnknown)
  | None => True
  end.

(* the flags of a site, as the abstract interpretation computes them *)
Definition flag_ok (d : option site) (f : flags) : Prop :=
  match d with
  | Some (_, _, _, pa, pk) =>
      exists k : bool * bool, f = (pa && fst k, pk && snd k, pa && negb (fst k), pk && negb (snd k))
  | None => f = (false, false, false, false)
  end.

Lemma flag_sites_block_of (P : stmt -> Prop) :
  (forall s, P s -> forall k, Forall2 flag_ok (sites s) (snd (absint s k))) ->
  forall l, Forall P l -> forall k, Forall2 flag_ok (sites_block l) (snd (absint_block l k)).
Proof.
  intros H l Hl. induction Hl as [|x l Hx _ IH]; intros k; [constructor|].
  cbn [sites_block absint_block]. pose proof (H x Hx k) as H1.
  destruct (absint x k) as [k1 f1]. specialize (IH k1). destruct (absint_block l k1) as [k2 f2].
  cbn [snd] in *. apply Forall2_app; assumption.
Qed.

Lemma flag_sites : forall s k, Forall2 flag_ok (sites s) (snd (absint s k)).
Proof.
  apply (stmt_ind' (fun s => forall k, Forall2 flag_ok (sites s) (snd (absint s k))));
    try (intros; cbn; repeat constructor; fail).
  - intros c n kw pa pk k. cbn. constructor; [exists k; reflexivity|constructor].
  - intros f s k. destruct s; cbn; repeat constructor.
  - intros y s k. destruct s; cbn; constructor.
  - intros a b Ha Hb k. rewrite sites_if, absint_if.
    pose proof (flag_sites_block_of _ (fun s H => H) a Ha k) as H1.
    destruct (absint_block a k) as [k1 f1].
    pose proof (flag_sites_block_of _ (fun s H => H) b Hb k1) as H2.
    destruct (absint_block b k1) as [k2 f2]. cbn [snd] in *. apply Forall2_app; assumption.
Qed.

Lemma flag_sites_block l k : Forall2 flag_ok (sites_block l) (snd (absint_block l k)).
Proof.
  apply (flag_sites_block_of (fun _ => True)); [intros s _ k0; apply flag_sites|].
  apply Forall_forall. auto.
Qed.

(* ------------------------------------------------------------------ *)
Section Walk.
Variables va vk : N.
Hypothesis Hne : va <> vk.

Notation mst := (mst va vk).
Notation Good := (Good va vk).

Definition Step2 (s : stmt) : Prop := forall nm im calls tn nx rev k,
  Good nm im tn k -> names_ok va vk s = true ->
  exists nm' im' tn' cs,
    walk false (compile va vk s) (mst nm im calls tn nx rev) = mst nm' im' (calls ++ cs) tn' nx rev
    /\ Good nm' im' tn' (fst (absint s k)) /\ map fl cs = snd (absint s k)
    /\ Forall2 rec_ok (sites s) cs.

Definition StepB2 (l : list stmt) : Prop := forall nm im calls tn nx rev k,
  Good nm im tn k -> block_ok va vk l = true ->
  exists nm' im' tn' cs,
    walk_list (compile_block va vk l) (mst nm im calls tn nx rev) = mst nm' im' (calls ++ cs) tn' nx rev
    /\ Good nm' im' tn' (fst (absint_block l k)) /\ map fl cs = snd (absint_block l k)
    /\ Forall2 rec_ok (sites_block l) cs.

Lemma step_block2 l : Forall Step2 l -> StepB2 l.
Proof.
  induction 1 as [|x l Hx Hl IH]; intros nm im calls tn nx rev k G Hok.
  - exists nm, im, tn, []. rewrite app_nil_r. cbn. split; [reflexivity|]. split; [exact G|]. split; [reflexivity|constructor].
  - cbn [block_ok forallb] in Hok. apply Bool.andb_true_iff in Hok as [Hx1 Hl1].
    destruct (Hx nm im calls tn nx rev k G Hx1) as (nm1 & im1 & tn1 & cs1 & E1 & G1 & F1 & R1).
    destruct (IH nm1 im1 (calls ++ cs1) tn1 nx rev _ G1 Hl1) as (nm2 & im2 & tn2 & cs2 & E2 & G2 & F2 & R2).
    exists nm2, im2, tn2, (cs1 ++ cs2).
    cbn [compile_block map walk_list]. fold (compile_block va vk l).
    change (walk_list (compile va vk x :: compile_block va vk l) (mst nm im calls tn nx rev))
      with (walk_list (compile_block va vk l) (walk false (compile va vk x) (mst nm im calls tn nx rev))).
    rewrite E1, E2, app_assoc. split; [reflexivity|].
    cbn [absint_block sites_block]. destruct (absint x k) as [k1 f1]. cbn [fst snd] in *.
    destruct (absint_block l k1) as [k2 f2]. cbn [fst snd] in *.
    split; [exact G2|]. split; [now rewrite map_app, F1, F2|]. apply Forall2_app; assumption.
Qed.

Ltac fin nm im tn cs := exists nm, im, tn, cs.

Lemma step_all2 : forall s, Step2 s.
Proof.
  apply stmt_ind'.
  - (* SFwd *)
    intros c n kw pa pk nm im calls tn nx rev k G Hok.
    pose proof G as (HW & Ha & Hk & Hi & Hm).
    cbn [names_ok] in Hok. apply Bool.andb_true_iff in Hok as [Hc1 Hc2].
    apply Bool.negb_true_iff in Hc1, Hc2. apply N.eqb_neq in Hc1, Hc2.
    cbn [compile]. rewrite walk_opaque_eq. cbn [walk_list]. rewrite walk_call_eq.
    cbn [Exec.mst v_rev v_frames v_cur get_frame nth f_parent is_some]. rewrite Bool.andb_false_r.
    fold (mst nm im calls tn nx rev).
    unfold res_with. cbn [resolve_na]. unfold process_call.
    rewrite (ns_get_not_attr va vk nm im calls tn nx rev c HW).
    set (st := mst nm im calls tn nx rev).
    assert (EA : forall s, args_loop (if pa then [NStarred (NName va Load)] else []) s = ([], s))
      by (intros s; destruct pa; reflexivity).
    assert (EK : forall s, kws_loop (if pk then [NKeyword None (NName vk Load)] else []) s = ([], s))
      by (intros s; destruct pk; reflexivity).
    assert (SA1 : star_one (if pa then [NStarred (NName va Load)] else []) 0 st =
                  (if pa then Some (get_untainted st (ns_get st va)) else None, st))
      by (destruct pa; reflexivity).
    assert (SK1 : dstar_one (if pk then [NKeyword None (NName vk Load)] else []) st =
                  (if pk then Some (get_untainted st (ns_get st vk)) else None, st))
      by (destruct pk; reflexivity).
    assert (HA : has_hide (if pa then Some (get_untainted st (ns_get st va)) else None) (v_varargs st)
                 = (pa && fst k, pa && negb (fst k))).
    { destruct pa; [|reflexivity]. unfold has_hide. unfold st at 3. cbn [Exec.mst v_varargs].
      unfold st. rewrite same_object_view, <- Ha. now destruct (fst k). }
    assert (HK : has_hide (if pk then Some (get_untainted st (ns_get st vk)) else None) (v_varkwargs st)
                 = (pk && snd k, pk && negb (snd k))).
    { destruct pk; [|reflexivity]. unfold has_hide. unfold st at 3. cbn [Exec.mst v_varkwargs].
      unfold st. rewrite same_object_view, <- Hk. now destruct (snd k). }
    rewrite args_loop_consts, EA. cbv beta iota. cbn [fst snd].
    rewrite kws_loop_consts, EK. cbv beta iota. cbn [fst snd].
    rewrite star_one_consts, SA1. cbv beta iota.
    rewrite dstar_one_consts, SK1. cbv beta iota.
    rewrite HA, HK. unfold st. rewrite add_call_mst.
    eexists nm, im, tn, [_]. split; [reflexivity|]. split; [exact G|]. split; [reflexivity|].
    cbn [sites]. constructor; [|constructor]. cbn [rec_ok c_args c_kwargs c_wrapped].
    split; [rewrite app_nil_r; apply repeat_length|]. split.
    + rewrite app_nil_r, map_map. cbn [fst]. apply map_id.
    + rewrite ns_get_mst. destruct (assoc c nm) as [m|] eqn:E; [|left; reflexivity].
      destruct (W_assoc va vk _ _ _ HW E) as [H|[H|H]]; cbn in H.
      * right. exact H.
      * inversion H; subst. contradiction.
      * inversion H; subst. contradiction.
  - (* SRebind *)
    intros s nm im calls tn nx rev k G _.
    destruct (good_store va vk Hne s Store nm im calls tn nx rev k ltac:(discriminate) G) as (nm' & im' & E & G').
    fin nm' im' tn (@nil callrec). rewrite app_nil_r. split; [|split; [exact G'|split; [reflexivity|constructor]]].
    cbn [compile]. rewrite walk_opaque_eq. cbn [walk_list walk]. exact E.
  - (* SAug *)
    intros s nm im calls tn nx rev k G _.
    destruct (good_store va vk Hne s Store nm im calls tn nx rev k ltac:(discriminate) G) as (nm' & im' & E & G').
    fin nm' im' tn (@nil callrec). rewrite app_nil_r. split; [|split; [exact G'|split; [reflexivity|constructor]]].
    cbn [compile]. rewrite walk_opaque_eq. cbn [walk_list walk]. fold (sname' va vk s). rewrite E. reflexivity.
  - (* SDel *)
    intros s nm im calls tn nx rev k G _.
    destruct (good_store va vk Hne s Del nm im calls tn nx rev k ltac:(discriminate) G) as (nm' & im' & E & G').
    fin nm' im' tn (@nil callrec). rewrite app_nil_r. split; [|split; [exact G'|split; [reflexivity|constructor]]].
    cbn [compile]. rewrite walk_opaque_eq. cbn [walk_list walk]. exact E.
  - (* SItemSet *)
    intros nm im calls tn nx rev k G _.
    destruct (good_load va vk Hne SK nm im calls tn nx rev k G) as (nm' & im' & E & G').
    fin nm' im' tn (@nil callrec). rewrite app_nil_r. split; [|split; [exact G'|split; [reflexivity|constructor]]].
    cbn [compile]. rewrite walk_opaque_eq. cbn [walk_list]. rewrite walk_opaque_eq. cbn [walk_list walk].
    unfold sname', sname in E. rewrite E. reflexivity.
  - (* SMethod *)
    intros s m nm im calls tn nx rev k G _.
    destruct (good_method va vk Hne s nm im calls tn nx rev k G) as (tn' & E & G').
    eexists nm, im, tn', [_]. split; [|split; [|split]].
    + cbn [compile]. rewrite walk_opaque_eq. cbn [walk_list]. rewrite walk_call_eq.
      cbn [Exec.mst v_rev v_frames v_cur get_frame nth f_parent is_some]. rewrite Bool.andb_false_r.
      fold (mst nm im calls tn nx rev).
      unfold res_with. cbn [resolve_na]. unfold process_call. cbn [is_attr attr_base].
      fold (sname' va vk s). rewrite E. reflexivity.
    + exact G'.
    + reflexivity.
    + cbn [sites]. constructor; [exact I|constructor].
  - (* SPass *)
    intros f s nm im calls tn nx rev k G _.
    pose proof G as (HW & _).
    destruct (good_load va vk Hne s nm im calls tn nx rev k G) as (nm' & im' & E & G').
    eexists nm', im', tn, [_]. split; [|split; [|split]].
    + cbn [compile]. rewrite walk_opaque_eq. cbn [walk_list]. rewrite walk_call_eq.
      cbn [Exec.mst v_rev v_frames v_cur get_frame nth f_parent is_some]. rewrite Bool.andb_false_r.
      fold (mst nm im calls tn nx rev).
      unfold res_with. cbn [resolve_na]. unfold process_call.
      rewrite (ns_get_not_attr va vk nm im calls tn nx rev f HW).
      cbn [args_loop]. unfold res_with. cbn [resolve_na]. fold (sname' va vk s). rewrite E.
      reflexivity.
    + destruct s; exact G'.
    + destruct s; reflexivity.
    + cbn [sites]. constructor; [exact I|constructor].
  - (* SAlias *)
    intros y s nm im calls tn nx rev k G Hok.
    cbn [names_ok] in Hok. apply Bool.andb_true_iff in Hok as [H1 H2].
    apply Bool.negb_true_iff in H1, H2. apply N.eqb_neq in H1, H2.
    pose proof (good_set_other va vk y nm im tn k H1 H2 G) as G1.
    destruct (good_load va vk Hne s _ _ calls tn nx rev k G1) as (nm' & im' & E & G').
    fin nm' im' tn (@nil callrec). rewrite app_nil_r. split; [|split; [|split]].
    + cbn [compile]. rewrite walk_opaque_eq. cbn [walk_list walk].
      rewrite (visit_name_mst va vk nm im calls tn nx rev y Store), Bool.andb_false_r.
      fold (sname' va vk s). exact E.
    + destruct s; exact G'.
    + destruct s; reflexivity.
    + constructor.
  - (* SOther *)
    intros f nm im calls tn nx rev k G _.
    pose proof G as (HW & _).
    eexists nm, im, tn, [_]. split; [|split; [|split]].
    + cbn [compile]. rewrite walk_opaque_eq. cbn [walk_list]. rewrite walk_call_eq.
      cbn [Exec.mst v_rev v_frames v_cur get_frame nth f_parent is_some]. rewrite Bool.andb_false_r.
      fold (mst nm im calls tn nx rev).
      unfold res_with. cbn [resolve_na]. unfold process_call.
      rewrite (ns_get_not_attr va vk nm im calls tn nx rev f HW).
      reflexivity.
    + exact G.
    + reflexivity.
    + cbn [sites]. constructor; [exact I|constructor].
  - (* SIf *)
    intros a b Ha Hb nm im calls tn nx rev k G Hok.
    rewrite names_ok_if in Hok. apply Bool.andb_true_iff in Hok as [Hoa Hob].
    destruct (step_block2 a Ha nm im calls tn nx rev k G Hoa) as (nm1 & im1 & tn1 & cs1 & E1 & G1 & F1 & R1).
    destruct (step_block2 b Hb nm1 im1 (calls ++ cs1) tn1 nx rev _ G1 Hob) as (nm2 & im2 & tn2 & cs2 & E2 & G2 & F2 & R2).
    exists nm2, im2, tn2, (cs1 ++ cs2).
    rewrite compile_if, walk_opaque_eq.
    change (walk_list (const :: compile_block va vk a ++ compile_block va vk b) (mst nm im calls tn nx rev))
      with (walk_list (compile_block va vk a ++ compile_block va vk b) (mst nm im calls tn nx rev)).
    rewrite walk_list_app, E1, E2, app_assoc. split; [reflexivity|].
    rewrite absint_if, sites_if. destruct (absint_block a k) as [k1 f1]. cbn [fst snd] in *.
    destruct (absint_block b k1) as [k2 f2]. cbn [fst snd] in *.
    split; [exact G2|]. split; [now rewrite map_app, F1, F2|]. apply Forall2_app; assumption.
  - (* SLambdaMut: outside the fragment *)
    intros m nm im calls tn nx rev k G Hok. discriminate Hok.
Qed.

(* the walker on a whole wrapper  def w( *va, **vk ): <block> *)
Theorem walker_records l :
  block_ok va vk l = true ->
  exists recs,
    visit_function [] [] (Some va) (Some vk) (compile_block va vk l) = Some recs /\
    map fl recs = snd (absint_block l (true, true)) /\
    Forall2 rec_ok (sites_block l) recs.
Proof.
  intros Hok. unfold visit_function.
  assert (E0 : process_parameters true [] [] (Some va) (Some vk) init_state =
               mst [(va, MArg 0 va); (vk, MArg 1 vk)] [va] [] [] 2%nat false).
  { assert (Eb : N.eqb vk va = false) by (apply N.eqb_neq; congruence).
    cbv -[N.eqb]. rewrite !Eb. reflexivity. }
  rewrite E0, fold_walk_list.
  assert (G0 : Good [(va, MArg 0 va); (vk, MArg 1 vk)] [va] [] (true, true)).
  { assert (Eb : N.eqb vk va = false) by (apply N.eqb_neq; congruence).
    unfold Exec.Good, W, view. cbn [assoc mem fst snd]. rewrite !N.eqb_refl, !Eb. cbn.
    split; [|repeat split; auto].
    constructor; [right; left; reflexivity|constructor; [right; right; reflexivity|constructor]]. }
  destruct (step_block2 l (Forall_all _ step_all2 l) _ _ [] _ 2%nat false _ G0 Hok)
    as (nm' & im' & tn' & cs & E & _ & F & R).
  rewrite E. cbn [app]. unfold set_rev, Exec.mst. cbn [v_frames v_cur v_calls v_todo v_taint v_next v_varargs v_varkwargs].
  cbn [drain v_todo v_calls]. exists cs. auto.
Qed.
End Walk.

Print Assumptions walker_records.
Print Assumptions flag_sites_block.
