(* Proofs/Eq.v — C14: == / != / hash / replace of the upgraded classes.
   All statements are about Model/Eq.v, for all objects (no size bound). *)
From Sigtools.Model Require Import Eq.
From Coq Require Import Lia Permutation.

Definition is_val (o : out) : Prop := exists c, o = Val c.

(* a foreign partner whose own __eq__ raises is outside the property (plain
   inspect objects propagate that exception too) *)
Definition fok_s (a : sany) : Prop := match a with Foreign _ FRaise => False | _ => True end.
Definition fok_p (a : pany) : Prop := match a with PForeign _ FRaise => False | _ => True end.

(* ------------------------------------------------------------------ *)
(* the comparison protocol, generically                                *)

Lemma richcmp_total A (cl : A -> cls) ident slot dflt (v w : A) :
  slot v w <> Raise -> slot w v <> Raise -> is_val (richcmp cl ident slot dflt v w).
Proof.
  intros H1 H2. unfold richcmp, is_val.
  destruct (negb (cls_eqb (cl v) (cl w)) && proper_subclass (cl w) (cl v));
    destruct (slot v w); destruct (slot w v); eauto; congruence.
Qed.

Lemma richcmp_ne A (cl : A -> cls) ident slot (v w : A) :
  richcmp cl ident (fun x y => ne_of_eq (slot x y)) negb v w
  = ne_of_eq (richcmp cl ident slot (fun same => same) v w).
Proof.
  unfold richcmp.
  destruct (negb (cls_eqb (cl v) (cl w)) && proper_subclass (cl w) (cl v));
    destruct (slot v w); destruct (slot w v); reflexivity.
Qed.

Lemma richcmp_sym A (cl : A -> cls) ident slot (v w : A) :
  slot v w <> Raise -> slot w v <> Raise ->
  (forall c c', slot v w = Val c -> slot w v = Val c' -> c = c') ->
  richcmp cl ident slot (fun same => same) v w = richcmp cl ident slot (fun same => same) w v.
Proof.
  intros H1 H2 H3. unfold richcmp. rewrite (N.eqb_sym (ident w) (ident v)).
  destruct (negb (cls_eqb (cl v) (cl w)) && proper_subclass (cl w) (cl v));
    destruct (negb (cls_eqb (cl w) (cl v)) && proper_subclass (cl v) (cl w));
    destruct (slot v w) eqn:E1; destruct (slot w v) eqn:E2;
    try reflexivity; try congruence;
    try (rewrite (H3 _ _ eq_refl eq_refl); reflexivity).
Qed.

Lemma cls_eqb_refl c : cls_eqb c c = true.
Proof. destruct c; reflexivity. Qed.

Lemma kind_eqb_eq a b : kind_eqb a b = true <-> a = b.
Proof. destruct a, b; simpl; split; intros H; try reflexivity; try discriminate. Qed.

Lemma kind_eqb_sym a b : kind_eqb a b = kind_eqb b a.
Proof. destruct a, b; reflexivity. Qed.

Lemma opt_N_eqb_eq a b : opt_N_eqb a b = true <-> a = b.
Proof.
  destruct a, b; simpl; split; intros H; try reflexivity; try discriminate.
  - apply N.eqb_eq in H. subst. reflexivity.
  - inversion H. apply N.eqb_refl.
Qed.

Lemma opt_N_eqb_sym a b : opt_N_eqb a b = opt_N_eqb b a.
Proof. destruct a, b; simpl; try reflexivity. apply N.eqb_sym. Qed.

Lemma pdata_eqb_eq a b : pdata_eqb a b = true <-> a = b.
Proof.
  unfold pdata_eqb. destruct a, b; simpl. rewrite !andb_true_iff, N.eqb_eq, kind_eqb_eq, !opt_N_eqb_eq.
  split.
  - intros [[[H1 H2] H3] H4]. subst. reflexivity.
  - intros H. inversion H. auto.
Qed.

Lemma pdata_eqb_sym a b : pdata_eqb a b = pdata_eqb b a.
Proof.
  unfold pdata_eqb.
  rewrite (N.eqb_sym (d_name a)), (kind_eqb_sym (d_kind a)), (opt_N_eqb_sym (d_def a)),
    (opt_N_eqb_sym (d_ann a)). reflexivity.
Qed.

(* ------------------------------------------------------------------ *)
(* generic in the body of UpgradedAnnotation.__eq__                    *)

Section Generic.
  Variable aeq : env -> aobj -> aobj -> out.
  Hypothesis aeq_total : forall e a b, is_val (aeq e a b).
  Hypothesis aeq_sym : forall e a b, aeq e a b = aeq e b a.
  Hypothesis aeq_refl : forall e a, aeq e a a = Val true.

  (* ---- parameters ---- *)

  Lemma param_base_eq_obj self o :
    param_base_eq self (PObj o) = Val (N.eqb (pid self) (pid o) || pdata_eqb (pd self) (pd o)).
  Proof. unfold param_base_eq. destruct (N.eqb (pid self) (pid o)); reflexivity. Qed.

  Lemma p_slot_obj_val e a b : is_val (p_slot aeq e (PObj a) (PObj b)).
  Proof.
    unfold p_slot, uparam_eq. destruct a as [i d | i d x].
    - rewrite param_base_eq_obj. eexists; reflexivity.
    - rewrite param_base_eq_obj.
      destruct (N.eqb (pid (PUpgraded i d x)) (pid b) || pdata_eqb (pd (PUpgraded i d x)) (pd b));
        destruct b; try (eexists; reflexivity). apply aeq_total.
  Qed.

  Lemma p_slot_no_raise e a b : fok_p a -> p_slot aeq e a b <> Raise.
  Proof.
    intros Ha. destruct a as [a | i fb].
    - destruct b as [b | j fb'].
      + destruct (p_slot_obj_val e a b) as [c Hc]. rewrite Hc. discriminate.
      + unfold p_slot, uparam_eq, param_base_eq. destruct a; discriminate.
    - simpl. destruct fb; simpl in *; try discriminate. contradiction.
  Qed.

  Theorem p_eq_total e a b : fok_p a -> fok_p b -> is_val (p_eq aeq e a b).
  Proof. intros Ha Hb. apply richcmp_total; apply p_slot_no_raise; assumption. Qed.

  Lemma p_slot_compat e a b c c' :
    p_slot aeq e (PObj a) b = Val c -> p_slot aeq e b (PObj a) = Val c' -> c = c'.
  Proof.
    destruct b as [b | j fb'].
    - unfold p_slot, uparam_eq. destruct a as [i d | i d x]; destruct b as [j d' | j d' x'];
        rewrite !param_base_eq_obj; simpl pid; simpl pd;
        rewrite (N.eqb_sym j i), (pdata_eqb_sym d' d);
        destruct (N.eqb i j || pdata_eqb d d'); try congruence.
    - unfold p_slot at 1. unfold uparam_eq, param_base_eq. destruct a; discriminate.
  Qed.

  Theorem p_eq_sym e a b : fok_p b -> p_eq aeq e (PObj a) b = p_eq aeq e b (PObj a).
  Proof.
    intros Hb. apply richcmp_sym.
    - apply p_slot_no_raise. exact I.
    - apply p_slot_no_raise. exact Hb.
    - intros c c'. apply p_slot_compat.
  Qed.

  Theorem p_eq_refl e a : p_eq aeq e (PObj a) (PObj a) = Val true.
  Proof.
    unfold p_eq, richcmp. rewrite cls_eqb_refl. simpl.
    destruct a as [i d | i d x]; unfold uparam_eq; rewrite ?param_base_eq_obj; simpl pid;
      rewrite N.eqb_refl; simpl; try reflexivity. rewrite aeq_refl. reflexivity.
  Qed.

  (* ---- boolean readings: under a total annotation equality nothing raises ---- *)

  Definition pb e x y : bool := match p_eq_bool aeq e x y with Val true => true | _ => false end.

  Lemma p_eq_bool_val e x y : p_eq_bool aeq e x y = Val (pb e x y).
  Proof.
    unfold pb, p_eq_bool. destruct (N.eqb (pid x) (pid y)); [reflexivity|].
    destruct (p_eq_total e (PObj x) (PObj y) I I) as [c Hc]. rewrite Hc. destruct c; reflexivity.
  Qed.

  Lemma pb_sym e x y : pb e x y = pb e y x.
  Proof.
    unfold pb, p_eq_bool. rewrite (N.eqb_sym (pid y) (pid x)).
    destruct (N.eqb (pid x) (pid y)); [reflexivity|]. rewrite (p_eq_sym e x (PObj y) I). reflexivity.
  Qed.

  Lemma pb_refl e x : pb e x x = true.
  Proof. unfold pb, p_eq_bool. rewrite N.eqb_refl. reflexivity. Qed.

  Fixpoint tupb e (a b : list pobj) : bool :=
    match a, b with
    | x :: a', y :: b' => pb e x y && tupb e a' b'
    | [], [] => true
    | _, _ => false
    end.

  Lemma tuple_eq_val e a : forall b, tuple_eq aeq e a b = Val (tupb e a b).
  Proof.
    induction a as [|x a IH]; intros [|y b]; simpl; try reflexivity.
    rewrite p_eq_bool_val. destruct (pb e x y); simpl; [apply IH | reflexivity].
  Qed.

  Lemma tupb_sym e a : forall b, tupb e a b = tupb e b a.
  Proof.
    induction a as [|x a IH]; intros [|y b]; simpl; try reflexivity.
    rewrite (pb_sym e x y), (IH b). reflexivity.
  Qed.

  Lemma tupb_refl e a : tupb e a a = true.
  Proof. induction a as [|x a IH]; simpl; [reflexivity|]. rewrite pb_refl, IH. reflexivity. Qed.

  Definition nm (p : pobj) : name := d_name (pd p).

  Definition dent e (b : list pobj) (x : pobj) : bool :=
    match pfind (nm x) b with Some y => pb e x y | None => false end.

  Definition dictb e (a b : list pobj) : bool :=
    Nat.eqb (length a) (length b) && forallb (dent e b) a.

  Lemma dict_eq_aux_val e b a : dict_eq_aux aeq e a b = Val (forallb (dent e b) a).
  Proof.
    induction a as [|x a IH]; simpl; [reflexivity|]. unfold dent at 1. unfold nm.
    destruct (pfind (d_name (pd x)) b) as [y|]; [|reflexivity].
    rewrite p_eq_bool_val. destruct (pb e x y); simpl; [apply IH | reflexivity].
  Qed.

  Lemma dict_eq_val e a b : dict_eq aeq e a b = Val (dictb e a b).
  Proof.
    unfold dict_eq, dictb. destruct (Nat.eqb (length a) (length b)); simpl; [apply dict_eq_aux_val | reflexivity].
  Qed.

  Definition basisb e (a b : sdata) : bool :=
    tupb e (pos_of a) (pos_of b) && dictb e (kwo_of a) (kwo_of b) && opt_N_eqb (s_ret a) (s_ret b).

  Lemma basis_eq_val e a b : basis_eq aeq e a b = Val (basisb e a b).
  Proof.
    unfold basis_eq, basisb. rewrite tuple_eq_val. destruct (tupb e (pos_of a) (pos_of b)); simpl; [|reflexivity].
    rewrite dict_eq_val. destruct (dictb e (kwo_of a) (kwo_of b)); reflexivity.
  Qed.

  (* ---- dict comparison is symmetric on dicts (distinct keys) ---- *)

  Lemma pfind_some n l y : pfind n l = Some y -> In y l /\ nm y = n.
  Proof.
    induction l as [|q l IH]; simpl; [discriminate|].
    destruct (N.eqb n (d_name (pd q))) eqn:E.
    - intros H. inversion H. subst. split; [left; reflexivity|]. apply N.eqb_eq in E. unfold nm. symmetry. exact E.
    - intros H. destruct (IH H) as [H1 H2]. split; [right; exact H1 | exact H2].
  Qed.

  Lemma pfind_none n l : pfind n l = None -> ~ In n (map nm l).
  Proof.
    induction l as [|q l IH]; simpl; [intros _ []|].
    destruct (N.eqb n (d_name (pd q))) eqn:E; [discriminate|].
    intros H [H1 | H1].
    - unfold nm in H1. rewrite H1 in E. rewrite N.eqb_refl in E. discriminate.
    - exact (IH H H1).
  Qed.

  Lemma pfind_nodup l y : NoDup (map nm l) -> In y l -> pfind (nm y) l = Some y.
  Proof.
    induction l as [|q l IH]; simpl; [intros _ []|].
    intros Hnd [H | H].
    - subst. unfold nm. rewrite N.eqb_refl. reflexivity.
    - inversion Hnd as [|? ? Hq Hl]; subst.
      destruct (N.eqb (nm y) (d_name (pd q))) eqn:E.
      + apply N.eqb_eq in E. exfalso. apply Hq. fold (nm q) in E. rewrite <- E. apply in_map. exact H.
      + apply IH; assumption.
  Qed.

  Lemma dictb_true_sym e a b :
    NoDup (map nm a) -> NoDup (map nm b) -> dictb e a b = true -> dictb e b a = true.
  Proof.
    intros Ha Hb H. unfold dictb in *. apply andb_true_iff in H. destruct H as [Hlen Hall].
    apply Nat.eqb_eq in Hlen. rewrite forallb_forall in Hall.
    apply andb_true_iff. split; [apply Nat.eqb_eq; symmetry; exact Hlen|].
    assert (Hfwd : forall x, In x a -> exists y, pfind (nm x) b = Some y /\ pb e x y = true).
    { intros x Hx. specialize (Hall x Hx). unfold dent in Hall.
      destruct (pfind (nm x) b) as [y|]; [|discriminate]. exists y. split; [reflexivity | exact Hall]. }
    assert (Hincl : incl (map nm a) (map nm b)).
    { intros n Hn. apply in_map_iff in Hn. destruct Hn as [x [Hx1 Hx2]].
      destruct (Hfwd x Hx2) as [y [Hy1 _]]. apply pfind_some in Hy1. destruct Hy1 as [Hy1 Hy2].
      subst n. rewrite <- Hy2. apply in_map. exact Hy1. }
    assert (Hback : incl (map nm b) (map nm a)).
    { apply NoDup_length_incl; [exact Ha | rewrite !map_length; lia | exact Hincl]. }
    apply forallb_forall. intros y Hy. unfold dent.
    assert (Hn : In (nm y) (map nm a)) by (apply Hback; apply in_map; exact Hy).
    apply in_map_iff in Hn. destruct Hn as [x [Hx1 Hx2]].
    rewrite <- Hx1. rewrite (pfind_nodup a x Ha Hx2).
    destruct (Hfwd x Hx2) as [y' [Hy1 Hy2]].
    rewrite Hx1 in Hy1. rewrite (pfind_nodup b y Hb Hy) in Hy1. inversion Hy1; subst y'.
    rewrite pb_sym. exact Hy2.
  Qed.

  Lemma dictb_sym e a b :
    NoDup (map nm a) -> NoDup (map nm b) -> dictb e a b = dictb e b a.
  Proof.
    intros Ha Hb. destruct (dictb e a b) eqn:E1; destruct (dictb e b a) eqn:E2; try reflexivity.
    - rewrite (dictb_true_sym e a b Ha Hb E1) in E2. discriminate.
    - rewrite (dictb_true_sym e b a Hb Ha E2) in E1. discriminate.
  Qed.

  Lemma dictb_refl e a : NoDup (map nm a) -> dictb e a a = true.
  Proof.
    intros Ha. unfold dictb. rewrite Nat.eqb_refl. simpl. apply forallb_forall. intros x Hx.
    unfold dent. rewrite (pfind_nodup a x Ha Hx). apply pb_refl.
  Qed.

  (* the keyword-only dict of _hash_basis has distinct keys by construction *)
  Lemma pod_set_names d p n : In n (map nm (pod_set d p)) -> In n (map nm d) \/ n = nm p.
  Proof.
    induction d as [|q d IH]; simpl.
    - intros [H | []]. right. symmetry. exact H.
    - destruct (N.eqb (d_name (pd p)) (d_name (pd q))) eqn:E; simpl.
      + intros [H | H]; [right; symmetry; exact H | left; right; exact H].
      + intros [H | H]; [left; left; exact H|]. destruct (IH H) as [H1 | H1]; [left; right; exact H1 | right; exact H1].
  Qed.

  Lemma pod_set_nodup d p : NoDup (map nm d) -> NoDup (map nm (pod_set d p)).
  Proof.
    induction d as [|q d IH]; simpl; intros Hnd.
    - constructor; [intros [] | constructor].
    - inversion Hnd as [|? ? Hq Hd]; subst.
      destruct (N.eqb (d_name (pd p)) (d_name (pd q))) eqn:E; simpl.
      + apply N.eqb_eq in E. constructor; [|exact Hd]. unfold nm at 1. rewrite E. exact Hq.
      + constructor; [|apply IH; exact Hd].
        intros Hin. apply pod_set_names in Hin. destruct Hin as [H | H]; [exact (Hq H)|].
        unfold nm in H. rewrite H in E. rewrite N.eqb_refl in E. discriminate.
  Qed.

  Lemma fold_pod_set_nodup l : forall acc, NoDup (map nm acc) -> NoDup (map nm (fold_left pod_set l acc)).
  Proof. induction l as [|p l IH]; simpl; intros acc H; [exact H|]. apply IH. apply pod_set_nodup. exact H. Qed.

  Lemma kwo_of_nodup d : NoDup (map nm (kwo_of d)).
  Proof. unfold kwo_of. apply fold_pod_set_nodup. constructor. Qed.

  Lemma basisb_sym e a b : basisb e a b = basisb e b a.
  Proof.
    unfold basisb. rewrite (tupb_sym e (pos_of a)), (dictb_sym e (kwo_of a) (kwo_of b) (kwo_of_nodup a) (kwo_of_nodup b)),
      (opt_N_eqb_sym (s_ret a)). reflexivity.
  Qed.

  Lemma basisb_refl e a : basisb e a a = true.
  Proof.
    unfold basisb. rewrite tupb_refl, (dictb_refl e _ (kwo_of_nodup a)). simpl.
    apply opt_N_eqb_eq. reflexivity.
  Qed.

  (* ---- signatures ---- *)

  Notation ueq := (usig_eq aeq).
  Notation g_eq := (py_eq_with aeq (usig_eq aeq)).
  Notation g_ne := (py_ne_with aeq (usig_eq aeq)).
  Notation g_slot := (s_slot_with aeq (usig_eq aeq)).

  Lemma sig_base_eq_obj e self o :
    sig_base_eq aeq e self (SObj o) = Val (N.eqb (sid self) (sid o) || basisb e (sd self) (sd o)).
  Proof. unfold sig_base_eq. destruct (N.eqb (sid self) (sid o)); [reflexivity | apply basis_eq_val]. Qed.

  Lemma s_slot_obj_val e a b : is_val (g_slot e (SObj a) (SObj b)).
  Proof.
    unfold s_slot_with, usig_eq. destruct a as [i d | i d x].
    - rewrite sig_base_eq_obj. eexists; reflexivity.
    - rewrite sig_base_eq_obj.
      destruct (N.eqb (sid (Upgraded i d x)) (sid b) || basisb e (sd (Upgraded i d x)) (sd b));
        destruct b; try (eexists; reflexivity). apply aeq_total.
  Qed.

  Lemma s_slot_no_raise e a b : fok_s a -> g_slot e a b <> Raise.
  Proof.
    intros Ha. destruct a as [a | i fb].
    - destruct b as [b | j fb'].
      + destruct (s_slot_obj_val e a b) as [c Hc]. rewrite Hc. discriminate.
      + unfold s_slot_with, usig_eq, sig_base_eq. destruct a; discriminate.
    - simpl. destruct fb; simpl in *; try discriminate. contradiction.
  Qed.

  Theorem g_eq_total e a b : fok_s a -> fok_s b -> is_val (g_eq e a b).
  Proof. intros Ha Hb. apply richcmp_total; apply s_slot_no_raise; assumption. Qed.

  Lemma s_slot_compat e a b c c' :
    g_slot e (SObj a) b = Val c -> g_slot e b (SObj a) = Val c' -> c = c'.
  Proof.
    destruct b as [b | j fb'].
    - unfold s_slot_with, usig_eq. destruct a as [i d | i d x]; destruct b as [j d' | j d' x'];
        rewrite !sig_base_eq_obj; simpl sid; simpl sd;
        rewrite (N.eqb_sym j i), (basisb_sym e d' d);
        destruct (N.eqb i j || basisb e d d'); try congruence.
    - unfold s_slot_with at 1. unfold usig_eq, sig_base_eq. destruct a; discriminate.
  Qed.

  Theorem g_eq_sym e a b : fok_s b -> g_eq e (SObj a) b = g_eq e b (SObj a).
  Proof.
    intros Hb. apply richcmp_sym.
    - apply s_slot_no_raise. exact I.
    - apply s_slot_no_raise. exact Hb.
    - intros c c'. apply s_slot_compat.
  Qed.

  Theorem g_eq_refl e a : g_eq e (SObj a) (SObj a) = Val true.
  Proof.
    unfold py_eq_with, richcmp. rewrite cls_eqb_refl. simpl.
    destruct a as [i d | i d x]; unfold usig_eq; rewrite ?sig_base_eq_obj; simpl sid;
      rewrite N.eqb_refl; simpl; try reflexivity. rewrite aeq_refl. reflexivity.
  Qed.

  Theorem g_ne_neg e a b : g_ne e a b = ne_of_eq (g_eq e a b).
  Proof. apply richcmp_ne. Qed.

  (* an upgraded signature and a plain one over the same data are equal, both ways *)
  Theorem g_eq_plain e i j d x :
    g_eq e (SObj (Upgraded i d x)) (SObj (Plain j d)) = Val true
    /\ g_eq e (SObj (Plain j d)) (SObj (Upgraded i d x)) = Val true.
  Proof.
    unfold py_eq_with, richcmp. simpl. unfold usig_eq. rewrite !sig_base_eq_obj. simpl sd.
    rewrite basisb_refl, !orb_true_r. split; reflexivity.
  Qed.

End Generic.

(* ------------------------------------------------------------------ *)
(* the current tree: UpgradedAnnotation.__eq__ after f8d05b6            *)

Lemma uann_eq_total e a b : is_val (uann_eq e a b).
Proof.
  unfold uann_eq, is_val. destruct (N.eqb (a_id a) (a_id b)); [eauto|].
  destruct (source_value e (a_u a)); destruct (source_value e (a_u b)); eauto.
Qed.

Lemma uneval_eqb_sym x y : uneval_eqb x y = uneval_eqb y x.
Proof.
  destruct x, y; simpl; try reflexivity; [apply N.eqb_sym|].
  rewrite (N.eqb_sym raw), (N.eqb_sym g). reflexivity.
Qed.

Lemma uann_eq_sym e a b : uann_eq e a b = uann_eq e b a.
Proof.
  unfold uann_eq. rewrite (N.eqb_sym (a_id b)). destruct (N.eqb (a_id a) (a_id b)); [reflexivity|].
  rewrite (uneval_eqb_sym (unevaluated e b)).
  destruct (source_value e (a_u a)); destruct (source_value e (a_u b)); try reflexivity.
  rewrite opt_N_eqb_sym. reflexivity.
Qed.

Lemma uann_eq_refl e a : uann_eq e a a = Val true.
Proof. unfold uann_eq. rewrite N.eqb_refl. reflexivity. Qed.

Ltac inst := first [exact uann_eq_total | exact uann_eq_sym | exact uann_eq_refl].

(* == never raises (for every environment, every pair of objects) *)
Theorem eq_total e a b : fok_s a -> fok_s b -> exists c, py_eq e a b = Val c.
Proof. apply g_eq_total; inst. Qed.
Example eq_total_ex : fok_s (Foreign 5 FNotImpl) /\ fok_s (SObj (Plain 1 (mkSD [] None))).
Proof. split; exact I. Qed.

Theorem eq_refl_s e s : py_eq e (SObj s) (SObj s) = Val true.
Proof. apply g_eq_refl; inst. Qed.

Theorem eq_sym_s e s b : fok_s b -> py_eq e (SObj s) b = py_eq e b (SObj s).
Proof. apply g_eq_sym; inst. Qed.
Example eq_sym_ex : fok_s (Foreign 7 (FConst true)). Proof. exact I. Qed.

Theorem eq_plain e i j d x :
  py_eq e (SObj (Upgraded i d x)) (SObj (Plain j d)) = Val true
  /\ py_eq e (SObj (Plain j d)) (SObj (Upgraded i d x)) = Val true.
Proof. apply g_eq_plain; inst. Qed.

Theorem ne_neg e a b : py_ne e a b = ne_of_eq (py_eq e a b).
Proof. apply richcmp_ne. Qed.

(* the same for parameters *)
Theorem peq_total e a b : fok_p a -> fok_p b -> exists c, ppy_eq e a b = Val c.
Proof. apply p_eq_total; inst. Qed.

Theorem peq_refl e p : ppy_eq e (PObj p) (PObj p) = Val true.
Proof. apply p_eq_refl; inst. Qed.

Theorem peq_sym e p b : fok_p b -> ppy_eq e (PObj p) b = ppy_eq e b (PObj p).
Proof. apply p_eq_sym; inst. Qed.

Theorem peq_plain e i j d x :
  ppy_eq e (PObj (PUpgraded i d x)) (PObj (PPlain j d)) = Val true
  /\ ppy_eq e (PObj (PPlain j d)) (PObj (PUpgraded i d x)) = Val true.
Proof.
  unfold ppy_eq, p_eq, richcmp. simpl. unfold uparam_eq, param_base_eq. simpl.
  assert (H : pdata_eqb d d = true) by (apply pdata_eqb_eq; reflexivity).
  rewrite H. destruct (N.eqb i j); split; reflexivity.
Qed.

Theorem pne_neg e a b : ppy_ne e a b = ne_of_eq (ppy_eq e a b).
Proof. apply richcmp_ne. Qed.

(* ------------------------------------------------------------------ *)
(* hashing                                                             *)

Section HashFacts.
  Variable vhash_ok : option N -> bool.
  Variables (hname : N -> N) (hkind : kind -> N) (hval : option N -> N) (htuple hfset : list N -> N).

  Notation PH := (py_hash vhash_ok hname hkind hval htuple hfset).
  Notation PPH := (p_hash vhash_ok hname hkind hval htuple).

  (* hashable exactly when the plain counterpart is, with the same hash *)
  Theorem hash_as_plain i j d x : PH (Upgraded i d x) = PH (Plain j d).
  Proof. reflexivity. Qed.

  Theorem hashable_as_plain i j d x :
    hashable vhash_ok hname hkind hval htuple hfset (Upgraded i d x)
    = hashable vhash_ok hname hkind hval htuple hfset (Plain j d).
  Proof. reflexivity. Qed.

  Theorem phash_as_plain i j d x : PPH (PUpgraded i d x) = PPH (PPlain j d).
  Proof. reflexivity. Qed.

  (* a class body with __eq__ and without __hash__ is unhashable: the rule the
     pre-fix code ran into *)
  Theorem no_hash_unhashable uc s :
    def_eq uc = true -> def_hash uc = false ->
    py_hash_with vhash_ok hname hkind hval htuple hfset uc (Upgraded (sid s) (sd s) (mkSX (mkA 1 UEmpty) [] [])) = None.
  Proof. intros H1 H2. unfold py_hash_with, has_hash. simpl. rewrite H1, H2. reflexivity. Qed.

  (* equal parameters hash equal *)
  Lemma pslot_true_data e a b :
    p_slot uann_eq e (PObj a) (PObj b) = Val true -> N.eqb (pid a) (pid b) || pdata_eqb (pd a) (pd b) = true.
  Proof.
    unfold p_slot, uparam_eq. destruct a as [i d | i d x]; rewrite param_base_eq_obj.
    - intros H. inversion H. reflexivity.
    - destruct (N.eqb (pid (PUpgraded i d x)) (pid b) || pdata_eqb (pd (PUpgraded i d x)) (pd b)); [reflexivity|].
      destruct b; discriminate.
  Qed.

  Lemma ppy_eq_true_data e a b :
    ppy_eq e (PObj a) (PObj b) = Val true -> N.eqb (pid a) (pid b) || pdata_eqb (pd a) (pd b) = true.
  Proof.
    unfold ppy_eq, p_eq, richcmp.
    destruct (p_slot_obj_val uann_eq uann_eq_total e a b) as [c1 H1].
    destruct (p_slot_obj_val uann_eq uann_eq_total e b a) as [c2 H2].
    rewrite H1, H2.
    destruct (negb (cls_eqb (pany_cls (PObj a)) (pany_cls (PObj b))) && proper_subclass (pany_cls (PObj b)) (pany_cls (PObj a)));
      intros H; inversion H; subst.
    - apply pslot_true_data in H2. rewrite N.eqb_sym, pdata_eqb_sym. exact H2.
    - apply pslot_true_data in H1. exact H1.
  Qed.

  Lemma p_hash_pd a b : pd a = pd b -> PPH a = PPH b.
  Proof. destruct a, b; simpl; intros H; subst; reflexivity. Qed.

  Theorem peq_hash e a b :
    (pid a = pid b -> pd a = pd b) ->          (* one identity, one object *)
    ppy_eq e (PObj a) (PObj b) = Val true -> PPH a = PPH b.
  Proof.
    intros Hid H. apply p_hash_pd. apply ppy_eq_true_data in H. apply orb_true_iff in H.
    destruct H as [H | H]; [apply Hid; apply N.eqb_eq; exact H | apply pdata_eqb_eq; exact H].
  Qed.
End HashFacts.

(* ------------------------------------------------------------------ *)
(* replace                                                             *)

Theorem replace_param newid d x r p' :
  uparam_replace newid d x r = Ok p' ->
  exists d' x', p' = PUpgraded newid d' x'
    /\ x_uann x' = dflt (r_uann r) (x_uann x) /\ x_srcs x' = dflt (r_srcs r) (x_srcs x)
    /\ x_deps x' = dflt (r_deps r) (x_deps x) /\ x_fn x' = dflt (r_fn r) (x_fn x)
    /\ d_name d' = dflt (r_name r) (d_name d) /\ d_kind d' = dflt (r_kind r) (d_kind d)
    /\ d_def d' = dflt (r_def r) (d_def d) /\ d_ann d' = dflt (r_ann r) (d_ann d).
Proof.
  unfold uparam_replace. destruct (pdata_valid _); intros H; inversion H; subst.
  eexists; eexists. repeat split; reflexivity.
Qed.
Example replace_param_ex :
  uparam_replace 9 (mkPD 1 PK None (Some 11)) (mkPX (mkA 5 (UPre 11)) [100] [(100, 0)] (Some 100))
                 (mkPR None None None (Some (Some 12)) None None None None)
  = Ok (PUpgraded 9 (mkPD 1 PK None (Some 12)) (mkPX (mkA 5 (UPre 11)) [100] [(100, 0)] (Some 100))).
Proof. reflexivity. Qed.

Lemma upgrade_params_upgraded ps : forall n, Forall (fun p => p_is_upgraded p = true) (upgrade_params n ps).
Proof. induction ps as [|[i d | i d x] ps IH]; intros n; simpl; constructor; auto. Qed.

Lemma upgrade_params_keeps ps : forall n p, p_is_upgraded p = true -> In p ps -> In p (upgrade_params n ps).
Proof.
  induction ps as [|[i d | i d x] ps IH]; intros n p Hp Hin; simpl in *; [contradiction| |].
  - destruct Hin as [H | H]; [subst; discriminate | right; apply IH; assumption].
  - destruct Hin as [H | H]; [left; exact H | right; apply IH; assumption].
Qed.

Lemma upgrade_params_data ps : forall n, map pd (upgrade_params n ps) = map pd ps.
Proof. induction ps as [|[i d | i d x] ps IH]; intros n; simpl; try rewrite IH; reflexivity. Qed.

Theorem replace_sig newid d x r s' :
  usig_replace newid d x r = Ok s' ->
  exists d' x', s' = Upgraded newid d' x'
    /\ x_uret x' = dflt (r_uret r) (x_uret x)
    /\ (r_sources r = None -> x_ssrcs x' = x_ssrcs x /\ x_sdeps x' = x_sdeps x)
    /\ (forall m, r_sources r = Some m -> x_ssrcs x' = fst m /\ x_sdeps x' = snd m)
    /\ s_ret d' = dflt (r_ret r) (s_ret d)
    /\ (r_params r = None -> s_params d' = s_params d)
    /\ (forall ps, r_params r = Some ps ->
          map pd (s_params d') = map pd ps
          /\ Forall (fun p => p_is_upgraded p = true) (s_params d')
          /\ (forall p, p_is_upgraded p = true -> In p ps -> In p (s_params d')))
    /\ validate (map to_param (s_params d')) = true.
Proof.
  unfold usig_replace. destruct (validate _) eqn:V; intros H; inversion H; subst. clear H.
  eexists; eexists. split; [reflexivity|]. simpl.
  split; [reflexivity|].
  split; [intros E; rewrite E; split; reflexivity|].
  split; [intros m E; rewrite E; split; reflexivity|].
  split; [reflexivity|].
  split; [intros E; rewrite E; reflexivity|].
  split; [intros ps E; rewrite E; split; [apply upgrade_params_data | split;
          [apply upgrade_params_upgraded | intros p Hp Hin; apply upgrade_params_keeps; assumption]]|].
  exact V.
Qed.
Example replace_sig_ex :
  exists s', usig_replace 9 (mkSD [PUpgraded 2 (mkPD 1 PK None None) (mkPX (mkA 1 UEmpty) [100] [] None)] None)
                          (mkSX (mkA 6 (UPre 11)) [(1, [100])] [(100, 0)])
                          (mkSR None (Some (Some 12)) None None) = Ok s'.
Proof. eexists. reflexivity. Qed.

(* str / bind / bind_partial are inherited: same function, same parameters *)
Theorem bind_as_plain i j d x c : sig_accepts (Upgraded i d x) c = sig_accepts (Plain j d) c.
Proof. reflexivity. Qed.

Theorem params_as_plain i j d x : s_params (sd (Upgraded i d x)) = s_params (sd (Plain j d)).
Proof. reflexivity. Qed.

(* ------------------------------------------------------------------ *)
(* Legacy: the bodies before the repairs, kept as a record that the     *)
(* model distinguishes them                                             *)

Section Legacy.
  (* before 9eec5d0:
       if not super().__eq__(other): return False
       return self.upgraded_return_annotation == other.upgraded_return_annotation
     NotImplemented is truthy, a non-upgraded `other` has no such attribute *)
  Definition usig_eq_legacy (aeq : env -> aobj -> aobj -> out)
             (e : env) (self : sobj) (x : sextra) (other : sany) : out :=
    match sig_base_eq aeq e self other with
    | Val false => Val false
    | Raise => Raise
    | _ => match other with
           | SObj (Upgraded _ _ x') => aeq e (x_uret x) (x_uret x')
           | _ => Raise                       (* AttributeError *)
           end
    end.

  Definition py_eq_legacy := py_eq_with uann_eq_pre (usig_eq_legacy uann_eq_pre).
  Definition usig_cls_legacy := mkCls true false.       (* __eq__ without __hash__ *)

  Definition e0 := mkEnv [] [].
  Definition u0 := Upgraded 1 (mkSD [] None) (mkSX (mkA 1 UEmpty) [] []).

  (* sig == None, sig == inspect.Signature() raised *)
  Theorem total_refuted_legacy : exists a b, fok_s a /\ fok_s b /\ py_eq_legacy e0 a b = Raise.
  Proof. exists (SObj u0), (Foreign 2 FNotImpl). split; [exact I|]. split; [exact I|]. vm_compute. reflexivity. Qed.

  Theorem plain_refuted_legacy :
    py_eq_legacy e0 (SObj u0) (SObj (Plain 2 (mkSD [] None))) = Raise
    /\ py_eq_legacy e0 (SObj (Plain 2 (mkSD [] None))) (SObj u0) = Raise.
  Proof. split; vm_compute; reflexivity. Qed.

  Theorem hashable_refuted_legacy :
    py_hash_with (fun _ => true) (fun _ => 0) (fun _ => 0) (fun _ => 0) (fun _ => 0) (fun _ => 0)
                 usig_cls_legacy u0 = None
    /\ py_hash_with (fun _ => true) (fun _ => 0) (fun _ => 0) (fun _ => 0) (fun _ => 0) (fun _ => 0)
                 usig_cls_legacy (Plain 2 (mkSD [] None)) <> None.
  Proof. split; vm_compute; [reflexivity | discriminate]. Qed.

  (* before f8d05b6: a postponed annotation that does not evaluate made even
     s == s raise, with the 9eec5d0 body of UpgradedSignature.__eq__ *)
  Definition u1 := Upgraded 1 (mkSD [] None) (mkSX (mkA 7 (UPost 3 100)) [] []).
  Theorem refl_refuted_pre_f8d05b6 : py_eq_with uann_eq_pre (usig_eq uann_eq_pre) e0 (SObj u1) (SObj u1) = Raise.
  Proof. vm_compute. reflexivity. Qed.
End Legacy.

(* ------------------------------------------------------------------ *)
(* equal signatures hash equal                                         *)

Notation cpb := (pb uann_eq).
Notation cdictb := (dictb uann_eq).
Notation ctupb := (tupb uann_eq).
Notation cbasisb := (basisb uann_eq).

Lemma sslot_true_base e a b :
  s_slot e (SObj a) (SObj b) = Val true -> N.eqb (sid a) (sid b) || cbasisb e (sd a) (sd b) = true.
Proof.
  unfold s_slot, s_slot_with, usig_eq. destruct a as [i d | i d x]; rewrite (sig_base_eq_obj uann_eq uann_eq_total).
  - intros H. inversion H. reflexivity.
  - destruct (N.eqb (sid (Upgraded i d x)) (sid b) || cbasisb e (sd (Upgraded i d x)) (sd b)); [reflexivity|].
    destruct b; discriminate.
Qed.

Lemma py_eq_true_base e a b :
  py_eq e (SObj a) (SObj b) = Val true -> N.eqb (sid a) (sid b) || cbasisb e (sd a) (sd b) = true.
Proof.
  unfold py_eq, py_eq_with, richcmp.
  destruct (s_slot_obj_val uann_eq uann_eq_total e a b) as [c1 H1].
  destruct (s_slot_obj_val uann_eq uann_eq_total e b a) as [c2 H2].
  rewrite H1, H2.
  destruct (negb (cls_eqb (sany_cls (SObj a)) (sany_cls (SObj b))) && proper_subclass (sany_cls (SObj b)) (sany_cls (SObj a)));
    intros H; inversion H; subst.
  - apply sslot_true_base in H2. rewrite N.eqb_sym, (basisb_sym uann_eq uann_eq_total uann_eq_sym). exact H2.
  - apply sslot_true_base in H1. exact H1.
Qed.

Lemma cpb_data e x y : (pid x = pid y -> pd x = pd y) -> cpb e x y = true -> pd x = pd y.
Proof.
  intros Hid. unfold pb, p_eq_bool. destruct (N.eqb (pid x) (pid y)) eqn:E.
  - intros _. apply Hid. apply N.eqb_eq. exact E.
  - intros H. destruct (p_eq uann_eq e (PObj x) (PObj y)) as [[|]| |] eqn:E2; try discriminate.
    apply ppy_eq_true_data in E2. rewrite E in E2. simpl in E2. apply pdata_eqb_eq. exact E2.
Qed.

Definition idc (la lb : list pobj) : Prop :=
  forall x y, In x la -> In y lb -> pid x = pid y -> pd x = pd y.

Lemma ctupb_data e la : forall lb, idc la lb -> ctupb e la lb = true -> map pd la = map pd lb.
Proof.
  induction la as [|x la IH]; intros [|y lb] Hid; simpl; try discriminate; [reflexivity|].
  intros H. apply andb_true_iff in H. destruct H as [H1 H2]. f_equal.
  - apply (cpb_data e); [apply Hid; left; reflexivity | exact H1].
  - apply IH; [|exact H2]. intros x' y' Hx Hy. apply Hid; right; assumption.
Qed.

Lemma cdictb_incl e a b : idc a b -> cdictb e a b = true -> incl (map pd a) (map pd b).
Proof.
  intros Hid H d Hd. unfold dictb in H. apply andb_true_iff in H. destruct H as [_ H].
  rewrite forallb_forall in H. apply in_map_iff in Hd. destruct Hd as [x [Hx1 Hx2]].
  specialize (H x Hx2). unfold dent in H. destruct (pfind (nm x) b) as [y|] eqn:E; [|discriminate].
  apply pfind_some in E. destruct E as [Hy _]. subst d.
  rewrite (cpb_data e x y (Hid x y Hx2 Hy) H). apply in_map. exact Hy.
Qed.

Lemma nodup_pd l : NoDup (map nm l) -> NoDup (map pd l).
Proof.
  intros H. apply (NoDup_map_inv d_name). rewrite map_map. exact H.
Qed.

Lemma cdictb_perm e a b :
  idc a b -> NoDup (map nm a) -> NoDup (map nm b) -> cdictb e a b = true ->
  Permutation (map pd a) (map pd b).
Proof.
  intros Hid Ha Hb H. apply NoDup_Permutation; [apply nodup_pd; exact Ha | apply nodup_pd; exact Hb|].
  intros d. split.
  - apply (cdictb_incl e a b Hid H).
  - apply (cdictb_incl e b a).
    + intros y x Hy Hx E. symmetry. apply Hid; [exact Hx | exact Hy | symmetry; exact E].
    + apply (dictb_true_sym uann_eq uann_eq_total uann_eq_sym); assumption.
Qed.

Definition issome (o : option N) : bool := match o with Some _ => true | None => false end.
Definition unw (o : option N) : N := match o with Some x => x | None => 0 end.

Lemma all_some_char l : all_some l = if forallb issome l then Some (map unw l) else None.
Proof.
  induction l as [|o l IH]; simpl; [reflexivity|]. rewrite IH.
  destruct o; simpl; [|reflexivity]. destruct (forallb issome l); reflexivity.
Qed.

Lemma forallb_perm A (f : A -> bool) l l' : Permutation l l' -> forallb f l = forallb f l'.
Proof.
  induction 1; simpl; try reflexivity.
  - rewrite IHPermutation. reflexivity.
  - destruct (f x), (f y); reflexivity.
  - congruence.
Qed.

Lemma pod_set_in d p x : In x (pod_set d p) -> x = p \/ In x d.
Proof.
  induction d as [|q d IH]; simpl.
  - intros [H | []]. left. symmetry. exact H.
  - destruct (N.eqb (d_name (pd p)) (d_name (pd q))); simpl.
    + intros [H | H]; [left; symmetry; exact H | right; right; exact H].
    + intros [H | H]; [right; left; exact H|]. destruct (IH H) as [H1 | H1]; [left; exact H1 | right; right; exact H1].
Qed.

Lemma fold_pod_set_in l : forall acc x, In x (fold_left pod_set l acc) -> In x l \/ In x acc.
Proof.
  induction l as [|p l IH]; simpl; intros acc x H; [right; exact H|].
  destruct (IH _ _ H) as [H1 | H1]; [left; right; exact H1|].
  apply pod_set_in in H1. destruct H1 as [H1 | H1]; [left; left; symmetry; exact H1 | right; exact H1].
Qed.

Lemma kwo_of_in d x : In x (kwo_of d) -> In x (s_params d).
Proof.
  unfold kwo_of. intros H. apply fold_pod_set_in in H. destruct H as [H | []].
  apply filter_In in H. destruct H as [H _]. exact H.
Qed.

Lemma pos_of_in d x : In x (pos_of d) -> In x (s_params d).
Proof. unfold pos_of. intros H. apply filter_In in H. destruct H as [H _]. exact H. Qed.

Section HashThm.
  Variable vhash_ok : option N -> bool.
  Variables (hname : N -> N) (hkind : kind -> N) (hval : option N -> N) (htuple hfset : list N -> N).
  (* a frozenset's hash does not depend on the order of its elements *)
  Hypothesis hfset_perm : forall l l', Permutation l l' -> hfset l = hfset l'.

  Notation PH := (py_hash vhash_ok hname hkind hval htuple hfset).
  Notation PPH := (p_hash vhash_ok hname hkind hval htuple).

  Definition ph (d : pdata) : option N :=
    if pdata_hashable vhash_ok d then Some (pdata_hash hname hkind hval htuple d) else None.

  Lemma p_hash_ph p : PPH p = ph (pd p).
  Proof. destruct p; reflexivity. Qed.

  Lemma map_p_hash l : map PPH l = map ph (map pd l).
  Proof. rewrite map_map. apply map_ext. apply p_hash_ph. Qed.

  Theorem eq_hash e a b :
    (sid a = sid b -> sd a = sd b) ->                      (* one identity, one object *)
    idc (s_params (sd a)) (s_params (sd b)) ->
    py_eq e (SObj a) (SObj b) = Val true -> PH a = PH b.
  Proof.
    intros Hsid Hid H. apply py_eq_true_base in H.
    assert (Hph : forall s, PH s = sdata_hash vhash_ok hname hkind hval htuple hfset (sd s))
      by (intros [? ? | ? ? ?]; reflexivity).
    rewrite !Hph. apply orb_true_iff in H. destruct H as [H | H].
    { apply N.eqb_eq in H. rewrite (Hsid H). reflexivity. }
    unfold basisb in H. apply andb_true_iff in H. destruct H as [H Hret].
    apply andb_true_iff in H. destruct H as [Htup Hdict].
    apply opt_N_eqb_eq in Hret.
    assert (Hpos : map pd (pos_of (sd a)) = map pd (pos_of (sd b))).
    { apply (ctupb_data e); [|exact Htup]. intros x y Hx Hy. apply Hid; [apply pos_of_in; exact Hx | apply pos_of_in; exact Hy]. }
    assert (Hkwo : Permutation (map pd (kwo_of (sd a))) (map pd (kwo_of (sd b)))).
    { apply (cdictb_perm e); [|apply kwo_of_nodup|apply kwo_of_nodup|exact Hdict].
      intros x y Hx Hy. apply Hid; [apply kwo_of_in; exact Hx | apply kwo_of_in; exact Hy]. }
    unfold sdata_hash. rewrite !map_p_hash, Hpos, Hret, !all_some_char.
    apply (Permutation_map ph) in Hkwo.
    rewrite (forallb_perm _ issome _ _ Hkwo).
    destruct (forallb issome (map ph (map pd (pos_of (sd b))))); [|reflexivity].
    destruct (forallb issome (map ph (map pd (kwo_of (sd b))))); [|reflexivity].
    rewrite (hfset_perm _ _ (Permutation_map unw Hkwo)). reflexivity.
  Qed.
End HashThm.

Example eq_hash_ex :
  let a := Upgraded 1 (mkSD [PUpgraded 3 (mkPD 1 KO None None) (mkPX (mkA 1 UEmpty) [] [] None)] None) (mkSX (mkA 1 UEmpty) [] []) in
  let b := Plain 2 (mkSD [PPlain 4 (mkPD 1 KO None None)] None) in
  (sid a = sid b -> sd a = sd b) /\ idc (s_params (sd a)) (s_params (sd b))
  /\ py_eq (mkEnv [] []) (SObj a) (SObj b) = Val true.
Proof.
  simpl. split; [discriminate|]. split; [|vm_compute; reflexivity].
  intros x y [Hx | []] [Hy | []] _. subst. reflexivity.
Qed.
