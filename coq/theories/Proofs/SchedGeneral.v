(* C17 - sequentiality for EVERY exclusive schedule, any number of threads.

   Machine W (delete / restore window, Model/Sched.v):
     [sequential_exclusive]  for any cfg, any initial attributes, any list of
        thread kinds and any schedule with [exclusive c st sched = true] (no
        step that reads / changes the shared attributes, and no step entering
        the window, is taken while ANOTHER thread is inside its window), every
        finished thread returned [seq_answer], i.e. what it returns alone; and
        at quiescence the attributes are the initial ones.
     [nonsequential_needs_overlap]  the converse characterisation, for ALL
        schedules: a finished thread with a non-sequential answer exists only
        if the schedule is not exclusive (the statement the bounded enumeration
        of Proofs/SchedBounded.v checks for 2-3 threads and <= 2 preemptions).
     [plan_sequential_exclusive]  the same for plans (run_plan / plan_excl).
   Machine G (as_forged recursion guard):
     [guard_sequential_exclusive]  for any number of threads and any schedule in
        which the guard check (:65) and the add (:68) are only executed while no
        thread is between its add and its discard, every finished thread has
        the forged answer, nobody leaves the modelled region, the guard set is
        empty whenever no thread is in its region.
     [guard_clear_at_quiescence]  unconditional: when all threads are done the
        guard set is empty.
     [guard_wrong_needs_overlap]  converse for all schedules.

   [exclusive] is sufficient, not necessary ([exclusive_not_necessary]). *)
From Coq Require Import List NArith Bool Arith Lia.
Import ListNotations.
From Sigtools.Model Require Import Sched.
From Sigtools.Proofs Require Import Sched.
Open Scope nat_scope.

(* ------------------------------------------------------------------ *)
(** * Machine W *)

Definition attr_lt (a b : attr) : bool :=
  match a, b with AW, AS => true | _, _ => false end.

(* the thread, being at p inside its own window, has seen attribute a absent or
   has deleted it, and has not put it back yet *)
Definition expect_absent (a : attr) (p : pc) : bool :=
  match p with
  | E444 (Some a') | E445 a' | E445b a' | E446 a' | E446k a' | E446g a' | E447 a' => attr_lt a a'
  | E444 None => true
  | E448 a' | E449 a' | E451 a' => attr_le a a'
  | A473 | A460 | A459x => true
  | X454 (Some a') | X455 a' => attr_le a' a
  | _ => false
  end.

Definition Kth (s : store) (th : thread) : Prop :=
  forall a, expect_absent a (th_pc th) = true -> sget s a = None.

Lemma expect_in_window : forall a p, expect_absent a p = true -> in_window p = true.
Proof. intros a p H. destruct p; simpl in *; try reflexivity; try discriminate. Qed.

Ltac crush :=
  simpl in *;
  repeat (match goal with
          | H : exists _, _ |- _ => destruct H
          | H : _ /\ _ |- _ => destruct H
          | H : true = true -> _ |- _ => specialize (H eq_refl)
          | H : false = true -> _ |- _ => clear H
          | H : Some _ = Some _ |- _ => inversion H; subst; clear H
          | H : Some _ = None |- _ => discriminate H
          | H : None = Some _ |- _ => discriminate H
          | |- _ /\ _ => split
          | |- forall _, _ => intro
          | a : attr |- _ => destruct a
          | o : option N |- _ => destruct o
          | o : option attr |- _ => destruct o
          end; simpl in *);
  try discriminate; try congruence; try lia; eauto.

Section W.
Variable c : cfg.
Variable init : store.

(* what the thread knows after its reads, and where segments may lead *)
Definition post_ok (th : thread) : Prop :=
  match th_pc th with
  | PStart => True
  | PDone => th_ans th = Some (seq_answer c init (th_kind th))
  | PSeg _ (E444 (Some AW)) => th_kind th = KSig
  | PSeg _ A466 | A466 => th_kind th = KSig /\ th_sigv th = VRaw /\ star c VRaw = true
  | PSeg _ F119 | F119 => th_kind th = KSig /\ star c VRaw = false
  | PSeg _ PDone => th_ans th = Some (seq_answer c init (th_kind th))
  | PSeg _ _ => False
  | A459x | X454 _ | X455 _ | A461 => th_kind th = KSig /\ th_sigv th = VRaw
  | _ => th_kind th = KSig
  end.

Lemma post_ok_push : forall th, post_ok th -> post_ok (push_trace th).
Proof.
  intros th H. unfold post_ok in *.
  rewrite push_trace_pc, push_trace_kind, push_trace_sigv, push_trace_ans. exact H.
Qed.

Lemma Kth_push : forall s th, Kth s th -> Kth s (push_trace th).
Proof. intros s th H. unfold Kth in *. rewrite push_trace_pc. exact H. Qed.

(* one line of the thread itself keeps its knowledge about absent attributes *)
Lemma exec_K : forall s th s' th',
  post_ok th -> Kth s th -> exec c s th = Some (s', th') -> Kth s' th'.
Proof.
  intros s th s' th' Hpo HK Hex.
  destruct th as [k p [sw ss] vl sg an tr]. destruct s as [w0 s0].
  unfold Kth in *. unfold post_ok in Hpo. simpl in *.
  pose proof (HK AW) as KW. pose proof (HK AS) as KS. clear HK.
  unfold exec in Hex. simpl in *.
  destruct p; simpl in *.
  - (* PStart *) destruct k; inversion Hex; subst; clear Hex; crush.
  - (* PSeg *)
    inversion Hex; subst; clear Hex.
    destruct (seg_cases (tl l) p) as [E | [x [r E]]]; rewrite E; clear E.
    + destruct p; try contradiction; simpl.
      * destruct oa as [[|]|]; try contradiction. crush.
      * crush.
      * crush.
      * crush.
    + crush.
  - (* E444 *) destruct oa as [a0|]; inversion Hex; subst; clear Hex; crush.
  - (* E445 *) inversion Hex; subst; clear Hex; crush.
  - (* E445b *) inversion Hex; subst; clear Hex; crush.
  - (* E446 *)
    destruct a; simpl in *.
    + destruct w0; inversion Hex; subst; clear Hex; crush.
    + destruct s0; inversion Hex; subst; clear Hex; crush.
  - (* E446k *) inversion Hex; subst; clear Hex; crush.
  - (* E446g *)
    destruct a; simpl in *.
    + destruct w0; inversion Hex; subst; clear Hex; crush.
    + destruct s0; inversion Hex; subst; clear Hex; crush.
  - (* E447 *)
    destruct a; simpl in *.
    + destruct w0; inversion Hex; subst; clear Hex; crush.
    + destruct s0; inversion Hex; subst; clear Hex; crush.
  - (* E448 *) inversion Hex; subst; clear Hex; crush.
  - (* E449 *) inversion Hex; subst; clear Hex; crush.
  - (* E451 *) inversion Hex; subst; clear Hex; crush.
  - (* A473 *) inversion Hex; subst; clear Hex; crush.
  - (* A460 *) inversion Hex; subst; clear Hex; crush.
  - (* A459x *) inversion Hex; subst; clear Hex; crush.
  - (* X454 *)
    destruct oa as [a0|].
    + destruct a0; simpl in *; destruct sw; destruct ss; simpl in *; inversion Hex; subst; clear Hex; crush.
    + inversion Hex; subst; clear Hex. crush.
  - (* X455 *) inversion Hex; subst; clear Hex; crush.
  - (* A461 *) destruct (star c sg); inversion Hex; subst; clear Hex; crush.
  - (* A466 *) inversion Hex; subst; clear Hex; crush.
  - (* F119 *) inversion Hex; subst; clear Hex; crush.
  - discriminate.
Qed.

(* one line of the thread itself: if its reads see what they see alone, it stays
   on the path of the solo run *)
Lemma exec_post : forall s th s' th',
  post_ok th ->
  (th_pc th = A460 -> view_of s = VRaw) ->
  (th_pc th = F119 \/ (th_pc th = PStart /\ th_kind th = KPlain) -> s = init) ->
  exec c s th = Some (s', th') -> post_ok th'.
Proof.
  intros s th s' th' Hpo Hread Hinit Hex.
  destruct th as [k p sv vl sg an tr].
  unfold post_ok in *. unfold exec in Hex. simpl in *.
  destruct p; simpl in *.
  - (* PStart *)
    destruct k; inversion Hex; subst; clear Hex; simpl; auto.
    rewrite Hinit; auto.
  - (* PSeg *)
    inversion Hex; subst; clear Hex.
    destruct (seg_cases (tl l) p) as [E | [x [r E]]]; rewrite E; clear E; simpl.
    + destruct p; try contradiction; simpl; auto.
      destruct oa as [[|]|]; try contradiction. auto.
    + exact Hpo.
  - destruct oa as [a0|]; inversion Hex; subst; clear Hex; simpl; auto.
  - inversion Hex; subst; clear Hex; simpl; auto.
  - inversion Hex; subst; clear Hex; simpl; auto.
  - destruct (sget s a); inversion Hex; subst; clear Hex; simpl; auto.
  - inversion Hex; subst; clear Hex; simpl; auto.
  - destruct (sget s a); inversion Hex; subst; clear Hex; simpl; auto.
  - destruct (sget s a); inversion Hex; subst; clear Hex; simpl; auto.
  - inversion Hex; subst; clear Hex; simpl; auto.
  - inversion Hex; subst; clear Hex; simpl; auto.
  - inversion Hex; subst; clear Hex; simpl; auto.
  - inversion Hex; subst; clear Hex; simpl; auto.
  - (* A460 *) inversion Hex; subst; clear Hex; simpl. split; auto.
  - (* A459x *) inversion Hex; subst; clear Hex; simpl; auto.
  - (* X454 *)
    destruct oa as [a0|].
    + destruct (find_item sv a0); inversion Hex; subst; clear Hex; simpl; auto.
    + inversion Hex; subst; clear Hex; simpl; auto.
  - inversion Hex; subst; clear Hex; simpl; auto.
  - (* A461 *)
    destruct Hpo as [Hk Hsg]. subst sg.
    destruct (star c VRaw) eqn:Es; inversion Hex; subst; clear Hex; simpl; auto.
  - (* A466 *)
    destruct Hpo as [Hk [Hsg Hs]]. subst sg k.
    inversion Hex; subst; clear Hex; simpl. rewrite Hs. reflexivity.
  - (* F119 *)
    destruct Hpo as [Hk Hs]. subst k.
    inversion Hex; subst; clear Hex; simpl. rewrite Hs. rewrite Hinit; auto.
  - discriminate.
Qed.

(* a line that is not sensitive neither changes the store nor enters the window *)
Lemma exec_nonsensitive : forall s th s' th',
  sensitive th = false -> exec c s th = Some (s', th') -> s' = s.
Proof.
  intros s th s' th' Hs Hex. destruct th as [k p sv vl sg an tr].
  unfold sensitive in Hs. unfold exec in Hex. simpl in *.
  destruct p; simpl in *; try discriminate; try (inversion Hex; auto; fail).
  - destruct k; try discriminate. inversion Hex; auto.
  - destruct (star c sg); inversion Hex; auto.
Qed.

(* ---------------------------------------------------------------- the global invariant *)
Definition J (st : state) : Prop :=
  Inv init st
  /\ Forall post_ok (g_threads st)
  /\ forall u thu, nth_error (g_threads st) u = Some thu -> Kth (g_store st) thu.

Lemma others_outside_spec : forall l t u thu,
  others_outside l t = true -> u <> t -> nth_error l u = Some thu ->
  in_window (th_pc thu) = false.
Proof.
  induction l as [|h r IH]; intros t u thu Ho Hne Hn.
  - destruct u; discriminate.
  - simpl in Ho. destruct t as [|t'].
    + destruct u as [|u']; [congruence|]. simpl in Hn.
      rewrite forallb_forall in Ho. apply nth_error_In in Hn. specialize (Ho _ Hn).
      destruct (in_window (th_pc thu)); auto; discriminate.
    + apply andb_true_iff in Ho. destruct Ho as [Hh Hr].
      destruct u as [|u']; simpl in Hn.
      * inversion Hn; subst. destruct (in_window (th_pc thu)); auto; discriminate.
      * apply (IH t' u' thu Hr); [lia | exact Hn].
Qed.

Lemma all_outside_no_window : forall st,
  (forall u thu, nth_error (g_threads st) u = Some thu -> in_window (th_pc thu) = false) ->
  no_window_open st = true.
Proof.
  intros st H. unfold no_window_open. apply forallb_forall. intros th Hin.
  apply In_nth_error in Hin. destruct Hin as [u Hu]. rewrite (H _ _ Hu). reflexivity.
Qed.

Lemma Inv_no_window : forall st, Inv init st -> no_window_open st = true -> g_store st = init.
Proof.
  intros st [Hs [_ Hcnt]] Hd.
  assert (He : forall a, sget (g_store st) a = sget init a).
  { intros a. specialize (Hcnt a). unfold no_window_open in Hd. rewrite (holders_outside a _ Hd) in Hcnt.
    destruct (sget (g_store st) a) as [v|] eqn:E.
    - symmetry. apply Hs. exact E.
    - destruct (sget init a); simpl in *; auto; lia. }
  pose proof (He AW) as H1. pose proof (He AS) as H2.
  destruct (g_store st), init. simpl in *. congruence.
Qed.

Lemma sensitive_read : forall th,
  th_pc th = F119 \/ (th_pc th = PStart /\ th_kind th = KPlain) ->
  sensitive th = true /\ in_window (th_pc th) = false.
Proof.
  intros th [H | [H1 H2]]; unfold sensitive.
  - rewrite H. simpl. auto.
  - rewrite H1, H2. simpl. auto.
Qed.

Lemma step_J : forall st t st',
  J st -> step_excl st t = true -> step c st t = Some st' -> J st'.
Proof.
  intros st t st' [HI [HP HK]] Hex Hstep.
  assert (HI' : Inv init st') by (eapply step_Inv; eauto).
  unfold step in Hstep. unfold step_excl in Hex.
  destruct (nth_error (g_threads st) t) as [th|] eqn:Hn; try discriminate.
  unfold step_thread in Hstep.
  destruct (exec c (g_store st) th) as [[s1 th1]|] eqn:He; try discriminate.
  inversion Hstep; subst st'; clear Hstep. simpl in *.
  assert (Hpo : post_ok th) by (eapply Forall_nth_error; eauto).
  assert (HKt : Kth (g_store st) th) by (eapply HK; eauto).
  (* when the step is sensitive every other thread is outside its window *)
  assert (F1 : sensitive th = true -> forall u thu, u <> t ->
               nth_error (g_threads st) u = Some thu -> in_window (th_pc thu) = false).
  { intros Hs u thu Hne Hu. rewrite Hs in Hex. eapply others_outside_spec; eauto. }
  split; [exact HI'|]. split.
  - (* post_ok *)
    apply Forall_update; auto. apply post_ok_push.
    apply (exec_post (g_store st) th s1 th1 Hpo); [| | exact He].
    + intros Hpc. assert (HW := HKt AW). assert (HS := HKt AS). rewrite Hpc in HW, HS.
      simpl in HW, HS. specialize (HW eq_refl). specialize (HS eq_refl).
      unfold view_of. destruct (g_store st) as [w0 s0]. simpl in *. subst. reflexivity.
    + intros Hrd. destruct (sensitive_read th Hrd) as [Hs Hout].
      apply Inv_no_window; auto. apply all_outside_no_window.
      intros u thu Hu. destruct (Nat.eq_dec u t) as [E|E].
      * subst u. rewrite Hn in Hu. inversion Hu; subst. exact Hout.
      * eapply F1; eauto.
  - (* Kth *)
    intros u thu Hu. simpl in Hu. destruct (Nat.eq_dec u t) as [E|E].
    + subst u. rewrite (nth_error_update_same _ _ _ _ Hn) in Hu. inversion Hu; subst thu.
      apply Kth_push. exact (exec_K (g_store st) th s1 th1 Hpo HKt He).
    + rewrite nth_error_update_other in Hu by congruence.
      intros a Hexp. pose proof (expect_in_window _ _ Hexp) as Hin.
      destruct (sensitive th) eqn:Hs.
      * rewrite (F1 eq_refl u thu E Hu) in Hin. discriminate.
      * rewrite (exec_nonsensitive _ _ _ _ Hs He). eapply HK; eauto.
Qed.

Lemma init_J : forall kinds, J (init_state init kinds).
Proof.
  intros kinds. split; [apply init_Inv|]. split.
  - apply Forall_forall. intros th Hin. simpl in Hin. apply in_map_iff in Hin.
    destruct Hin as [k [E _]]. subst th. exact I.
  - intros u thu Hu. simpl in Hu. apply nth_error_In in Hu. apply in_map_iff in Hu.
    destruct Hu as [k [E _]]. subst thu. intros a H. discriminate.
Qed.

Lemma run_J : forall sched st, J st -> exclusive c st sched = true -> J (run c st sched).
Proof.
  induction sched as [|t r IH]; intros st HJ Hex; simpl in *; auto.
  destruct (step c st t) as [st'|] eqn:E.
  - apply andb_true_iff in Hex. destruct Hex as [H1 H2]. apply IH; auto. eapply step_J; eauto.
  - apply IH; auto.
Qed.

Lemma answer_eqb_refl : forall x, answer_eqb x x = true.
Proof. intros [[]|[]]; reflexivity. Qed.

Lemma J_done_answer : forall st th,
  J st -> In th (g_threads st) -> is_done th = true ->
  th_ans th = Some (seq_answer c init (th_kind th)).
Proof.
  intros st th [_ [HP _]] Hin Hd. rewrite Forall_forall in HP. specialize (HP _ Hin).
  unfold post_ok in HP. unfold is_done in Hd. destruct (th_pc th); try discriminate. exact HP.
Qed.

(** The general theorem: any number of threads of any kinds, any exclusive schedule. *)
Theorem sequential_exclusive : forall kinds sched,
  exclusive c (init_state init kinds) sched = true ->
  (forall th, In th (g_threads (run c (init_state init kinds) sched)) -> is_done th = true ->
              th_ans th = Some (seq_answer c init (th_kind th)))
  /\ (all_done (run c (init_state init kinds) sched) = true ->
      g_store (run c (init_state init kinds) sched) = init
      /\ answers_ok c init (run c (init_state init kinds) sched) = true).
Proof.
  intros kinds sched Hex.
  pose proof (run_J sched _ (init_J kinds) Hex) as HJ.
  split.
  - intros th Hin Hd. eapply J_done_answer; eauto.
  - intros Hall. split.
    + apply no_loss. exact Hall.
    + unfold answers_ok. apply forallb_forall. intros th Hin.
      unfold all_done in Hall. rewrite forallb_forall in Hall.
      unfold thread_seq_ok. rewrite (J_done_answer _ _ HJ Hin (Hall _ Hin)). apply answer_eqb_refl.
Qed.

(** Converse characterisation, for ALL schedules and any number of threads: a
    finished thread with a non-sequential answer exists only if the schedule
    lets a sensitive step overlap another thread's window. *)
Theorem nonsequential_needs_overlap : forall kinds sched th,
  In th (g_threads (run c (init_state init kinds) sched)) ->
  is_done th = true ->
  thread_seq_ok c init th = false ->
  exclusive c (init_state init kinds) sched = false.
Proof.
  intros kinds sched th Hin Hd Hbad.
  destruct (exclusive c (init_state init kinds) sched) eqn:E; auto.
  destruct (sequential_exclusive kinds sched E) as [H _].
  unfold thread_seq_ok in Hbad. rewrite (H th Hin Hd) in Hbad.
  rewrite answer_eqb_refl in Hbad. discriminate.
Qed.

(* ---------------------------------------------------------------- plans *)
Lemma J_run_n : forall n st t st',
  J st -> excl_n c st t n = true -> run_n c st t n = Some st' -> J st'.
Proof.
  induction n as [|m IH]; intros st t st' HJ Hex Hr; simpl in *.
  - inversion Hr; subst; auto.
  - destruct (step c st t) as [st1|] eqn:E; try discriminate.
    apply andb_true_iff in Hex. destruct Hex as [H1 H2].
    apply (IH st1 t st'); auto. apply (step_J st t st1); auto.
Qed.

Lemma J_run_done : forall f st t,
  J st -> excl_n c st t f = true -> J (run_done f c st t).
Proof.
  induction f as [|m IH]; intros st t HJ Hex; simpl in *; auto.
  destruct (step c st t) as [st1|] eqn:E; auto.
  apply andb_true_iff in Hex. destruct Hex as [H1 H2].
  apply IH; auto. apply (step_J st t st1); auto.
Qed.

Lemma J_run_plan : forall p st st',
  J st -> plan_excl c st p = true -> run_plan c st p = Some st' -> J st'.
Proof.
  induction p as [|[t [n|]] r IH]; intros st st' HJ Hex Hr; simpl in *.
  - destruct (all_done st); inversion Hr; subst; auto.
  - apply andb_true_iff in Hex. destruct Hex as [H1 H2].
    destruct (run_n c st t n) as [st1|] eqn:E; try discriminate.
    destruct (thread_done st1 t); try discriminate.
    apply (IH st1 st'); auto. apply (J_run_n n st t st1); auto.
  - apply andb_true_iff in Hex. destruct Hex as [H1 H2].
    destruct (thread_done st t); try discriminate.
    apply (IH (run_done FUEL c st t) st'); auto. apply J_run_done; auto.
Qed.

Lemma run_plan_all_done : forall p st st', run_plan c st p = Some st' -> all_done st' = true.
Proof.
  induction p as [|[t [n|]] r IH]; intros st st' Hr; simpl in *.
  - destruct (all_done st) eqn:E; inversion Hr; subst; auto.
  - destruct (run_n c st t n) as [st1|]; try discriminate.
    destruct (thread_done st1 t); try discriminate. eapply IH; eauto.
  - destruct (thread_done st t); try discriminate. eapply IH; eauto.
Qed.

(** Every plan (any number of threads, any number of preemptions) that keeps
    windows disjoint gives sequential answers; this is the unbounded form of
    the verdict computed in Proofs/SchedBounded.v. *)
Theorem plan_sequential_exclusive : forall kinds p st',
  run_plan c (init_state init kinds) p = Some st' ->
  plan_excl c (init_state init kinds) p = true ->
  answers_ok c init st' = true.
Proof.
  intros kinds p st' Hr Hex.
  pose proof (J_run_plan _ _ _ (init_J kinds) Hex Hr) as HJ.
  pose proof (run_plan_all_done _ _ _ Hr) as Hall.
  unfold answers_ok. apply forallb_forall. intros th Hin.
  unfold all_done in Hall. rewrite forallb_forall in Hall.
  unfold thread_seq_ok. rewrite (J_done_answer _ _ HJ Hin (Hall _ Hin)). apply answer_eqb_refl.
Qed.

Theorem plan_nonsequential_needs_overlap : forall kinds p st',
  run_plan c (init_state init kinds) p = Some st' ->
  answers_ok c init st' = false ->
  plan_excl c (init_state init kinds) p = false.
Proof.
  intros kinds p st' Hr Hbad.
  destruct (plan_excl c (init_state init kinds) p) eqn:E; auto.
  rewrite (plan_sequential_exclusive kinds p st' Hr E) in Hbad. discriminate.
Qed.

End W.

(* ---------------------------------------------------------------- "alone" *)
(* [seq_answer] really is what the call returns when it runs alone: a
   one-thread state is exclusive under every schedule, and 80 steps finish it *)
Lemma exclusive_single : forall c sched st th,
  g_threads st = [th] -> exclusive c st sched = true.
Proof.
  intros c sched. induction sched as [|t r IH]; intros st th Hl; simpl; auto.
  destruct (step c st t) as [st'|] eqn:E.
  - assert (Hl' : exists th', g_threads st' = [th']).
    { unfold step in E. rewrite Hl in E. destruct t as [|t']; simpl in E.
      - destruct (step_thread c (g_store st) th) as [[s1 th1]|]; inversion E; subst. simpl. eauto.
      - destruct t'; discriminate. }
    destruct Hl' as [th' Hl']. rewrite (IH st' th' Hl'). rewrite andb_true_r.
    unfold step_excl. rewrite Hl. destruct t as [|t']; simpl.
    + destruct (sensitive th); reflexivity.
    + destruct t'; reflexivity.
  - eapply IH; eauto.
Qed.

Lemma solo_terminates : forall c init k,
  all_done (run c (init_state init [k]) (repeat 0 80)) = true.
Proof.
  intros [[] [] []] [[w|] [s|]] []; vm_compute; reflexivity.
Qed.

Theorem solo_answer : forall c init k th,
  nth_error (g_threads (run c (init_state init [k]) (repeat 0 80))) 0 = Some th ->
  is_done th = true /\ th_kind th = k /\ th_ans th = Some (seq_answer c init k).
Proof.
  intros [[] [] []] [[w|] [s|]] [] th H; vm_compute in H; inversion H; subst; clear H;
    repeat split; reflexivity.
Qed.

(* kinds never change *)
Lemma exec_kind : forall c s th s' th', exec c s th = Some (s', th') -> th_kind th' = th_kind th.
Proof.
  intros c s th s' th' H. destruct th as [k p sv vl sg an tr]. unfold exec in H. simpl in *.
  destruct p; simpl in *; try discriminate; try (inversion H; reflexivity).
  - destruct k; inversion H; reflexivity.
  - destruct oa; inversion H; reflexivity.
  - destruct (sget s a); inversion H; reflexivity.
  - destruct (sget s a); inversion H; reflexivity.
  - destruct (sget s a); inversion H; reflexivity.
  - destruct oa as [a0|]; [destruct (find_item sv a0)|]; inversion H; reflexivity.
  - destruct (star c sg); inversion H; reflexivity.
Qed.

Lemma map_update_same : forall {A B} (f : A -> B) (l : list A) t x y,
  nth_error l t = Some y -> f x = f y -> map f (update l t x) = map f l.
Proof.
  intros A B f l. induction l as [|h r IH]; intros t x y Hn Hf; destruct t; simpl in *; try discriminate.
  - inversion Hn; subst. rewrite Hf. reflexivity.
  - rewrite (IH _ _ _ Hn Hf). reflexivity.
Qed.

Lemma step_kinds : forall c st t st',
  step c st t = Some st' -> map th_kind (g_threads st') = map th_kind (g_threads st).
Proof.
  intros c st t st' H. unfold step in H.
  destruct (nth_error (g_threads st) t) as [th|] eqn:Hn; try discriminate.
  unfold step_thread in H. destruct (exec c (g_store st) th) as [[s1 th1]|] eqn:He; try discriminate.
  inversion H; subst; clear H. simpl. eapply map_update_same; eauto.
  rewrite push_trace_kind. eapply exec_kind; eauto.
Qed.

Lemma run_kinds : forall c sched st,
  map th_kind (g_threads (run c st sched)) = map th_kind (g_threads st).
Proof.
  intros c sched. induction sched as [|t r IH]; intros st; simpl; auto.
  destruct (step c st t) as [st'|] eqn:E; auto. rewrite IH. eapply step_kinds; eauto.
Qed.

(** The theorem in terms of runs only (no closed-form sequential answer): under
    an exclusive schedule of any number of threads, thread t - whose kind is the
    t-th of [kinds] - finishes with the answer that a thread of that kind gives
    when it is the only thread. *)
Theorem concurrent_equals_solo : forall c init kinds sched t th,
  exclusive c (init_state init kinds) sched = true ->
  nth_error (g_threads (run c (init_state init kinds) sched)) t = Some th ->
  is_done th = true ->
  nth_error kinds t = Some (th_kind th)
  /\ exists th0,
       nth_error (g_threads (run c (init_state init [th_kind th]) (repeat 0 80))) 0 = Some th0
       /\ is_done th0 = true /\ th_ans th = th_ans th0.
Proof.
  intros c init kinds sched t th Hex Hn Hd. split.
  - pose proof (run_kinds c sched (init_state init kinds)) as Hk. simpl in Hk.
    rewrite map_map in Hk. simpl in Hk. rewrite map_id in Hk.
    rewrite <- Hk. rewrite nth_error_map. rewrite Hn. reflexivity.
  - destruct (sequential_exclusive c init kinds sched Hex) as [H _].
    pose proof (solo_terminates c init (th_kind th)) as Ht.
    destruct (g_threads (run c (init_state init [th_kind th]) (repeat 0 80))) as [|th0 r] eqn:El.
    + pose proof (run_kinds c (repeat 0 80) (init_state init [th_kind th])) as Hk.
      rewrite El in Hk. discriminate.
    + exists th0. split; [reflexivity|].
      assert (Hs : nth_error (g_threads (run c (init_state init [th_kind th]) (repeat 0 80))) 0 = Some th0)
        by (rewrite El; reflexivity).
      destruct (solo_answer c init (th_kind th) th0 Hs) as [Hd0 [_ Ha0]].
      split; auto. rewrite Ha0. apply H; auto. eapply nth_error_In; eauto.
Qed.

(* the hypothesis is satisfiable (a sequential schedule of three threads), and
   it is not necessary: the overlapping plan below still gives sequential answers *)
Example exclusive_example :
  exclusive (mkCfg true false false) (init_state (mkStore (Some 7%N) (Some 8%N)) [KSig; KPlain; KSig])
            (repeat 0 80 ++ [1] ++ repeat 2 80) = true
  /\ all_done (run (mkCfg true false false) (init_state (mkStore (Some 7%N) (Some 8%N)) [KSig; KPlain; KSig])
                   (repeat 0 80 ++ [1] ++ repeat 2 80)) = true.
Proof. vm_compute. split; reflexivity. Qed.

Example exclusive_not_necessary :
  exists p st,
    run_plan (mkCfg true false false) (init_state (mkStore (Some 7%N) None) [KSig; KSig]) p = Some st
    /\ plan_excl (mkCfg true false false) (init_state (mkStore (Some 7%N) None) [KSig; KSig]) p = false
    /\ answers_ok (mkCfg true false false) (mkStore (Some 7%N) None) st = true.
Proof.
  exists [(0, Some 30); (1, None); (0, None)].
  destruct (run_plan (mkCfg true false false) (init_state (mkStore (Some 7%N) None) [KSig; KSig])
                     [(0, Some 30); (1, None); (0, None)]) as [st|] eqn:E;
    [|vm_compute in E; discriminate].
  exists st. split; [reflexivity|]. vm_compute in E. inversion E; subst; clear E.
  split; vm_compute; reflexivity.
Qed.

(* ------------------------------------------------------------------ *)
(** * Machine G: the recursion guard *)

(* between the add (:68 executed) and the discard (:71 not yet executed) *)
Definition g_region (p : gpc) : bool :=
  match p with
  | G69 | GF89 | N64 | N65 | N66 | GSeg _ | G71 => true
  | _ => false
  end.

Fixpoint regionN (l : list gthread) : nat :=
  match l with
  | [] => 0
  | th :: r => b2n (g_region (g_pc th)) + regionN r
  end.

(* the outer guard check (:65) and the add (:68) *)
Definition g_sens (p : gpc) : bool :=
  match p with G65 | G68 => true | _ => false end.

(* thread t may take its next step: a check / an add only while no thread is
   between its add and its discard *)
Definition g_step_excl (st : gstate) (t : nat) : bool :=
  match nth_error (gs_threads st) t with
  | None => true
  | Some th => if g_sens (g_pc th) then Nat.eqb (regionN (gs_threads st)) 0 else true
  end.

Fixpoint g_exclusive (st : gstate) (sched : list nat) : bool :=
  match sched with
  | [] => true
  | t :: r =>
      match gstep st t with
      | Some st' => g_step_excl st t && g_exclusive st' r
      | None => g_exclusive st r
      end
  end.

Lemma regionN_update : forall l t th th',
  nth_error l t = Some th ->
  regionN (update l t th') + b2n (g_region (g_pc th)) = regionN l + b2n (g_region (g_pc th')).
Proof.
  induction l as [|h r IH]; intros t th th' Hn; destruct t; simpl in *; try discriminate.
  - inversion Hn; subst. lia.
  - specialize (IH _ _ th' Hn). lia.
Qed.

Lemma regionN_ge : forall l t th,
  nth_error l t = Some th -> g_region (g_pc th) = true -> 1 <= regionN l.
Proof.
  induction l as [|h r IH]; intros t th Hn Hr; destruct t; simpl in *; try discriminate.
  - inversion Hn; subst. rewrite Hr. simpl. lia.
  - specialize (IH _ _ Hn Hr). lia.
Qed.

Lemma regionN_zero : forall l,
  (forall th, In th l -> g_region (g_pc th) = false) -> regionN l = 0.
Proof.
  induction l as [|h r IH]; intros H; simpl; auto.
  rewrite (H h) by (left; auto). rewrite IH; auto. intros th Hin. apply H. right; auto.
Qed.

(* unconditional: a set guard is owned by somebody *)
Definition GI (st : gstate) : Prop := b2n (gs_guard st) <= regionN (gs_threads st).

Lemma gstep_GI : forall st t st', GI st -> gstep st t = Some st' -> GI st'.
Proof.
  intros st t st' HI Hs. unfold gstep in Hs.
  destruct (nth_error (gs_threads st) t) as [th|] eqn:Hn; try discriminate.
  destruct (gexec (gs_guard st) th) as [[[g' p'] a]|] eqn:He; try discriminate.
  inversion Hs; subst st'; clear Hs. unfold GI in *. simpl.
  pose proof (regionN_update _ _ _ (mkG p' (match a with 0%N => g_ans th | _ => a end)
      (match p' with GDone | GOut => g_trace th | _ => gcode p' :: g_trace th end)) Hn) as Hu.
  simpl in Hu.
  unfold gexec in He. destruct (gs_guard st) eqn:Eg; destruct th as [p an tr]; simpl in *;
    destruct p; simpl in *; inversion He; subst; clear He; simpl in *; try lia;
    try (destruct l as [|x [|y r]]; inversion H0; subst; simpl in *; lia).
Qed.

Lemma grun_GI : forall sched st, GI st -> GI (grun st sched).
Proof.
  induction sched as [|t r IH]; intros st HI; simpl; auto.
  destruct (gstep st t) as [st'|] eqn:E; auto. apply IH. eapply gstep_GI; eauto.
Qed.

Lemma regionN_repeat : forall n, regionN (repeat (mkG GStart 0%N []) n) = 0.
Proof. induction n; simpl; auto. Qed.

Lemma ginit_GI : forall n, GI (ginit n).
Proof. intros n. unfold GI, ginit. simpl. lia. Qed.

(** Unconditional (any number of threads, any schedule): when every thread has
    finished the guard set is empty. *)
Theorem guard_clear_at_quiescence : forall n sched,
  g_all_done (grun (ginit n) sched) = true -> gs_guard (grun (ginit n) sched) = false.
Proof.
  intros n sched Hd. pose proof (grun_GI sched _ (ginit_GI n)) as HI. unfold GI in HI.
  rewrite regionN_zero in HI.
  - destruct (gs_guard (grun (ginit n) sched)); simpl in HI; auto; lia.
  - intros th Hin. unfold g_all_done in Hd. rewrite forallb_forall in Hd. specialize (Hd _ Hin).
    unfold g_is_done in Hd. destruct (g_pc th); try discriminate. reflexivity.
Qed.

(* under exclusivity: the guard is set exactly while one thread is in its region,
   nobody ever hits the guard or leaves the modelled region *)
Definition g_ok (th : gthread) : Prop :=
  match g_pc th with
  | G66 | GOut => False
  | GDone => g_ans th = 1%N
  | _ => True
  end.

Definition GJ (st : gstate) : Prop :=
  regionN (gs_threads st) = b2n (gs_guard st) /\ Forall g_ok (gs_threads st).

Lemma gstep_GJ : forall st t st',
  GJ st -> g_step_excl st t = true -> gstep st t = Some st' -> GJ st'.
Proof.
  intros st t st' [HR HF] Hex Hs. unfold gstep in Hs. unfold g_step_excl in Hex.
  destruct (nth_error (gs_threads st) t) as [th|] eqn:Hn; try discriminate.
  destruct (gexec (gs_guard st) th) as [[[g' p'] a]|] eqn:He; try discriminate.
  inversion Hs; subst st'; clear Hs. unfold GJ. simpl.
  pose proof (regionN_update _ _ _ (mkG p' (match a with 0%N => g_ans th | _ => a end)
      (match p' with GDone | GOut => g_trace th | _ => gcode p' :: g_trace th end)) Hn) as Hu.
  simpl in Hu.
  assert (Hok : g_ok th) by (eapply Forall_nth_error; eauto).
  assert (Hge : g_region (g_pc th) = true -> 1 <= regionN (gs_threads st))
    by (intros Hr; eapply regionN_ge; eauto).
  unfold gexec in He. unfold g_ok in Hok.
  destruct th as [p an tr]; simpl in *.
  destruct p; simpl in *; try contradiction; try discriminate;
    try (inversion He; subst; clear He; simpl in *;
         split; [lia | apply Forall_update; auto; unfold g_ok; simpl; auto]; fail).
  - (* G65 *)
    apply Nat.eqb_eq in Hex. rewrite Hex in HR.
    destruct (gs_guard st); simpl in HR; try discriminate.
    inversion He; subst; clear He; simpl in *.
    split; [lia | apply Forall_update; auto; unfold g_ok; simpl; auto].
  - (* G68 *)
    apply Nat.eqb_eq in Hex.
    inversion He; subst; clear He; simpl in *.
    split; [lia | apply Forall_update; auto; unfold g_ok; simpl; auto].
  - (* N65 *)
    specialize (Hge eq_refl).
    destruct (gs_guard st); simpl in HR; try lia.
    inversion He; subst; clear He; simpl in *.
    split; [lia | apply Forall_update; auto; unfold g_ok; simpl; auto].
  - (* GSeg *)
    destruct l as [|x [|y r]]; inversion He; subst; clear He; simpl in *;
      (split; [lia | apply Forall_update; auto; unfold g_ok; simpl; auto]).
  - (* G71 *)
    specialize (Hge eq_refl).
    inversion He; subst; clear He; simpl in *.
    split; [destruct (gs_guard st); simpl in *; lia | apply Forall_update; auto; unfold g_ok; simpl; auto].
Qed.

Lemma grun_GJ : forall sched st, GJ st -> g_exclusive st sched = true -> GJ (grun st sched).
Proof.
  induction sched as [|t r IH]; intros st HJ Hex; simpl in *; auto.
  destruct (gstep st t) as [st'|] eqn:E.
  - apply andb_true_iff in Hex. destruct Hex as [H1 H2]. apply IH; auto. eapply gstep_GJ; eauto.
  - apply IH; auto.
Qed.

Lemma ginit_GJ : forall n, GJ (ginit n).
Proof.
  intros n. split.
  - unfold ginit. simpl. apply regionN_repeat.
  - unfold ginit. simpl. apply Forall_forall. intros th Hin. apply repeat_spec in Hin. subst th. exact I.
Qed.

(** Any number of threads, any schedule in which the guard check and the add are
    executed only while no thread is between its add and its discard: every
    finished thread has the forged answer (1), no thread hits the guard or
    leaves the modelled region, and the guard is set exactly while one thread
    is in its region (in particular it is clear at quiescence). *)
Theorem guard_sequential_exclusive : forall n sched,
  g_exclusive (ginit n) sched = true ->
  (forall th, In th (gs_threads (grun (ginit n) sched)) -> g_is_done th = true -> g_ans th = 1%N)
  /\ g_any_out (grun (ginit n) sched) = false
  /\ regionN (gs_threads (grun (ginit n) sched)) = b2n (gs_guard (grun (ginit n) sched)).
Proof.
  intros n sched Hex. pose proof (grun_GJ sched _ (ginit_GJ n) Hex) as [HR HF].
  rewrite Forall_forall in HF. split; [|split]; auto.
  - intros th Hin Hd. specialize (HF _ Hin). unfold g_ok in HF. unfold g_is_done in Hd.
    destruct (g_pc th); try discriminate. exact HF.
  - unfold g_any_out. destruct (existsb g_is_out (gs_threads (grun (ginit n) sched))) eqn:E; auto.
    apply existsb_exists in E. destruct E as [th [Hin Ho]]. specialize (HF _ Hin).
    unfold g_ok in HF. unfold g_is_out in Ho. destruct (g_pc th); try discriminate. contradiction.
Qed.

(** Converse, for all schedules: a wrong answer or a thread outside the modelled
    region occurs only if some check / add was executed inside another thread's region. *)
Theorem guard_wrong_needs_overlap : forall n sched th,
  In th (gs_threads (grun (ginit n) sched)) ->
  (g_is_done th = true /\ g_ans th <> 1%N) \/ g_is_out th = true ->
  g_exclusive (ginit n) sched = false.
Proof.
  intros n sched th Hin Hbad.
  destruct (g_exclusive (ginit n) sched) eqn:E; auto.
  destruct (guard_sequential_exclusive n sched E) as [H1 [H2 _]].
  destruct Hbad as [[Hd Ha] | Ho].
  - exfalso. apply Ha. apply H1; auto.
  - unfold g_any_out in H2.
    assert (existsb g_is_out (gs_threads (grun (ginit n) sched)) = true)
      by (apply existsb_exists; eauto).
    congruence.
Qed.

Example g_exclusive_example :
  g_exclusive (ginit 3) (repeat 0 20 ++ repeat 1 20 ++ repeat 2 20) = true
  /\ g_all_done (grun (ginit 3) (repeat 0 20 ++ repeat 1 20 ++ repeat 2 20)) = true.
Proof. vm_compute. split; reflexivity. Qed.

(* the known guard race violates the hypothesis *)
Example g_exclusive_race :
  g_exclusive (ginit 2) (repeat 0 5 ++ repeat 1 20 ++ repeat 0 20) = false.
Proof. vm_compute. reflexivity. Qed.

(* alone, the call returns the forged answer (1) *)
Example g_solo_answer :
  goutcome (grun (ginit 1) (repeat 0 20)) = [(1%N, [601; 602; 604; 605; 606; 163; 601; 602; 603; 164; 165; 166; 167; 168; 608; 609]%N)]
  /\ g_all_done (grun (ginit 1) (repeat 0 20)) = true.
Proof. vm_compute. split; reflexivity. Qed.

(* the condition at the add (:68) is needed: both checks below are executed while
   nobody is in its region, the second add is not; the second thread then finds
   the guard discarded and leaves the modelled region *)
Example g_add_condition_needed :
  g_any_out (grun (ginit 2) (repeat 0 3 ++ repeat 1 3 ++ repeat 0 2 ++ repeat 1 2 ++ repeat 0 20 ++ repeat 1 20)) = true.
Proof. vm_compute. reflexivity. Qed.

Print Assumptions sequential_exclusive.
Print Assumptions solo_answer.
Print Assumptions concurrent_equals_solo.
Print Assumptions nonsequential_needs_overlap.
Print Assumptions plan_sequential_exclusive.
Print Assumptions plan_nonsequential_needs_overlap.
Print Assumptions exclusive_not_necessary.
Print Assumptions guard_clear_at_quiescence.
Print Assumptions guard_sequential_exclusive.
Print Assumptions guard_wrong_needs_overlap.
