(* Proofs/ExecLoop.v -- Proofs/ExecTry.v carried over to the model with `for` loops
   (Model/ExecLoop.v), plus the theorems about loops (item 5).
   C05 for compound statement contexts (Model/ExecLoop.v): try / except /
   else / finally, with, a call repeated by a comprehension, nested at any depth around the flat
   statements of Model/Exec.v, with exceptions in the semantics.

   1. the walker's flags on the rendered tree are exactly the one-pass abstract interpretation
      [absint_t] (body, handler, orelse, final in source order);
   2. they are sound for EVERY outcome of the execution semantics, completed or propagating:
      whatever prefix of a block ran before an exception, whether the handler ran or not, the
      statements executed are a subsequence of the source order and taints only accumulate;
   3. every program has a completed outcome;
   4. comprehensions are rendered in the walker's visit order since repair 562a505 (for clause:
      iterable, target; then the element = evaluation order): an iterable that mutates **kwargs
      and a loop target that shadows a star variable are INSIDE the fragment and sound.  Section
      OldOrder keeps the element-first order of generic_visit (before the repair) and its
      refutation on both forms;
   5. loops (TFor): the walker reads the body once.  Soundness is FALSE in general
      (flags_sound_loop_refuted: a rebinding after the forwarding call reaches the call in the
      second round), TRUE when one more pass of the abstract interpretation over every loop body
      changes nothing (flags_sound_loop_partial, hypothesis [loop_stable]; syntactic corollary
      [tblock_loop_quiet]); the loop-free theorems are unchanged (hypothesis [tblock_loop_free]). *)
From Sigtools.Model Require Import Base Visitor Exec ExecLoop.
From Sigtools.Proofs Require Import VisitorTotal Exec.
From Coq Require Import Lia.

(* ---- induction principle for the nested inductive [tstmt] ---- *)
Definition oblk (h : option (list tstmt)) : list tstmt :=
  match h with Some hb => hb | None => [] end.

Section TInd.
Variable P : tstmt -> Prop.
Hypothesis HLeaf : forall s, P (TLeaf s).
Hypothesis HTry : forall b h o f,
  Forall P b -> Forall P (oblk h) -> Forall P o -> Forall P f -> P (TTry b h o f).
Hypothesis HWith : forall b, Forall P b -> P (TWith b).
Hypothesis HRep : forall s, P (TRepeat s).
Hypothesis HMut : forall m s, P (TRepeatMut m s).
Hypothesis HShadow : forall x s, P (TRepeatShadow x s).
Hypothesis HFor : forall b, Forall P b -> P (TFor b).
Fixpoint tstmt_ind' (x : tstmt) : P x :=
  let fix all (l : list tstmt) : Forall P l :=
    match l with [] => Forall_nil P | y :: l' => Forall_cons y (tstmt_ind' y) (all l') end in
  match x with
  | TLeaf s => HLeaf s
  | TTry b h o f =>
      HTry b h o f (all b)
           (match h return Forall P (oblk h) with Some hb => all hb | None => Forall_nil P end)
           (all o) (all f)
  | TWith b => HWith b (all b)
  | TRepeat s => HRep s
  | TRepeatMut m s => HMut m s
  | TRepeatShadow x s => HShadow x s
  | TFor b => HFor b (all b)
  end.
End TInd.

(* ---- equations of the model's functions ---- *)
Lemma sumf_cons {A} (f : A -> nat) x l : sumf f (x :: l) = (f x + sumf f l)%nat.
Proof. reflexivity. Qed.

Lemma thread_cons {A} (f : A -> bool * bool -> (bool * bool) * list flags) x l k :
  thread f (x :: l) k = let '(k1, f1) := f x k in let '(k2, f2) := thread f l k1 in (k2, f1 ++ f2).
Proof. reflexivity. Qed.

Lemma seq_t_cons {A} (f : A -> nat -> sem -> list outcome) cnt x l off st :
  seq_t f cnt (x :: l) off st =
  flat_map (fun r1 => if o_prop r1 then [r1]
                      else (o_st r1, o_ev r1, true) :: then_ r1 (seq_t f cnt l (off + cnt x)%nat))
           (f x off st).
Proof. reflexivity. Qed.

Definition habs (h : option (list tstmt)) (k : bool * bool) : (bool * bool) * list flags :=
  match h with Some hb => absint_tb hb k | None => (k, []) end.
Definition hcalls (h : option (list tstmt)) : nat :=
  match h with Some hb => tcalls_block hb | None => O end.

Lemma absint_t_try b h o f k :
  absint_t (TTry b h o f) k =
  let '(k1, f1) := absint_tb b k in
  let '(k2, f2) := habs h k1 in
  let '(k3, f3) := absint_tb o k2 in
  let '(k4, f4) := absint_tb f k3 in (k4, f1 ++ f2 ++ f3 ++ f4).
Proof. reflexivity. Qed.

Lemma absint_t_with b k :
  absint_t (TWith b) k = let '(k1, f1) := absint_tb b k in (k1, noflags :: f1).
Proof. reflexivity. Qed.

Lemma tcalls_try b h o f :
  tcalls (TTry b h o f) = (tcalls_block b + (hcalls h + (tcalls_block o + tcalls_block f)))%nat.
Proof. reflexivity. Qed.

Lemma tcalls_with b : tcalls (TWith b) = S (tcalls_block b).
Proof. reflexivity. Qed.

Lemma absint_t_for b k :
  absint_t (TFor b) k = let '(k1, f1) := absint_tb b k in (k1, noflags :: f1).
Proof. reflexivity. Qed.

Lemma tcalls_for b : tcalls (TFor b) = S (tcalls_block b).
Proof. reflexivity. Qed.

Lemma exec_t_for b off st :
  exec_t (TFor b) off st =
  (st, [mkEvent off None None], true)
  :: flat_map (fun k => map (fun r => (o_st r, mkEvent off None None :: o_ev r, o_prop r))
                            (loop_t (seq_t exec_t tcalls b (S off)) k st)) rounds.
Proof. reflexivity. Qed.

Lemma loop_t_S run n st :
  loop_t run (S n) st = flat_map (fun r1 => if o_prop r1 then [r1] else then_ r1 (loop_t run n)) (run st).
Proof. reflexivity. Qed.

Lemma thread_ok_cons {A} (ok : A -> bool * bool -> bool) step x l k :
  thread_ok ok step (x :: l) k = ok x k && thread_ok ok step l (fst (step x k)).
Proof. reflexivity. Qed.

Definition hstable (h : option (list tstmt)) (k : bool * bool) : bool :=
  match h with Some hb => stable_tb hb k | None => true end.

Lemma stable_t_try b h o f k :
  stable_t (TTry b h o f) k =
  stable_tb b k && hstable h (fst (absint_tb b k))
  && stable_tb o (fst (habs h (fst (absint_tb b k))))
  && stable_tb f (fst (absint_tb o (fst (habs h (fst (absint_tb b k)))))).
Proof. destruct h; reflexivity. Qed.

Lemma stable_t_with b k : stable_t (TWith b) k = stable_tb b k.
Proof. reflexivity. Qed.

Lemma stable_t_for b k :
  stable_t (TFor b) k =
  stable_tb b k && absres_eqb (absint_tb b (fst (absint_tb b k))) (absint_tb b k)
  && stable_tb b (fst (absint_tb b k)).
Proof. reflexivity. Qed.

Definition fin_t (final : list tstmt) (ofin : nat) (r : outcome) : list outcome :=
  map (fun rf => (o_st rf, o_ev r ++ o_ev rf, o_prop r || o_prop rf)) (exec_tb final ofin (o_st r)).

Lemma exec_t_try b h o f off st :
  exec_t (TTry b h o f) off st =
  let oh := (off + tcalls_block b)%nat in
  let oo := (oh + hcalls h)%nat in
  let ofin := (oo + tcalls_block o)%nat in
  flat_map
    (fun rb =>
       if o_prop rb then
         match h with
         | Some hb => flat_map (fun rh => fin_t f ofin (o_st rh, o_ev rb ++ o_ev rh, o_prop rh))
                               (exec_tb hb oh (o_st rb))
         | None => []
         end ++ fin_t f ofin rb
       else flat_map (fun ro => fin_t f ofin (o_st ro, o_ev rb ++ o_ev ro, o_prop ro))
                     (exec_tb o oo (o_st rb)))
    (exec_tb b off st).
Proof. reflexivity. Qed.

Lemma exec_t_with b off st :
  exec_t (TWith b) off st =
  (st, [mkEvent off None None], true)
  :: map (fun r => (o_st r, mkEvent off None None :: o_ev r, o_prop r))
         (seq_t exec_t tcalls b (S off) st).
Proof. reflexivity. Qed.

Section CompileEq.
Variables va vk : N.
Variable nm : tnames.

Lemma compile_t_try b h o f :
  compile_t va vk nm (TTry b h o f) =
  NOpaque (or_pass (compile_tblock va vk nm b)
           ++ match h with
              | Some hb => [NOpaque (NName (tn_exc nm) Load :: or_pass (compile_tblock va vk nm hb))]
              | None => []
              end
           ++ compile_tblock va vk nm o
           ++ match h with
              | Some _ => compile_tblock va vk nm f
              | None => or_pass (compile_tblock va vk nm f)
              end).
Proof. reflexivity. Qed.

Lemma compile_t_with b :
  compile_t va vk nm (TWith b) =
  NOpaque (NOpaque [NCall (NName (tn_cm nm) Load) [] []] :: or_pass (compile_tblock va vk nm b)).
Proof. reflexivity. Qed.

Lemma names_ok_t_try b h o f :
  names_ok_t va vk (TTry b h o f) =
  tblock_ok va vk b && tblock_ok va vk (oblk h) && tblock_ok va vk o && tblock_ok va vk f.
Proof. destruct h; reflexivity. Qed.

Lemma names_ok_t_with b : names_ok_t va vk (TWith b) = tblock_ok va vk b.
Proof. reflexivity. Qed.

Lemma compile_t_for b :
  compile_t va vk nm (TFor b) =
  NOpaque (NName (tn_tgt nm) Store :: NCall (NName (tn_rng nm) Load) [const] []
           :: or_pass (compile_tblock va vk nm b)).
Proof. reflexivity. Qed.

Lemma names_ok_t_for b : names_ok_t va vk (TFor b) = tblock_ok va vk b.
Proof. reflexivity. Qed.

(* an element statement is an expression statement: Expr(value=Call) *)
Lemma repeatable_compile s : repeatable s = true -> compile va vk s = NOpaque [call_of va vk s].
Proof.
  destruct s as [c n kw pa pk|x|x|x| |x m|f x|y x|f|a b|m]; try discriminate; intros H.
  - reflexivity.
  - destruct x; [reflexivity|discriminate].
  - destruct x; [reflexivity|discriminate].
  - reflexivity.
Qed.
End CompileEq.

Lemma walk_comp_node iter target elt st :
  walk false (comp_node iter target elt) st = walk false elt (walk false target (walk false iter st)).
Proof. reflexivity. Qed.

Lemma walk_name_eq id c st : walk false (NName id c) st = visit_name id c st.
Proof. reflexivity. Qed.

Lemma walk_list_or_pass L st : walk_list (or_pass L) st = walk_list L st.
Proof. destruct L; reflexivity. Qed.

(* ================================================================== *)
(* 1. the walker computes the abstract interpretation                  *)
Section MainT.
Variables va vk : N.
Variable nm : tnames.
Hypothesis Hne : va <> vk.
Hypothesis Hfix : fixed_ok va vk nm = true.

Lemma tname_ok_neq x : tname_ok va vk x = true -> x <> va /\ x <> vk.
Proof.
  unfold tname_ok. intros H. apply Bool.andb_true_iff in H as [H1 H2].
  apply Bool.negb_true_iff in H1, H2. apply N.eqb_neq in H1, H2. auto.
Qed.

(* the walker visits a name that is not a star variable *)
Lemma good_visit_other y c nms im calls tn nx rev k :
  tname_ok va vk y = true -> Good va vk nms im tn k ->
  exists nm' im',
    visit_name y c (mst va vk nms im calls tn nx rev) = mst va vk nm' im' calls tn nx rev
    /\ Good va vk nm' im' tn k.
Proof.
  intros Hy G. destruct (tname_ok_neq y Hy) as [H1 H2]. rewrite visit_name_mst.
  destruct (mem y im && match c with Load => true | _ => false end).
  - exists nms, im. auto.
  - eexists _, _. split; [reflexivity|]. now apply good_set_other.
Qed.

(* a call  f(<constants>)  of a plain name: one more record, all flags false *)
Lemma plain_call f args nms im calls tn nx rev k :
  args = [] \/ args = [const] ->
  Good va vk nms im tn k ->
  exists c, walk false (NCall (NName f Load) args []) (mst va vk nms im calls tn nx rev)
            = mst va vk nms im (calls ++ [c]) tn nx rev /\ fl c = dflags.
Proof.
  intros Ha G. pose proof G as (HW & _).
  destruct Ha as [-> | ->]; (eexists; split;
    [rewrite walk_call_eq;
     cbn [mst v_rev v_frames v_cur get_frame nth f_parent is_some]; rewrite Bool.andb_false_r;
     fold (mst va vk nms im calls tn nx rev);
     unfold res_with; cbn [resolve_na]; unfold process_call;
     rewrite (ns_get_not_attr va vk nms im calls tn nx rev f HW); reflexivity
    |reflexivity]).
Qed.

Lemma tgt_name_ok : tname_ok va vk (tn_tgt nm) = true.
Proof. unfold fixed_ok in Hfix. apply Bool.andb_true_iff in Hfix as [_ A]. exact A. Qed.

Definition StepT (x : tstmt) : Prop := forall nms im calls tn nx rev k,
  Good va vk nms im tn k -> names_ok_t va vk x = true ->
  exists nm' im' tn' cs,
    walk false (compile_t va vk nm x) (mst va vk nms im calls tn nx rev)
    = mst va vk nm' im' (calls ++ cs) tn' nx rev
    /\ Good va vk nm' im' tn' (fst (absint_t x k)) /\ map fl cs = snd (absint_t x k).

Definition StepTB (l : list tstmt) : Prop := forall nms im calls tn nx rev k,
  Good va vk nms im tn k -> tblock_ok va vk l = true ->
  exists nm' im' tn' cs,
    walk_list (compile_tblock va vk nm l) (mst va vk nms im calls tn nx rev)
    = mst va vk nm' im' (calls ++ cs) tn' nx rev
    /\ Good va vk nm' im' tn' (fst (absint_tb l k)) /\ map fl cs = snd (absint_tb l k).

Lemma step_tblock l : Forall StepT l -> StepTB l.
Proof.
  induction 1 as [|x l Hx Hl IH]; intros nms im calls tn nx rev k G Hok.
  - exists nms, im, tn, []. rewrite app_nil_r. cbn. auto.
  - cbn [tblock_ok forallb] in Hok. apply Bool.andb_true_iff in Hok as [Hx1 Hl1].
    destruct (Hx nms im calls tn nx rev k G Hx1) as (nm1 & im1 & tn1 & cs1 & E1 & G1 & F1).
    destruct (IH nm1 im1 (calls ++ cs1) tn1 nx rev _ G1 Hl1) as (nm2 & im2 & tn2 & cs2 & E2 & G2 & F2).
    exists nm2, im2, tn2, (cs1 ++ cs2).
    change (walk_list (compile_tblock va vk nm (x :: l)) (mst va vk nms im calls tn nx rev))
      with (walk_list (compile_tblock va vk nm l)
              (walk false (compile_t va vk nm x) (mst va vk nms im calls tn nx rev))).
    rewrite E1, E2, app_assoc. split; [reflexivity|].
    unfold absint_tb in *. rewrite thread_cons.
    destruct (absint_t x k) as [k1 f1]. cbn [fst snd] in *.
    destruct (thread absint_t l k1) as [k2 f2]. cbn [fst snd] in *.
    split; [exact G2|]. now rewrite map_app, F1, F2.
Qed.

(* the except clause: its type expression is visited, then its body *)
Lemma step_handler h : Forall StepT (oblk h) ->
  forall nms im calls tn nx rev k,
  Good va vk nms im tn k -> tblock_ok va vk (oblk h) = true ->
  exists nm' im' tn' cs,
    walk_list (match h with
               | Some hb => [NOpaque (NName (tn_exc nm) Load :: or_pass (compile_tblock va vk nm hb))]
               | None => []
               end) (mst va vk nms im calls tn nx rev)
    = mst va vk nm' im' (calls ++ cs) tn' nx rev
    /\ Good va vk nm' im' tn' (fst (habs h k)) /\ map fl cs = snd (habs h k).
Proof.
  intros Hh nms im calls tn nx rev k G Hok. destruct h as [hb|]; cbn [oblk habs] in *.
  - assert (He : tname_ok va vk (tn_exc nm) = true).
    { unfold fixed_ok in Hfix. apply Bool.andb_true_iff in Hfix as [A _]. exact A. }
    destruct (good_visit_other (tn_exc nm) Load nms im calls tn nx rev k He G) as (nm1 & im1 & E1 & G1).
    destruct (step_tblock hb Hh nm1 im1 calls tn nx rev k G1 Hok) as (nm2 & im2 & tn2 & cs & E2 & G2 & F2).
    exists nm2, im2, tn2, cs. split; [|auto].
    cbn [walk_list]. rewrite walk_opaque_eq. cbn [walk_list walk]. rewrite E1, walk_list_or_pass. exact E2.
  - exists nms, im, tn, []. rewrite app_nil_r. cbn. auto.
Qed.

Lemma step_t_all : forall x, StepT x.
Proof.
  apply tstmt_ind'.
  - (* TLeaf *)
    intros s nms im calls tn nx rev k G Hok. exact (step_all va vk Hne s nms im calls tn nx rev k G Hok).
  - (* TTry *)
    intros b h o f Hb Hh Ho Hf nms im calls tn nx rev k G Hok.
    rewrite names_ok_t_try in Hok. apply Bool.andb_true_iff in Hok as [Hok Hokf].
    apply Bool.andb_true_iff in Hok as [Hok Hoko]. apply Bool.andb_true_iff in Hok as [Hokb Hokh].
    destruct (step_tblock b Hb nms im calls tn nx rev k G Hokb) as (nm1 & im1 & tn1 & cs1 & E1 & G1 & F1).
    destruct (step_handler h Hh nm1 im1 (calls ++ cs1) tn1 nx rev _ G1 Hokh) as (nm2 & im2 & tn2 & cs2 & E2 & G2 & F2).
    destruct (step_tblock o Ho nm2 im2 ((calls ++ cs1) ++ cs2) tn2 nx rev _ G2 Hoko) as (nm3 & im3 & tn3 & cs3 & E3 & G3 & F3).
    destruct (step_tblock f Hf nm3 im3 (((calls ++ cs1) ++ cs2) ++ cs3) tn3 nx rev _ G3 Hokf) as (nm4 & im4 & tn4 & cs4 & E4 & G4 & F4).
    exists nm4, im4, tn4, (cs1 ++ cs2 ++ cs3 ++ cs4).
    rewrite compile_t_try, walk_opaque_eq, !walk_list_app, walk_list_or_pass, E1, E2, E3.
    assert (EF : forall s0, walk_list (match h with
                                       | Some _ => compile_tblock va vk nm f
                                       | None => or_pass (compile_tblock va vk nm f)
                                       end) s0 = walk_list (compile_tblock va vk nm f) s0).
    { intros s0. destruct h; [reflexivity|apply walk_list_or_pass]. }
    rewrite EF, E4. split; [now rewrite <- !app_assoc|].
    rewrite absint_t_try.
    destruct (absint_tb b k) as [k1 f1]. cbn [fst snd] in *.
    destruct (habs h k1) as [k2 f2]. cbn [fst snd] in *.
    destruct (absint_tb o k2) as [k3 f3]. cbn [fst snd] in *.
    destruct (absint_tb f k3) as [k4 f4]. cbn [fst snd] in *.
    split; [exact G4|]. now rewrite !map_app, F1, F2, F3, F4.
  - (* TWith *)
    intros b Hb nms im calls tn nx rev k G Hok. rewrite names_ok_t_with in Hok.
    destruct (plain_call (tn_cm nm) [] nms im calls tn nx rev k (or_introl eq_refl) G) as (c & E0 & F0).
    destruct (step_tblock b Hb nms im (calls ++ [c]) tn nx rev k G Hok) as (nm1 & im1 & tn1 & cs1 & E1 & G1 & F1).
    exists nm1, im1, tn1, (c :: cs1).
    rewrite compile_t_with, walk_opaque_eq. cbn [walk_list]. rewrite walk_opaque_eq. cbn [walk_list].
    rewrite E0, walk_list_or_pass, E1, <- app_assoc. split; [reflexivity|].
    rewrite absint_t_with. destruct (absint_tb b k) as [k1 f1]. cbn [fst snd] in *.
    split; [exact G1|]. cbn [map]. now rewrite F0, F1.
  - (* TRepeat: rng(<c>), the target, the element *)
    intros s nms im calls tn nx rev k G Hok. cbn [names_ok_t] in Hok.
    apply Bool.andb_true_iff in Hok as [Hr Hs].
    destruct (plain_call (tn_rng nm) [const] nms im calls tn nx rev k (or_intror eq_refl) G) as (c & E0 & F0).
    destruct (good_visit_other (tn_tgt nm) Store nms im (calls ++ [c]) tn nx rev k tgt_name_ok G) as (nm1 & im1 & E1 & G1).
    destruct (step_all va vk Hne s nm1 im1 (calls ++ [c]) tn nx rev k G1 Hs) as (nm2 & im2 & tn2 & cs2 & E2 & G2 & F2).
    rewrite (repeatable_compile va vk s Hr), walk_opaque_eq in E2. cbn [walk_list] in E2.
    exists nm2, im2, tn2, (c :: cs2).
    cbn [compile_t]. rewrite walk_comp_node, E0, walk_name_eq, E1, E2, <- app_assoc. split; [reflexivity|].
    cbn [absint_t]. destruct (absint s k) as [k1 f1]. cbn [fst snd] in *.
    split; [exact G2|]. cbn [map]. now rewrite F0, F2.
  - (* TRepeatMut: kwargs.m(<c>) taints, the target, the element *)
    intros m s nms im calls tn nx rev k G Hok. cbn [names_ok_t] in Hok.
    apply Bool.andb_true_iff in Hok as [Hr Hs].
    destruct (step_all va vk Hne (SMethod SK m) nms im calls tn nx rev k G eq_refl) as (nm0 & im0 & tn0 & cs0 & E0 & G0 & F0).
    cbn [compile sname absint fst snd] in E0, G0, F0. rewrite walk_opaque_eq in E0. cbn [walk_list] in E0.
    destruct (good_visit_other (tn_tgt nm) Store nm0 im0 (calls ++ cs0) tn0 nx rev _ tgt_name_ok G0) as (nm1 & im1 & E1 & G1).
    destruct (step_all va vk Hne s nm1 im1 (calls ++ cs0) tn0 nx rev _ G1 Hs) as (nm2 & im2 & tn2 & cs2 & E2 & G2 & F2).
    rewrite (repeatable_compile va vk s Hr), walk_opaque_eq in E2. cbn [walk_list] in E2.
    exists nm2, im2, tn2, (cs0 ++ cs2).
    cbn [compile_t]. rewrite walk_comp_node, E0, walk_name_eq, E1, E2, <- app_assoc. split; [reflexivity|].
    cbn [absint_t]. destruct (absint s (taint_abs SK k)) as [k1 f1]. cbn [fst snd] in *.
    split; [exact G2|]. rewrite map_app, F0, F2. reflexivity.
  - (* TRepeatShadow: the list literal, the star variable stored, the element *)
    intros x s nms im calls tn nx rev k G Hok. cbn [names_ok_t] in Hok.
    apply Bool.andb_true_iff in Hok as [Hr Hs].
    destruct (good_store va vk Hne x Store nms im calls tn nx rev k ltac:(discriminate) G) as (nm1 & im1 & E1 & G1).
    destruct (step_all va vk Hne s nm1 im1 calls tn nx rev _ G1 Hs) as (nm2 & im2 & tn2 & cs2 & E2 & G2 & F2).
    rewrite (repeatable_compile va vk s Hr), walk_opaque_eq in E2. cbn [walk_list] in E2.
    exists nm2, im2, tn2, cs2.
    cbn [compile_t]. rewrite walk_comp_node.
    assert (EI : forall st0, walk false (NOpaque [const; ctxnode]) st0 = st0) by reflexivity.
    rewrite EI, walk_name_eq. fold (sname' va vk x). rewrite E1, E2. split; [reflexivity|].
    cbn [absint_t]. split; [exact G2|exact F2].
  - (* TFor: the target, rng(<c>), the body once *)
    intros b Hb nms im calls tn nx rev k G Hok. rewrite names_ok_t_for in Hok.
    destruct (good_visit_other (tn_tgt nm) Store nms im calls tn nx rev k tgt_name_ok G) as (nm0 & im0 & E0 & G0).
    destruct (plain_call (tn_rng nm) [const] nm0 im0 calls tn nx rev k (or_intror eq_refl) G0) as (c & E1 & F1).
    destruct (step_tblock b Hb nm0 im0 (calls ++ [c]) tn nx rev k G0 Hok) as (nm2 & im2 & tn2 & cs2 & E2 & G2 & F2).
    exists nm2, im2, tn2, (c :: cs2).
    rewrite compile_t_for, walk_opaque_eq. cbn [walk_list].
    rewrite walk_name_eq, E0, E1, walk_list_or_pass, E2, <- app_assoc. split; [reflexivity|].
    rewrite absint_t_for. destruct (absint_tb b k) as [k1 f1]. cbn [fst snd] in *.
    split; [exact G2|]. cbn [map]. now rewrite F1, F2.
Qed.

Theorem visitor_flags_t_absint_sec l :
  tblock_ok va vk l = true ->
  visitor_flags_t va vk nm l = Some (snd (absint_tb l (true, true))).
Proof.
  intros Hok. unfold visitor_flags_t, visit_function.
  assert (E0 : process_parameters true [] [] (Some va) (Some vk) init_state =
               mst va vk [(va, MArg 0 va); (vk, MArg 1 vk)] [va] [] [] 2%nat false).
  { assert (Eb : N.eqb vk va = false) by (apply N.eqb_neq; congruence).
    cbv -[N.eqb]. rewrite !Eb. reflexivity. }
  rewrite E0, fold_walk_list.
  assert (G0 : Good va vk [(va, MArg 0 va); (vk, MArg 1 vk)] [va] [] (true, true)).
  { assert (Eb : N.eqb vk va = false) by (apply N.eqb_neq; congruence).
    unfold Good, W, view. cbn [assoc mem fst snd]. rewrite !N.eqb_refl, !Eb. cbn.
    split; [|repeat split; auto].
    constructor; [right; left; reflexivity|constructor; [right; right; reflexivity|constructor]]. }
  destruct (step_tblock l (Forall_all _ step_t_all l) _ _ [] _ 2%nat false _ G0 Hok)
    as (nm' & im' & tn' & cs & E & _ & F).
  rewrite E.
  cbn [app]. unfold set_rev, mst. cbn [v_frames v_cur v_calls v_todo v_taint v_next v_varargs v_varkwargs].
  cbn [drain v_todo v_calls]. rewrite <- F. reflexivity.
Qed.
End MainT.

(* ================================================================== *)
(* 2. soundness of the execution semantics against the flags            *)

(* composing runs: the flags of consecutive pieces of source, the events of the pieces that ran *)
Lemma so_nil off n k fs st : le_abs k st -> Sound_out off n k fs (st, []).
Proof. intros L. split; [exact L|intros e []]. Qed.

Lemma so_app off n1 n2 k1 k2 f1 f2 s1 e1 s2 e2 :
  Sound_out off n1 k1 f1 (s1, e1) -> length f1 = n1 ->
  Sound_out (off + n1) n2 k2 f2 (s2, e2) ->
  Sound_out off (n1 + n2) k2 (f1 ++ f2) (s2, e1 ++ e2).
Proof.
  intros [L1 E1] Len [L2 E2]. cbn [fst snd] in *. split; [exact L2|]. cbn [snd].
  intros e He. apply in_app_or in He as [He|He].
  - destruct (E1 e He) as [R F]. split; [lia|]. rewrite app_nth1 by lia. exact F.
  - destruct (E2 e He) as [R F]. split; [lia|]. rewrite app_nth2 by lia.
    replace (ev_site e - off - length f1)%nat with (ev_site e - (off + n1))%nat by lia. exact F.
Qed.

Lemma so_le off n k fs r : Sound_out off n k fs r -> le_abs k (fst r).
Proof. intros [L _]. exact L. Qed.

(* decreasing, one flag tuple per call site *)
Definition ShapeT (x : tstmt) : Prop :=
  forall k, le_k (fst (absint_t x k)) k /\ length (snd (absint_t x k)) = tcalls x.

Lemma shape_thread l : Forall ShapeT l ->
  forall k, le_k (fst (absint_tb l k)) k /\ length (snd (absint_tb l k)) = tcalls_block l.
Proof.
  unfold absint_tb, tcalls_block.
  induction 1 as [|x l Hx Hl IH]; intros k.
  - split; [apply le_k_refl|reflexivity].
  - rewrite thread_cons, sumf_cons.
    destruct (Hx k) as [A B]. destruct (absint_t x k) as [k1 f1]. cbn [fst snd] in *.
    destruct (IH k1) as [C D]. destruct (thread absint_t l k1) as [k2 f2]. cbn [fst snd] in *.
    split; [eapply le_k_trans; eauto|]. rewrite app_length. lia.
Qed.

Lemma shape_habs h : Forall ShapeT (oblk h) ->
  forall k, le_k (fst (habs h k)) k /\ length (snd (habs h k)) = hcalls h.
Proof.
  intros Hh k. destruct h as [hb|]; cbn [oblk habs hcalls] in *.
  - exact (shape_thread hb Hh k).
  - split; [apply le_k_refl|reflexivity].
Qed.

Lemma shape_t_all : forall x, ShapeT x.
Proof.
  apply tstmt_ind'; unfold ShapeT.
  - intros s k. exact (shape_all s k).
  - intros b h o f Hb Hh Ho Hf k. rewrite absint_t_try, tcalls_try.
    destruct (shape_thread b Hb k) as [A1 B1]. destruct (absint_tb b k) as [k1 f1]. cbn [fst snd] in *.
    destruct (shape_habs h Hh k1) as [A2 B2]. destruct (habs h k1) as [k2 f2]. cbn [fst snd] in *.
    destruct (shape_thread o Ho k2) as [A3 B3]. destruct (absint_tb o k2) as [k3 f3]. cbn [fst snd] in *.
    destruct (shape_thread f Hf k3) as [A4 B4]. destruct (absint_tb f k3) as [k4 f4]. cbn [fst snd] in *.
    split.
    + eapply le_k_trans; [exact A4|]. eapply le_k_trans; [exact A3|]. eapply le_k_trans; [exact A2|exact A1].
    + rewrite !app_length. lia.
  - intros b Hb k. rewrite absint_t_with, tcalls_with.
    destruct (shape_thread b Hb k) as [A1 B1]. destruct (absint_tb b k) as [k1 f1]. cbn [fst snd length] in *.
    split; [exact A1|lia].
  - intros s k. cbn [absint_t tcalls]. destruct (shape_all s k) as [A B].
    destruct (absint s k) as [k1 f1]. cbn [fst snd length] in *. split; [exact A|lia].
  - intros m s k. cbn [absint_t tcalls]. destruct (shape_all s (taint_abs SK k)) as [A B].
    destruct (absint s (taint_abs SK k)) as [k1 f1]. cbn [fst snd length] in *. split; [|lia].
    eapply le_k_trans; [exact A|apply le_k_taint].
  - intros x s k. cbn [absint_t tcalls]. destruct (shape_all s (taint_abs x k)) as [A B].
    split; [|exact B]. eapply le_k_trans; [exact A|apply le_k_taint].
  - intros b Hb k. rewrite absint_t_for, tcalls_for.
    destruct (shape_thread b Hb k) as [A1 B1]. destruct (absint_tb b k) as [k1 f1]. cbn [fst snd length] in *.
    split; [exact A1|lia].
Qed.

Definition shape_tb l := shape_thread l (Forall_all _ shape_t_all l).

(* an element statement runs without changing what the stars denote *)
Lemma repeatable_exec s off st r :
  repeatable s = true -> In r (exec_stmt (depth s) off s st) -> fst r = st.
Proof.
  destruct s as [c n kw pa pk|x|x|x| |x m|f x|y x|f|a b|m]; try discriminate; intros H Hin.
  - cbn in Hin. destruct Hin as [<-|[]]. reflexivity.
  - destruct x; [|discriminate]. cbn in Hin. destruct Hin as [<-|[]]. reflexivity.
  - destruct x; [|discriminate]. cbn in Hin. destruct Hin as [<-|[]]. reflexivity.
  - cbn in Hin. destruct Hin as [<-|[]]. reflexivity.
Qed.

Lemma repeatable_ncalls s : repeatable s = true -> ncalls s = 1%nat.
Proof. destruct s; try discriminate; reflexivity. Qed.

Lemma repeatable_flat s : repeatable s = true -> flat s = true.
Proof. destruct s; try discriminate; reflexivity. Qed.

(* every round is judged by the flags computed once, against the state at entry *)
Lemma iter_sound s off k st : repeatable s = true -> le_abs k st ->
  forall n r, In r (iter_stmt n off s st) ->
  fst r = st /\
  forall e, In e (snd r) ->
    (off <= ev_site e < off + ncalls s)%nat /\ flag_sound (nth (ev_site e - off) (snd (absint s k)) dflags) e.
Proof.
  intros Hr Hle. induction n as [|n IH]; intros r Hin.
  - cbn in Hin. destruct Hin as [<-|[]]. split; [reflexivity|intros e []].
  - cbn [iter_stmt] in Hin. apply in_flat_map in Hin as (r1 & H1 & Hin).
    apply in_map_iff in Hin as (r2 & <- & H2). cbn [fst snd].
    pose proof (repeatable_exec s off st r1 Hr H1) as E1.
    destruct (sound_all (depth s) s off k st r1 (repeatable_flat s Hr) Hle H1) as [_ S1].
    rewrite E1 in H2. destruct (IH r2 H2) as [E2 S2]. split; [exact E2|].
    intros e He. apply in_app_or in He as [He|He]; auto.
Qed.

Lemma iter_so s off k st n r : repeatable s = true -> le_abs k st -> In r (iter_stmt n off s st) ->
  Sound_out off (ncalls s) (fst (absint s k)) (snd (absint s k)) r.
Proof.
  intros Hr Hle Hin. destruct (iter_sound s off k st Hr Hle n r Hin) as [E0 S0].
  split; [|exact S0]. rewrite E0. eapply le_abs_mono; [exact (proj1 (shape_all s k))|exact Hle].
Qed.

Lemma so_one off k st : le_abs k st -> Sound_out off 1 k [noflags] (st, [mkEvent off None None]).
Proof.
  intros Hle. split; [exact Hle|]. intros e [<-|[]]. cbn [ev_site]. split; [lia|].
  rewrite Nat.sub_diag. cbn. repeat split; discriminate.
Qed.

Section SoundT.
Variables va vk : N.

Definition SoundT (x : tstmt) : Prop := forall off k st r,
  names_ok_t va vk x = true -> stable_t x k = true -> le_abs k st -> In r (exec_t x off st) ->
  Sound_out off (tcalls x) (fst (absint_t x k)) (snd (absint_t x k)) (o_st r, o_ev r).

Definition SoundSeq (run : list tstmt -> nat -> sem -> list outcome) (l : list tstmt) : Prop :=
  forall off k st r,
  tblock_ok va vk l = true -> stable_tb l k = true -> le_abs k st -> In r (run l off st) ->
  Sound_out off (tcalls_block l) (fst (absint_tb l k)) (snd (absint_tb l k)) (o_st r, o_ev r).

Lemma sound_seq l : Forall SoundT l -> SoundSeq (seq_t exec_t tcalls) l.
Proof.
  induction 1 as [|x l Hx Hl IH]; intros off k st r Hok Hst Hle Hin.
  - cbn in Hin. destruct Hin as [<-|[]]. apply so_nil. exact Hle.
  - cbn [tblock_ok forallb] in Hok. apply Bool.andb_true_iff in Hok as [Hokx Hokl].
    unfold stable_tb in Hst. rewrite thread_ok_cons in Hst. apply Bool.andb_true_iff in Hst as [Hstx Hstl].
    fold (stable_tb l (fst (absint_t x k))) in Hstl.
    rewrite seq_t_cons in Hin. apply in_flat_map in Hin as (r1 & H1 & Hin).
    pose proof (Hx off k st r1 Hokx Hstx Hle H1) as S1.
    destruct (shape_t_all x k) as [_ Len1].
    pose proof (shape_tb l (fst (absint_t x k))) as [Dl _].
    unfold absint_tb, tcalls_block in *. rewrite thread_cons, sumf_cons.
    destruct (absint_t x k) as [k1 f1]. cbn [fst snd] in *.
    (* the rest of the block is skipped *)
    assert (Skip : Sound_out off (tcalls x + sumf tcalls l) (fst (thread absint_t l k1))
                     (f1 ++ snd (thread absint_t l k1)) (o_st r1, o_ev r1)).
    { rewrite <- (app_nil_r (o_ev r1)). eapply so_app; [exact S1|exact Len1|].
      apply so_nil. eapply le_abs_mono; [exact Dl|]. exact (so_le _ _ _ _ _ S1). }
    destruct (o_prop r1) eqn:P1.
    + destruct Hin as [<-|[]]. destruct (thread absint_t l k1) as [k2 f2]. exact Skip.
    + destruct Hin as [<-|Hin].
      * destruct (thread absint_t l k1) as [k2 f2]. exact Skip.
      * unfold then_ in Hin. apply in_map_iff in Hin as (r2 & <- & H2).
        pose proof (IH (off + tcalls x)%nat k1 (o_st r1) r2 Hokl Hstl (so_le _ _ _ _ _ S1) H2) as S2.
        unfold absint_tb, tcalls_block in S2.
        destruct (thread absint_t l k1) as [k2 f2]. cbn [fst snd o_st o_ev] in *.
        eapply so_app; [exact S1|exact Len1|exact S2].
Qed.

Lemma sound_blk l : Forall SoundT l -> SoundSeq exec_tb l.
Proof.
  intros Hl off k st r Hok Hst Hle Hin. unfold exec_tb, blk_t in Hin.
  destruct l as [|x l'].
  - destruct Hin as [<-|[]]. apply so_nil. exact Hle.
  - destruct Hin as [<-|Hin].
    + apply so_nil. eapply le_abs_mono; [|exact Hle]. exact (proj1 (shape_tb (x :: l') k)).
    + exact (sound_seq (x :: l') Hl off k st r Hok Hst Hle Hin).
Qed.

(* the four phases of a try statement; a phase that did not run contributes no event *)
Lemma so4 off nb nh no nf k1 k2 k3 k4 f1 f2 f3 f4 s1 e1 s2 e2 s3 e3 s4 e4 :
  Sound_out off nb k1 f1 (s1, e1) -> length f1 = nb ->
  Sound_out (off + nb) nh k2 f2 (s2, e2) -> length f2 = nh ->
  Sound_out (off + nb + nh) no k3 f3 (s3, e3) -> length f3 = no ->
  Sound_out (off + nb + nh + no) nf k4 f4 (s4, e4) ->
  Sound_out off (nb + (nh + (no + nf))) k4 (f1 ++ f2 ++ f3 ++ f4) (s4, e1 ++ e2 ++ e3 ++ e4).
Proof.
  intros S1 L1 S2 L2 S3 L3 S4.
  eapply so_app; [exact S1|exact L1|]. eapply so_app; [exact S2|exact L2|].
  eapply so_app; [exact S3|exact L3|exact S4].
Qed.

(* two runs over the same piece of source *)
Lemma so_same off n ka kb fs s1 e1 s2 e2 :
  Sound_out off n ka fs (s1, e1) -> Sound_out off n kb fs (s2, e2) -> Sound_out off n kb fs (s2, e1 ++ e2).
Proof.
  intros [_ E1] [L2 E2]. split; [exact L2|]. cbn [snd] in *.
  intros e He. apply in_app_or in He as [He|He]; auto.
Qed.

(* a loop whose body is a fixed point (k1, f1) of the abstract interpretation: every round,
   whether it starts in the entry state or where a previous round ended, is judged by f1 *)
Lemma sound_loop b off k1 f1 : Forall SoundT b -> tblock_ok va vk b = true ->
  forall n k' st r,
  absint_tb b k' = (k1, f1) -> stable_tb b k' = true ->
  absint_tb b k1 = (k1, f1) -> stable_tb b k1 = true ->
  le_abs k' st -> In r (loop_t (seq_t exec_t tcalls b off) n st) ->
  Sound_out off (tcalls_block b) k1 f1 (o_st r, o_ev r).
Proof.
  intros Hb Hok. induction n as [|n IH]; intros k' st r E' S' E1 S1 Hle Hin.
  - destruct Hin as [<-|[]]. apply so_nil. eapply le_abs_mono; [|exact Hle].
    pose proof (proj1 (shape_tb b k')) as D. rewrite E' in D. exact D.
  - rewrite loop_t_S in Hin. apply in_flat_map in Hin as (r1 & H1 & Hin).
    pose proof (sound_seq b Hb off k' st r1 Hok S' Hle H1) as SR. rewrite E' in SR. cbn [fst snd] in SR.
    destruct (o_prop r1).
    + destruct Hin as [<-|[]]. exact SR.
    + unfold then_ in Hin. apply in_map_iff in Hin as (r2 & <- & H2). cbn [o_st o_ev fst snd].
      pose proof (IH k1 (o_st r1) r2 E1 S1 E1 S1 (so_le _ _ _ _ _ SR) H2) as S2.
      exact (so_same _ _ _ _ _ _ _ _ _ SR S2).
Qed.

Lemma flags_eqb_eq a b : flags_eqb a b = true -> a = b.
Proof.
  destruct a as [[[a1 a2] a3] a4], b as [[[b1 b2] b3] b4]. unfold flags_eqb. intros H.
  apply Bool.andb_true_iff in H as [H H4]. apply Bool.andb_true_iff in H as [H H3].
  apply Bool.andb_true_iff in H as [H1 H2].
  apply Bool.eqb_prop in H1, H2, H3, H4. congruence.
Qed.

Lemma flist_eqb_eq a : forall b, flist_eqb a b = true -> a = b.
Proof.
  induction a as [|x a IH]; intros [|y b] H; try discriminate; [reflexivity|].
  cbn [flist_eqb] in H. apply Bool.andb_true_iff in H as [H1 H2].
  now rewrite (flags_eqb_eq _ _ H1), (IH _ H2).
Qed.

Lemma absres_eqb_eq x y : absres_eqb x y = true -> x = y.
Proof.
  destruct x as [[xa xk] xf], y as [[ya yk] yf]. unfold absres_eqb. cbn [fst snd]. intros H.
  apply Bool.andb_true_iff in H as [H H3]. apply Bool.andb_true_iff in H as [H1 H2].
  apply Bool.eqb_prop in H1, H2. apply flist_eqb_eq in H3. congruence.
Qed.

Lemma sound_t_all : forall x, SoundT x.
Proof.
  apply tstmt_ind'.
  - (* TLeaf *)
    intros s off k st r Hok _ Hle Hin. cbn [exec_t] in Hin.
    apply in_map_iff in Hin as (r0 & <- & H0). cbn [o_st o_ev fst snd].
    replace (fst r0, snd r0) with r0 by (destruct r0; reflexivity).
    exact (sound_all (depth s) s off k st r0 (names_ok_flat va vk s Hok) Hle H0).
  - (* TTry *)
    intros b h o f Hb Hh Ho Hf off k st r Hok Hst Hle Hin.
    rewrite names_ok_t_try in Hok. apply Bool.andb_true_iff in Hok as [Hok Hokf].
    apply Bool.andb_true_iff in Hok as [Hok Hoko]. apply Bool.andb_true_iff in Hok as [Hokb Hokh].
    rewrite stable_t_try in Hst. apply Bool.andb_true_iff in Hst as [Hst Hsf].
    apply Bool.andb_true_iff in Hst as [Hst Hso]. apply Bool.andb_true_iff in Hst as [Hsb Hsh].
    rewrite exec_t_try in Hin. cbv zeta in Hin. apply in_flat_map in Hin as (rb & HB & Hin).
    rewrite absint_t_try, tcalls_try.
    pose proof (sound_blk b Hb off k st rb Hokb Hsb Hle HB) as SB.
    destruct (shape_tb b k) as [_ LB].
    pose proof (fun st' => sound_blk o Ho (off + tcalls_block b + hcalls h)%nat (fst (habs h (fst (absint_tb b k)))) st') as SO.
    pose proof (shape_habs h (Forall_all _ shape_t_all _) (fst (absint_tb b k))) as [DH LH].
    assert (SH : forall rh st', le_abs (fst (absint_tb b k)) st' ->
                 match h with Some hb => In rh (exec_tb hb (off + tcalls_block b)%nat st') | None => False end ->
                 Sound_out (off + tcalls_block b) (hcalls h) (fst (habs h (fst (absint_tb b k))))
                           (snd (habs h (fst (absint_tb b k)))) (o_st rh, o_ev rh)).
    { intros rh st' L Hrh. destruct h as [hb|]; [|contradiction]. cbn [oblk habs hcalls hstable] in *.
      exact (sound_blk hb Hh _ _ st' rh Hokh Hsh L Hrh). }
    destruct (absint_tb b k) as [k1 f1]. cbn [fst snd] in *.
    destruct (habs h k1) as [k2 f2]. cbn [fst snd] in *.
    destruct (shape_tb o k2) as [DO LO].
    pose proof (fun st' => sound_blk f Hf (off + tcalls_block b + hcalls h + tcalls_block o)%nat (fst (absint_tb o k2)) st') as SF.
    destruct (absint_tb o k2) as [k3 f3]. cbn [fst snd] in *.
    destruct (absint_tb f k3) as [k4 f4]. cbn [fst snd] in *.
    pose proof (so_le _ _ _ _ _ SB) as LB1. cbn [fst] in LB1.
    destruct (o_prop rb) eqn:PB.
    + apply in_app_or in Hin as [Hin|Hin].
      * (* the handler ran *)
        destruct h as [hb|]; [|destruct Hin]. apply in_flat_map in Hin as (rh & HH & Hin).
        unfold fin_t in Hin. apply in_map_iff in Hin as (rf & <- & HF). cbn [o_st o_ev fst snd] in *.
        pose proof (SH rh (o_st rb) LB1 HH) as SH1.
        pose proof (so_le _ _ _ _ _ SH1) as LH1. cbn [fst] in LH1.
        assert (LO1 : le_abs k3 (o_st rh)) by (eapply le_abs_mono; [exact DO|exact LH1]).
        pose proof (SF (o_st rh) rf Hokf Hsf LO1 HF) as SF1.
        replace ((o_ev rb ++ o_ev rh) ++ o_ev rf) with (o_ev rb ++ o_ev rh ++ [] ++ o_ev rf)
          by (cbn [app]; now rewrite app_assoc).
        eapply so4; [exact SB|exact LB|exact SH1|exact LH| |exact LO|exact SF1].
        apply so_nil. exact LO1.
      * (* no handler ran *)
        unfold fin_t in Hin. apply in_map_iff in Hin as (rf & <- & HF). cbn [o_st o_ev fst snd] in *.
        assert (LH1 : le_abs k2 (o_st rb)) by (eapply le_abs_mono; [exact DH|exact LB1]).
        assert (LO1 : le_abs k3 (o_st rb)) by (eapply le_abs_mono; [exact DO|exact LH1]).
        pose proof (SF (o_st rb) rf Hokf Hsf LO1 HF) as SF1.
        replace (o_ev rb ++ o_ev rf) with (o_ev rb ++ [] ++ [] ++ o_ev rf) by reflexivity.
        eapply so4; [exact SB|exact LB|apply so_nil; exact LH1|exact LH|apply so_nil; exact LO1|exact LO|exact SF1].
    + (* the body completed: orelse *)
      apply in_flat_map in Hin as (ro & HO & Hin).
      unfold fin_t in Hin. apply in_map_iff in Hin as (rf & <- & HF). cbn [o_st o_ev fst snd] in *.
      assert (LH1 : le_abs k2 (o_st rb)) by (eapply le_abs_mono; [exact DH|exact LB1]).
      pose proof (SO (o_st rb) ro Hoko Hso LH1 HO) as SO1.
      pose proof (so_le _ _ _ _ _ SO1) as LO1. cbn [fst] in LO1.
      pose proof (SF (o_st ro) rf Hokf Hsf LO1 HF) as SF1.
      replace ((o_ev rb ++ o_ev ro) ++ o_ev rf) with (o_ev rb ++ [] ++ o_ev ro ++ o_ev rf)
        by (cbn [app]; now rewrite app_assoc).
      eapply so4; [exact SB|exact LB| |exact LH|exact SO1|exact LO|exact SF1].
      apply so_nil. exact LH1.
  - (* TWith *)
    intros b Hb off k st r Hok Hst Hle Hin. rewrite names_ok_t_with in Hok. rewrite stable_t_with in Hst.
    rewrite exec_t_with in Hin. rewrite absint_t_with, tcalls_with.
    assert (S0 : Sound_out off 1 k [noflags] (st, [mkEvent off None None])).
    { split; [exact Hle|]. intros e [<-|[]]. cbn [ev_site]. split; [lia|].
      rewrite Nat.sub_diag. cbn. repeat split; discriminate. }
    pose proof (shape_tb b k) as [DB _].
    pose proof (fun r0 => sound_seq b Hb (off + 1)%nat k st r0 Hok Hst Hle) as SB.
    destruct (absint_tb b k) as [k1 f1]. cbn [fst snd] in *.
    change (S (tcalls_block b)) with (1 + tcalls_block b)%nat.
    change (noflags :: f1) with ([noflags] ++ f1).
    destruct Hin as [<-|Hin].
    + cbn [o_st o_ev fst snd]. rewrite <- (app_nil_r [mkEvent off None None]).
      eapply so_app; [exact S0|reflexivity|]. apply so_nil. eapply le_abs_mono; [exact DB|exact Hle].
    + apply in_map_iff in Hin as (r0 & <- & H0). cbn [o_st o_ev fst snd].
      change (mkEvent off None None :: o_ev r0) with ([mkEvent off None None] ++ o_ev r0).
      eapply so_app; [exact S0|reflexivity|]. apply SB. rewrite Nat.add_1_r. exact H0.
  - (* TRepeat *)
    intros s off k st r Hok _ Hle Hin. cbn [names_ok_t] in Hok.
    apply Bool.andb_true_iff in Hok as [Hr Hs].
    cbn [exec_t] in Hin. apply in_flat_map in Hin as (n & _ & Hin).
    apply in_map_iff in Hin as (r0 & <- & H0). cbn [o_st o_ev fst snd].
    rewrite <- Nat.add_1_r in H0. pose proof (iter_so s (off + 1)%nat k st n r0 Hr Hle H0) as S1.
    cbn [absint_t tcalls]. destruct (absint s k) as [k1 f1]. cbn [fst snd] in *. destruct r0 as [s0 e0].
    change (S (ncalls s)) with (1 + ncalls s)%nat. change (noflags :: f1) with ([noflags] ++ f1).
    change (mkEvent off None None :: snd (s0, e0)) with ([mkEvent off None None] ++ e0).
    eapply so_app; [exact (so_one off k st Hle)|reflexivity|exact S1].
  - (* TRepeatMut *)
    intros m s off k st r Hok _ Hle Hin. cbn [names_ok_t] in Hok.
    apply Bool.andb_true_iff in Hok as [Hr Hs].
    cbn [exec_t] in Hin. apply in_flat_map in Hin as (n & _ & Hin).
    apply in_map_iff in Hin as (r0 & <- & H0). cbn [o_st o_ev fst snd].
    assert (TA : le_abs (taint_abs SK k) (taint_sem SK st)).
    { destruct Hle as [La Lk]. split; cbn; auto; discriminate. }
    rewrite <- Nat.add_1_r in H0.
    pose proof (iter_so s (off + 1)%nat (taint_abs SK k) (taint_sem SK st) n r0 Hr TA H0) as S1.
    cbn [absint_t tcalls]. destruct (absint s (taint_abs SK k)) as [k1 f1]. cbn [fst snd] in *. destruct r0 as [s0 e0].
    change (S (ncalls s)) with (1 + ncalls s)%nat. change (noflags :: f1) with ([noflags] ++ f1).
    change (mkEvent off None None :: snd (s0, e0)) with ([mkEvent off None None] ++ e0).
    eapply so_app; [exact (so_one off _ _ TA)|reflexivity|exact S1].
  - (* TRepeatShadow *)
    intros x s off k st r Hok _ Hle Hin. cbn [names_ok_t] in Hok.
    apply Bool.andb_true_iff in Hok as [Hr Hs].
    cbn [exec_t] in Hin. apply in_map_iff in Hin as (r0 & <- & H0). cbn [o_st o_ev fst snd].
    assert (TA : le_abs (taint_abs x k) (taint_sem x st)).
    { destruct Hle as [La Lk]. destruct x; split; cbn; auto; discriminate. }
    destruct (iter_so s off (taint_abs x k) (taint_sem x st) 1 r0 Hr TA H0) as [_ S1].
    cbn [absint_t tcalls]. split; [|exact S1]. cbn [fst].
    eapply le_abs_mono; [|exact Hle].
    eapply le_k_trans; [exact (proj1 (shape_all s (taint_abs x k)))|apply le_k_taint].
  - (* TFor *)
    intros b Hb off k st r Hok Hst Hle Hin. rewrite names_ok_t_for in Hok.
    rewrite stable_t_for in Hst. apply Bool.andb_true_iff in Hst as [Hst S2].
    apply Bool.andb_true_iff in Hst as [S1 EQ]. apply absres_eqb_eq in EQ.
    rewrite exec_t_for in Hin. rewrite absint_t_for, tcalls_for.
    pose proof (shape_tb b k) as [DB _].
    pose proof (sound_loop b (off + 1)%nat (fst (absint_tb b k)) (snd (absint_tb b k)) Hb Hok) as SL.
    destruct (absint_tb b k) as [k1 f1] eqn:E0. cbn [fst snd] in *.
    change (S (tcalls_block b)) with (1 + tcalls_block b)%nat.
    change (noflags :: f1) with ([noflags] ++ f1).
    destruct Hin as [<-|Hin].
    + cbn [o_st o_ev fst snd]. rewrite <- (app_nil_r [mkEvent off None None]).
      eapply so_app; [exact (so_one off k st Hle)|reflexivity|].
      apply so_nil. eapply le_abs_mono; [exact DB|exact Hle].
    + apply in_flat_map in Hin as (n & _ & Hin). apply in_map_iff in Hin as (r0 & <- & H0).
      cbn [o_st o_ev fst snd].
      change (mkEvent off None None :: o_ev r0) with ([mkEvent off None None] ++ o_ev r0).
      eapply so_app; [exact (so_one off k st Hle)|reflexivity|].
      rewrite <- Nat.add_1_r in H0. exact (SL n k st r0 E0 S1 EQ S2 Hle H0).
Qed.
End SoundT.

(* ================================================================== *)
(* 3. the theorems                                                     *)

(* (a) the walker's flags on the rendered tree are exactly the abstract interpretation *)
Theorem visitor_flags_t_absint va vk nm l :
  va <> vk -> fixed_ok va vk nm = true -> tblock_ok va vk l = true ->
  visitor_flags_t va vk nm l = Some (snd (absint_tb l (true, true))).
Proof. intros Hne Hfix Hok. exact (visitor_flags_t_absint_sec va vk nm Hne Hfix l Hok). Qed.

(* ---- when one pass over the loop bodies is enough ---- *)
Lemma Forall_guard {A} (f : A -> bool) (Q : A -> Prop) l :
  Forall (fun x => f x = true -> Q x) l -> forallb f l = true -> Forall Q l.
Proof.
  induction 1 as [|x l Hx _ IH]; intros H; [constructor|].
  cbn [forallb] in H. apply Bool.andb_true_iff in H as [H1 H2]. constructor; auto.
Qed.

Lemma stable_block l : Forall (fun x => forall k, stable_t x k = true) l -> forall k, stable_tb l k = true.
Proof.
  unfold stable_tb. induction 1 as [|x l Hx _ IH]; intros k; [reflexivity|].
  rewrite thread_ok_cons, Hx, IH. reflexivity.
Qed.

Lemma loop_free_try b h o f :
  loop_free (TTry b h o f) =
  tblock_loop_free b && tblock_loop_free (oblk h) && tblock_loop_free o && tblock_loop_free f.
Proof. destruct h; reflexivity. Qed.

(* no loop: nothing to check *)
Lemma loop_free_stable : forall x, loop_free x = true -> forall k, stable_t x k = true.
Proof.
  apply (tstmt_ind' (fun x => loop_free x = true -> forall k, stable_t x k = true));
    try (intros; reflexivity).
  - intros b h o f Hb Hh Ho Hf H k. rewrite loop_free_try in H.
    apply Bool.andb_true_iff in H as [H Hf1]. apply Bool.andb_true_iff in H as [H Ho1].
    apply Bool.andb_true_iff in H as [Hb1 Hh1].
    rewrite stable_t_try, (stable_block b (Forall_guard _ _ _ Hb Hb1)),
      (stable_block o (Forall_guard _ _ _ Ho Ho1)), (stable_block f (Forall_guard _ _ _ Hf Hf1)).
    destruct h as [hb|]; cbn [hstable oblk] in *; [|reflexivity].
    rewrite (stable_block hb (Forall_guard _ _ _ Hh Hh1)). reflexivity.
  - intros b Hb H k. rewrite stable_t_with. exact (stable_block b (Forall_guard _ _ _ Hb H) k).
  - intros b _ H. discriminate H.
Qed.

Lemma tblock_loop_free_stable l k : tblock_loop_free l = true -> stable_tb l k = true.
Proof.
  intros H. apply stable_block. apply (Forall_guard loop_free); [|exact H].
  apply Forall_all. exact loop_free_stable.
Qed.

(* loop bodies that do not touch the star variables: the abstract state does not move *)
Lemma quiet_fst s k : quiet s = true -> fst (absint s k) = k.
Proof.
  destruct s as [c n kw pa pk|x|x|x| |x m|f x|y x|f|a b|m]; try discriminate; intros H;
    try reflexivity; destruct x; try discriminate; reflexivity.
Qed.

Lemma quiet_thread l : Forall (fun x => forall k, fst (absint_t x k) = k) l ->
  forall k, fst (absint_tb l k) = k.
Proof.
  unfold absint_tb. induction 1 as [|x l Hx _ IH]; intros k; [reflexivity|].
  rewrite thread_cons. specialize (Hx k). destruct (absint_t x k) as [k1 f1]. cbn [fst] in Hx. subst k1.
  specialize (IH k). destruct (thread absint_t l k) as [k2 f2]. exact IH.
Qed.

Lemma quiet_t_try b h o f :
  quiet_t (TTry b h o f) = forallb quiet_t b && forallb quiet_t (oblk h) && forallb quiet_t o && forallb quiet_t f.
Proof. destruct h; reflexivity. Qed.

Lemma quiet_t_fst : forall x, quiet_t x = true -> forall k, fst (absint_t x k) = k.
Proof.
  apply (tstmt_ind' (fun x => quiet_t x = true -> forall k, fst (absint_t x k) = k)).
  - intros s H k. cbn [quiet_t] in H. exact (quiet_fst s k H).
  - intros b h o f Hb Hh Ho Hf H k. rewrite quiet_t_try in H.
    apply Bool.andb_true_iff in H as [H Hf1]. apply Bool.andb_true_iff in H as [H Ho1].
    apply Bool.andb_true_iff in H as [Hb1 Hh1]. rewrite absint_t_try.
    pose proof (quiet_thread b (Forall_guard _ _ _ Hb Hb1) k) as E1.
    destruct (absint_tb b k) as [k1 f1]. cbn [fst] in E1. subst k1.
    assert (E2 : fst (habs h k) = k).
    { destruct h as [hb|]; cbn [habs oblk] in *; [|reflexivity].
      exact (quiet_thread hb (Forall_guard _ _ _ Hh Hh1) k). }
    destruct (habs h k) as [k2 f2]. cbn [fst] in E2. subst k2.
    pose proof (quiet_thread o (Forall_guard _ _ _ Ho Ho1) k) as E3.
    destruct (absint_tb o k) as [k3 f3]. cbn [fst] in E3. subst k3.
    pose proof (quiet_thread f (Forall_guard _ _ _ Hf Hf1) k) as E4.
    destruct (absint_tb f k) as [k4 f4]. exact E4.
  - intros b Hb H k. cbn [quiet_t] in H. rewrite absint_t_with.
    pose proof (quiet_thread b (Forall_guard _ _ _ Hb H) k) as E1.
    destruct (absint_tb b k) as [k1 f1]. exact E1.
  - intros s H k. cbn [quiet_t] in H. cbn [absint_t]. pose proof (quiet_fst s k H) as E.
    destruct (absint s k) as [k1 f1]. exact E.
  - intros m s H. discriminate H.
  - intros x s H. discriminate H.
  - intros b Hb H k. cbn [quiet_t] in H. rewrite absint_t_for.
    pose proof (quiet_thread b (Forall_guard _ _ _ Hb H) k) as E1.
    destruct (absint_tb b k) as [k1 f1]. exact E1.
Qed.

Lemma flags_eqb_refl a : flags_eqb a a = true.
Proof. destruct a as [[[[] []] []] []]; reflexivity. Qed.
Lemma flist_eqb_refl a : flist_eqb a a = true.
Proof. induction a as [|x a IH]; [reflexivity|]. cbn [flist_eqb]. now rewrite flags_eqb_refl, IH. Qed.
Lemma absres_eqb_refl x : absres_eqb x x = true.
Proof. unfold absres_eqb. now rewrite !Bool.eqb_reflx, flist_eqb_refl. Qed.

Lemma loop_quiet_try b h o f :
  loop_quiet (TTry b h o f) =
  tblock_loop_quiet b && tblock_loop_quiet (oblk h) && tblock_loop_quiet o && tblock_loop_quiet f.
Proof. destruct h; reflexivity. Qed.

Lemma loop_quiet_stable : forall x, loop_quiet x = true -> forall k, stable_t x k = true.
Proof.
  apply (tstmt_ind' (fun x => loop_quiet x = true -> forall k, stable_t x k = true));
    try (intros; reflexivity).
  - intros b h o f Hb Hh Ho Hf H k. rewrite loop_quiet_try in H.
    apply Bool.andb_true_iff in H as [H Hf1]. apply Bool.andb_true_iff in H as [H Ho1].
    apply Bool.andb_true_iff in H as [Hb1 Hh1].
    rewrite stable_t_try, (stable_block b (Forall_guard _ _ _ Hb Hb1)),
      (stable_block o (Forall_guard _ _ _ Ho Ho1)), (stable_block f (Forall_guard _ _ _ Hf Hf1)).
    destruct h as [hb|]; cbn [hstable oblk] in *; [|reflexivity].
    rewrite (stable_block hb (Forall_guard _ _ _ Hh Hh1)). reflexivity.
  - intros b Hb H k. rewrite stable_t_with. exact (stable_block b (Forall_guard _ _ _ Hb H) k).
  - intros b Hb H k. cbn [loop_quiet] in H. apply Bool.andb_true_iff in H as [Hq Hl].
    rewrite stable_t_for.
    rewrite (quiet_thread b (Forall_guard _ _ _ (Forall_all _ quiet_t_fst b) Hq) k).
    rewrite (stable_block b (Forall_guard _ _ _ Hb Hl) k), absres_eqb_refl. reflexivity.
Qed.

Lemma tblock_loop_quiet_stable l k : tblock_loop_quiet l = true -> stable_tb l k = true.
Proof.
  intros H. apply stable_block. apply (Forall_guard loop_quiet); [|exact H].
  apply Forall_all. exact loop_quiet_stable.
Qed.

(* (b') the general form, from any block offset and any starting state the abstract state
   covers, with the final state: a star the walker still regards as pristine at the end IS
   pristine, also when the wrapper is left by an exception.  Hypothesis on loops: [stable_tb] *)
Theorem flags_sound_try_general va vk l off k st r :
  tblock_ok va vk l = true -> stable_tb l k = true -> le_abs k st -> In r (exec_tb l off st) ->
  le_abs (fst (absint_tb l k)) (o_st r) /\
  forall e, In e (o_ev r) ->
    (off <= ev_site e < off + tcalls_block l)%nat /\
    flag_sound (nth (ev_site e - off) (snd (absint_tb l k)) dflags) e.
Proof.
  intros Hok Hst Hle Hin.
  exact (sound_blk va vk l (Forall_all _ (sound_t_all va vk) l) off k st r Hok Hst Hle Hin).
Qed.

(* (c') C05 with loops, the strongest true variant: for every wrapper body of the grammar
   INCLUDING `for` loops whose bodies are fixed points of the one-pass abstract interpretation
   ([loop_stable]: a second pass over each loop body, started in the abstract state the first
   one ended in, ends in the same state with the same flags), every outcome -- any number of
   rounds, an exception leaving a round -- and every call executed:
   - a star argument the walker marks as used is the caller's untouched object when the callee
     receives it;
   - a star argument written in the call is marked used or hidden, never neither.
   What is missing for the full statement: loop bodies that are not fixed points
   (flags_sound_loop_refuted below). *)
Theorem flags_sound_loop_partial va vk nm l fls :
  va <> vk -> fixed_ok va vk nm = true -> tblock_ok va vk l = true -> loop_stable l = true ->
  visitor_flags_t va vk nm l = Some fls ->
  forall r e,
    In r (run_t l) -> In e (o_ev r) ->
    (ev_site e < length fls)%nat /\ flag_sound (nth (ev_site e) fls dflags) e.
Proof.
  intros Hne Hfix Hok Hst Hv r e Hin He.
  rewrite (visitor_flags_t_absint va vk nm l Hne Hfix Hok) in Hv. injection Hv as <-.
  assert (L0 : le_abs (true, true) (mkSem true true)) by (split; reflexivity).
  destruct (flags_sound_try_general va vk l 0%nat (true, true) _ r Hok Hst L0 Hin) as [_ E].
  destruct (E e He) as [R F]. rewrite Nat.sub_0_r in F.
  destruct (shape_tb l (true, true)) as [_ Len]. split; [lia|exact F].
Qed.

(* (b) C05 in compound statement contexts, as before the grammar had loops: for every LOOP-FREE
   wrapper body (try / except / else / finally, with, the three comprehension forms, nested at
   any depth around the flat statements), EVERY outcome of the execution semantics -- completed
   or leaving the wrapper with an exception, whatever prefix of each block ran, whether the
   handler ran, matched or raised itself -- and every call executed in it: the same two clauses *)
Theorem flags_sound_try va vk nm l fls :
  va <> vk -> fixed_ok va vk nm = true -> tblock_ok va vk l = true -> tblock_loop_free l = true ->
  visitor_flags_t va vk nm l = Some fls ->
  forall r e,
    In r (run_t l) -> In e (o_ev r) ->
    (ev_site e < length fls)%nat /\ flag_sound (nth (ev_site e) fls dflags) e.
Proof.
  intros Hne Hfix Hok Hlf. apply (flags_sound_loop_partial va vk nm l fls Hne Hfix Hok).
  exact (tblock_loop_free_stable l (true, true) Hlf).
Qed.

(* syntactic corollary: loops whose bodies do not touch the star variables (forwarding calls,
   unrelated calls, handing *args on, aliasing *args, and contexts / comprehensions / loops of
   such statements) *)
Corollary flags_sound_loop_quiet va vk nm l fls :
  va <> vk -> fixed_ok va vk nm = true -> tblock_ok va vk l = true -> tblock_loop_quiet l = true ->
  visitor_flags_t va vk nm l = Some fls ->
  forall r e,
    In r (run_t l) -> In e (o_ev r) ->
    (ev_site e < length fls)%nat /\ flag_sound (nth (ev_site e) fls dflags) e.
Proof.
  intros Hne Hfix Hok Hq. apply (flags_sound_loop_partial va vk nm l fls Hne Hfix Hok).
  exact (tblock_loop_quiet_stable l (true, true) Hq).
Qed.

(* (c) the quantification is not empty: every program has a COMPLETED outcome (and, when it is
   not empty, propagating ones) *)
Definition RunsT (x : tstmt) : Prop :=
  forall off st, exists r, In r (exec_t x off st) /\ o_prop r = false.

Lemma runs_seq l : Forall RunsT l ->
  forall off st, exists r, In r (seq_t exec_t tcalls l off st) /\ o_prop r = false.
Proof.
  induction 1 as [|x l Hx Hl IH]; intros off st.
  - exists (st, [], false). split; [left; reflexivity|reflexivity].
  - destruct (Hx off st) as (r1 & H1 & P1).
    destruct (IH (off + tcalls x)%nat (o_st r1)) as (r2 & H2 & P2).
    exists (o_st r2, o_ev r1 ++ o_ev r2, o_prop r2). split; [|exact P2].
    rewrite seq_t_cons. apply in_flat_map. exists r1. split; [exact H1|]. rewrite P1.
    right. unfold then_. apply in_map_iff. exists r2. auto.
Qed.

Lemma runs_blk l : Forall RunsT l ->
  forall off st, exists r, In r (exec_tb l off st) /\ o_prop r = false.
Proof.
  intros Hl off st. unfold exec_tb, blk_t. destruct l as [|x l'].
  - exists (st, [], false). split; [left; reflexivity|reflexivity].
  - destruct (runs_seq (x :: l') Hl off st) as (r & H & P). exists r. split; [right; exact H|exact P].
Qed.

Lemma runs_t_all : forall x, RunsT x.
Proof.
  apply tstmt_ind'; unfold RunsT.
  - intros s off st. cbn [exec_t].
    destruct (exec_stmt (depth s) off s st) as [|r0 rs] eqn:E;
      [exfalso; exact (runs_all s (depth s) off st (le_n _) E)|].
    exists (fst r0, snd r0, false). split; [left; reflexivity|reflexivity].
  - intros b h o f Hb _ Ho Hf off st.
    destruct (runs_blk b Hb off st) as (rb & HB & PB).
    destruct (runs_blk o Ho (off + tcalls_block b + hcalls h)%nat (o_st rb)) as (ro & HO & PO).
    destruct (runs_blk f Hf (off + tcalls_block b + hcalls h + tcalls_block o)%nat (o_st ro)) as (rf & HF & PF).
    exists (o_st rf, (o_ev rb ++ o_ev ro) ++ o_ev rf, false). split; [|reflexivity].
    rewrite exec_t_try. cbv zeta. apply in_flat_map. exists rb. split; [exact HB|]. rewrite PB.
    apply in_flat_map. exists ro. split; [exact HO|]. unfold fin_t. apply in_map_iff.
    exists rf. cbn [o_st o_ev o_prop fst snd]. rewrite PO, PF. split; [reflexivity|exact HF].
  - intros b Hb off st. destruct (runs_seq b Hb (S off) st) as (r0 & H0 & P0).
    exists (o_st r0, mkEvent off None None :: o_ev r0, o_prop r0). split; [|exact P0].
    rewrite exec_t_with. right. apply in_map_iff. exists r0. auto.
  - intros s off st. exists (st, [mkEvent off None None], false). split; [|reflexivity].
    cbn [exec_t]. apply in_flat_map. exists 0%nat. split; [left; reflexivity|]. left. reflexivity.
  - intros m s off st. exists (taint_sem SK st, [mkEvent off None None], false). split; [|reflexivity].
    cbn [exec_t]. apply in_flat_map. exists 0%nat. split; [left; reflexivity|]. left. reflexivity.
  - intros x s off st. cbn [exec_t iter_stmt].
    destruct (exec_stmt (depth s) off s (taint_sem x st)) as [|r0 rs] eqn:E;
      [exfalso; exact (runs_all s (depth s) off _ (le_n _) E)|].
    exists (st, snd r0 ++ [], false). split; [left; reflexivity|reflexivity].
  - intros b _ off st. exists (st, [mkEvent off None None], false). split; [|reflexivity].
    rewrite exec_t_for. right. apply in_flat_map. exists 0%nat. split; [left; reflexivity|]. left. reflexivity.
Qed.

Theorem exec_t_total l off st : exists r, In r (exec_tb l off st) /\ o_prop r = false.
Proof. exact (runs_blk l (Forall_all _ runs_t_all l) off st). Qed.

Corollary run_t_total l : run_t l <> [].
Proof. destruct (exec_t_total l 0%nat (mkSem true true)) as (r & H & _). intros E. unfold run_t in E. rewrite E in H. destruct H. Qed.

(* a non-empty block can also be left by an exception *)
Theorem exec_t_may_raise x l off st : In (st, [], true) (exec_tb (x :: l) off st).
Proof. left. reflexivity. Qed.

(* a concrete program meeting every hypothesis
   (names args=1 kwargs=2 callees=5,6 f=12 keyword=7; Exception=60 cm=61 _=62 range=63):
     try:
         kwargs = <c>
         n5(<c>, *args, n7=<c>, **kwargs)
     except Exception:
         n6( *args, **kwargs)
     finally:
         n12(<c>)
     with cm():
         [n5( *args) for _ in range(<c>)]
         kwargs[<c>] = <c>                                                            *)
Definition tsample : list tstmt :=
  [TTry [TLeaf (SRebind SK); TLeaf (SFwd 5 1 [7] true true)]
        (Some [TLeaf (SFwd 6 0 [] true true)]) [] [TLeaf (SOther 12)];
   TWith [TRepeat (SFwd 5 0 [] true false); TLeaf SItemSet]]%N.

Ltac find_in := vm_compute; repeat (first [left; reflexivity | right]).

Example tsample_ok :
  fixed_ok 1 2 default_tnames = true /\ tblock_ok 1 2 tsample = true /\ forallb wf_t tsample = true /\
  tblock_loop_free tsample = true /\
  visitor_flags_t 1 2 default_tnames tsample =
    Some [(true, false, false, true); (true, false, false, true); dflags; dflags; dflags;
          (true, false, false, false)] /\
  (* the callee of the try body raises; caught; everything else completes (comprehension: 2 rounds) *)
  In (mkSem true false,
      [mkEvent 0 (Some true) (Some false); mkEvent 1 (Some true) (Some false); mkEvent 2 None None;
       mkEvent 3 None None; mkEvent 4 None None; mkEvent 5 (Some true) None; mkEvent 5 (Some true) None],
      false) (run_t tsample) /\
  (* the same exception is not an Exception: finally runs, the wrapper is left *)
  In (mkSem true false, [mkEvent 0 (Some true) (Some false); mkEvent 2 None None], true) (run_t tsample) /\
  (* the try statement is interrupted before the rebinding: the handler forwards the pristine
     **kwargs, which the walker flags as hidden -- allowed *)
  In (mkSem true true, [mkEvent 1 (Some true) (Some true); mkEvent 2 None None], true) (run_t tsample).
Proof.
  split; [reflexivity|]. split; [reflexivity|]. split; [reflexivity|]. split; [reflexivity|].
  split; [vm_compute; reflexivity|]. split; [find_in|]. split; find_in.
Qed.

(* the three comprehension forms:
     [n5( *args, **kwargs) for _ in range(<c>)]              range: site 0, element: site 1  (use, use)
     [n5( *args, **kwargs) for args in [<c>]]                element: site 2     args hidden
     [n12(args) for _ in range(<c>)]                         sites 3, 4
     [n5(<c>, *args, n7=<c>, **kwargs) for _ in kwargs.pop(<c>)]   pop: site 5, element: site 6, both hidden
     n6( *args, **kwargs)                                    site 7, both hidden
   the tree and the flags are those of the repaired walker (562a505) on this source *)
Definition csample : list tstmt :=
  [TRepeat (SFwd 5 0 [] true true); TRepeatShadow SA (SFwd 5 0 [] true true); TRepeat (SPass 12 SA);
   TRepeatMut 30 (SFwd 5 1 [7] true true); TLeaf (SFwd 6 0 [] true true)]%N.

Example csample_ok :
  tblock_ok 1 2 csample = true /\ forallb wf_t csample = true /\ tblock_loop_free csample = true /\
  visitor_flags_t 1 2 default_tnames csample =
    Some [dflags; (true, true, false, false); (false, true, true, false); dflags; dflags; dflags;
          (false, false, true, true); (false, false, true, true)] /\
  (* one round of each comprehension: inside the second one `args` is the loop value, afterwards
     it is the caller's tuple again (what the walker no longer assumes) *)
  In (mkSem true false,
      [mkEvent 0 None None; mkEvent 1 (Some true) (Some true); mkEvent 2 (Some false) (Some true);
       mkEvent 3 None None; mkEvent 4 None None; mkEvent 5 None None; mkEvent 6 (Some true) (Some false);
       mkEvent 7 (Some true) (Some false)], false) (run_t csample).
Proof.
  split; [reflexivity|]. split; [reflexivity|]. split; [reflexivity|]. split; [vm_compute; reflexivity|]. find_in.
Qed.

(* ================================================================== *)
(* 5. loops                                                            *)
(* the walker reads a loop body once, in source order: a taint AFTER a forwarding call of the body
   reaches that call in the next round.  Known behaviour of the real walker (loops are outside
   C05's quantified grammar); on the library:
       def w( *args, **kwargs ):
           for _ in range(2):
               callee( **kwargs )
               kwargs = dict(y=5)
   sigtools.signature(w) advertises callee's parameters, w(x=1) raises TypeError in the second
   round.  Witness (names as above):  for _ in range(<c>): n5( **kwargs ); kwargs = <c>  *)
Definition loop_witness : list tstmt :=
  [TFor [TLeaf (SFwd 5 0 [] false true); TLeaf (SRebind SK)]]%N.

Theorem flags_sound_loop_refuted :
  exists fls r e,
    fixed_ok 1 2 default_tnames = true /\ tblock_ok 1 2 loop_witness = true /\
    forallb wf_t loop_witness = true /\ loop_stable loop_witness = false /\
    visitor_flags_t 1 2 default_tnames loop_witness = Some fls /\
    In r (run_t loop_witness) /\ In e (o_ev r) /\
    ~ flag_sound (nth (ev_site e) fls dflags) e.
Proof.
  exists [dflags; (false, true, false, false)],
         (mkSem true false,
          [mkEvent 0 None None; mkEvent 1 None (Some true); mkEvent 1 None (Some false)], false),
         (mkEvent 1 None (Some false)).
  split; [reflexivity|]. split; [reflexivity|]. split; [reflexivity|]. split; [reflexivity|].
  split; [vm_compute; reflexivity|]. split; [find_in|]. split; [cbn; auto|].
  cbn. intros (_ & H & _). specialize (H eq_refl). discriminate H.
Qed.

(* loops and the hypotheses.  A taint BEFORE the call is a fixed point after one pass (not
   quiet); args.count(<c>) AFTER n6( *args ) is not: an attribute call on the star taints *args
   for the walker although it cannot change the tuple:
     for _ in range(<c>):
         kwargs = <c>
         n5( *args, **kwargs)
     try:
         for _ in range(<c>):
             n6( *args)
             args.count(<c>)
     finally:
         n12(<c>)                                                                     *)
Definition lsample : list tstmt :=
  [TFor [TLeaf (SRebind SK); TLeaf (SFwd 5 0 [] true true)];
   TTry [TFor [TLeaf (SFwd 6 0 [] true false); TLeaf (SMethod SA 40)]] None [] [TLeaf (SOther 12)]]%N.

Example lsample_ok :
  tblock_ok 1 2 lsample = true /\ forallb wf_t lsample = true /\
  loop_stable lsample = false /\ tblock_loop_free lsample = false.
Proof. repeat split; reflexivity. Qed.

(* with the method call first the body is a fixed point: *)
Definition lsample2 : list tstmt :=
  [TFor [TLeaf (SRebind SK); TLeaf (SFwd 5 0 [] true true)];
   TTry [TFor [TLeaf (SMethod SA 40); TLeaf (SFwd 6 0 [] true false)]] None [] [TLeaf (SOther 12)]]%N.

Example lsample2_ok :
  tblock_ok 1 2 lsample2 = true /\ forallb wf_t lsample2 = true /\
  loop_stable lsample2 = true /\ tblock_loop_quiet lsample2 = false /\
  visitor_flags_t 1 2 default_tnames lsample2 =
    Some [dflags; (true, false, false, true); dflags; dflags; (false, false, true, false); dflags] /\
  (* two rounds of the first loop, one round of the second *)
  In (mkSem true false,
      [mkEvent 0 None None; mkEvent 1 (Some true) (Some false); mkEvent 1 (Some true) (Some false);
       mkEvent 2 None None; mkEvent 3 None None; mkEvent 4 (Some true) None; mkEvent 5 None None],
      false) (run_t lsample2).
Proof.
  split; [reflexivity|]. split; [reflexivity|]. split; [reflexivity|]. split; [reflexivity|].
  split; [vm_compute; reflexivity|]. find_in.
Qed.

(* nested loops that do not touch the stars: the syntactic condition *)
Definition lsample3 : list tstmt :=
  [TFor [TFor [TLeaf (SFwd 5 0 [] true true)]; TWith [TRepeat (SOther 12)]]]%N.

Example lsample3_ok :
  tblock_ok 1 2 lsample3 = true /\ tblock_loop_quiet lsample3 = true /\ loop_stable lsample3 = true /\
  visitor_flags_t 1 2 default_tnames lsample3 =
    Some [dflags; dflags; (true, true, false, false); dflags; dflags; dflags].
Proof. split; [reflexivity|]. split; [reflexivity|]. split; [reflexivity|]. vm_compute. reflexivity. Qed.

(* ================================================================== *)
(* 4. OldOrder: the walker BEFORE repair 562a505                        *)
(* ListComp._fields = (elt, generators), comprehension._fields = (target, iter, ifs, is_async):
   generic_visit met the element call first, then the target, then the iterable, although the
   iterable is evaluated first and the target bound before the element runs.  On that order the
   statement was FALSE of the faithful walker model for the two forms that are now inside the
   fragment (replayed on the library before the repair: sigtools.signature advertised the
   callee's parameters, the call raised TypeError in the callee):
       def w( *args, **kwargs ): [callee( **kwargs ) for _ in kwargs.pop(<c>)]
       def w( *args, **kwargs ): [callee( **kwargs ) for kwargs in [<c>]]
   The old call list was element-first: index 0 = the element call (site 1 / site 0 of the
   current numbering), index 1 = the iterable call. *)
Section OldOrder.
Definition comp_node_old (iter target elt : node) : node :=
  NOpaque [NOpaque [elt; NOpaque [target; iter]]].

Definition compile_mut_old (va vk : N) (nm : tnames) (m : N) (s : stmt) : node :=
  comp_node_old (NCall (NAttr (NName vk Load) m) [const] []) (NName (tn_tgt nm) Store) (call_of va vk s).

Definition compile_shadow_old (va vk : N) (x : star) (s : stmt) : node :=
  comp_node_old (NOpaque [const; ctxnode]) (NName (sname va vk x) Store) (call_of va vk s).

Definition flags_of (va vk : N) (body : list node) : option (list flags) :=
  match visit_function [] [] (Some va) (Some vk) body with
  | Some calls => Some (map fl calls)
  | None => None
  end.

Definition mut_witness : list tstmt := [TRepeatMut 30 (SFwd 5 0 [] false true)]%N.
Definition shadow_witness : list tstmt := [TRepeatShadow SK (SFwd 5 0 [] false true)]%N.

(* the iterable mutates **kwargs: old flag of the element call = use_varkwargs *)
Theorem flags_sound_old_order_refuted :
  exists fls r e,
    flags_of 1 2 [compile_mut_old 1 2 default_tnames 30 (SFwd 5 0 [] false true)] = Some fls /\
    In r (run_t mut_witness) /\ In e (o_ev r) /\ ev_site e = 1%nat /\
    ~ flag_sound (nth 0 fls dflags) e.
Proof.
  exists [(false, true, false, false); dflags],
         (mkSem true false, [mkEvent 0 None None; mkEvent 1 None (Some false)], false),
         (mkEvent 1 None (Some false)).
  split; [vm_compute; reflexivity|]. split; [find_in|]. split; [cbn; auto|]. split; [reflexivity|].
  cbn. intros (_ & H & _). specialize (H eq_refl). discriminate H.
Qed.

(* the loop target shadows **kwargs: old flag of the element call = use_varkwargs *)
Theorem flags_sound_old_order_shadow_refuted :
  exists fls r e,
    flags_of 1 2 [compile_shadow_old 1 2 SK (SFwd 5 0 [] false true)] = Some fls /\
    In r (run_t shadow_witness) /\ In e (o_ev r) /\ ev_site e = 0%nat /\
    ~ flag_sound (nth 0 fls dflags) e.
Proof.
  exists [(false, true, false, false)],
         (mkSem true true, [mkEvent 0 None (Some false)], false),
         (mkEvent 0 None (Some false)).
  split; [vm_compute; reflexivity|]. split; [find_in|]. split; [cbn; auto|]. split; [reflexivity|].
  cbn. intros (_ & H & _). specialize (H eq_refl). discriminate H.
Qed.

(* on the repaired order both are inside the fragment and the element call is flagged hidden *)
Example witnesses_repaired :
  tblock_ok 1 2 mut_witness = true /\ tblock_ok 1 2 shadow_witness = true /\
  visitor_flags_t 1 2 default_tnames mut_witness = Some [dflags; (false, false, false, true)] /\
  visitor_flags_t 1 2 default_tnames shadow_witness = Some [(false, false, false, true)].
Proof. split; [reflexivity|]. split; [reflexivity|]. split; vm_compute; reflexivity. Qed.
End OldOrder.

Print Assumptions visitor_flags_t_absint.
Print Assumptions flags_sound_try.
Print Assumptions flags_sound_try_general.
Print Assumptions flags_sound_loop_partial.
Print Assumptions flags_sound_loop_quiet.
Print Assumptions flags_sound_loop_refuted.
Print Assumptions lsample_ok.
Print Assumptions lsample2_ok.
Print Assumptions lsample3_ok.
Print Assumptions exec_t_total.
Print Assumptions run_t_total.
Print Assumptions exec_t_may_raise.
Print Assumptions tsample_ok.
Print Assumptions csample_ok.
Print Assumptions flags_sound_old_order_refuted.
Print Assumptions flags_sound_old_order_shadow_refuted.
Print Assumptions witnesses_repaired.
