(* Basics.v — well-formedness of results, classification round trip,
   metadata conciliation, forwards = embed o mask. *)
From Sigtools.Model Require Import Base Bind Roles Algebra.
From Sigtools.Proofs Require Import SmallModel.
From Coq Require Import Lia.

(* ------------------------------------------------------------------ *)
(* C15: every result goes through the validating constructor           *)

Lemma apply_params_valid base s r : apply_params base s = Ok r -> validate (params r) = true.
Proof.
  unfold apply_params. destruct (validate (flatten s)) eqn:H; intros E; inversion E; subst.
  simpl. exact H.
Qed.

Lemma bind_ok {A B} (x : res A) (f : A -> res B) b :
  bind x f = Ok b -> exists a, x = Ok a /\ f a = Ok b.
Proof. destruct x; simpl; intros H; [eauto | discriminate]. Qed.

Theorem merge_wf ss r : merge ss = Ok r -> validate (params r) = true.
Proof.
  destruct ss as [|s0 ss]; simpl; [discriminate|].
  intros H. apply bind_ok in H. destruct H as [acc [_ H]]. eapply apply_params_valid; eauto.
Qed.

Theorem embed_wf ss uva uvk r : embed ss uva uvk = Ok r -> validate (params r) = true.
Proof.
  destruct ss as [|s0 ss]; simpl; [discriminate|].
  intros H. apply bind_ok in H. destruct H as [acc [_ H]]. eapply apply_params_valid; eauto.
Qed.

Lemma let_pair_ok {A B C} (p : A * B) (f : A -> B -> res C) c :
  (let '(a, b) := p in f a b) = Ok c -> f (fst p) (snd p) = Ok c.
Proof. destruct p; auto. Qed.

Theorem mask_gen_wf s n h named pm r : mask_gen s n h named pm = Ok r -> validate (params r) = true.
Proof.
  unfold mask_gen. intros H.
  apply bind_ok in H. destruct H as [[[pos1 pok1] consumed] [_ H]].
  destruct (if h_args h || h_varargs h then _ else _) as [va1 src2].
  destruct (if h_kwargs h then _ else _) as [[[pok2 kwo2] src3] named2].
  apply bind_ok in H. destruct H as [st [_ H]].
  destruct (if h_kwargs h || h_varkwargs h then _ else _) as [vk3 src4].
  destruct pm; eapply apply_params_valid; eauto.
Qed.

Theorem mask_wf s n names0 h r : mask s n names0 h = Ok r -> validate (params r) = true.
Proof. apply mask_gen_wf. Qed.

Theorem sig_partial_wf s n kw pobj r : sig_partial s n kw pobj = Ok r -> validate (params r) = true.
Proof. apply mask_gen_wf. Qed.

Theorem forwards_wf o i n names0 ha hk uva uvk p r :
  forwards o i n names0 ha hk uva uvk p = Ok r -> validate (params r) = true.
Proof.
  unfold forwards. intros H. apply bind_ok in H. destruct H as [m [_ H]].
  eapply embed_wf; eauto.
Qed.

(* errors of the fold steps are only Incompatible; the final construction can
   add ValueErr; nothing else *)
Definition benign {A} (x : res A) : Prop :=
  match x with Ok _ => True | Err Incompatible => True | Err ValueErr => True | Err (OtherErr _) => False end.

Lemma benign_bind {A B} (x : res A) (f : A -> res B) :
  benign x -> (forall a, benign (f a)) -> benign (bind x f).
Proof. destruct x as [a|e]; simpl; auto. Qed.

Lemma to_incompatible_benign {A} (x : res A) : benign x -> benign (to_incompatible x).
Proof. destruct x as [a|[| |t]]; simpl; auto. Qed.

Lemma apply_params_benign base s : benign (apply_params base s).
Proof. unfold apply_params. destruct (validate (flatten s)); simpl; auto. Qed.

Lemma unb_pos1_benign l r s e conv st : benign (unb_pos1 l r s e conv st).
Proof.
  unfold unb_pos1. destruct conv; simpl; auto.
  destruct (isSome (varargs (other l r s))); simpl; auto.
  destruct (negb (has_def e)); simpl; auto.
Qed.

Lemma unb_pos_all_benign l r s ps conv st : benign (unb_pos_all l r s ps conv st).
Proof.
  revert conv st. induction ps as [|p ps IH]; intros conv st; simpl; auto.
  apply benign_bind; [apply unb_pos1_benign | intros a; apply IH].
Qed.

Lemma zip_pos_benign l r lp rp il ir st : benign (zip_pos l r lp rp il ir st).
Proof.
  revert rp il ir st. induction lp as [|a lp IH]; intros rp il ir st.
  - simpl. apply benign_bind; [apply unb_pos_all_benign | intros [? ?]; simpl; auto].
  - destruct rp as [|b rp]; simpl.
    + apply benign_bind; [apply (unb_pos_all_benign l r L (a :: lp)) | intros [? ?]; simpl; auto].
    + apply IH.
Qed.

Lemma unb_pok1_benign l r s e st : benign (unb_pok1 l r s e st).
Proof.
  unfold unb_pok1.
  destruct (find_param _ _); simpl; auto.
  destruct (isSome (varargs (other l r s)) && isSome (varkwargs (other l r s))); simpl; auto.
  destruct (isSome (varkwargs (other l r s))); simpl; auto.
  destruct (isSome (varargs (other l r s))); simpl; auto.
  destruct (negb (has_def e)); simpl; auto.
Qed.

Lemma unb_pok_all_benign l r s ps st : benign (unb_pok_all l r s ps st).
Proof.
  revert st. induction ps as [|p ps IH]; intros st; simpl; auto.
  apply benign_bind; [apply unb_pok1_benign | intros a; apply IH].
Qed.

Lemma zip_pok_benign l r il ir st : benign (zip_pok l r il ir st).
Proof.
  revert ir st. induction il as [|a il IH]; intros ir st.
  - simpl. apply unb_pok_all_benign.
  - destruct ir as [|b ir]; simpl.
    + apply (unb_pok_all_benign l r L (a :: il)).
    + apply IH.
Qed.

Lemma unmatched_kwo_benign l r s st : benign (unmatched_kwo l r s st).
Proof.
  unfold unmatched_kwo. destruct (unm st s); simpl; auto.
  destruct (isSome (varkwargs (other l r s))); simpl; auto.
  destruct (has_def p && forallb has_def l0); simpl; auto.
Qed.

Lemma merger_benign l r : benign (merger l r).
Proof.
  unfold merger.
  apply benign_bind; [apply zip_pos_benign|]. intros [[st3 il] ir].
  apply benign_bind; [apply zip_pok_benign|]. intros st4.
  apply benign_bind; [apply unmatched_kwo_benign|]. intros st5.
  apply benign_bind; [apply unmatched_kwo_benign|]. intros st6.
  destruct (add_star _ _ _ _ _ _ (normalise_pok st6)) as [va st8].
  destruct (add_star _ _ _ _ _ _ st8) as [vk st9]. simpl. auto.
Qed.

Lemma merge_steps_benign acc ss : benign (merge_steps acc ss).
Proof.
  revert acc. induction ss as [|s ss IH]; intros acc; simpl; auto.
  apply benign_bind; [apply to_incompatible_benign, merger_benign | intros a; apply IH].
Qed.

(* C15: merge never fails with anything but IncompatibleSignatures / ValueError
   (when given at least one signature) *)
Theorem merge_only_value_errors s0 ss : benign (merge (s0 :: ss)).
Proof.
  simpl. apply benign_bind; [apply merge_steps_benign | intros a; apply apply_params_benign].
Qed.

Lemma check_no_dupes_benign seen ps : benign (check_no_dupes seen ps).
Proof. unfold check_no_dupes. destruct (existsb _ ps); simpl; auto. Qed.

Lemma embed_step_benign o i uva uvk d : benign (embed_step o i uva uvk d).
Proof.
  unfold embed_step.
  apply benign_bind; [apply merger_benign|]. intros m.
  apply benign_bind; [apply check_no_dupes_benign|]. intros n1.
  apply benign_bind; [apply check_no_dupes_benign|]. intros n2.
  apply benign_bind.
  - destruct (posargs m) as [|ip0 ?].
    + destruct (pokargs m) as [|ik0 ?]; simpl; auto. destruct (has_def ik0); simpl; auto.
    + apply benign_bind; [apply check_no_dupes_benign | intros ?; simpl; auto].
  - intros [[e_pos e_pok] n3].
    apply benign_bind; [apply check_no_dupes_benign|]. intros n4.
    apply benign_bind; [apply check_no_dupes_benign|]. intros n5.
    apply benign_bind; [apply check_no_dupes_benign|]. intros n6.
    simpl. auto.
Qed.

Lemma embed_steps_benign acc ss uva uvk d : benign (embed_steps acc ss uva uvk d).
Proof.
  revert acc d. induction ss as [|s ss IH]; intros acc d; simpl; auto.
  apply benign_bind; [apply to_incompatible_benign, embed_step_benign | intros a; apply IH].
Qed.

Theorem embed_only_value_errors s0 ss uva uvk : benign (embed (s0 :: ss) uva uvk).
Proof.
  simpl. apply benign_bind; [apply embed_steps_benign | intros a; apply apply_params_benign].
Qed.

Lemma mask_name_benign pm hv st kv : benign (mask_name pm hv st kv).
Proof.
  unfold mask_name. destruct (mem _ _); simpl; auto.
  destruct (split_at_name _ _) as [[[? ?] ?]|]; simpl; auto.
  destruct (find_param _ _); [destruct pm; simpl; auto|].
  destruct (negb hv); simpl; auto. destruct pm; simpl; auto.
Qed.

Lemma mask_names_benign pm hv st kvs : benign (mask_names pm hv st kvs).
Proof.
  revert st. induction kvs as [|kv kvs IH]; intros st; simpl; auto.
  apply benign_bind; [apply mask_name_benign | intros a; apply IH].
Qed.

Theorem mask_gen_only_value_errors s n h named pm : benign (mask_gen s n h named pm).
Proof.
  unfold mask_gen.
  apply benign_bind.
  - destruct (h_args h); simpl; auto. destruct (Nat.eqb n 0); simpl; auto.
    destruct (_ && _); simpl; auto.
  - intros [[pos1 pok1] consumed].
    destruct (if h_args h || h_varargs h then _ else _) as [va1 src2].
    destruct (if h_kwargs h then _ else _) as [[[pok2 kwo2] src3] named2].
    apply benign_bind; [apply mask_names_benign|]. intros st.
    destruct (if h_kwargs h || h_varkwargs h then _ else _) as [vk3 src4].
    destruct pm; apply apply_params_benign.
Qed.

Theorem forwards_only_value_errors o i n names0 ha hk uva uvk p :
  benign (forwards o i n names0 ha hk uva uvk p).
Proof.
  unfold forwards. apply benign_bind; [apply mask_gen_only_value_errors|].
  intros m. apply embed_only_value_errors.
Qed.

(* errors inside the fold are IncompatibleSignatures: a plain ValueError can
   only come from the final validating constructor *)
Lemma merge_steps_err acc ss e : merge_steps acc ss = Err e -> e = Incompatible.
Proof.
  revert acc. induction ss as [|s ss IH]; intros acc; simpl; [discriminate|].
  pose proof (merger_benign acc (sort_params s)) as Hb.
  destruct (merger acc (sort_params s)) as [a|[| |t]]; simpl in *; try tauto.
  - apply IH.
  - intros H; inversion H; reflexivity.
  - intros H; inversion H; reflexivity.
Qed.

Theorem merge_value_error_only_from_validation s0 ss :
  merge (s0 :: ss) = Err ValueErr ->
  exists acc, merge_steps (sort_params s0) ss = Ok acc /\ validate (flatten acc) = false.
Proof.
  simpl. destruct (merge_steps (sort_params s0) ss) as [acc|e] eqn:E; simpl.
  - unfold apply_params. destruct (validate (flatten acc)) eqn:V; [discriminate|]. eauto.
  - intros H. inversion H; subst. apply merge_steps_err in E. discriminate.
Qed.

(* ------------------------------------------------------------------ *)
(* C09: apply_params (sort_params s) = s                                *)

Definition above_empty (acc : sorted) (top : nat) : Prop :=
  ((top < 1)%nat -> pokargs acc = []) /\
  ((top < 2)%nat -> varargs acc = None) /\
  ((top < 3)%nat -> kwoargs acc = []) /\
  ((top < 4)%nat -> varkwargs acc = None).

Lemma od_set_fresh d p : ~ In (pname p) (names_of d) -> od_set d p = d ++ [p].
Proof.
  induction d as [|q d IH]; simpl; intros H; [reflexivity|].
  destruct (N.eqb_spec (pname p) (pname q)) as [E|_]; [exfalso; apply H; left; symmetry; exact E|].
  rewrite IH; [reflexivity|]. intros HH. apply H. right. exact HH.
Qed.

Lemma count_kind_cons k p ps :
  count_kind k (p :: ps) = ((if is_kind k p then 1 else 0) + count_kind k ps)%nat.
Proof. unfold count_kind. simpl. destruct (is_kind k p); reflexivity. Qed.

Lemma sort_aux_flatten ps : forall acc top sd seen,
  validate_aux ps top sd seen = true ->
  above_empty acc top ->
  incl (names_of (kwoargs acc)) seen ->
  (count_kind VP ps <= 1)%nat -> (varargs acc = None \/ count_kind VP ps = 0%nat) ->
  (count_kind VK ps <= 1)%nat -> (varkwargs acc = None \/ count_kind VK ps = 0%nat) ->
  flatten (sort_aux ps acc) = flatten acc ++ ps.
Proof.
  induction ps as [|p ps IH]; intros acc top sd seen Hv Ha Hs Hva1 Hva2 Hvk1 Hvk2.
  - simpl. rewrite app_nil_r. reflexivity.
  - simpl in Hv.
    destruct (Nat.ltb (kind_rank (pkind p)) top) eqn:Hlt; [discriminate|].
    apply Nat.ltb_ge in Hlt.
    rewrite (Nat.max_l _ _ Hlt) in Hv.
    destruct (is_positional p && negb (has_def p) && sd); [discriminate|].
    destruct (mem (pname p) seen) eqn:Hmem; [discriminate|].
    apply mem_false_In in Hmem.
    rewrite count_kind_cons in Hva1, Hva2, Hvk1, Hvk2.
    destruct Ha as [A1 [A2 [A3 A4]]].
    simpl. destruct (pkind p) eqn:Hk; unfold is_kind in *; rewrite Hk in *; simpl in *.
    + (* PO *)
      erewrite IH; try exact Hv; simpl.
      * unfold flatten; simpl. rewrite A1, A2, A3, A4 by lia. simpl.
        rewrite !app_nil_r, <- app_assoc. reflexivity.
      * unfold above_empty; simpl. repeat split; intros; [apply A1|apply A2|apply A3|apply A4]; lia.
      * intros x Hx. right. apply Hs. exact Hx.
      * lia.
      * destruct Hva2; [left; assumption | right; lia].
      * lia.
      * destruct Hvk2; [left; assumption | right; lia].
    + (* PK *)
      erewrite IH; try exact Hv; simpl.
      * unfold flatten; simpl. rewrite A2, A3, A4 by lia. simpl.
        rewrite !app_nil_r, <- !app_assoc. reflexivity.
      * unfold above_empty; simpl. repeat split; intros; try lia; [apply A2|apply A3|apply A4]; lia.
      * intros x Hx. right. apply Hs. exact Hx.
      * lia.
      * destruct Hva2; [left; assumption | right; lia].
      * lia.
      * destruct Hvk2; [left; assumption | right; lia].
    + (* VP *)
      assert (Hnone : varargs acc = None) by (destruct Hva2 as [?|?]; [assumption|lia]).
      erewrite IH; try exact Hv; simpl.
      * unfold flatten; simpl. rewrite Hnone, A3, A4 by lia. simpl.
        rewrite !app_nil_r, <- !app_assoc. reflexivity.
      * unfold above_empty; simpl. repeat split; intros; try lia; [apply A3|apply A4]; lia.
      * intros x Hx. right. apply Hs. exact Hx.
      * lia.
      * right. lia.
      * lia.
      * destruct Hvk2; [left; assumption | right; lia].
    + (* KO *)
      rewrite od_set_fresh by (intros HH; apply Hmem; apply Hs; exact HH).
      erewrite IH; try exact Hv; simpl.
      * unfold flatten; simpl. rewrite A4 by lia. simpl.
        rewrite !app_nil_r, <- !app_assoc. reflexivity.
      * unfold above_empty; simpl. repeat split; intros; try lia. apply A4; lia.
      * intros x Hx. unfold names_of in Hx. rewrite map_app in Hx. apply in_app_or in Hx.
        destruct Hx as [Hx|[<-|[]]]; [right; apply Hs; exact Hx | left; reflexivity].
      * lia.
      * destruct Hva2; [left; assumption | right; lia].
      * lia.
      * destruct Hvk2; [left; assumption | right; lia].
    + (* VK *)
      assert (Hnone : varkwargs acc = None) by (destruct Hvk2 as [?|?]; [assumption|lia]).
      erewrite IH; try exact Hv; simpl.
      * unfold flatten; simpl. rewrite Hnone. simpl.
        rewrite <- !app_assoc. reflexivity.
      * unfold above_empty; simpl. repeat split; intros; lia.
      * intros x Hx. right. apply Hs. exact Hx.
      * lia.
      * destruct Hva2; [left; assumption | right; lia].
      * lia.
      * right. lia.
Qed.

Theorem sort_flatten_roundtrip s :
  valid_sig (params s) = true -> flatten (sort_params s) = params s.
Proof.
  intros H. unfold valid_sig in H. apply andb_true_iff in H. destruct H as [H Hvk].
  apply andb_true_iff in H. destruct H as [Hv Hva].
  apply Nat.leb_le in Hva. apply Nat.leb_le in Hvk.
  unfold sort_params, validate in *.
  erewrite sort_aux_flatten; try exact Hv; simpl; auto.
  - unfold above_empty; simpl. repeat split; reflexivity.
  - intros x [].
Qed.

Lemma sort_aux_src ps : forall acc,
  ssrc (sort_aux ps acc) = ssrc acc /\ sdep (sort_aux ps acc) = sdep acc.
Proof.
  induction ps as [|p ps IH]; intros acc; simpl; [auto|].
  destruct (pkind p);
    match goal with |- context [sort_aux ps ?a] => destruct (IH a) as [E1 E2]; rewrite E1, E2 end;
    simpl; auto.
Qed.

(* C09: apply_params(s, *sort_params(s)) equals s *)
Theorem apply_sort_roundtrip s :
  valid_sig (params s) = true -> apply_params s (sort_params s) = Ok s.
Proof.
  intros H. unfold apply_params. rewrite (sort_flatten_roundtrip s H).
  unfold valid_sig in H. apply andb_true_iff in H. destruct H as [H _].
  apply andb_true_iff in H. destruct H as [Hv _]. rewrite Hv.
  unfold sort_params.
  destruct (sort_aux_src (params s) (mkSorted [] [] None [] None (srcs s) (deps s))) as [E1 E2].
  rewrite E1, E2. simpl. destruct s; reflexivity.
Qed.

(* C09: merge(s) equals s *)
Theorem merge_single s : valid_sig (params s) = true -> merge [s] = Ok s.
Proof. intros H. simpl. apply apply_sort_roundtrip. exact H. Qed.

(* ------------------------------------------------------------------ *)
(* C10: _concile_meta                                                   *)

Theorem concile_optional l r :
  has_def (concile l r) = true -> has_def l = true /\ has_def r = true.
Proof. unfold concile, has_def; simpl. destruct (pdef l), (pdef r); simpl; auto; discriminate. Qed.

Theorem concile_optional_iff l r :
  has_def (concile l r) = has_def l && has_def r.
Proof.
  unfold concile, has_def; simpl. destruct (pdef l), (pdef r); simpl; auto.
  destruct (N.eqb n n0); reflexivity.
Qed.

Theorem concile_default l r d :
  pdef (concile l r) = Some d ->
  exists a b, pdef l = Some a /\ pdef r = Some b /\ ((a = b /\ d = a) \/ (a <> b /\ d = 0)).
Proof.
  unfold concile; simpl. destruct (pdef l) as [a|], (pdef r) as [b|]; try discriminate.
  destruct (N.eqb_spec a b); intros H; inversion H; subst; eauto 10.
Qed.

Theorem concile_annotation l r :
  (pann (concile l r), puann (concile l r)) =
  match pann l, pann r with
  | Some a, Some b => if N.eqb a b then (Some a, puann l) else (None, UEmpty)
  | Some a, None => (Some a, puann l)
  | None, Some b => (Some b, puann r)
  | None, None => (None, UEmpty)
  end.
Proof. unfold concile; simpl. destruct (pann l), (pann r); try destruct (N.eqb _ _); reflexivity. Qed.

(* the (raw, upgraded) annotation pair of a conciled parameter is one of the
   operands' pairs or empty: nothing is ever re-wrapped (C11) *)
Theorem concile_annotation_carried l r :
  (pann (concile l r), puann (concile l r)) = (pann l, puann l) \/
  (pann (concile l r), puann (concile l r)) = (pann r, puann r) \/
  (pann (concile l r), puann (concile l r)) = (None, UEmpty).
Proof.
  rewrite concile_annotation. destruct (pann l), (pann r); auto. destruct (N.eqb _ _); auto.
Qed.

Theorem concile_name_kind l r : pname (concile l r) = pname l /\ pkind (concile l r) = pkind l.
Proof. unfold concile; simpl; auto. Qed.

(* ------------------------------------------------------------------ *)
(* C04: forwards is embed o mask, by definition of the model           *)

Theorem forwards_def o i n names0 ha hk uva uvk :
  forwards o i n names0 ha hk uva uvk false =
  bind (mask i n names0 (mkHide ha hk false false)) (fun m => embed [o; m] uva uvk).
Proof. reflexivity. Qed.

Theorem forwards_partial_def o i n names0 ha hk uva uvk :
  forwards o i n names0 ha hk uva uvk true =
  bind (mask (mkSig (map (fun p => match pkind p with VP | VK => p | _ => set_def (Some 0) p end)
                         (params i)) (ret i) (uret i) (srcs i) (deps i))
             n names0 (mkHide ha hk false false))
       (fun m => embed [o; m] uva uvk).
Proof. reflexivity. Qed.
