(* MaskAlgebra.v — algebraic laws of mask for ALL signatures (C03):
   composition mask(mask(sig, n), m) = mask(sig, n + m), and invariance under
   permutation of the named arguments (up to the order of the keyword-only
   parameters). *)
From Sigtools.Model Require Import Base Bind Roles Algebra.
From Sigtools.Proofs Require Import SmallModel Basics MaskLaws MaskExact MergeNeutral
     MaskNamesLib MaskNamesStep MaskNames.
From Coq Require Import Lia Permutation.

(* ------------------------------------------------------------------ *)
(* classification of a list given by its buckets                        *)

Lemma sort_aux_app a b : forall acc, sort_aux (a ++ b) acc = sort_aux b (sort_aux a acc).
Proof. induction a as [|p a IH]; intros acc; cbn [app sort_aux]; [reflexivity|apply IH]. Qed.

Lemma sort_aux_po l : forall acc, Forall (fun p => pkind p = PO) l ->
  sort_aux l acc = mkSorted (posargs acc ++ l) (pokargs acc) (varargs acc) (kwoargs acc)
                            (varkwargs acc) (ssrc acc) (sdep acc).
Proof.
  induction l as [|p l IH]; intros acc H; cbn [sort_aux].
  - rewrite app_nil_r. destruct acc; reflexivity.
  - inversion H as [|? ? Hp Hl]; subst. rewrite Hp. rewrite (IH _ Hl).
    cbn [posargs pokargs varargs kwoargs varkwargs ssrc sdep]. rewrite <- app_assoc. reflexivity.
Qed.

Lemma sort_aux_pk l : forall acc, Forall (fun p => pkind p = PK) l ->
  sort_aux l acc = mkSorted (posargs acc) (pokargs acc ++ l) (varargs acc) (kwoargs acc)
                            (varkwargs acc) (ssrc acc) (sdep acc).
Proof.
  induction l as [|p l IH]; intros acc H; cbn [sort_aux].
  - rewrite app_nil_r. destruct acc; reflexivity.
  - inversion H as [|? ? Hp Hl]; subst. rewrite Hp. rewrite (IH _ Hl).
    cbn [posargs pokargs varargs kwoargs varkwargs ssrc sdep]. rewrite <- app_assoc. reflexivity.
Qed.

Lemma sort_aux_ko l : forall acc, Forall (fun p => pkind p = KO) l ->
  sort_aux l acc = mkSorted (posargs acc) (pokargs acc) (varargs acc) (od_update (kwoargs acc) l)
                            (varkwargs acc) (ssrc acc) (sdep acc).
Proof.
  induction l as [|p l IH]; intros acc H; cbn [sort_aux].
  - destruct acc; reflexivity.
  - inversion H as [|? ? Hp Hl]; subst. rewrite Hp. rewrite (IH _ Hl).
    cbn [posargs pokargs varargs kwoargs varkwargs ssrc sdep]. reflexivity.
Qed.

Lemma sort_blocks pos pok va kwo vk src dep :
  kinds5 pos pok va kwo vk -> NoDup (names_of kwo) ->
  sort_aux (blk pos pok va kwo vk) (mkSorted [] [] None [] None src dep)
  = mkSorted pos pok va kwo vk src dep.
Proof.
  intros (H1 & H2 & H3 & H4 & H5) Hn. unfold blk.
  rewrite sort_aux_app, (sort_aux_po pos _ H1). cbn [posargs pokargs varargs kwoargs varkwargs ssrc sdep app].
  rewrite sort_aux_app, (sort_aux_pk pok _ H2). cbn [posargs pokargs varargs kwoargs varkwargs ssrc sdep app].
  rewrite sort_aux_app.
  assert (Eva : sort_aux (opt_list va) (mkSorted pos pok None [] None src dep)
                = mkSorted pos pok va [] None src dep).
  { destruct va as [v|]; [|reflexivity]. cbn [opt_list sort_aux]. rewrite (H3 v eq_refl). reflexivity. }
  rewrite Eva. rewrite sort_aux_app, (sort_aux_ko kwo _ H4).
  cbn [posargs pokargs varargs kwoargs varkwargs ssrc sdep].
  rewrite (od_update_fresh [] kwo Hn) by (intros x _ []). cbn [app].
  destruct vk as [v|]; [|reflexivity]. cbn [opt_list sort_aux]. rewrite (H5 v eq_refl). reflexivity.
Qed.

Lemma skipn_skipn {A} (a b : nat) : forall l : list A, skipn a (skipn b l) = skipn (b + a) l.
Proof.
  induction b as [|b IH]; intros l; [reflexivity|]. destruct l as [|x l]; cbn [skipn Nat.add].
  - destruct a; reflexivity.
  - apply IH.
Qed.

Lemma firstn_add {A} (a b : nat) : forall l : list A, firstn (a + b) l = firstn a l ++ firstn b (skipn a l).
Proof.
  induction a as [|a IH]; intros l; [reflexivity|]. destruct l as [|x l]; cbn [firstn skipn Nat.add app].
  - destruct b; reflexivity.
  - rewrite IH. reflexivity.
Qed.

Lemma src_pop_all_app m a b : src_pop_all m (a ++ b) = src_pop_all (src_pop_all m a) b.
Proof. unfold src_pop_all. apply fold_left_app. Qed.

(* ------------------------------------------------------------------ *)
(* mask(sig, n) in closed form                                          *)

Lemma mask_pos_unfold_all s n :
  mask s n [] nohide0 =
  let so := sort_params s in
  let A := posargs so ++ pokargs so in
  if Nat.ltb (length A) n && negb (isSome (varargs so)) then Err ValueErr
  else apply_params s (mkSorted (skipn n (posargs so)) (skipn (n - length (posargs so)) (pokargs so))
                                (varargs so) (kwoargs so) (varkwargs so)
                                (src_pop_all (ssrc so) (names_of (firstn n A))) (sdep so)).
Proof.
  unfold mask. rewrite mask_gen_unfold. cbv zeta. cbn [map mask_names bind st0_of k_pok k_va k_kwo k_src dep_of].
  reflexivity.
Qed.

(* C03: composition, as full signatures (parameters, return annotation, provenance) *)
Theorem mask_compose s n m :
  valid_sig (params s) = true ->
  match mask s n [] nohide0 with
  | Ok r => mask r m [] nohide0 = mask s (n + m) [] nohide0
  | Err e => mask s (n + m) [] nohide0 = Err e
  end.
Proof.
  intros Hv. rewrite (mask_pos_unfold_all s n), (mask_pos_unfold_all s (n + m)). cbv zeta.
  destruct (sort_params_kinds s) as (H1 & H2 & H3 & H4 & H5).
  pose proof (validate_skip_AB s n Hv) as Hvr.
  pose proof (st0_inv s n Hv) as (_ & Hnd0 & _). rewrite st0_kps in Hnd0.
  set (so := sort_params s) in *. set (PO_ := posargs so) in *. set (PK_ := pokargs so) in *.
  set (A := PO_ ++ PK_) in *.
  destruct (Nat.ltb (length A) n && negb (isSome (varargs so))) eqn:Hc.
  - apply andb_true_iff in Hc. destruct Hc as [Hlt Hva]. apply Nat.ltb_lt in Hlt.
    assert (E : Nat.ltb (length A) (n + m) = true) by (apply Nat.ltb_lt; lia).
    rewrite E, Hva. reflexivity.
  - unfold apply_params at 1. cbn [flatten posargs pokargs varargs kwoargs varkwargs ssrc sdep].
    assert (Efl : skipn n PO_ ++ skipn (n - length PO_) PK_ ++ opt_list (varargs so) ++ kwoargs so
                  ++ opt_list (varkwargs so) = skipn n A ++ rest_of so).
    { unfold A, rest_of. rewrite skipn_app, <- !app_assoc. reflexivity. }
    rewrite Efl, Hvr.
    set (r := mkSig (skipn n A ++ rest_of so) (ret s) (uret s)
                    (src_pop_all (ssrc so) (names_of (firstn n A))) (sdep so)).
    rewrite (mask_pos_unfold_all r m). cbv zeta.
    assert (HK : kinds5 (skipn n PO_) (skipn (n - length PO_) PK_) (varargs so) (kwoargs so) (varkwargs so)).
    { repeat split; auto using Forall_skipn. }
    assert (Hnk : NoDup (names_of (kwoargs so))).
    { unfold rest_of in Hnd0. rewrite !names_of_app in Hnd0.
      apply nodup_app_r in Hnd0. apply nodup_app_r in Hnd0. apply nodup_app_l in Hnd0. exact Hnd0. }
    assert (Esr : sort_params r = mkSorted (skipn n PO_) (skipn (n - length PO_) PK_) (varargs so) (kwoargs so)
                                           (varkwargs so) (src_pop_all (ssrc so) (names_of (firstn n A))) (sdep so)).
    { unfold sort_params, r. cbn [params srcs deps]. rewrite <- Efl. apply (sort_blocks _ _ _ _ _ _ _ HK Hnk). }
    rewrite Esr. cbn [posargs pokargs varargs kwoargs varkwargs ssrc sdep].
    rewrite <- skipn_app. fold A.
    assert (Econd : Nat.ltb (length (skipn n A)) m && negb (isSome (varargs so))
                    = Nat.ltb (length A) (n + m) && negb (isSome (varargs so))).
    { destruct (isSome (varargs so)) eqn:Eva; cbn [negb]; [rewrite !andb_false_r; reflexivity|].
      rewrite !andb_true_r in *. cbn [negb] in Hc. rewrite andb_true_r in Hc. apply Nat.ltb_ge in Hc.
      rewrite skipn_length.
      destruct (Nat.ltb_spec (length A - n) m), (Nat.ltb_spec (length A) (n + m)); try reflexivity; lia. }
    rewrite Econd.
    destruct (Nat.ltb (length A) (n + m) && negb (isSome (varargs so))); [reflexivity|].
    rewrite !skipn_skipn, skipn_length, (firstn_add n m A), names_of_app, src_pop_all_app.
    replace (n - length PO_ + (m - (length PO_ - n)))%nat with (n + m - length PO_)%nat by lia.
    unfold apply_params. cbn [ret uret r]. reflexivity.
Qed.
