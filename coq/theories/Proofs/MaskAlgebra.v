(* MaskAlgebra.v — algebraic laws of mask for ALL signatures (C03):
   composition mask(mask(sig, n), m) = mask(sig, n + m), and invariance under
   permutation of the named arguments (up to the order of the keyword-only
   parameters). *)
From Sigtools.Model Require Import Base Bind Roles Algebra.
From Sigtools.Proofs Require Import SmallModel Basics MaskLaws MaskExact MergeNeutral
     MaskNamesLib MaskNamesStep MaskNames.
From Coq Require Import Lia Permutation.

(* ------------------------------------------------------------------ *)
(* classification of a list given by its buckets                        *)

Lemma sort_aux_app a b : forall acc, sort_aux (a ++ b) acc = sort_aux b (sort_aux a acc).
Proof. induction a as [|p a IH]; intros acc; cbn [app sort_aux]; [reflexivity|apply IH]. Qed.

Lemma sort_aux_po l : forall acc, Forall (fun p => pkind p = PO) l ->
  sort_aux l acc = mkSorted (posargs acc ++ l) (pokargs acc) (varargs acc) (kwoargs acc)
                            (varkwargs acc) (ssrc acc) (sdep acc).
Proof.
  induction l as [|p l IH]; intros acc H; cbn [sort_aux].
  - rewrite app_nil_r. destruct acc; reflexivity.
  - inversion H as [|? ? Hp Hl]; subst. rewrite Hp. rewrite (IH _ Hl).
    cbn [posargs pokargs varargs kwoargs varkwargs ssrc sdep]. rewrite <- app_assoc. reflexivity.
Qed.

Lemma sort_aux_pk l : forall acc, Forall (fun p => pkind p = PK) l ->
  sort_aux l acc = mkSorted (posargs acc) (pokargs acc ++ l) (varargs acc) (kwoargs acc)
                            (varkwargs acc) (ssrc acc) (sdep acc).
Proof.
  induction l as [|p l IH]; intros acc H; cbn [sort_aux].
  - rewrite app_nil_r. destruct acc; reflexivity.
  - inversion H as [|? ? Hp Hl]; subst. rewrite Hp. rewrite (IH _ Hl).
    cbn [posargs pokargs varargs kwoargs varkwargs ssrc sdep]. rewrite <- app_assoc. reflexivity.
Qed.

Lemma sort_aux_ko l : forall acc, Forall (fun p => pkind p = KO) l ->
  sort_aux l acc = mkSorted (posargs acc) (pokargs acc) (varargs acc) (od_update (kwoargs acc) l)
                            (varkwargs acc) (ssrc acc) (sdep acc).
Proof.
  induction l as [|p l IH]; intros acc H; cbn [sort_aux].
  - destruct acc; reflexivity.
  - inversion H as [|? ? Hp Hl]; subst. rewrite Hp. rewrite (IH _ Hl).
    cbn [posargs pokargs varargs kwoargs varkwargs ssrc sdep]. reflexivity.
Qed.

Lemma sort_blocks pos pok va kwo vk src dep :
  kinds5 pos pok va kwo vk -> NoDup (names_of kwo) ->
  sort_aux (blk pos pok va kwo vk) (mkSorted [] [] None [] None src dep)
  = mkSorted pos pok va kwo vk src dep.
Proof.
  intros (H1 & H2 & H3 & H4 & H5) Hn. unfold blk.
  rewrite sort_aux_app, (sort_aux_po pos _ H1). cbn [posargs pokargs varargs kwoargs varkwargs ssrc sdep app].
  rewrite sort_aux_app, (sort_aux_pk pok _ H2). cbn [posargs pokargs varargs kwoargs varkwargs ssrc sdep app].
  rewrite sort_aux_app.
  assert (Eva : sort_aux (opt_list va) (mkSorted pos pok None [] None src dep)
                = mkSorted pos pok va [] None src dep).
  { destruct va as [v|]; [|reflexivity]. cbn [opt_list sort_aux]. rewrite (H3 v eq_refl). reflexivity. }
  rewrite Eva. rewrite sort_aux_app, (sort_aux_ko kwo _ H4).
  cbn [posargs pokargs varargs kwoargs varkwargs ssrc sdep].
  rewrite (od_update_fresh [] kwo Hn) by (intros x _ []). cbn [app].
  destruct vk as [v|]; [|reflexivity]. cbn [opt_list sort_aux]. rewrite (H5 v eq_refl). reflexivity.
Qed.

Lemma skipn_skipn {A} (a b : nat) : forall l : list A, skipn a (skipn b l) = skipn (b + a) l.
Proof.
  induction b as [|b IH]; intros l; [reflexivity|]. destruct l as [|x l]; cbn [skipn Nat.add].
  - destruct a; reflexivity.
  - apply IH.
Qed.

Lemma firstn_add {A} (a b : nat) : forall l : list A, firstn (a + b) l = firstn a l ++ firstn b (skipn a l).
Proof.
  induction a as [|a IH]; intros l; [reflexivity|]. destruct l as [|x l]; cbn [firstn skipn Nat.add app].
  - destruct b; reflexivity.
  - rewrite IH. reflexivity.
Qed.

Lemma src_pop_all_app m a b : src_pop_all m (a ++ b) = src_pop_all (src_pop_all m a) b.
Proof. unfold src_pop_all. apply fold_left_app. Qed.

(* ------------------------------------------------------------------ *)
(* mask(sig, n) in closed form                                          *)

Lemma mask_pos_unfold_all s n :
  mask s n [] nohide0 =
  let so := sort_params s in
  let A := posargs so ++ pokargs so in
  if Nat.ltb (length A) n && negb (isSome (varargs so)) then Err ValueErr
  else apply_params s (mkSorted (skipn n (posargs so)) (skipn (n - length (posargs so)) (pokargs so))
                                (varargs so) (kwoargs so) (varkwargs so)
                                (src_pop_all (ssrc so) (names_of (firstn n A))) (sdep so)).
Proof.
  unfold mask. rewrite mask_gen_unfold. cbv zeta. cbn [map mask_names bind st0_of k_pok k_va k_kwo k_src dep_of].
  reflexivity.
Qed.

(* C03: composition, as full signatures (parameters, return annotation, provenance) *)
Theorem mask_compose s n m :
  valid_sig (params s) = true ->
  match mask s n [] nohide0 with
  | Ok r => mask r m [] nohide0 = mask s (n + m) [] nohide0
  | Err e => mask s (n + m) [] nohide0 = Err e
  end.
Proof.
  intros Hv. rewrite (mask_pos_unfold_all s n), (mask_pos_unfold_all s (n + m)). cbv zeta.
  destruct (sort_params_kinds s) as (H1 & H2 & H3 & H4 & H5).
  pose proof (validate_skip_AB s n Hv) as Hvr.
  pose proof (st0_inv s n Hv) as (_ & Hnd0 & _). rewrite st0_kps in Hnd0.
  set (so := sort_params s) in *. set (PO_ := posargs so) in *. set (PK_ := pokargs so) in *.
  set (A := PO_ ++ PK_) in *.
  destruct (Nat.ltb (length A) n && negb (isSome (varargs so))) eqn:Hc.
  - apply andb_true_iff in Hc. destruct Hc as [Hlt Hva]. apply Nat.ltb_lt in Hlt.
    assert (E : Nat.ltb (length A) (n + m) = true) by (apply Nat.ltb_lt; lia).
    rewrite E, Hva. reflexivity.
  - unfold apply_params at 1. unfold flatten. cbn [posargs pokargs varargs kwoargs varkwargs ssrc sdep].
    assert (Efl : skipn n PO_ ++ skipn (n - length PO_) PK_ ++ opt_list (varargs so) ++ kwoargs so
                  ++ opt_list (varkwargs so) = skipn n A ++ rest_of so).
    { unfold A, rest_of. rewrite skipn_app, <- !app_assoc. reflexivity. }
    rewrite Efl, Hvr.
    set (r := mkSig (skipn n A ++ rest_of so) (ret s) (uret s)
                    (src_pop_all (ssrc so) (names_of (firstn n A))) (sdep so)).
    rewrite (mask_pos_unfold_all r m). cbv zeta.
    assert (HK : kinds5 (skipn n PO_) (skipn (n - length PO_) PK_) (varargs so) (kwoargs so) (varkwargs so)).
    { repeat split; auto using Forall_skipn. }
    assert (Hnk : NoDup (names_of (kwoargs so))).
    { unfold rest_of in Hnd0. rewrite !names_of_app in Hnd0.
      apply nodup_app_r in Hnd0. apply nodup_app_r in Hnd0. apply nodup_app_l in Hnd0. exact Hnd0. }
    assert (Esr : sort_params r = mkSorted (skipn n PO_) (skipn (n - length PO_) PK_) (varargs so) (kwoargs so)
                                           (varkwargs so) (src_pop_all (ssrc so) (names_of (firstn n A))) (sdep so)).
    { unfold sort_params, r. cbn [params srcs deps]. rewrite <- Efl. apply (sort_blocks _ _ _ _ _ _ _ HK Hnk). }
    rewrite Esr. cbn [posargs pokargs varargs kwoargs varkwargs ssrc sdep].
    rewrite <- skipn_app. fold A.
    assert (Econd : Nat.ltb (length (skipn n A)) m && negb (isSome (varargs so))
                    = Nat.ltb (length A) (n + m) && negb (isSome (varargs so))).
    { destruct (isSome (varargs so)) eqn:Eva; cbn [negb]; [rewrite !andb_false_r; reflexivity|].
      rewrite !andb_true_r. cbn [negb] in Hc. rewrite andb_true_r in Hc. apply Nat.ltb_ge in Hc.
      rewrite skipn_length.
      destruct (Nat.ltb_spec (length A - n) m), (Nat.ltb_spec (length A) (n + m)); try reflexivity; lia. }
    rewrite Econd.
    destruct (Nat.ltb (length A) (n + m) && negb (isSome (varargs so))); [reflexivity|].
    rewrite !skipn_skipn, skipn_length, (firstn_add n m A), names_of_app, src_pop_all_app.
    replace (n - length PO_ + (m - (length PO_ - n)))%nat with (n + m - length PO_)%nat by lia.
    unfold apply_params. cbn [ret uret r]. reflexivity.
Qed.

(* ------------------------------------------------------------------ *)
(* closed form of the loop over the named arguments (mask mode)         *)

Fixpoint takew {A} (f : A -> bool) (l : list A) : list A :=
  match l with [] => [] | x :: l' => if f x then x :: takew f l' else [] end.
Fixpoint dropw {A} (f : A -> bool) (l : list A) : list A :=
  match l with [] => [] | x :: l' => if f x then dropw f l' else l end.

Lemma takew_app {A} (f : A -> bool) a b :
  takew f (a ++ b) = if forallb f a then a ++ takew f b else takew f a.
Proof.
  induction a as [|x a IH]; cbn [app takew forallb]; [reflexivity|].
  destruct (f x); cbn [andb]; [|reflexivity]. rewrite IH. destruct (forallb f a); reflexivity.
Qed.

Lemma dropw_app {A} (f : A -> bool) a b :
  dropw f (a ++ b) = if forallb f a then dropw f b else dropw f a ++ b.
Proof.
  induction a as [|x a IH]; cbn [app dropw forallb]; [reflexivity|].
  destruct (f x); cbn [andb]; [|reflexivity]. exact IH.
Qed.

Lemma takew_all {A} (f : A -> bool) a : forallb f a = true -> takew f a = a.
Proof.
  induction a as [|x a IH]; cbn [takew forallb]; [reflexivity|]. intros H.
  apply andb_true_iff in H. destruct H as [H1 H2]. rewrite H1, (IH H2). reflexivity.
Qed.

Lemma dropw_all {A} (f : A -> bool) a : forallb f a = true -> dropw f a = [].
Proof.
  induction a as [|x a IH]; cbn [dropw forallb]; [reflexivity|]. intros H.
  apply andb_true_iff in H. destruct H as [H1 H2]. rewrite H1. exact (IH H2).
Qed.

Lemma takew_ext_in {A} (f g : A -> bool) l : (forall x, In x l -> f x = g x) -> takew f l = takew g l.
Proof.
  induction l as [|x l IH]; intros H; cbn [takew]; [reflexivity|].
  rewrite <- (H x (or_introl eq_refl)). rewrite IH; [reflexivity|]. intros y Hy. apply H. right. exact Hy.
Qed.

Lemma dropw_ext_in {A} (f g : A -> bool) l : (forall x, In x l -> f x = g x) -> dropw f l = dropw g l.
Proof.
  induction l as [|x l IH]; intros H; cbn [dropw]; [reflexivity|].
  rewrite <- (H x (or_introl eq_refl)). rewrite IH; [reflexivity|]. intros y Hy. apply H. right. exact Hy.
Qed.

Lemma dropw_incl {A} (f : A -> bool) l x : In x (dropw f l) -> In x l.
Proof.
  induction l as [|y l IH]; cbn [dropw]; [auto|]. destruct (f y); [intros H; right; exact (IH H)|auto].
Qed.

Lemma filter_perm {A} (f : A -> bool) l l' : Permutation l l' -> Permutation (filter f l) (filter f l').
Proof.
  induction 1 as [|x l l' _ IH|x y l|l l' l'' _ IH1 _ IH2]; cbn [filter].
  - constructor.
  - destruct (f x); [constructor; exact IH|exact IH].
  - destruct (f x), (f y); try apply Permutation_refl. apply perm_swap.
  - eapply perm_trans; eassumption.
Qed.

(* not hit by one of the names *)
Definition nh (ns : list name) (q : param) : bool := negb (mem (pname q) ns).

Lemma nh_cons_ne x ns q : pname q <> x -> nh (x :: ns) q = nh ns q.
Proof. intros H. unfold nh. cbn [mem]. destruct (N.eqb_spec (pname q) x); [contradiction|reflexivity]. Qed.

Lemma nh_cons_eq x ns q : pname q = x -> nh (x :: ns) q = false.
Proof. intros H. unfold nh. cbn [mem]. rewrite H, N.eqb_refl. reflexivity. Qed.

Lemma nh_nil_forallb l : forallb (nh []) l = true.
Proof. induction l; cbn; auto. Qed.

Lemma nh_set_kind k ns q : nh ns (set_kind k q) = nh ns q.
Proof. reflexivity. Qed.

Lemma filter_nh_nil l : filter (nh []) l = l.
Proof. induction l as [|q l IH]; cbn; [reflexivity|]. f_equal. exact IH. Qed.

Lemma filter_nh_remove x ns l : filter (nh ns) (remove_param x l) = filter (nh (x :: ns)) l.
Proof.
  induction l as [|q l IH]; cbn [remove_param filter]; [reflexivity|].
  destruct (N.eqb_spec x (pname q)) as [E|Hne].
  - rewrite (nh_cons_eq x ns q (eq_sym E)). exact IH.
  - rewrite (nh_cons_ne x ns q) by (intros E; apply Hne; symmetry; exact E).
    cbn [filter]. rewrite IH. reflexivity.
Qed.

Lemma in_names_remove x y l :
  In y (names_of (remove_param x l)) <-> (In y (names_of l) /\ y <> x).
Proof.
  induction l as [|q l IH]; cbn [remove_param names_of map In]; [tauto|].
  destruct (N.eqb_spec x (pname q)) as [E|Hne].
  - fold (names_of l) in *. rewrite IH. split; [tauto|]. intros [[H|H] Hy]; [exfalso; apply Hy; congruence|tauto].
  - cbn [names_of map In]. fold (names_of (remove_param x l)) (names_of l) in *. rewrite IH.
    split; [intros [H|H]; [split; [left; exact H|congruence]|tauto]|tauto].
Qed.

(* the three Ok cases and the two Err cases of one step *)
Lemma mask_name_none_cases hv st x v :
  match mask_name None hv st (x, v) with
  | Ok st' =>
      ~ In x (k_consumed st) /\ k_consumed st' = x :: k_consumed st /\
      ((exists before p after,
          k_pok st = before ++ p :: after /\ pname p = x /\ ~ In x (names_of before) /\
          k_pok st' = before /\ k_va st' = None /\
          k_kwo st' = od_update (k_kwo st) (map (set_kind KO) after))
       \/ (~ In x (names_of (k_pok st)) /\ In x (names_of (k_kwo st)) /\
           k_pok st' = k_pok st /\ k_va st' = k_va st /\ k_kwo st' = remove_param x (k_kwo st))
       \/ (~ In x (names_of (k_pok st)) /\ ~ In x (names_of (k_kwo st)) /\ hv = true /\
           k_pok st' = k_pok st /\ k_va st' = k_va st /\ k_kwo st' = k_kwo st))
  | Err e =>
      e = ValueErr /\
      (In x (k_consumed st) \/
       (hv = false /\ ~ In x (names_of (k_pok st)) /\ ~ In x (names_of (k_kwo st))))
  end.
Proof.
  unfold mask_name. cbn [fst snd].
  destruct (mem x (k_consumed st)) eqn:E.
  { apply mem_In in E. split; [reflexivity|left; exact E]. }
  apply mem_false_In in E.
  pose proof (split_at_name_spec x (k_pok st)) as Sp.
  destruct (split_at_name x (k_pok st)) as [[[a p] b]|].
  - destruct Sp as (E1 & E2 & E3). split; [exact E|]. split; [reflexivity|]. left.
    exists a, p, b. cbn [k_pok k_va k_kwo]. repeat split; auto.
  - pose proof (find_param_split x (k_kwo st)) as F.
    destruct (find_param x (k_kwo st)) as [p|].
    + destruct F as (l1 & l2 & E1 & E2 & E3). split; [exact E|]. split; [reflexivity|]. right. left.
      cbn [k_pok k_va k_kwo]. repeat split; auto. rewrite E1, names_of_app. apply in_or_app. right.
      left. exact E2.
    + destruct hv; cbn [negb].
      * split; [exact E|]. split; [reflexivity|]. right. right. cbn [k_pok k_va k_kwo]. repeat split; auto.
      * split; [reflexivity|]. right. repeat split; auto.
Qed.

Lemma od_update_after pos1 vk st before p after :
  KInv pos1 vk st -> k_pok st = before ++ p :: after ->
  od_update (k_kwo st) (map (set_kind KO) after) = k_kwo st ++ map (set_kind KO) after /\
  ~ In (pname p) (names_of before) /\ ~ In (pname p) (names_of after) /\ ~ In (pname p) (names_of (k_kwo st)).
Proof.
  intros (HK & Hn & Hd) Ep. unfold kps, blk in Hn. rewrite Ep in Hn.
  assert (Hak : NoDup (names_of after ++ names_of (k_kwo st))).
  { eapply nodup_count; [exact Hn|]. intros y. count_names. destruct (N.eq_dec (pname p) y); lia. }
  split; [|split; [|split]].
  - apply od_update_fresh.
    + rewrite names_of_set_kind. apply nodup_app_l in Hak. exact Hak.
    + rewrite names_of_set_kind. intros y Hy Hy'. exact (nodup_app_disjoint _ _ y Hak Hy Hy').
  - intros X. apply (count_occ_In N.eq_dec) in X.
    pose proof (proj1 (NoDup_count_occ N.eq_dec _) Hn (pname p)) as Hc1. count_names.
    revert Hc1. destruct (N.eq_dec (pname p) (pname p)) as [_|Hne]; [intros; lia|contradiction].
  - intros X. apply (count_occ_In N.eq_dec) in X.
    pose proof (proj1 (NoDup_count_occ N.eq_dec _) Hn (pname p)) as Hc1. count_names.
    revert Hc1. destruct (N.eq_dec (pname p) (pname p)) as [_|Hne]; [intros; lia|contradiction].
  - intros X. apply (count_occ_In N.eq_dec) in X.
    pose proof (proj1 (NoDup_count_occ N.eq_dec _) Hn (pname p)) as Hc1. count_names.
    revert Hc1. destruct (N.eq_dec (pname p) (pname p)) as [_|Hne]; [intros; lia|contradiction].
Qed.

Definition kwo_form (ns : list name) (pok kwo : list param) : list param :=
  filter (nh ns) (kwo ++ map (set_kind KO) (dropw (nh ns) pok)).

Definition va_form (ns : list name) (pok : list param) (va : option param) : option param :=
  if forallb (nh ns) pok then va else None.

Lemma filter_nh_ext x ns l : ~ In x (names_of l) -> filter (nh (x :: ns)) l = filter (nh ns) l.
Proof.
  intros H. apply filter_ext_in. intros q Hq. apply nh_cons_ne. intros E. apply H. rewrite <- E.
  apply in_names. exact Hq.
Qed.

Lemma step_shape pos1 vk st st' x ns :
  KInv pos1 vk st ->
  ((exists before p after,
      k_pok st = before ++ p :: after /\ pname p = x /\ ~ In x (names_of before) /\
      k_pok st' = before /\ k_va st' = None /\
      k_kwo st' = od_update (k_kwo st) (map (set_kind KO) after))
   \/ (~ In x (names_of (k_pok st)) /\ In x (names_of (k_kwo st)) /\
       k_pok st' = k_pok st /\ k_va st' = k_va st /\ k_kwo st' = remove_param x (k_kwo st))
   \/ (~ In x (names_of (k_pok st)) /\ ~ In x (names_of (k_kwo st)) /\
       k_pok st' = k_pok st /\ k_va st' = k_va st /\ k_kwo st' = k_kwo st)) ->
  takew (nh ns) (k_pok st') = takew (nh (x :: ns)) (k_pok st) /\
  va_form ns (k_pok st') (k_va st') = va_form (x :: ns) (k_pok st) (k_va st) /\
  Permutation (kwo_form ns (k_pok st') (k_kwo st')) (kwo_form (x :: ns) (k_pok st) (k_kwo st)) /\
  (forall y, y <> x -> (In y (names_of (k_pok st') ++ names_of (k_kwo st'))
                        <-> In y (names_of (k_pok st) ++ names_of (k_kwo st)))).
Proof.
  intros Hinv [A|[B|C]].
  - destruct A as (before & p & after & Ep & Hp & Hxb & E1 & E2 & E3).
    destruct (od_update_after pos1 vk st before p after Hinv Ep) as (Eu & _ & Hxa & Hxk).
    rewrite Hp in Hxa, Hxk. rewrite E1, E2, E3, Eu, Ep. clear E1 E2 E3 Eu.
    assert (Hb : forall q, In q before -> nh (x :: ns) q = nh ns q).
    { intros q Hq. apply nh_cons_ne. intros E. apply Hxb. rewrite <- E. apply in_names. exact Hq. }
    assert (Hgp : nh (x :: ns) p = false) by (apply nh_cons_eq; exact Hp).
    assert (Efb : forallb (nh (x :: ns)) before = forallb (nh ns) before) by (apply forallb_ext_in; exact Hb).
    split; [|split; [|split]].
    + rewrite takew_app, Efb. cbn [takew]. rewrite Hgp, app_nil_r.
      rewrite (takew_ext_in _ _ before Hb).
      destruct (forallb (nh ns) before) eqn:Ef; [apply takew_all; exact Ef|reflexivity].
    + unfold va_form. rewrite forallb_app. cbn [forallb]. rewrite Hgp, andb_false_r.
      destruct (forallb (nh ns) before); reflexivity.
    + unfold kwo_form.
      assert (Edw : dropw (nh (x :: ns)) (before ++ p :: after) = dropw (nh ns) before ++ p :: after).
      { rewrite dropw_app, Efb. cbn [dropw]. rewrite Hgp. rewrite (dropw_ext_in _ _ before Hb).
        destruct (forallb (nh ns) before) eqn:Ef; [rewrite (dropw_all _ _ Ef); reflexivity|reflexivity]. }
      rewrite Edw. set (dw := dropw (nh ns) before).
      assert (Hdw : ~ In x (names_of (map (set_kind KO) dw))).
      { rewrite names_of_set_kind. intros X. apply Hxb. unfold names_of in *. apply in_map_iff in X.
        destruct X as [q [Eq Hq]]. apply in_map_iff. exists q. split; [exact Eq|]. exact (dropw_incl _ _ _ Hq). }
      rewrite map_app. cbn [map]. rewrite !filter_app. cbn [filter].
      rewrite nh_set_kind, Hgp.
      rewrite (filter_nh_ext x ns (k_kwo st) Hxk), (filter_nh_ext x ns _ Hdw).
      rewrite (filter_nh_ext x ns (map (set_kind KO) after)) by (rewrite names_of_set_kind; exact Hxa).
      rewrite <- !app_assoc. apply Permutation_app_head. apply Permutation_app_comm.
    + intros y Hy. rewrite !names_of_app, names_of_set_kind. cbn [names_of map]. fold (names_of after).
      rewrite !in_app_iff. cbn [In]. rewrite Hp. split; [tauto|]. intros [[H|[H|H]]|H]; try tauto.
      exfalso. apply Hy. symmetry. exact H.
  - destruct B as (Hxp & Hxk & E1 & E2 & E3). rewrite E1, E2, E3. clear E1 E2 E3.
    assert (Hb : forall q, In q (k_pok st) -> nh (x :: ns) q = nh ns q).
    { intros q Hq. apply nh_cons_ne. intros E. apply Hxp. rewrite <- E. apply in_names. exact Hq. }
    split; [|split; [|split]].
    + symmetry. apply takew_ext_in. exact Hb.
    + unfold va_form. rewrite (forallb_ext_in _ _ _ Hb). reflexivity.
    + unfold kwo_form. rewrite (dropw_ext_in _ _ _ Hb). set (dw := dropw (nh ns) (k_pok st)).
      assert (Hdw : ~ In x (names_of (map (set_kind KO) dw))).
      { rewrite names_of_set_kind. intros X. apply Hxp. unfold names_of in *. apply in_map_iff in X.
        destruct X as [q [Eq Hq]]. apply in_map_iff. exists q. split; [exact Eq|]. exact (dropw_incl _ _ _ Hq). }
      rewrite !filter_app, filter_nh_remove, (filter_nh_ext x ns _ Hdw). apply Permutation_refl.
    + intros y Hy. rewrite !in_app_iff, in_names_remove. tauto.
  - destruct C as (Hxp & Hxk & E1 & E2 & E3). rewrite E1, E2, E3. clear E1 E2 E3.
    assert (Hb : forall q, In q (k_pok st) -> nh (x :: ns) q = nh ns q).
    { intros q Hq. apply nh_cons_ne. intros E. apply Hxp. rewrite <- E. apply in_names. exact Hq. }
    split; [|split; [|split]].
    + symmetry. apply takew_ext_in. exact Hb.
    + unfold va_form. rewrite (forallb_ext_in _ _ _ Hb). reflexivity.
    + unfold kwo_form. rewrite (dropw_ext_in _ _ _ Hb). set (dw := dropw (nh ns) (k_pok st)).
      assert (Hdw : ~ In x (names_of (map (set_kind KO) dw))).
      { rewrite names_of_set_kind. intros X. apply Hxp. unfold names_of in *. apply in_map_iff in X.
        destruct X as [q [Eq Hq]]. apply in_map_iff. exists q. split; [exact Eq|]. exact (dropw_incl _ _ _ Hq). }
      rewrite !filter_app, (filter_nh_ext x ns _ Hxk), (filter_nh_ext x ns _ Hdw). apply Permutation_refl.
    + intros y Hy. tauto.
Qed.

Definition ok_names (hv : bool) (st : kstate) (ns : list name) : Prop :=
  NoDup ns /\ (forall x, In x ns -> ~ In x (k_consumed st)) /\
  (hv = false -> forall x, In x ns -> In x (names_of (k_pok st) ++ names_of (k_kwo st))).

(* C03 shape: what the loop leaves, as a function of the SET of names *)
Lemma mask_names_closed hv pos1 vk : forall ns st, KInv pos1 vk st -> hv = isSome vk ->
  match mask_names None hv st (map (fun x => (x, 0)) ns) with
  | Ok stf =>
      k_pok stf = takew (nh ns) (k_pok st) /\
      k_va stf = va_form ns (k_pok st) (k_va st) /\
      Permutation (k_kwo stf) (kwo_form ns (k_pok st) (k_kwo st)) /\
      KInv pos1 vk stf /\ ok_names hv st ns
  | Err e => e = ValueErr /\ ~ ok_names hv st ns
  end.
Proof.
  induction ns as [|x ns IH]; intros st Hinv Hhv.
  - cbn [map mask_names]. unfold va_form, kwo_form.
    rewrite (takew_all _ _ (nh_nil_forallb _)), nh_nil_forallb, (dropw_all _ _ (nh_nil_forallb _)).
    cbn [map]. rewrite app_nil_r, filter_nh_nil.
    split; [reflexivity|]. split; [reflexivity|]. split; [apply Permutation_refl|]. split; [exact Hinv|].
    split; [constructor|split; [intros x []|intros _ x []]].
  - cbn [map mask_names].
    pose proof (mask_name_none_cases hv st x 0) as Hc.
    destruct (mask_name None hv st (x, 0)) as [st'|e] eqn:Est; cbn [bind].
    + destruct Hc as (Hxc & Hcons & Hcases).
      pose proof (mask_name_step None hv pos1 vk st x 0 Hinv Hhv Hxc (fun H => False_ind _ (H eq_refl))) as Hs.
      rewrite Est in Hs. destruct Hs as (Hinv' & _).
      assert (Hcases' :
        (exists before p after,
            k_pok st = before ++ p :: after /\ pname p = x /\ ~ In x (names_of before) /\
            k_pok st' = before /\ k_va st' = None /\
            k_kwo st' = od_update (k_kwo st) (map (set_kind KO) after))
        \/ (~ In x (names_of (k_pok st)) /\ In x (names_of (k_kwo st)) /\
            k_pok st' = k_pok st /\ k_va st' = k_va st /\ k_kwo st' = remove_param x (k_kwo st))
        \/ (~ In x (names_of (k_pok st)) /\ ~ In x (names_of (k_kwo st)) /\
            k_pok st' = k_pok st /\ k_va st' = k_va st /\ k_kwo st' = k_kwo st)).
      { destruct Hcases as [A|[B|C]]; [left; exact A|right; left; exact B|right; right; tauto]. }
      destruct (step_shape pos1 vk st st' x ns Hinv Hcases') as (S1 & S2 & S3 & S4).
      assert (Hxin : hv = false -> In x (names_of (k_pok st) ++ names_of (k_kwo st))).
      { intros Hf. destruct Hcases as [A|[B|C]].
        - destruct A as (before & p & after & Ep & Hp & _). apply in_or_app. left.
          rewrite Ep, names_of_app. apply in_or_app. right. left. exact Hp.
        - apply in_or_app. right. tauto.
        - destruct C as (_ & _ & Ht & _). rewrite Ht in Hf. discriminate. }
      specialize (IH st' Hinv' Hhv).
      destruct (mask_names None hv st' (map (fun x => (x, 0)) ns)) as [stf|e].
      * destruct IH as (I1 & I2 & I3 & I4 & (O1 & O2 & O3)).
        split; [rewrite I1; exact S1|]. split; [rewrite I2; exact S2|].
        split; [eapply perm_trans; [exact I3|exact S3]|]. split; [exact I4|].
        split; [|split].
        -- constructor; [|exact O1]. intros Hin. apply (O2 x Hin). rewrite Hcons. left; reflexivity.
        -- intros y [<-|Hy]; [exact Hxc|]. intros X. apply (O2 y Hy). rewrite Hcons. right. exact X.
        -- intros Hf y [<-|Hy]; [exact (Hxin Hf)|]. apply (S4 y).
           ++ intros E. subst y. apply (O2 x Hy). rewrite Hcons. left. reflexivity.
           ++ exact (O3 Hf y Hy).
      * destruct IH as (-> & Hno). split; [reflexivity|]. intros (O1 & O2 & O3). apply Hno.
        apply NoDup_cons_iff in O1. destruct O1 as [Hxn O1]. split; [exact O1|split].
        -- intros y Hy. rewrite Hcons. intros [E|X]; [subst y; contradiction|]. exact (O2 y (or_intror Hy) X).
        -- intros Hf y Hy. apply (S4 y).
           ++ intros E. subst y. contradiction.
           ++ exact (O3 Hf y (or_intror Hy)).
    + destruct Hc as (-> & [Hin|(Hf & H1 & H2)]); (split; [reflexivity|]); intros (O1 & O2 & O3).
      * exact (O2 x (or_introl eq_refl) Hin).
      * specialize (O3 Hf x (or_introl eq_refl)). apply in_app_or in O3. tauto.
Qed.

Lemma mem_perm x l l' : Permutation l l' -> mem x l = mem x l'.
Proof.
  intros H. apply eq_true_iff_eq. rewrite !mem_In.
  split; apply Permutation_in; [exact H|symmetry; exact H].
Qed.

Lemma nh_perm ns ns' q : Permutation ns ns' -> nh ns q = nh ns' q.
Proof. intros H. unfold nh. rewrite (mem_perm _ _ _ H). reflexivity. Qed.

Lemma ok_names_perm hv st ns ns' : Permutation ns ns' -> ok_names hv st ns -> ok_names hv st ns'.
Proof.
  intros H (O1 & O2 & O3). assert (H' : Permutation ns' ns) by (symmetry; exact H). split; [|split].
  - eapply Permutation_NoDup; eassumption.
  - intros x Hx. apply O2. eapply Permutation_in; eassumption.
  - intros Hf x Hx. apply (O3 Hf). eapply Permutation_in; eassumption.
Qed.

(* equal up to the order of the keyword-only parameters: the other parameters
   are the same list, the keyword-only ones the same multiset (both lists being
   valid, the keyword-only parameters sit in one block in each) *)
Definition same_up_to_kwo_order (a b : list param) : Prop :=
  filter (fun p => negb (is_kind KO p)) a = filter (fun p => negb (is_kind KO p)) b /\
  Permutation (kwonly a) (kwonly b).

Definition perm_rel (x y : res sigT) : Prop :=
  match x, y with
  | Ok r, Ok r' => same_up_to_kwo_order (params r) (params r')
  | Err e, Err e' => e = e'
  | _, _ => False
  end.

Lemma perm_rel_refl x : perm_rel x x.
Proof. destruct x as [r|e]; cbn; [split; [reflexivity|apply Permutation_refl]|reflexivity]. Qed.

Lemma blk_nonko pos pok va kwo vk :
  kinds5 pos pok va kwo vk ->
  filter (fun p => negb (is_kind KO p)) (blk pos pok va kwo vk) = pos ++ pok ++ opt_list va ++ opt_list vk.
Proof.
  intros (H1 & H2 & H3 & H4 & H5). unfold blk. rewrite !filter_app.
  set (f := fun p => negb (is_kind KO p)).
  rewrite (filter_all f pos), (filter_all f pok), (filter_all f (opt_list va)), (filter_none f kwo),
          (filter_all f (opt_list vk)).
  - reflexivity.
  - apply Forall_opt. intros v Hv. unfold f, is_kind. rewrite (H5 v Hv). reflexivity.
  - eapply Forall_kind_f; [|exact H4]. intros p Hp. unfold f, is_kind. rewrite Hp. reflexivity.
  - apply Forall_opt. intros v Hv. unfold f, is_kind. rewrite (H3 v Hv). reflexivity.
  - eapply Forall_kind_f; [|exact H2]. intros p Hp. unfold f, is_kind. rewrite Hp. reflexivity.
  - eapply Forall_kind_f; [|exact H1]. intros p Hp. unfold f, is_kind. rewrite Hp. reflexivity.
Qed.

Lemma KInv_vk3 pos1 vk st vk3 : KInv pos1 vk st -> (vk3 = vk \/ vk3 = None) -> KInv pos1 vk3 st.
Proof.
  intros Hinv [->| ->]; [exact Hinv|]. destruct Hinv as ((H1 & H2 & H3 & H4 & H5) & Hn & Hd).
  split; [|split; [|exact Hd]].
  - repeat split; auto. discriminate.
  - eapply nodup_count; [exact Hn|]. intros y. count_names. lia.
Qed.

Lemma perm_core s pos1 vk hv st0 vk3 (F : kstate -> srcmap) dep ns ns' :
  KInv pos1 vk st0 -> hv = isSome vk -> (vk3 = vk \/ vk3 = None) -> Permutation ns ns' ->
  perm_rel
    (do st <- mask_names None hv st0 (map (fun x => (x, 0)) ns) ;;
     apply_params s (mkSorted pos1 (k_pok st) (k_va st) (k_kwo st) vk3 (F st) dep))
    (do st <- mask_names None hv st0 (map (fun x => (x, 0)) ns') ;;
     apply_params s (mkSorted pos1 (k_pok st) (k_va st) (k_kwo st) vk3 (F st) dep)).
Proof.
  intros Hinv Hhv Hvk3 Hp.
  pose proof (mask_names_closed hv pos1 vk ns st0 Hinv Hhv) as C1.
  pose proof (mask_names_closed hv pos1 vk ns' st0 Hinv Hhv) as C2.
  destruct (mask_names None hv st0 (map (fun x => (x, 0)) ns)) as [a|e1];
    destruct (mask_names None hv st0 (map (fun x => (x, 0)) ns')) as [b|e2]; cbn [bind].
  - destruct C1 as (I1 & I2 & I3 & I4 & I5). destruct C2 as (J1 & J2 & J3 & J4 & J5).
    pose proof (KInv_vk3 _ _ _ vk3 I4 Hvk3) as Ia. pose proof (KInv_vk3 _ _ _ vk3 J4 Hvk3) as Ib.
    unfold apply_params.
    change (flatten (mkSorted pos1 (k_pok a) (k_va a) (k_kwo a) vk3 (F a) dep)) with (kps pos1 vk3 a).
    change (flatten (mkSorted pos1 (k_pok b) (k_va b) (k_kwo b) vk3 (F b) dep)) with (kps pos1 vk3 b).
    rewrite (KInv_validate _ _ _ Ia), (KInv_validate _ _ _ Ib). cbn [perm_rel params].
    assert (Enh : forall q, nh ns q = nh ns' q) by (intros q; apply nh_perm; exact Hp).
    assert (Epok : k_pok a = k_pok b).
    { rewrite I1, J1. apply takew_ext_in. intros q _. apply Enh. }
    assert (Eva : k_va a = k_va b).
    { rewrite I2, J2. unfold va_form. rewrite (forallb_ext _ _ (k_pok st0) Enh). reflexivity. }
    assert (Ekwo : kwo_form ns (k_pok st0) (k_kwo st0) = kwo_form ns' (k_pok st0) (k_kwo st0)).
    { unfold kwo_form. rewrite (dropw_ext_in _ _ (k_pok st0) (fun q _ => Enh q)).
      apply filter_ext. exact Enh. }
    destruct Ia as (Ka & _). destruct Ib as (Kb & _). unfold kps. split.
    + rewrite (blk_nonko _ _ _ _ _ Ka), (blk_nonko _ _ _ _ _ Kb), Epok, Eva. reflexivity.
    + rewrite (blk_kwonly _ _ _ _ _ Ka), (blk_kwonly _ _ _ _ _ Kb).
      eapply perm_trans; [exact I3|]. rewrite Ekwo. symmetry. exact J3.
  - destruct C1 as (_ & _ & _ & _ & I5). destruct C2 as (_ & Hno). exfalso. apply Hno.
    exact (ok_names_perm _ _ _ _ Hp I5).
  - destruct C2 as (_ & _ & _ & _ & J5). destruct C1 as (_ & Hno). exfalso. apply Hno.
    apply (ok_names_perm _ _ ns' ns); [symmetry; exact Hp|exact J5].
  - destruct C1 as (-> & _). destruct C2 as (-> & _). reflexivity.
Qed.

Lemma KInv_drop_va pos1 vk pok va kwo src cons src' cons' :
  KInv pos1 vk (mkK pok va kwo src cons) -> KInv pos1 vk (mkK pok None kwo src' cons').
Proof.
  intros ((H1 & H2 & H3 & H4 & H5) & Hn & Hd). cbn [k_pok k_va k_kwo] in *. split; [|split; [|exact Hd]].
  - cbn [k_pok k_va k_kwo]. repeat split; auto. discriminate.
  - eapply nodup_count; [exact Hn|]. intros y. count_names. lia.
Qed.

Lemma KInv_n s n va1 src cons :
  valid_sig (params s) = true ->
  (va1 = varargs (sort_params s) \/ va1 = None) ->
  KInv (skipn n (posargs (sort_params s))) (varkwargs (sort_params s))
       (mkK (skipn (n - length (posargs (sort_params s))) (pokargs (sort_params s))) va1
            (kwoargs (sort_params s)) src cons).
Proof.
  intros Hv [->| ->].
  - exact (st0_inv s n Hv).
  - exact (KInv_drop_va _ _ _ _ _ _ _ src cons (st0_inv s n Hv)).
Qed.

Lemma KInv_hide_args s src cons :
  valid_sig (params s) = true ->
  KInv [] (varkwargs (sort_params s)) (mkK [] None (kwoargs (sort_params s)) src cons).
Proof.
  intros Hv. pose proof (st0_inv s 0 Hv) as ((H1 & H2 & H3 & H4 & H5) & Hn & Hd).
  unfold st0_of in *. cbn [k_pok k_va k_kwo Nat.sub skipn] in *. split; [|split; [|exact I]].
  - cbn [k_pok k_va k_kwo]. repeat split; auto. discriminate.
  - eapply nodup_count; [exact Hn|]. intros y. count_names. lia.
Qed.

(* C03_perm, for ALL signatures, ALL n, ALL sixteen hide-flag sets: permuting
   the named arguments gives the same parameters up to the order of the
   keyword-only ones, or the same error *)
Theorem mask_perm s n names names' h :
  valid_sig (params s) = true -> Permutation names names' ->
  perm_rel (mask s n names h) (mask s n names' h).
Proof.
  intros Hv Hp. unfold mask, mask_gen. destruct h as [ha hk hva hvk].
  cbn [h_args h_kwargs h_varargs h_varkwargs].
  destruct hk.
  - apply perm_rel_refl.
  - destruct ha.
    + cbn [bind orb].
      destruct hvk; cbn [orb];
        (apply (perm_core s _ (varkwargs (sort_params s)));
         [apply KInv_hide_args; exact Hv|reflexivity|auto|exact Hp]).
    + cbn [orb].
      destruct (Nat.eqb n 0).
      * cbn [bind].
        destruct hva, hvk; cbn [orb];
          (apply (perm_core s _ (varkwargs (sort_params s)));
           [apply (KInv_n s 0); auto|reflexivity|auto|exact Hp]).
      * match goal with |- context [Nat.ltb ?a n && ?b] => destruct (Nat.ltb a n && b) end; [reflexivity|].
        cbn [bind].
        destruct hva, hvk; cbn [orb];
          (apply (perm_core s _ (varkwargs (sort_params s)));
           [apply (KInv_n s n); auto|reflexivity|auto|exact Hp]).
Qed.

(* the relation is not vacuous: an explicit instance where the order of the
   keyword-only parameters really differs *)
Definition ex_sig4 : sigT :=
  mkSig [mkParam 1 PK None None UEmpty; mkParam 2 PK None None UEmpty;
         mkParam 3 PK None None UEmpty; mkParam 4 PK None None UEmpty] None UEmpty [] [].

Definition res_names (x : res sigT) : option (list (name * kind)) :=
  match x with Ok r => Some (map (fun p => (pname p, pkind p)) (params r)) | Err _ => None end.

Example mask_perm_order_differs :
  valid_sig (params ex_sig4) = true /\
  res_names (mask ex_sig4 0 [1; 3] nohide0) = Some [(2, KO); (4, KO)] /\
  res_names (mask ex_sig4 0 [3; 1] nohide0) = Some [(4, KO); (2, KO)].
Proof. repeat split; vm_compute; reflexivity. Qed.

Example mask_compose_nonvacuous :
  let s := mkSig [mkParam 1 PO None None UEmpty; mkParam 2 PK (Some 1) None UEmpty;
                  mkParam 9 VP None None UEmpty; mkParam 3 KO None None UEmpty] None UEmpty
                 [(1, [100]); (2, [100]); (9, [100]); (3, [100])] [(100, 0)] in
  valid_sig (params s) = true /\ exists r, mask s 1 [] nohide0 = Ok r /\ mask r 2 [] nohide0 = mask s 3 [] nohide0.
Proof. split; [reflexivity|]. eexists. split; reflexivity. Qed.

Print Assumptions mask_compose.
Print Assumptions mask_names_closed.
Print Assumptions mask_perm.
Print Assumptions mask_perm_order_differs.
Print Assumptions mask_compose_nonvacuous.
