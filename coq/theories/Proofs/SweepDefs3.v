(* SweepDefs3.v — boolean sweeps for the algebraic laws: fold law of merge (C09),
   associativity of embed (C02), composition law of mask (C03). *)
From Sigtools.Model Require Import Universe.
From Sigtools.Proofs Require Import SweepDefs SweepDefs2.

Definition params_eqb (a b : list param) : bool :=
  Nat.eqb (length a) (length b) && forallb (fun pq => param_eqb (fst pq) (snd pq)) (combine a b).

Definition srcmap_eqb (a b : srcmap) : bool :=
  Nat.eqb (length a) (length b) &&
  forallb (fun kv => Nat.eqb (length (snd kv)) (length (src_get b (fst kv)))
                     && forallb (fun xy => N.eqb (fst xy) (snd xy)) (combine (snd kv) (src_get b (fst kv)))
                     && src_mem b (fst kv)) a.

Definition res_params_eqb (x y : res sigT) : bool :=
  match x, y with
  | Ok r1, Ok r2 => params_eqb (params r1) (params r2)
  | Err Incompatible, Err Incompatible => true
  | Err ValueErr, Err ValueErr => true
  | _, _ => false
  end.

(* signatures with provenance: callable 100+i declares every parameter of the i-th input *)
Definition mkp (fid : N) (ps : list param) : sigT :=
  mkSig ps None UEmpty (map (fun p => (pname p, [fid])) ps) [(fid, 0)].

(* C09: merge(a, b, c) = merge(merge(a, b), c) in parameters and provenance, for
   inputs whose shared names keep their role *)
Definition fold_check (a b c : list param) : bool :=
  negb (role_consistent [a; b; c]) ||
  match merge [mkp 100 a; mkp 101 b; mkp 102 c], merge_nested [mkp 100 a; mkp 101 b; mkp 102 c] with
  | Ok r1, Ok r2 => params_eqb (params r1) (params r2) && srcmap_eqb (srcs r1) (srcs r2)
                    && srcmap_eqb (srcs r2) (srcs r1)
  | Err Incompatible, Err Incompatible => true
  | _, _ => false
  end.

Definition fold_sweep (la : list (list param)) : bool :=
  forallb (fun a => forallb (fun b => forallb (fun c => fold_check a b c) U1ab) U1ab) la.

(* C02: embed(a, b, c) has the same parameters as embed(embed(a, b), c) *)
Definition U1ef := universe 1 [5; 6] 9 10.

Definition assoc_check (a b c : list param) (uva uvk : bool) : bool :=
  match embed [mk a; mk b] uva uvk with
  | Ok ab => res_params_eqb (embed [mk a; mk b; mk c] uva uvk) (embed [ab; mk c] uva uvk)
  | Err _ => match embed [mk a; mk b; mk c] uva uvk with Err _ => true | Ok _ => false end
  end.

Definition assoc_sweep (la : list (list param)) : bool :=
  forallb (fun a => forallb (fun b => forallb (fun c =>
    forallb (fun f => assoc_check a b c (fst f) (snd f)) flagsets) U1ef) U1cd) la.

(* C03: mask(mask(sig, n), m) equals mask(sig, n + m) *)
Definition compose_check (s : list param) (n m : nat) : bool :=
  match mask (mk s) n [] nohide with
  | Ok r => res_params_eqb (mask r m [] nohide) (mask (mk s) (n + m) [] nohide)
  | Err _ => match mask (mk s) (n + m) [] nohide with Err _ => true | Ok _ => false end
  end.

Definition compose_sweep (la : list (list param)) : bool :=
  forallb (fun s => forallb (fun n => forallb (fun m => compose_check s n m) [0; 1; 2; 3]%nat) [0; 1; 2; 3]%nat) la.
