(* EmbedSoundAcc.v -- acceptance of a concatenated signature (C02).
   [acc5] is [accepts] on the five buckets of a classified signature.
   [concat_acc]: the signature made of the outer's named parameters followed by
   Y's, with Y's stars where they are forwarded, accepts a call exactly when the
   outer accepts it and Y accepts the surplus the outer forwards.
   [reach_acc]: the inner signature merged against the forwarded stars accepts
   exactly what the inner signature and the stars both accept. *)
From Sigtools.Model Require Import Base Bind Roles Algebra.
From Sigtools.Proofs Require Import SmallModel Basics MaskLaws MaskExact MergeNeutral MergeIdem
     MaskNamesLib MergeSoundBase MergeSoundInv MergeSound EmbedSoundStars.
From Coq Require Import Lia.

Definition cls5 (P K : list param) (n : nat) (k : name) : kwclass :=
  match kw_class_pos P n k with
  | Some c => c
  | None => if mem k (names_of K) then KDirect else KExtra
  end.
Definition ok5 (c : kwclass) (vk : bool) : bool :=
  match c with KDirect => true | KDup => false | KExtra => vk end.
Definition rq (ks : list name) (p : param) : bool := has_def p || mem (pname p) ks.
Definition acc5 (P K : list param) (va vk : bool) (n : nat) (ks : list name) : bool :=
  (Nat.leb n (length P) || va)
  && forallb (fun k => ok5 (cls5 P K n k) vk) ks
  && req_pos P n ks
  && forallb (rq ks) K.

Lemma kw_class_flat S n k : wk S -> kw_class (flatten S) n k = cls5 (Pz S) (kwoargs S) n k.
Proof. intros W. unfold kw_class, cls5. rewrite (flat_positional S W), (flat_kwonly S W). reflexivity. Qed.

Lemma accepts_acc5 S n ks : wk S ->
  accepts (flatten S) (mkCall n ks) =
  acc5 (Pz S) (kwoargs S) (isSome (varargs S)) (isSome (varkwargs S)) n ks.
Proof.
  intros W. unfold accepts, acc5, req_kwo, kw_ok. cbn [npos kws].
  rewrite (flat_positional S W), (flat_kwonly S W), (flat_vp S W), (flat_vk S W). fold (Pz S).
  f_equal. f_equal. f_equal. apply forallb_ext. intros k. rewrite (kw_class_flat S n k W).
  destruct (cls5 (Pz S) (kwoargs S) n k); reflexivity.
Qed.

(* ---- small facts ---- *)
Lemma forallb_filter {A} (f g : A -> bool) l :
  forallb f (filter g l) = forallb (fun x => negb (g x) || f x) l.
Proof.
  induction l as [|x l IH]; [reflexivity|]. cbn [filter forallb]. destruct (g x); cbn [forallb negb orb]; rewrite IH; reflexivity.
Qed.

Lemma forallb_andb {A} (f g : A -> bool) l : forallb (fun x => f x && g x) l = forallb f l && forallb g l.
Proof.
  induction l as [|x l IH]; [reflexivity|]. cbn [forallb]. rewrite IH.
  destruct (f x), (g x), (forallb f l), (forallb g l); reflexivity.
Qed.

Lemma kw_class_pos_some_in P : forall n k c, kw_class_pos P n k = Some c -> In k (names_of P).
Proof.
  induction P as [|p P IH]; intros n k c; cbn [kw_class_pos]; [discriminate|].
  destruct (N.eqb_spec k (pname p)) as [E|_]; [intros _; left; symmetry; exact E|].
  intros H. right. eapply IH. exact H.
Qed.

Lemma kw_class_pos_nopk P : (forall q, In q P -> pkind q <> PK) ->
  forall n k, kw_class_pos P n k = None \/ kw_class_pos P n k = Some KExtra.
Proof.
  induction P as [|p P IH]; intros H n k; cbn [kw_class_pos]; [left; reflexivity|].
  destruct (N.eqb k (pname p)).
  - right. pose proof (H p (or_introl eq_refl)). destruct (pkind p); try reflexivity. congruence.
  - apply IH. intros q Hq. apply H. right. exact Hq.
Qed.

Lemma cls5_nopk P m k : (forall q, In q P -> pkind q <> PK) -> cls5 P [] m k = KExtra.
Proof.
  intros H. unfold cls5. destruct (kw_class_pos_nopk P H m k) as [E|E]; rewrite E; reflexivity.
Qed.

Lemma cls5_foreign P K n k : ~ In k (names_of (P ++ K)) -> cls5 P K n k = KExtra.
Proof.
  intros H. rewrite names_app in H. unfold cls5.
  rewrite kw_class_pos_foreign by (intros X; apply H; apply in_or_app; left; exact X).
  destruct (mem k (names_of K)) eqn:E; [|reflexivity]. apply mem_In in E. exfalso. apply H. apply in_or_app. right. exact E.
Qed.

Lemma req_pos_ext P : forall m ks ks',
  (forall p, In p P -> pkind p = PK -> mem (pname p) ks = mem (pname p) ks') ->
  req_pos P m ks = req_pos P m ks'.
Proof.
  induction P as [|p P IH]; intros m ks ks' H; [reflexivity|]. cbn [req_pos].
  assert (IH' : forall m, req_pos P m ks = req_pos P m ks') by (intros m'; apply IH; intros q Hq; apply H; right; exact Hq).
  destruct m as [|m]; [|apply IH']. rewrite IH'. f_equal. f_equal.
  unfold is_kind, kind_eqb. destruct (pkind p) eqn:Ek; try reflexivity. cbn.
  apply H; [left; reflexivity|exact Ek].
Qed.

Lemma forallb_rq_ext K ks ks' :
  (forall p, In p K -> mem (pname p) ks = mem (pname p) ks') -> forallb (rq ks) K = forallb (rq ks') K.
Proof. intros H. apply forallb_ext_in. intros p Hp. unfold rq. rewrite (H p Hp). reflexivity. Qed.

(* the outer's positionals as they appear in the result: same names and
   defaults; a kind may have been turned into PO, but then the name is not
   passed by keyword (non-collision) *)
Definition rkn (ks : list name) (p p' : param) : Prop :=
  pname p' = pname p /\ has_def p' = has_def p /\
  (pkind p' = pkind p \/ (pkind p' = PO /\ ~ In (pname p) ks)).

Lemma rkn_len ks PX PX' : Forall2 (rkn ks) PX PX' -> length PX' = length PX.
Proof. induction 1 as [|p p' P P' _ _ IH]; [reflexivity|]. cbn [length]. rewrite IH. reflexivity. Qed.

Lemma rkn_kcp ks PX PX' : Forall2 (rkn ks) PX PX' ->
  forall k, In k ks -> forall m, kw_class_pos PX' m k = kw_class_pos PX m k.
Proof.
  induction 1 as [|p p' P P' (En & _ & Ek) _ IH]; intros k Hk m; [reflexivity|].
  cbn [kw_class_pos]. rewrite En. destruct (N.eqb_spec k (pname p)) as [E|_]; [|apply IH; exact Hk].
  destruct Ek as [Ek|[_ Hn]]; [rewrite Ek; reflexivity|]. exfalso. apply Hn. rewrite <- E. exact Hk.
Qed.

Lemma rkn_req ks PX PX' : Forall2 (rkn ks) PX PX' -> forall m, req_pos PX' m ks = req_pos PX m ks.
Proof.
  induction 1 as [|p p' P P' (En & Ed & Ek) _ IH]; intros m; [reflexivity|].
  cbn [req_pos]. destruct m as [|m]; [|apply IH]. rewrite IH, En, Ed. f_equal. f_equal.
  destruct Ek as [Ek|[Ek Hn]]; [unfold is_kind; rewrite Ek; reflexivity|].
  assert (Hm : mem (pname p) ks = false) by (apply mem_false_In; exact Hn).
  rewrite Hm, !andb_false_r. reflexivity.
Qed.

(* ------------------------------------------------------------------ *)
Section Concat.
Variables (PX PX' PY KX KY : list param) (vaX vkX vaY vkY a b : bool).
Variables (n : nat) (ks : list name).

Hypothesis Hrk : Forall2 (rkn ks) PX PX'.
Hypothesis Hdis : forall x, In x (names_of (PY ++ KY)) -> ~ In x (names_of (PX ++ KX)).
Hypothesis HY1 : a && vaX = false -> PY = [] /\ vaY = false.
Hypothesis HY2 : b && vkX = false -> (forall q, In q PY -> pkind q <> PK) /\ KY = [] /\ vkY = false.

Definition SKf (k : name) : bool := match cls5 PX KX n k with KExtra => true | _ => false end.
Definition ks_in : list name := if b then filter SKf ks else [].
Definition m_in : nat := if a then (n - length PX)%nat else 0%nat.

Lemma len_PX' : length PX' = length PX.
Proof. exact (rkn_len ks PX PX' Hrk). Qed.

Lemma kcp_PX' k : In k ks -> forall m, kw_class_pos PX' m k = kw_class_pos PX m k.
Proof. intros Hk. exact (rkn_kcp ks PX PX' Hrk k Hk). Qed.

Lemma req_pos_PX' : forall m, req_pos PX' m ks = req_pos PX m ks.
Proof. exact (rkn_req ks PX PX' Hrk). Qed.

Lemma mem_ks_in x : ~ In x (names_of (PX ++ KX)) -> b && vkX = true -> mem x ks_in = mem x ks.
Proof.
  intros Hx Hb. apply andb_true_iff in Hb. destruct Hb as [Hb _]. unfold ks_in. rewrite Hb.
  rewrite mem_filter. unfold SKf. rewrite (cls5_foreign PX KX n x Hx). apply andb_true_r.
Qed.

Lemma E1 :
  (Nat.leb n (length (PX' ++ PY)) || (if a then vaY else vaX)) =
  (Nat.leb n (length PX) || vaX) && (Nat.leb m_in (length PY) || vaY).
Proof.
  rewrite app_length, len_PX'. unfold m_in. destruct a eqn:Ea.
  - destruct vaX eqn:Ev.
    + rewrite orb_true_r. cbn [andb]. f_equal.
      destruct (Nat.leb_spec n (length PX + length PY)), (Nat.leb_spec (n - length PX) (length PY)); try reflexivity; lia.
    + destruct (HY1 eq_refl) as [-> ->]. cbn [length]. rewrite Nat.add_0_r, !orb_false_r.
      destruct (Nat.leb_spec n (length PX)), (Nat.leb_spec (n - length PX) 0); try reflexivity; lia.
  - destruct (HY1 eq_refl) as [-> ->]. cbn [length Nat.leb orb]. rewrite Nat.add_0_r, andb_true_r. reflexivity.
Qed.

Lemma E3 : req_pos (PX' ++ PY) n ks = req_pos PX n ks && req_pos PY m_in ks_in.
Proof.
  rewrite req_pos_app, req_pos_PX', len_PX'. f_equal. unfold m_in.
  destruct (a && vaX) eqn:Eav.
  - apply andb_true_iff in Eav. destruct Eav as [-> _]. apply req_pos_ext. intros p Hp Hk.
    destruct (b && vkX) eqn:Ebv.
    + symmetry. apply mem_ks_in; [|exact Ebv]. apply Hdis. rewrite names_app. apply in_or_app. left. apply in_names. exact Hp.
    + destruct (HY2 eq_refl) as [H _]. exfalso. exact (H p Hp Hk).
  - destruct (HY1 eq_refl) as [-> _]. destruct (n - length PX)%nat, (if a then _ else _); reflexivity.
Qed.

Lemma E4 : forallb (rq ks) (KX ++ KY) = forallb (rq ks) KX && forallb (rq ks_in) KY.
Proof.
  rewrite forallb_app. f_equal. destruct (b && vkX) eqn:Ebv.
  - apply forallb_rq_ext. intros p Hp. symmetry. apply mem_ks_in; [|exact Ebv].
    apply Hdis. rewrite names_app. apply in_or_app. right. apply in_names. exact Hp.
  - destruct (HY2 eq_refl) as (_ & -> & _). reflexivity.
Qed.

Lemma E2 :
  forallb (fun k => ok5 (cls5 (PX' ++ PY) (KX ++ KY) n k) (if b then vkY else vkX)) ks =
  forallb (fun k => ok5 (cls5 PX KX n k) vkX) ks && forallb (fun k => ok5 (cls5 PY KY m_in k) vkY) ks_in.
Proof.
  assert (Hin : forallb (fun k => ok5 (cls5 PY KY m_in k) vkY) ks_in =
                forallb (fun k => negb (b && SKf k) || ok5 (cls5 PY KY m_in k) vkY) ks).
  { unfold ks_in. destruct b; [rewrite forallb_filter; reflexivity|].
    cbn [forallb andb negb orb]. symmetry. clear. induction ks; cbn; auto. }
  rewrite Hin, <- forallb_andb. apply forallb_ext_in. intros k Hk.
  unfold cls5 at 1. rewrite kw_class_pos_app, (kcp_PX' k Hk), len_PX'.
  unfold SKf. unfold cls5 at 1 2.
  destruct (kw_class_pos PX n k) as [c|] eqn:Ec.
  - (* k names a positional parameter of the outer signature *)
    destruct c; cbn [ok5 andb negb orb].
    + rewrite andb_false_r. reflexivity.
    + reflexivity.
    + assert (Hf : cls5 PY KY m_in k = KExtra).
      { apply cls5_foreign. intros X. apply (Hdis k X). rewrite names_app. apply in_or_app. left.
        eapply kw_class_pos_some_in. exact Ec. }
      rewrite Hf. cbn [ok5]. rewrite andb_true_r.
      destruct b eqn:Eb, vkX eqn:Ev, vkY eqn:Ey; try reflexivity.
      destruct (HY2 eq_refl) as (_ & _ & X). discriminate.
  - destruct (mem k (names_of KX)) eqn:Emx.
    + (* a keyword-only parameter of the outer signature *)
      cbn [ok5 andb negb orb]. rewrite andb_false_r. cbn [negb orb].
      assert (Hn : ~ In k (names_of PY)).
      { intros X. apply (Hdis k); rewrite names_app; apply in_or_app; [left; exact X|right; apply mem_In; exact Emx]. }
      rewrite (kw_class_pos_foreign PY _ k Hn), names_app, mem_app, Emx. reflexivity.
    + (* foreign to the outer signature: surplus *)
      cbn [ok5]. rewrite andb_true_r.
      rewrite names_app, mem_app, Emx. cbn [orb]. fold (cls5 PY KY (n - length PX) k).
      destruct b eqn:Eb; cbn [negb orb andb].
      * destruct vkX eqn:Ev; cbn [andb].
        -- unfold m_in. destruct a eqn:Ea; [reflexivity|]. destruct (HY1 eq_refl) as [-> _]. reflexivity.
        -- destruct (HY2 eq_refl) as (H1 & -> & ->). rewrite (cls5_nopk PY _ k H1). reflexivity.
      * destruct (HY2 eq_refl) as (H1 & -> & _). rewrite (cls5_nopk PY _ k H1). cbn [ok5]. rewrite andb_true_r. reflexivity.
Qed.

Theorem concat_acc :
  acc5 (PX' ++ PY) (KX ++ KY) (if a then vaY else vaX) (if b then vkY else vkX) n ks =
  acc5 PX KX vaX vkX n ks && acc5 PY KY vaY vkY m_in ks_in.
Proof.
  unfold acc5. rewrite E1, E2, E3, E4.
  destruct (Nat.leb n (length PX) || vaX), (Nat.leb m_in (length PY) || vaY),
    (forallb (fun k => ok5 (cls5 PX KX n k) vkX) ks), (forallb (fun k => ok5 (cls5 PY KY m_in k) vkY) ks_in),
    (req_pos PX n ks), (req_pos PY m_in ks_in), (forallb (rq ks) KX), (forallb (rq ks_in) KY); reflexivity.
Qed.

End Concat.

(* when the outer signature accepts the call, the forwarded stars accept the surplus *)
Lemma stars_accept_surplus PX KX vaX vkX a b n ks :
  acc5 PX KX vaX vkX n ks = true -> acc5 [] [] (a && vaX) (b && vkX) (m_in PX a n) (ks_in PX KX b n ks) = true.
Proof.
  unfold acc5. intros H. apply andb_true_iff in H. destruct H as [H _]. apply andb_true_iff in H. destruct H as [H _].
  apply andb_true_iff in H. destruct H as [H1 H2]. cbn [length req_pos forallb]. rewrite !andb_true_r.
  apply andb_true_iff. split.
  - unfold m_in. destruct a; [|reflexivity]. cbn [andb]. destruct vaX; [apply orb_true_r|].
    rewrite orb_false_r in *. apply Nat.leb_le in H1. apply Nat.leb_le. lia.
  - apply forallb_forall. intros k Hk. unfold ks_in in Hk. destruct b; [|destruct Hk]. cbn [andb].
    apply filter_In in Hk. destruct Hk as [Hk Hs]. unfold SKf in Hs.
    rewrite forallb_forall in H2. specialize (H2 k Hk).
    unfold cls5 at 1. cbn [kw_class_pos names_of map mem]. cbn [ok5].
    destruct (cls5 PX KX n k); try discriminate. exact H2.
Qed.


(* ------------------------------------------------------------------ *)
(* the inner signature merged against the forwarded stars               *)

Lemma req_pos_nil_kind P k : forall m, req_pos (map (set_kind k) P) m [] = req_pos P m [].
Proof.
  induction P as [|p P IH]; intros m; [reflexivity|]. cbn [map req_pos]. destruct m; [|apply IH].
  rewrite IH. cbn [mem]. rewrite !andb_false_r. reflexivity.
Qed.

Lemma forallb_rq_kind ks k K : forallb (rq ks) (map (set_kind k) K) = forallb (rq ks) K.
Proof. rewrite forallb_map. reflexivity. Qed.

Lemma acc5_nostars_true m ks : acc5 [] [] false false m ks = true -> m = 0%nat /\ ks = [].
Proof.
  unfold acc5. cbn [length req_pos forallb]. rewrite !andb_true_r, orb_false_r. intros H.
  apply andb_true_iff in H. destruct H as [H1 H2]. split.
  - apply Nat.leb_le in H1. lia.
  - destruct ks as [|k ks']; [reflexivity|]. cbn in H2. discriminate.
Qed.

Lemma forallb_false_ex' {A} (f : A -> bool) xs : forallb f xs = false -> exists x, In x xs /\ f x = false.
Proof.
  induction xs as [|x xs IH]; cbn [forallb]; [discriminate|]. destruct (f x) eqn:E.
  - intros H. destruct (IH H) as [y [Hy Fy]]. exists y. split; [right; exact Hy|exact Fy].
  - intros _. exists x. split; [left; reflexivity|exact E].
Qed.

Lemma forallb_false_intro {A} (f : A -> bool) xs x : In x xs -> f x = false -> forallb f xs = false.
Proof.
  intros Hx Hf. destruct (forallb f xs) eqn:E; [|reflexivity]. rewrite forallb_forall in E. rewrite (E x Hx) in Hf. discriminate.
Qed.

Section Reach.
Variable i : sorted.
Hypothesis Ki : kinds_ok i.
Hypothesis Ni : NoDup (names_of (posargs i ++ pokargs i ++ kwoargs i)).
Let po := posargs i. Let pk := pokargs i. Let ko := kwoargs i.
Let vaI := isSome (varargs i). Let vkI := isSome (varkwargs i).

Lemma po_nopk q : In q po -> pkind q <> PK.
Proof. destruct Ki as (K1 & _). rewrite Forall_forall in K1. intros H. rewrite (K1 q H). discriminate. Qed.

Lemma reach_acc hva hvk m ks :
  reach_ok i hva hvk = true ->
  acc5 (reach_pos i hva hvk ++ reach_pok i hva hvk) (reach_kwo i hva hvk) (vaI && hva) (vkI && hvk) m ks =
  acc5 (po ++ pk) ko vaI vkI m ks && acc5 [] [] hva hvk m ks.
Proof.
  intros Hok. unfold reach_ok in Hok. apply andb_true_iff in Hok. destruct Hok as [Hok O3].
  apply andb_true_iff in Hok. destruct Hok as [O1 O2].
  destruct Ki as (K1 & K2 & _ & K4 & _). rewrite Forall_forall in K1, K2, K4.
  unfold reach_pos, reach_pok, reach_kwo. fold po pk ko.
  destruct hva, hvk; cbn [andb orb] in *; rewrite ?andb_true_r, ?andb_false_r, ?app_nil_r; cbn [app].
  - (* both stars: every call passes them *)
    assert (T : acc5 [] [] true true m ks = true).
    { unfold acc5. cbn [length req_pos forallb]. rewrite orb_true_r. cbn [andb]. rewrite !andb_true_r.
      apply forallb_forall. intros k _. unfold cls5. cbn. reflexivity. }
    rewrite T, andb_true_r. reflexivity.
  - (* star-args only: no keyword passes *)
    destruct ks as [|k ks'].
    + assert (Elen : length (po ++ map (set_kind PO) pk) = length (po ++ pk))
        by (rewrite !app_length, map_length; reflexivity).
      assert (Ereq : req_pos (po ++ map (set_kind PO) pk) m [] = req_pos (po ++ pk) m [])
        by (rewrite !req_pos_app, req_pos_nil_kind; reflexivity).
      assert (Eko : forallb (rq []) ko = true).
      { rewrite <- O3. apply forallb_ext. intros p. unfold rq. cbn [mem]. apply orb_false_r. }
      unfold acc5. cbn [forallb req_pos]. rewrite Elen, Ereq, Eko, orb_true_r.
      destruct (Nat.leb m (length (po ++ pk)) || vaI), (req_pos (po ++ pk) m []); reflexivity.
    + assert (F : acc5 [] [] true false m (k :: ks') = false).
      { unfold acc5. cbn [forallb]. unfold cls5 at 1. cbn [kw_class_pos names_of map mem ok5].
        rewrite !andb_false_r. reflexivity. }
      rewrite F, andb_false_r. unfold acc5. cbn [forallb].
      rewrite (cls5_nopk (po ++ map (set_kind PO) pk) m k).
      * cbn [ok5]. rewrite !andb_false_r. reflexivity.
      * intros q Hq. apply in_app_or in Hq. destruct Hq as [Hq|Hq]; [apply po_nopk; exact Hq|].
        apply in_map_iff in Hq. destruct Hq as [q0 [<- _]]. cbn. discriminate.
  - (* star-kwargs only: no positional argument passes *)
    destruct m as [|m].
    + assert (T : acc5 [] [] false true 0 ks = true).
      { unfold acc5. cbn [length req_pos forallb Nat.leb orb andb]. rewrite !andb_true_r.
        apply forallb_forall. intros k _. unfold cls5. cbn. reflexivity. }
      rewrite T, andb_true_r.
      assert (Q1 : forallb (fun k => ok5 (cls5 [] (map (set_kind KO) pk ++ ko) 0 k) vkI) ks =
                   forallb (fun k => ok5 (cls5 (po ++ pk) ko 0 k) vkI) ks).
      { apply forallb_ext. intros k. f_equal. unfold cls5. cbn [kw_class_pos].
        rewrite kw_class_pos_app, Nat.sub_0_l.
        assert (Epk : kw_class_pos pk 0 k = if mem k (names_of pk) then Some KDirect else None).
        { apply kw_class_pos_pk_zero. apply Forall_forall. exact K2. }
        rewrite names_app, mem_app, names_of_set_kind.
        destruct (kw_class_pos_nopk po po_nopk 0 k) as [E|E]; rewrite E.
        - rewrite Epk. destruct (mem k (names_of pk)); reflexivity.
        - (* a positional-only name is no other parameter's name *)
          assert (Hin : In k (names_of po)) by (eapply kw_class_pos_some_in; exact E).
          assert (Hn : ~ In k (names_of (pk ++ ko))).
          { intros X. rewrite names_app in Ni. exact (nodup_app_disjoint _ _ k Ni Hin X). }
          rewrite names_app in Hn.
          assert (M1 : mem k (names_of pk) = false) by (apply mem_false_In; intros X; apply Hn; apply in_or_app; left; exact X).
          assert (M2 : mem k (names_of ko) = false) by (apply mem_false_In; intros X; apply Hn; apply in_or_app; right; exact X).
          rewrite M1, M2. reflexivity. }
      assert (Q3 : forallb (rq ks) (map (set_kind KO) pk ++ ko) = req_pos (po ++ pk) 0 ks && forallb (rq ks) ko).
      { rewrite forallb_app, forallb_rq_kind, req_pos_app, Nat.sub_0_l, !req_pos_zero.
        assert (Q2 : forallb (fun p => has_def p || (is_kind PK p && mem (pname p) ks)) po = true).
        { apply forallb_forall. intros p Hp. rewrite forallb_forall in O1. rewrite (O1 p Hp). reflexivity. }
        rewrite Q2. cbn [andb]. f_equal. apply forallb_ext_in. intros p Hp. unfold rq, is_kind. rewrite (K2 p Hp). reflexivity. }
      unfold acc5. cbn [length Nat.leb orb andb req_pos]. rewrite Q1, Q3.
      destruct (forallb (fun k => ok5 (cls5 (po ++ pk) ko 0 k) vkI) ks), (req_pos (po ++ pk) 0 ks), (forallb (rq ks) ko); reflexivity.
    + unfold acc5. cbn [length Nat.leb orb andb]. rewrite !andb_false_r. reflexivity.
  - (* no star: only the empty call *)
    destruct (acc5 [] [] false false m ks) eqn:Es; [|rewrite andb_false_r; reflexivity].
    destruct (acc5_nostars_true m ks Es) as [-> ->]. rewrite andb_true_r. symmetry.
    unfold acc5. cbn [Nat.leb orb forallb andb]. rewrite req_pos_zero.
    apply andb_true_iff. split.
    + rewrite forallb_app. apply andb_true_iff. split; apply forallb_forall; intros p Hp.
      * rewrite forallb_forall in O1. rewrite (O1 p Hp). reflexivity.
      * rewrite forallb_forall in O2. rewrite (O2 p Hp). reflexivity.
    + apply forallb_forall. intros p Hp. rewrite forallb_forall in O3. unfold rq. rewrite (O3 p Hp). reflexivity.
Qed.

(* when the merge against the stars fails, no call is accepted by both *)
Lemma reach_none hva hvk m ks :
  reach_ok i hva hvk = false ->
  acc5 (po ++ pk) ko vaI vkI m ks && acc5 [] [] hva hvk m ks = false.
Proof.
  intros Hok. destruct (acc5 [] [] hva hvk m ks) eqn:Es; [|apply andb_false_r]. rewrite andb_true_r.
  destruct Ki as (K1 & K2 & _ & K4 & _). rewrite Forall_forall in K1, K2, K4.
  unfold acc5 in Es. cbn [length req_pos forallb] in Es. rewrite !andb_true_r in Es.
  apply andb_true_iff in Es. destruct Es as [S1 S2].
  assert (Hm : hva = false -> m = 0%nat).
  { intros ->. rewrite orb_false_r in S1. apply Nat.leb_le in S1. lia. }
  assert (Hk : hvk = false -> ks = []).
  { intros ->. destruct ks as [|k ks']; [reflexivity|]. cbn in S2. discriminate. }
  unfold reach_ok in Hok. change (posargs i) with po in Hok. change (pokargs i) with pk in Hok.
  change (kwoargs i) with ko in Hok. unfold acc5.
  destruct (hva || forallb has_def po) eqn:O1; cbn [andb] in Hok.
  2:{ apply orb_false_iff in O1. destruct O1 as [Ev O1]. rewrite (Hm Ev).
      assert (X : req_pos (po ++ pk) 0 ks = false).
      { rewrite req_pos_zero, forallb_app.
        assert (Y : forallb (fun p => has_def p || (is_kind PK p && mem (pname p) ks)) po = false).
        { destruct (forallb_false_ex' has_def po O1) as [p [Hp Hd]].
          apply (forallb_false_intro _ _ p Hp). rewrite Hd. unfold is_kind. rewrite (K1 p Hp). reflexivity. }
        apply andb_false_iff. left. exact Y. }
      rewrite X. rewrite andb_false_r. reflexivity. }
  destruct (hva || hvk || forallb has_def pk) eqn:O2; cbn [andb] in Hok.
  2:{ apply orb_false_iff in O2. destruct O2 as [O2 O2']. apply orb_false_iff in O2. destruct O2 as [Ev Ek].
      rewrite (Hm Ev), (Hk Ek).
      assert (X : req_pos (po ++ pk) 0 [] = false).
      { rewrite req_pos_zero, forallb_app.
        assert (Y : forallb (fun p => has_def p || (is_kind PK p && mem (pname p) [])) pk = false).
        { destruct (forallb_false_ex' has_def pk O2') as [p [Hp Hd]].
          apply (forallb_false_intro _ _ p Hp). rewrite Hd. cbn [mem]. rewrite andb_false_r. reflexivity. }
        apply andb_false_iff. right. exact Y. }
      rewrite X. rewrite andb_false_r. reflexivity. }
  apply orb_false_iff in Hok. destruct Hok as [Ek O3]. rewrite (Hk Ek).
  assert (X : forallb (rq []) ko = false).
  { destruct (forallb_false_ex' has_def ko O3) as [p [Hp Hd]].
    apply (forallb_false_intro _ _ p Hp). unfold rq. rewrite Hd. reflexivity. }
  rewrite X. apply andb_false_r.
Qed.
End Reach.

Print Assumptions concat_acc.
Print Assumptions stars_accept_surplus.
Print Assumptions reach_acc.
Print Assumptions reach_none.
