From Coq Require Import List NArith Bool Arith.
Import ListNotations.
Require Import Sigtools.Model.Sched Sigtools.Proofs.Sched Sigtools.Proofs.SchedBounded Sigtools.Proofs.SchedGeneral Sigtools.Proofs.SchedForger.
Open Scope nat_scope.

Theorem C17_no_loss : forall (c : cfg) (init : store) (kinds : list kind) (sched : list nat), all_done (run c (init_state init kinds) sched) = true -> g_store (run c (init_state init kinds) sched) = init.
Proof. exact no_loss. Qed.
Print Assumptions C17_no_loss.

Theorem C17_no_loss_always : forall (c : cfg) (init : store) (kinds : list kind) (sched : list nat) (a : attr), holders a (g_threads (run c (init_state init kinds) sched)) + present (sget (g_store (run c (init_state init kinds) sched)) a) = present (sget init a).
Proof. exact no_loss_always. Qed.
Print Assumptions C17_no_loss_always.

Theorem C17_sequential_refuted : exists p st th, preemptions p <= 2 /\ run_plan cfg_star (init_state i_w [KSig; KSig]) p = Some st /\ nth_error (g_threads st) 1 = Some th /\ th_ans th = Some (APlain VWrapped) /\ seq_answer cfg_star i_w (th_kind th) = AFwd VRaw /\ g_store st = i_w.
Proof. exact sequential_refuted. Qed.
Print Assumptions C17_sequential_refuted.

Theorem C17_sequential_refuted_reader : exists p st th, preemptions p <= 1 /\ run_plan cfg_star (init_state i_w [KSig; KPlain]) p = Some st /\ nth_error (g_threads st) 1 = Some th /\ th_ans th = Some (APlain VRaw) /\ seq_answer cfg_star i_w (th_kind th) = APlain VWrapped.
Proof. exact sequential_refuted_reader. Qed.
Print Assumptions C17_sequential_refuted_reader.

Theorem C17_sequential_partial : forall (c : cfg) (init : store) (kinds : list kind) (sched : list nat), no_window_open (run c (init_state init kinds) sched) = true -> g_store (run c (init_state init kinds) sched) = init.
Proof. exact store_init_outside_windows. Qed.
Print Assumptions C17_sequential_partial.

Theorem C17_sequential_partial_plain : forall (c : cfg) (init : store) (kinds : list kind) (sched : list nat) (t : nat) (th : thread) (st' : state), no_window_open (run c (init_state init kinds) sched) = true -> nth_error (g_threads (run c (init_state init kinds) sched)) t = Some th -> th_kind th = KPlain -> th_pc th = PStart -> step c (run c (init_state init kinds) sched) t = Some st' -> exists th', nth_error (g_threads st') t = Some th' /\ th_ans th' = Some (seq_answer c init KPlain) /\ th_pc th' = PDone.
Proof. exact plain_read_sequential. Qed.
Print Assumptions C17_sequential_partial_plain.

Theorem C17_sequential_partial_fallback : forall (c : cfg) (init : store) (kinds : list kind) (sched : list nat) (t : nat) (th : thread) (st' : state), no_window_open (run c (init_state init kinds) sched) = true -> nth_error (g_threads (run c (init_state init kinds) sched)) t = Some th -> th_pc th = F119 -> step c (run c (init_state init kinds) sched) t = Some st' -> exists th', nth_error (g_threads st') t = Some th' /\ th_ans th' = Some (APlain (view_of init)) /\ th_pc th' = PDone.
Proof. exact fallback_read_sequential. Qed.
Print Assumptions C17_sequential_partial_fallback.

Theorem C17_bounded_2threads : forall x p, In x configs2 -> In p (all_plans 70 2 2) -> verdict_on x p = true.
Proof. exact bounded_2threads. Qed.
Print Assumptions C17_bounded_2threads.

Theorem C17_bounded_3threads : forall x p, In x configs3 -> In p (all_plans 70 3 2) -> verdict_on x p = true.
Proof. exact bounded_3threads. Qed.
Print Assumptions C17_bounded_3threads.

Theorem C17_plans_le2_preemptions : forall p, In p (all_plans 70 3 2) -> preemptions p <= 2.
Proof. exact all_plans_le2_3. Qed.
Print Assumptions C17_plans_le2_preemptions.

Theorem C17_guard_refuted : exists p st th, preemptions p <= 1 /\ grun_plan (ginit 2) p = Some st /\ g_any_out st = false /\ nth_error (gs_threads st) 1 = Some th /\ g_ans th = 2%N /\ gs_guard st = false.
Proof. exact guard_refuted. Qed.
Print Assumptions C17_guard_refuted.

Theorem C17_guard_bounded_2threads : forall p, In p (all_plans 25 2 2) -> g_verdict 2 p = true.
Proof. exact guard_bounded_2threads. Qed.
Print Assumptions C17_guard_bounded_2threads.

Theorem C17_guard_bounded_3threads : forall p, In p (all_plans 25 3 2) -> g_verdict 3 p = true.
Proof. exact guard_bounded_3threads. Qed.
Print Assumptions C17_guard_bounded_3threads.

(* ---- for any number of threads and any schedule (Proofs/SchedGeneral.v) ----
   an `exclusive` schedule (no step that reads or changes the attributes, and no entering of the
   window, while another thread is inside its window) gives every thread its solo answer and
   leaves the attributes as they were; conversely a non-sequential answer needs an overlap.
   The same for the as_forged recursion guard (g_exclusive is defined in SchedGeneral.v). *)
Theorem C17_sequential_exclusive : forall (c : cfg) (init : store) (kinds : list kind) (sched : list nat), exclusive c (init_state init kinds) sched = true -> (forall th : thread, In th (g_threads (run c (init_state init kinds) sched)) -> is_done th = true -> th_ans th = Some (seq_answer c init (th_kind th))) /\ (all_done (run c (init_state init kinds) sched) = true -> g_store (run c (init_state init kinds) sched) = init /\ answers_ok c init (run c (init_state init kinds) sched) = true).
Proof. exact @sequential_exclusive. Qed.
Print Assumptions C17_sequential_exclusive.

Theorem C17_nonsequential_needs_overlap : forall (c : cfg) (init : store) (kinds : list kind) (sched : list nat) (th : thread), In th (g_threads (run c (init_state init kinds) sched)) -> is_done th = true -> thread_seq_ok c init th = false -> exclusive c (init_state init kinds) sched = false.
Proof. exact @nonsequential_needs_overlap. Qed.
Print Assumptions C17_nonsequential_needs_overlap.

Theorem C17_plan_sequential_exclusive : forall (c : cfg) (init : store) (kinds : list kind) (p : plan) (st' : state), run_plan c (init_state init kinds) p = Some st' -> plan_excl c (init_state init kinds) p = true -> answers_ok c init st' = true.
Proof. exact @plan_sequential_exclusive. Qed.
Print Assumptions C17_plan_sequential_exclusive.

Theorem C17_plan_nonsequential_needs_overlap : forall (c : cfg) (init : store) (kinds : list kind) (p : plan) (st' : state), run_plan c (init_state init kinds) p = Some st' -> answers_ok c init st' = false -> plan_excl c (init_state init kinds) p = false.
Proof. exact @plan_nonsequential_needs_overlap. Qed.
Print Assumptions C17_plan_nonsequential_needs_overlap.

Theorem C17_solo_answer : forall (c : cfg) (init : store) (k : kind) (th : thread), nth_error (g_threads (run c (init_state init [k]) (repeat 0 80))) 0 = Some th -> is_done th = true /\ th_kind th = k /\ th_ans th = Some (seq_answer c init k).
Proof. exact @solo_answer. Qed.
Print Assumptions C17_solo_answer.

Theorem C17_concurrent_equals_solo : forall (c : cfg) (init : store) (kinds : list kind) (sched : list nat) (t : nat) (th : thread), exclusive c (init_state init kinds) sched = true -> nth_error (g_threads (run c (init_state init kinds) sched)) t = Some th -> is_done th = true -> nth_error kinds t = Some (th_kind th) /\ (exists th0 : thread, nth_error (g_threads (run c (init_state init [th_kind th]) (repeat 0 80))) 0 = Some th0 /\ is_done th0 = true /\ th_ans th = th_ans th0).
Proof. exact @concurrent_equals_solo. Qed.
Print Assumptions C17_concurrent_equals_solo.

Theorem C17_guard_clear_at_quiescence : forall (n : nat) (sched : list nat), g_all_done (grun (ginit n) sched) = true -> gs_guard (grun (ginit n) sched) = false.
Proof. exact @guard_clear_at_quiescence. Qed.
Print Assumptions C17_guard_clear_at_quiescence.

Theorem C17_guard_sequential_exclusive : forall (n : nat) (sched : list nat), g_exclusive (ginit n) sched = true -> (forall th : gthread, In th (gs_threads (grun (ginit n) sched)) -> g_is_done th = true -> g_ans th = 1%N) /\ g_any_out (grun (ginit n) sched) = false /\ regionN (gs_threads (grun (ginit n) sched)) = b2n (gs_guard (grun (ginit n) sched)).
Proof. exact @guard_sequential_exclusive. Qed.
Print Assumptions C17_guard_sequential_exclusive.

Theorem C17_guard_wrong_needs_overlap : forall (n : nat) (sched : list nat) (th : gthread), In th (gs_threads (grun (ginit n) sched)) -> g_is_done th = true /\ g_ans th <> 1%N \/ g_is_out th = true -> g_exclusive (ginit n) sched = false.
Proof. exact @guard_wrong_needs_overlap. Qed.
Print Assumptions C17_guard_wrong_needs_overlap.


(* ---- the once-only lazy transform of _ForgerWrapper.__get__ (emulate=True forgers): any number of
   threads doing first bindings under any interleaving bind the transformed function; with the two
   statements swapped a second thread can bind the raw one (Proofs/SchedForger.v) ---- *)
Theorem C17_forger_transform_sequential : forall (n : nat) (sched : list nat), (forall th : fthread, In th (fs_threads (frun false (finit n) sched)) -> f_is_done th = true -> f_ans th = 1%N) /\ (fs_flag (frun false (finit n) sched) = true -> fs_wrapped (frun false (finit n) sched) = true).
Proof. exact @SchedForger.forger_transform_sequential. Qed.
Print Assumptions C17_forger_transform_sequential.

Theorem C17_forger_swapped_refuted : exists (sched : list nat) (th : fthread), nth_error (fs_threads (frun true (finit 2) sched)) 1 = Some th /\ f_is_done th = true /\ f_ans th = 2%N /\ f_all_done (frun true (finit 2) sched) = true /\ fs_wrapped (frun true (finit 2) sched) = true.
Proof. exact @SchedForger.forger_swapped_refuted. Qed.
Print Assumptions C17_forger_swapped_refuted.


(* ---- machine I: retrievals that share no mutable state (Proofs/SchedIndep.v) ---- *)
Require Import Sigtools.Proofs.SchedIndep.
Theorem C17_indep_sequential : forall (progs : list (list N)) (sched : list nat) (t : nat) (th : ithread) (p : list N), nth_error (is_threads (irun (iinit progs) sched)) t = Some th -> nth_error progs t = Some p -> i_done th = true -> rev (i_trace th) = p.
Proof. exact @SchedIndep.indep_sequential. Qed.
Print Assumptions C17_indep_sequential.

