(* C13 — wrappers.decorator / wrapper_decorator / Combination are call-transparent. *)
From Sigtools.Model Require Import Base Bind Roles Algebra Wrappers.
From Sigtools.Proofs Require Import SmallModel Basics Wrappers ForwardsSound MergeSoundN RcValidN WrappersSound.

(* Full statement, which the pinned tree violates (known finding C13:self-keyword):
     forall ls f, call (stack ls f) = compose (map snd ls) (call f).
   C13_compose_refuted is the witness; C13_compose is the exact statement for the
   composition whose layers refuse a keyword named self; C13_compose_partial is
   the stated property for calls without that keyword. *)
Theorem C13_compose_refuted :
  exists ls f c, call (stack ls f) c <> compose (map snd ls) (call f) c.
Proof. exact compose_refuted_ex. Qed.
Print Assumptions C13_compose_refuted.

Theorem C13_compose ls f : call (stack ls f) = compose_guarded (map snd ls) (call f).
Proof. exact (stack_call ls f). Qed.
Print Assumptions C13_compose.

Theorem C13_compose_partial ls f c :
  Forall kw_preserving (map snd ls) -> selfless c = true ->
  call (stack ls f) c = compose (map snd ls) (call f) c.
Proof. exact (stack_call_partial ls f c). Qed.
Print Assumptions C13_compose_partial.

Theorem C13_generated_kw_preserving id sg tag fparam own lits klits mode :
  has_kw n_self klits = false ->
  kw_preserving (mkW id sg (wrapper_behaviour tag fparam own lits klits mode)).
Proof. exact (wrapper_behaviour_kw_preserving id sg tag fparam own lits klits mode). Qed.
Print Assumptions C13_generated_kw_preserving.

Theorem C13_exceptions ls f c e :
  call (stack ls f) c = Raise e <-> compose_guarded (map snd ls) (call f) c = Raise e.
Proof. exact (stack_raises ls f c e). Qed.
Print Assumptions C13_exceptions.

Theorem C13_layer_propagates tag fparam own lits klits g c v0 vals rest restk e :
  bind_named (fparam :: own) (Val 0 :: vpos c) (vkws c) [] = Some (v0 :: vals, rest, restk) ->
  forallb (fun t => negb (is_raise t)) vals = true ->
  existsb (fun kv => has_kw (fst kv) restk) klits = false ->
  g (mkV (lits ++ rest) (klits ++ restk)) = Raise e ->
  wrapper_behaviour tag fparam own lits klits Return g c = Raise e.
Proof. exact (wrapper_behaviour_propagates tag fparam own lits klits g c v0 vals rest restk e). Qed.
Print Assumptions C13_layer_propagates.

Theorem C13_passthrough_propagates ls f c e :
  Forall (fun l => exists tag, w_run (snd l) = passthrough tag) ls ->
  selfless c = true ->
  call f c = Raise e ->
  call (stack ls f) c = Raise e.
Proof. exact (passthrough_stack_raise ls f c e). Qed.
Print Assumptions C13_passthrough_propagates.

Theorem C13_combination fs arg rest kw :
  has_kw n_arg kw = false -> has_kw n_self kw = false ->
  call (Comb fs) (mkV (arg :: rest) kw) = chained (map call fs) arg rest kw.
Proof. exact (comb_call fs arg rest kw). Qed.
Print Assumptions C13_combination.

Theorem C13_combination_fold fs arg rest kw :
  (forall a f, In f fs -> is_raise (f (mkV (a :: rest) kw)) = false) ->
  is_raise arg = false ->
  combination fs arg rest kw = fold_left (fun a f => f (mkV (a :: rest) kw)) fs arg.
Proof. exact (combination_fold fs arg rest kw). Qed.
Print Assumptions C13_combination_fold.

Theorem C13_combination_flatten fs c :
  arg_bound_once c -> call (mk_comb fs) c = call (Comb fs) c.
Proof. exact (mk_comb_call fs c). Qed.
Print Assumptions C13_combination_flatten.

Theorem C13_wrappers_order ls f :
  undecorated f ->
  wrappers (stack ls f) = map (fun l => w_id (snd l)) ls /\
  length (wrappers (stack ls f)) = length ls.
Proof. exact (wrappers_order ls f). Qed.
Print Assumptions C13_wrappers_order.

Theorem C13_rebinding ls f inst cls : get (stack ls f) inst cls = stack ls (get f inst cls).
Proof. exact (get_stack ls f inst cls). Qed.
Print Assumptions C13_rebinding.

Theorem C13_method_call ls id s b v cls c :
  call (get (stack ls (Plain id s b)) (Some v) cls) c
  = compose_guarded (map snd ls) (fun c' => b (mkV (v :: vpos c') (vkws c'))) c.
Proof. exact (method_call ls id s b v cls c). Qed.
Print Assumptions C13_method_call.

Theorem C13_static_call ls x inst cls :
  call (get (stack ls (Static x)) inst cls) = compose_guarded (map snd ls) (call x).
Proof. exact (static_call ls x inst cls). Qed.
Print Assumptions C13_static_call.

Theorem C13_method_sig ls id s b v cls :
  sig_of (get (stack ls (Plain id s b)) (Some v) cls) = sig_of (stack ls (Bound (Plain id s b) v)).
Proof. exact (sig_get_stack ls id s b v cls). Qed.
Print Assumptions C13_method_sig.

Theorem C13_method s p ps :
  valid_sig (params s) = true -> params s = p :: ps -> is_positional p = true ->
  exists r, bound_sig s = Ok r /\ params r = tl (params s).
Proof. exact (bound_removes_first s p ps). Qed.
Print Assumptions C13_method.

Theorem C13_sig_wf o r : top_valid o = true -> sig_of o = Ok r -> validate (params r) = true.
Proof. exact (sig_of_wf o r). Qed.
Print Assumptions C13_sig_wf.

Theorem C13_inspect_sig_wf o r :
  top_valid o = true -> inspect_sig o = Ok r -> validate (params r) = true.
Proof. exact (inspect_sig_wf o r). Qed.
Print Assumptions C13_inspect_sig_wf.

(* ---- acceptance soundness for stacks of any depth and for Combination, lifted onto the general theorems
   (C04_exec_sound per layer, merge soundness for Combination; Proofs/WrappersSound.v); the known findings'
   witnesses fall outside the hypotheses (refutations) ---- *)
Theorem C13_stack_sig_valid : forall (ls : list layer) (s r : sigT), Forall layer_ok ls -> valid_sig (params s) = true -> stack_sig ls s = Ok r -> valid_sig (params r) = true.
Proof. exact @WrappersSound.stack_sig_valid. Qed.
Print Assumptions C13_stack_sig_valid.

Theorem C13_generic_partial_exact : forall (w : wrapperT) (q : sigT) (c : Bind.call), valid_sig (params (w_sig w)) = true -> generic_partial w = Ok q -> noncolliding c (params q) [params (w_sig w)] = true -> accepts (params q) c = accepts (params (w_sig w)) (succ_call c).
Proof. exact @WrappersSound.generic_partial_exact. Qed.
Print Assumptions C13_generic_partial_exact.

Theorem C13_declared_layer_sound : forall (w : wrapperT) (fa : fwd) (x q r : sigT) (c : Bind.call), valid_sig (params (w_sig w)) = true -> valid_sig (params x) = true -> NoDup (f_names fa) -> generic_partial w = Ok q -> forwards q x (f_n fa) (f_names fa) false false true true false = Ok r -> noncolliding c (params r) [params q; params x] = true -> disjointb (kws c) (f_names fa) = true -> accepts (params r) c = true -> accepts (params q) c = true /\ accepts (params x) (inner_call (params q) fa c) = true.
Proof. exact @WrappersSound.declared_layer_sound. Qed.
Print Assumptions C13_declared_layer_sound.

Theorem C13_simple_layer_sound : forall (w : wrapperT) (fa : fwd) (x p q sR r : sigT) (c : Bind.call), valid_sig (params (w_sig w)) = true -> valid_sig (params x) = true -> NoDup (f_names fa) -> simple_P w fa x = Ok p -> simple_Q w p = Ok q -> simple_R q = Ok sR -> mask sR 1 [] SweepDefs2.nohide = Ok r -> noncolliding c (params r) [params sR] = true -> noncolliding c (params sR) [params call_sig; params q] = true -> noncolliding c (params q) [params p] = true -> noncolliding c (params p) [params (w_sig w); params x] = true -> disjointb (kws c) (f_names fa) = true -> accepts (params r) c = true -> mem n_self (kws c) = false /\ accepts (params (w_sig w)) (succ_call c) = true /\ accepts (params x) (inner_call (params (w_sig w)) fa (succ_call c)) = true.
Proof. exact @WrappersSound.simple_layer_sound. Qed.
Print Assumptions C13_simple_layer_sound.

Theorem C13_stack_sound_sig : forall (ls : list layer) (s : sigT), Forall layer_ok ls -> valid_sig (params s) = true -> forall (c : Bind.call) (r : sigT), stack_side ls s c = true -> stack_sig ls s = Ok r -> accepts (params r) c = true -> stack_exec ls s c = true.
Proof. exact @WrappersSound.stack_sound. Qed.
Print Assumptions C13_stack_sound_sig.

Theorem C13_stack_sound : forall (ls : list layer) (id : N) (s : sigT) (b : behaviour) (c : Bind.call) (r : sigT), Forall layer_ok ls -> valid_sig (params s) = true -> stack_side ls s c = true -> sig_of (stack ls (Plain id s b)) = Ok r -> accepts (params r) c = true -> stack_exec ls s c = true.
Proof. exact @WrappersSound.C13_stack_sound. Qed.
Print Assumptions C13_stack_sound.

Theorem C13_comb_sound : forall (fs : list obj) (ss : list sigT) (r : sigT) (c : Bind.call), all_ok (map sig_of fs) = Ok ss -> RcValidN.all_valid ss -> role_consistent (map params (comb_self_sig :: ss)) = true -> sig_of (Comb fs) = Ok r -> noncolliding c (params r) (map params (comb_self_sig :: ss)) = true -> accepts (params r) c = true -> accepts (params comb_self_sig) c = true /\ Forall (fun s : sigT => accepts (params s) c = true) ss.
Proof. exact @WrappersSound.comb_sound. Qed.
Print Assumptions C13_comb_sound.

Theorem C13_comb_member_stack_sound : forall (fs : list obj) (ss : list sigT) (r : sigT) (c : Bind.call) (ls : list layer) (id : N) (s : sigT) (b : behaviour) (m : sigT), all_ok (map sig_of fs) = Ok ss -> RcValidN.all_valid ss -> role_consistent (map params (comb_self_sig :: ss)) = true -> sig_of (Comb fs) = Ok r -> noncolliding c (params r) (map params (comb_self_sig :: ss)) = true -> accepts (params r) c = true -> In m ss -> sig_of (stack ls (Plain id s b)) = Ok m -> Forall layer_ok ls -> valid_sig (params s) = true -> stack_side ls s c = true -> stack_exec ls s c = true.
Proof. exact @WrappersSound.comb_member_stack_sound. Qed.
Print Assumptions C13_comb_member_stack_sound.

Theorem C13_stack_sound_nofallback_refuted : exists (ls : list layer) (s : sigT) (c : Bind.call) (r : sigT), Forall layer_ok ls /\ valid_sig (params s) = true /\ stack_sig ls s = Ok r /\ accepts (params r) c = true /\ stack_exec ls s c = false.
Proof. exact @WrappersSound.stack_sound_nofallback_refuted. Qed.
Print Assumptions C13_stack_sound_nofallback_refuted.

Theorem C13_declared_self_keyword_refuted : exists (ls : list layer) (s : sigT) (c : Bind.call) (r : sigT), Forall layer_ok ls /\ valid_sig (params s) = true /\ stack_sig ls s = Ok r /\ accepts (params r) c = true /\ stack_exec ls s c = false /\ stack_side ls s c = false.
Proof. exact @WrappersSound.declared_self_keyword_refuted. Qed.
Print Assumptions C13_declared_self_keyword_refuted.

Theorem C13_simple_layer_self_refuted : exists (ls : list layer) (s : sigT), Forall layer_ok ls /\ valid_sig (params s) = true /\ stack_sig ls s = Err crash.
Proof. exact @WrappersSound.simple_layer_self_refuted. Qed.
Print Assumptions C13_simple_layer_self_refuted.

Theorem C13_comb_inspect_refuted : exists (fs : list obj) (c : Bind.call) (r s : sigT), inspect_sig (Comb fs) = Ok r /\ accepts (params r) c = true /\ all_ok (map sig_of fs) = Ok [s] /\ accepts (params s) c = false.
Proof. exact @WrappersSound.comb_inspect_refuted. Qed.
Print Assumptions C13_comb_inspect_refuted.

