(* C13 — wrappers.decorator / wrapper_decorator / Combination are call-transparent. *)
From Sigtools.Model Require Import Base Bind Roles Algebra Wrappers.
From Sigtools.Proofs Require Import SmallModel Basics Wrappers ForwardsSound MergeSoundN RcValidN WrappersSound.

(* Full statement, which the pinned tree violates (known finding C13:self-keyword):
     forall ls f, call (stack ls f) = compose (map snd ls) (call f).
   C13_compose_refuted is the witness; C13_compose is the exact statement for the
   composition whose layers refuse a keyword named self; C13_compose_partial is
   the stated property for calls without that keyword. *)
Theorem C13_compose_refuted :
  exists ls f c, call (stack ls f) c <> compose (map snd ls) (call f) c.
Proof. exact compose_refuted_ex. Qed.
Print Assumptions C13_compose_refuted.

Theorem C13_compose ls f : call (stack ls f) = compose_guarded (map snd ls) (call f).
Proof. exact (stack_call ls f). Qed.
Print Assumptions C13_compose.

Theorem C13_compose_partial ls f c :
  Forall kw_preserving (map snd ls) -> selfless c = true ->
  call (stack ls f) c = compose (map snd ls) (call f) c.
Proof. exact (stack_call_partial ls f c). Qed.
Print Assumptions C13_compose_partial.

Theorem C13_generated_kw_preserving id sg tag fparam own lits klits mode :
  has_kw n_self klits = false ->
  kw_preserving (mkW id sg (wrapper_behaviour tag fparam own lits klits mode)).
Proof. exact (wrapper_behaviour_kw_preserving id sg tag fparam own lits klits mode). Qed.
Print Assumptions C13_generated_kw_preserving.

Theorem C13_exceptions ls f c e :
  call (stack ls f) c = Raise e <-> compose_guarded (map snd ls) (call f) c = Raise e.
Proof. exact (stack_raises ls f c e). Qed.
Print Assumptions C13_exceptions.

Theorem C13_layer_propagates tag fparam own lits klits g c v0 vals rest restk e :
  bind_named (fparam :: own) (Val 0 :: vpos c) (vkws c) [] = Some (v0 :: vals, rest, restk) ->
  forallb (fun t => negb (is_raise t)) vals = true ->
  existsb (fun kv => has_kw (fst kv) restk) klits = false ->
  g (mkV (lits ++ rest) (klits ++ restk)) = Raise e ->
  wrapper_behaviour tag fparam own lits klits Return g c = Raise e.
Proof. exact (wrapper_behaviour_propagates tag fparam own lits klits g c v0 vals rest restk e). Qed.
Print Assumptions C13_layer_propagates.

Theorem C13_passthrough_propagates ls f c e :
  Forall (fun l => exists tag, w_run (snd l) = passthrough tag) ls ->
  selfless c = true ->
  call f c = Raise e ->
  call (stack ls f) c = Raise e.
Proof. exact (passthrough_stack_raise ls f c e). Qed.
Print Assumptions C13_passthrough_propagates.

Theorem C13_combination fs arg rest kw :
  has_kw n_arg kw = false -> has_kw n_self kw = false ->
  call (Comb fs) (mkV (arg :: rest) kw) = chained (map call fs) arg rest kw.
Proof. exact (comb_call fs arg rest kw). Qed.
Print Assumptions C13_combination.

Theorem C13_combination_fold fs arg rest kw :
  (forall a f, In f fs -> is_raise (f (mkV (a :: rest) kw)) = false) ->
  is_raise arg = false ->
  combination fs arg rest kw = fold_left (fun a f => f (mkV (a :: rest) kw)) fs arg.
Proof. exact (combination_fold fs arg rest kw). Qed.
Print Assumptions C13_combination_fold.

Theorem C13_combination_flatten fs c :
  arg_bound_once c -> call (mk_comb fs) c = call (Comb fs) c.
Proof. exact (mk_comb_call fs c). Qed.
Print Assumptions C13_combination_flatten.

Theorem C13_wrappers_order ls f :
  undecorated f ->
  wrappers (stack ls f) = map (fun l => w_id (snd l)) ls /\
  length (wrappers (stack ls f)) = length ls.
Proof. exact (wrappers_order ls f). Qed.
Print Assumptions C13_wrappers_order.

Theorem C13_rebinding ls f inst cls : get (stack ls f) inst cls = stack ls (get f inst cls).
Proof. exact (get_stack ls f inst cls). Qed.
Print Assumptions C13_rebinding.

Theorem C13_method_call ls id s b v cls c :
  call (get (stack ls (Plain id s b)) (Some v) cls) c
  = compose_guarded (map snd ls) (fun c' => b (mkV (v :: vpos c') (vkws c'))) c.
Proof. exact (method_call ls id s b v cls c). Qed.
Print Assumptions C13_method_call.

Theorem C13_static_call ls x inst cls :
  call (get (stack ls (Static x)) inst cls) = compose_guarded (map snd ls) (call x).
Proof. exact (static_call ls x inst cls). Qed.
Print Assumptions C13_static_call.

Theorem C13_method_sig ls id s b v cls :
  sig_of (get (stack ls (Plain id s b)) (Some v) cls) = sig_of (stack ls (Bound (Plain id s b) v)).
Proof. exact (sig_get_stack ls id s b v cls). Qed.
Print Assumptions C13_method_sig.

Theorem C13_method s p ps :
  valid_sig (params s) = true -> params s = p :: ps -> is_positional p = true ->
  exists r, bound_sig s = Ok r /\ params r = tl (params s).
Proof. exact (bound_removes_first s p ps). Qed.
Print Assumptions C13_method.

Theorem C13_sig_wf o r : top_valid o = true -> sig_of o = Ok r -> validate (params r) = true.
Proof. exact (sig_of_wf o r). Qed.
Print Assumptions C13_sig_wf.

Theorem C13_inspect_sig_wf o r :
  top_valid o = true -> inspect_sig o = Ok r -> validate (params r) = true.
Proof. exact (inspect_sig_wf o r). Qed.
Print Assumptions C13_inspect_sig_wf.

(* ---- acceptance soundness for stacks of any depth and for Combination, lifted onto the general theorems
   (C04_exec_sound per layer, merge soundness for Combination; Proofs/WrappersSound.v); the known findings'
   witnesses fall outside the hypotheses (refutations) ---- *)
Theorem C13_stack_sig_valid : forall (ls : list layer) (s r : sigT), Forall layer_ok ls -> valid_sig (params s) = true -> stack_sig ls s = Ok r -> valid_sig (params r) = true.
Proof. exact @WrappersSound.stack_sig_valid. Qed.
Print Assumptions C13_stack_sig_valid.

Theorem C13_generic_partial_exact : forall (w : wrapperT) (q : sigT) (c : Bind.call), valid_sig (params (w_sig w)) = true -> generic_partial w = Ok q -> noncolliding c (params q) [params (w_sig w)] = true -> accepts (params q) c = accepts (params (w_sig w)) (succ_call c).
Proof. exact @WrappersSound.generic_partial_exact. Qed.
Print Assumptions C13_generic_partial_exact.

Theorem C13_declared_layer_sound : forall (w : wrapperT) (fa : fwd) (x q r : sigT) (c : Bind.call), valid_sig (params (w_sig w)) = true -> valid_sig (params x) = true -> NoDup (f_names fa) -> generic_partial w = Ok q -> forwards q x (f_n fa) (f_names fa) false false true true false = Ok r -> noncolliding c (params r) [params q; params x] = true -> disjointb (kws c) (f_names fa) = true -> accepts (params r) c = true -> accepts (params q) c = true /\ accepts (params x) (inner_call (params q) fa c) = true.
Proof. exact @WrappersSound.declared_layer_sound. Qed.
Print Assumptions C13_declared_layer_sound.

Theorem C13_simple_layer_sound : forall (w : wrapperT) (fa : fwd) (x p q sR r : sigT) (c : Bind.call), valid_sig (params (w_sig w)) = true -> valid_sig (params x) = true -> NoDup (f_names fa) -> simple_P w fa x = Ok p -> simple_Q w p = Ok q -> simple_R q = Ok sR -> mask sR 1 [] SweepDefs2.nohide = Ok r -> noncolliding c (params r) [params sR] = true -> noncolliding c (params sR) [params call_sig; params q] = true -> noncolliding c (params q) [params p] = true -> noncolliding c (params p) [params (w_sig w); params x] = true -> disjointb (kws c) (f_names fa) = true -> accepts (params r) c = true -> mem n_self (kws c) = false /\ accepts (params (w_sig w)) (succ_call c) = true /\ accepts (params x) (inner_call (params (w_sig w)) fa (succ_call c)) = true.
Proof. exact @WrappersSound.simple_layer_sound. Qed.
Print Assumptions C13_simple_layer_sound.

Theorem C13_stack_sound_sig : forall (ls : list layer) (s : sigT), Forall layer_ok ls -> valid_sig (params s) = true -> forall (c : Bind.call) (r : sigT), stack_side ls s c = true -> stack_sig ls s = Ok r -> accepts (params r) c = true -> stack_exec ls s c = true.
Proof. exact @WrappersSound.stack_sound. Qed.
Print Assumptions C13_stack_sound_sig.

Theorem C13_stack_sound : forall (ls : list layer) (id : N) (s : sigT) (b : behaviour) (c : Bind.call) (r : sigT), Forall layer_ok ls -> valid_sig (params s) = true -> stack_side ls s c = true -> sig_of (stack ls (Plain id s b)) = Ok r -> accepts (params r) c = true -> stack_exec ls s c = true.
Proof. exact @WrappersSound.C13_stack_sound. Qed.
Print Assumptions C13_stack_sound.

Theorem C13_comb_sound : forall (fs : list obj) (ss : list sigT) (r : sigT) (c : Bind.call), all_ok (map sig_of fs) = Ok ss -> RcValidN.all_valid ss -> role_consistent (map params (comb_self_sig :: ss)) = true -> sig_of (Comb fs) = Ok r -> noncolliding c (params r) (map params (comb_self_sig :: ss)) = true -> accepts (params r) c = true -> accepts (params comb_self_sig) c = true /\ Forall (fun s : sigT => accepts (params s) c = true) ss.
Proof. exact @WrappersSound.comb_sound. Qed.
Print Assumptions C13_comb_sound.

Theorem C13_comb_member_stack_sound : forall (fs : list obj) (ss : list sigT) (r : sigT) (c : Bind.call) (ls : list layer) (id : N) (s : sigT) (b : behaviour) (m : sigT), all_ok (map sig_of fs) = Ok ss -> RcValidN.all_valid ss -> role_consistent (map params (comb_self_sig :: ss)) = true -> sig_of (Comb fs) = Ok r -> noncolliding c (params r) (map params (comb_self_sig :: ss)) = true -> accepts (params r) c = true -> In m ss -> sig_of (stack ls (Plain id s b)) = Ok m -> Forall layer_ok ls -> valid_sig (params s) = true -> stack_side ls s c = true -> stack_exec ls s c = true.
Proof. exact @WrappersSound.comb_member_stack_sound. Qed.
Print Assumptions C13_comb_member_stack_sound.

Theorem C13_stack_sound_nofallback_refuted : exists (ls : list layer) (s : sigT) (c : Bind.call) (r : sigT), Forall layer_ok ls /\ valid_sig (params s) = true /\ stack_sig ls s = Ok r /\ accepts (params r) c = true /\ stack_exec ls s c = false.
Proof. exact @WrappersSound.stack_sound_nofallback_refuted. Qed.
Print Assumptions C13_stack_sound_nofallback_refuted.

Theorem C13_declared_self_keyword_refuted : exists (ls : list layer) (s : sigT) (c : Bind.call) (r : sigT), Forall layer_ok ls /\ valid_sig (params s) = true /\ stack_sig ls s = Ok r /\ accepts (params r) c = true /\ stack_exec ls s c = false /\ stack_side ls s c = false.
Proof. exact @WrappersSound.declared_self_keyword_refuted. Qed.
Print Assumptions C13_declared_self_keyword_refuted.

Theorem C13_simple_layer_self_refuted : exists (ls : list layer) (s : sigT), Forall layer_ok ls /\ valid_sig (params s) = true /\ stack_sig ls s = Err crash.
Proof. exact @WrappersSound.simple_layer_self_refuted. Qed.
Print Assumptions C13_simple_layer_self_refuted.

Theorem C13_comb_inspect_refuted : exists (fs : list obj) (c : Bind.call) (r s : sigT), inspect_sig (Comb fs) = Ok r /\ accepts (params r) c = true /\ all_ok (map sig_of fs) = Ok [s] /\ accepts (params s) c = false.
Proof. exact @WrappersSound.comb_inspect_refuted. Qed.
Print Assumptions C13_comb_inspect_refuted.


(* ---- the bridge from call shapes to term-level evaluation: an accepted call never evaluates to Raise type_error (Proofs/WrappersBridge.v) ---- *)
From Sigtools.Proofs Require Import WrappersBridge.
Theorem C13_bind_named_iff_accepts : forall (ps : list param) (pos : list term) (kws : list (name * term)), valid_sig ps = true -> NoDup (map fst kws) -> binds ps pos kws = accepts ps {| npos := length pos; kws := map fst kws |}.
Proof. exact @WrappersBridge.bind_named_iff_accepts. Qed.
Print Assumptions C13_bind_named_iff_accepts.

Theorem C13_bind_named_spec : forall (ps : list param) (pos : list term) (kws : list (name * term)), valid_sig ps = true -> NoDup (map fst kws) -> match bind_named ps pos kws [] with | Some (vals, rest, restk) => named_ok ps (length pos) (map fst kws) = true /\ length vals = length (filter is_named ps) /\ rest = skipn (length (positional ps)) pos /\ restk = filter (extra_kw ps) kws | None => named_ok ps (length pos) (map fst kws) = false end.
Proof. exact @WrappersBridge.bind_named_spec. Qed.
Print Assumptions C13_bind_named_spec.

Theorem C13_bind_named_iff_accepts_dup_refuted : exists (ps : list param) (pos : list term) (kws : list (name * term)), valid_sig ps = true /\ binds ps pos kws <> accepts ps {| npos := length pos; kws := map fst kws |}.
Proof. exact @WrappersBridge.bind_named_iff_accepts_dup_refuted. Qed.
Print Assumptions C13_bind_named_iff_accepts_dup_refuted.

Theorem C13_def_behaviour_no_type_error : forall (tag : N) (ps : list param) (c : vcall), valid_sig ps = true -> NoDup (map fst (vkws c)) -> def_behaviour tag ps c = Raise type_error <-> accepts ps (vshape c) = false.
Proof. exact @WrappersBridge.def_behaviour_no_type_error. Qed.
Print Assumptions C13_def_behaviour_no_type_error.

Theorem C13_def_behaviour_accepted : forall (tag : N) (ps : list param) (c : vcall), valid_sig ps = true -> NoDup (map fst (vkws c)) -> accepts ps (vshape c) = true -> exists vals : list term, bind_named ps (vpos c) (vkws c) [] = Some (vals, skipn (length (positional ps)) (vpos c), filter (extra_kw ps) (vkws c)) /\ length vals = length (filter is_named ps) /\ def_behaviour tag ps c = Tup tag (vals ++ (if has_kind VP ps then [Tup 0 (skipn (length (positional ps)) (vpos c))] else []) ++ (if has_kind VK ps then [Kw (filter (extra_kw ps) (vkws c))] else [])).
Proof. exact @WrappersBridge.def_behaviour_accepted. Qed.
Print Assumptions C13_def_behaviour_accepted.

Theorem C13_wrapper_behaviour_accepted : forall (tag : N) (fparam : param) (others : list param) (lits : list term) (klits : list (name * term)) (mode : body_mode) (func : behaviour) (c : vcall), valid_sig (fparam :: others) = true -> is_named fparam = true -> NoDup (map fst (vkws c)) -> accepts (fparam :: others) (succ_call (vshape c)) = true -> let rest := skipn (length (positional (fparam :: others))) (Val 0 :: vpos c) in let restk := filter (extra_kw (fparam :: others)) (vkws c) in exists (v0 : term) (vals : list term), bind_named (fparam :: filter is_named others) (Val 0 :: vpos c) (vkws c) [] = Some (v0 :: vals, rest, restk) /\ vshape {| vpos := lits ++ rest; vkws := klits ++ restk |} = inner_call (fparam :: others) {| f_n := length lits; f_names := map fst klits |} (succ_call (vshape c)) /\ wrapper_behaviour tag fparam (filter is_named others) lits klits mode func c = match mode with | RaiseBefore e => Raise e | _ => if existsb (fun kv : name * term => has_kw (fst kv) restk) klits then Raise type_error else finish tag mode vals (func {| vpos := lits ++ rest; vkws := klits ++ restk |}) end.
Proof. exact @WrappersBridge.wrapper_behaviour_accepted. Qed.
Print Assumptions C13_wrapper_behaviour_accepted.

Theorem C13_wrapper_behaviour_no_type_error : forall (tag : N) (fparam : param) (others : list param) (lits : list term) (klits : list (name * term)) (mode : body_mode) (func : behaviour) (c : vcall), valid_sig (fparam :: others) = true -> is_named fparam = true -> NoDup (map fst (vkws c)) -> clean_call c = true -> mode_ok mode = true -> accepts (fparam :: others) (succ_call (vshape c)) = true -> disjointb (map fst (vkws c)) (map fst klits) = true -> wrapper_behaviour tag fparam (filter is_named others) lits klits mode func c = Raise type_error -> func {| vpos := lits ++ skipn (length (positional (fparam :: others))) (Val 0 :: vpos c); vkws := klits ++ filter (extra_kw (fparam :: others)) (vkws c) |} = Raise type_error.
Proof. exact @WrappersBridge.wrapper_behaviour_no_type_error. Qed.
Print Assumptions C13_wrapper_behaviour_no_type_error.

Theorem C13_wrapper_behaviour_mode_refuted : exists (tag : N) (fparam : param) (others : list param) (lits : list term) (klits : list (name * term)) (func : behaviour) (c : vcall), valid_sig (fparam :: others) = true /\ accepts (fparam :: others) (succ_call (vshape c)) = true /\ wrapper_behaviour tag fparam (filter is_named others) lits klits (RaiseBefore type_error) func c = Raise type_error /\ func {| vpos := lits ++ skipn (length (positional (fparam :: others))) (Val 0 :: vpos c); vkws := klits ++ filter (extra_kw (fparam :: others)) (vkws c) |} <> Raise type_error.
Proof. exact @WrappersBridge.wrapper_behaviour_mode_refuted. Qed.
Print Assumptions C13_wrapper_behaviour_mode_refuted.

Theorem C13_stack_call_no_type_error : forall (ls : list layer) (id : N) (s : sigT) (tag : N) (c : vcall) (r : sigT), Forall layer_ok ls -> Forall gen_layer ls -> valid_sig (params s) = true -> NoDup (map fst (vkws c)) -> clean_call c = true -> stack_side ls s (vshape c) = true -> stack_func_side ls (vshape c) = true -> sig_of (stack ls (Plain id s (def_behaviour tag (params s)))) = Ok r -> accepts (params r) (vshape c) = true -> call (stack ls (Plain id s (def_behaviour tag (params s)))) c <> Raise type_error.
Proof. exact @WrappersBridge.stack_call_no_type_error. Qed.
Print Assumptions C13_stack_call_no_type_error.

Theorem C13_stack_call_no_type_error_body : forall (ls : list layer) (id : N) (s : sigT) (b : behaviour) (c : vcall) (r : sigT), Forall layer_ok ls -> Forall gen_layer ls -> valid_sig (params s) = true -> sound_body s b -> NoDup (map fst (vkws c)) -> clean_call c = true -> stack_side ls s (vshape c) = true -> stack_func_side ls (vshape c) = true -> sig_of (stack ls (Plain id s b)) = Ok r -> accepts (params r) (vshape c) = true -> call (stack ls (Plain id s b)) c <> Raise type_error.
Proof. exact @WrappersBridge.stack_call_no_type_error_body. Qed.
Print Assumptions C13_stack_call_no_type_error_body.

Theorem C13_stack_call_no_type_error_func_refuted : exists (ls : list layer) (id : N) (s : sigT) (tag : N) (c : vcall) (r : sigT), Forall layer_ok ls /\ Forall gen_layer ls /\ valid_sig (params s) = true /\ NoDup (map fst (vkws c)) /\ clean_call c = true /\ stack_side ls s (vshape c) = true /\ sig_of (stack ls (Plain id s (def_behaviour tag (params s)))) = Ok r /\ accepts (params r) (vshape c) = true /\ stack_exec ls s (vshape c) = true /\ stack_func_side ls (vshape c) = false /\ call (stack ls (Plain id s (def_behaviour tag (params s)))) c = Raise type_error.
Proof. exact @WrappersBridge.stack_call_no_type_error_func_refuted. Qed.
Print Assumptions C13_stack_call_no_type_error_func_refuted.

Theorem C13_stack_call_no_type_error_clean_refuted : exists (ls : list layer) (id : N) (s : sigT) (tag : N) (c : vcall) (r : sigT), Forall layer_ok ls /\ Forall gen_layer ls /\ valid_sig (params s) = true /\ NoDup (map fst (vkws c)) /\ clean_call c = false /\ stack_side ls s (vshape c) = true /\ stack_func_side ls (vshape c) = true /\ sig_of (stack ls (Plain id s (def_behaviour tag (params s)))) = Ok r /\ accepts (params r) (vshape c) = true /\ call (stack ls (Plain id s (def_behaviour tag (params s)))) c = Raise type_error.
Proof. exact @WrappersBridge.stack_call_no_type_error_clean_refuted. Qed.
Print Assumptions C13_stack_call_no_type_error_clean_refuted.

Theorem C13_comb_call_no_type_error : forall (fs : list obj) (ss : list sigT) (r : sigT) (c : vcall), all_ok (map sig_of fs) = Ok ss -> all_valid ss -> role_consistent (map params (comb_self_sig :: ss)) = true -> sig_of (Comb fs) = Ok r -> Forall gen_def fs -> NoDup (map fst (vkws c)) -> clean_call c = true -> vpos c <> [] -> mem n_self (map fst (vkws c)) = false -> noncolliding (vshape c) (params r) (map params (comb_self_sig :: ss)) = true -> accepts (params r) (vshape c) = true -> call (Comb fs) c <> Raise type_error.
Proof. exact @WrappersBridge.comb_call_no_type_error. Qed.
Print Assumptions C13_comb_call_no_type_error.

Theorem C13_comb_call_kw_arg : forall (fs : list obj) (kw : list (name * term)) (v : term) (kw' : list (name * term)), NoDup (map fst kw) -> take_kw n_arg kw = Some (v, kw') -> call (Comb fs) {| vpos := []; vkws := kw |} = call (Comb fs) {| vpos := [v]; vkws := kw' |}.
Proof. exact @WrappersBridge.comb_call_kw_arg. Qed.
Print Assumptions C13_comb_call_kw_arg.

Theorem C13_comb_call_no_type_error_kw : forall (fs : list obj) (ss : list sigT) (r : sigT) (kw : list (name * term)) (v : term) (kw' : list (name * term)), all_ok (map sig_of fs) = Ok ss -> all_valid ss -> role_consistent (map params (comb_self_sig :: ss)) = true -> sig_of (Comb fs) = Ok r -> Forall gen_def fs -> NoDup (map fst kw) -> clean_kw kw = true -> take_kw n_arg kw = Some (v, kw') -> mem n_self (map fst kw) = false -> noncolliding (vshape {| vpos := [v]; vkws := kw' |}) (params r) (map params (comb_self_sig :: ss)) = true -> accepts (params r) (vshape {| vpos := [v]; vkws := kw' |}) = true -> call (Comb fs) {| vpos := []; vkws := kw |} <> Raise type_error.
Proof. exact @WrappersBridge.comb_call_no_type_error_kw. Qed.
Print Assumptions C13_comb_call_no_type_error_kw.

Theorem C13_comb_call_self_keyword_refuted : exists (fs : list obj) (ss : list sigT) (r : sigT) (c : vcall), all_ok (map sig_of fs) = Ok ss /\ all_valid ss /\ role_consistent (map params (comb_self_sig :: ss)) = true /\ sig_of (Comb fs) = Ok r /\ Forall gen_def fs /\ NoDup (map fst (vkws c)) /\ clean_call c = true /\ vpos c <> [] /\ noncolliding (vshape c) (params r) (map params (comb_self_sig :: ss)) = true /\ accepts (params r) (vshape c) = true /\ call (Comb fs) c = Raise type_error.
Proof. exact @WrappersBridge.comb_call_self_keyword_refuted. Qed.
Print Assumptions C13_comb_call_self_keyword_refuted.

