(* C13 — wrappers.decorator / wrapper_decorator / Combination are call-transparent. *)
From Sigtools.Model Require Import Base Bind Roles Algebra Wrappers.
From Sigtools.Proofs Require Import SmallModel Basics Wrappers.

(* Full statement, which the pinned tree violates (known finding C13:self-keyword):
     forall ls f, call (stack ls f) = compose (map snd ls) (call f).
   C13_compose_refuted is the witness; C13_compose is the exact statement for the
   composition whose layers refuse a keyword named self; C13_compose_partial is
   the stated property for calls without that keyword. *)
Theorem C13_compose_refuted :
  exists ls f c, call (stack ls f) c <> compose (map snd ls) (call f) c.
Proof. exact compose_refuted_ex. Qed.
Print Assumptions C13_compose_refuted.

Theorem C13_compose ls f : call (stack ls f) = compose_guarded (map snd ls) (call f).
Proof. exact (stack_call ls f). Qed.
Print Assumptions C13_compose.

Theorem C13_compose_partial ls f c :
  Forall kw_preserving (map snd ls) -> selfless c = true ->
  call (stack ls f) c = compose (map snd ls) (call f) c.
Proof. exact (stack_call_partial ls f c). Qed.
Print Assumptions C13_compose_partial.

Theorem C13_generated_kw_preserving id sg tag fparam own lits klits mode :
  has_kw n_self klits = false ->
  kw_preserving (mkW id sg (wrapper_behaviour tag fparam own lits klits mode)).
Proof. exact (wrapper_behaviour_kw_preserving id sg tag fparam own lits klits mode). Qed.
Print Assumptions C13_generated_kw_preserving.

Theorem C13_exceptions ls f c e :
  call (stack ls f) c = Raise e <-> compose_guarded (map snd ls) (call f) c = Raise e.
Proof. exact (stack_raises ls f c e). Qed.
Print Assumptions C13_exceptions.

Theorem C13_layer_propagates tag fparam own lits klits g c v0 vals rest restk e :
  bind_named (fparam :: own) (Val 0 :: vpos c) (vkws c) [] = Some (v0 :: vals, rest, restk) ->
  forallb (fun t => negb (is_raise t)) vals = true ->
  existsb (fun kv => has_kw (fst kv) restk) klits = false ->
  g (mkV (lits ++ rest) (klits ++ restk)) = Raise e ->
  wrapper_behaviour tag fparam own lits klits Return g c = Raise e.
Proof. exact (wrapper_behaviour_propagates tag fparam own lits klits g c v0 vals rest restk e). Qed.
Print Assumptions C13_layer_propagates.

Theorem C13_passthrough_propagates ls f c e :
  Forall (fun l => exists tag, w_run (snd l) = passthrough tag) ls ->
  selfless c = true ->
  call f c = Raise e ->
  call (stack ls f) c = Raise e.
Proof. exact (passthrough_stack_raise ls f c e). Qed.
Print Assumptions C13_passthrough_propagates.

Theorem C13_combination fs arg rest kw :
  has_kw n_arg kw = false -> has_kw n_self kw = false ->
  call (Comb fs) (mkV (arg :: rest) kw) = chained (map call fs) arg rest kw.
Proof. exact (comb_call fs arg rest kw). Qed.
Print Assumptions C13_combination.

Theorem C13_combination_fold fs arg rest kw :
  (forall a f, In f fs -> is_raise (f (mkV (a :: rest) kw)) = false) ->
  is_raise arg = false ->
  combination fs arg rest kw = fold_left (fun a f => f (mkV (a :: rest) kw)) fs arg.
Proof. exact (combination_fold fs arg rest kw). Qed.
Print Assumptions C13_combination_fold.

Theorem C13_combination_flatten fs c :
  arg_bound_once c -> call (mk_comb fs) c = call (Comb fs) c.
Proof. exact (mk_comb_call fs c). Qed.
Print Assumptions C13_combination_flatten.

Theorem C13_wrappers_order ls f :
  undecorated f ->
  wrappers (stack ls f) = map (fun l => w_id (snd l)) ls /\
  length (wrappers (stack ls f)) = length ls.
Proof. exact (wrappers_order ls f). Qed.
Print Assumptions C13_wrappers_order.

Theorem C13_rebinding ls f inst cls : get (stack ls f) inst cls = stack ls (get f inst cls).
Proof. exact (get_stack ls f inst cls). Qed.
Print Assumptions C13_rebinding.

Theorem C13_method_call ls id s b v cls c :
  call (get (stack ls (Plain id s b)) (Some v) cls) c
  = compose_guarded (map snd ls) (fun c' => b (mkV (v :: vpos c') (vkws c'))) c.
Proof. exact (method_call ls id s b v cls c). Qed.
Print Assumptions C13_method_call.

Theorem C13_static_call ls x inst cls :
  call (get (stack ls (Static x)) inst cls) = compose_guarded (map snd ls) (call x).
Proof. exact (static_call ls x inst cls). Qed.
Print Assumptions C13_static_call.

Theorem C13_method_sig ls id s b v cls :
  sig_of (get (stack ls (Plain id s b)) (Some v) cls) = sig_of (stack ls (Bound (Plain id s b) v)).
Proof. exact (sig_get_stack ls id s b v cls). Qed.
Print Assumptions C13_method_sig.

Theorem C13_method s p ps :
  valid_sig (params s) = true -> params s = p :: ps -> is_positional p = true ->
  exists r, bound_sig s = Ok r /\ params r = tl (params s).
Proof. exact (bound_removes_first s p ps). Qed.
Print Assumptions C13_method.

Theorem C13_sig_wf o r : top_valid o = true -> sig_of o = Ok r -> validate (params r) = true.
Proof. exact (sig_of_wf o r). Qed.
Print Assumptions C13_sig_wf.

Theorem C13_inspect_sig_wf o r :
  top_valid o = true -> inspect_sig o = Ok r -> validate (params r) = true.
Proof. exact (inspect_sig_wf o r). Qed.
Print Assumptions C13_inspect_sig_wf.
