(* C09 — merge loses nothing when inputs agree on names; identity and fold laws. *)
From Sigtools.Model Require Import Base Bind Roles Algebra Universe.
From Sigtools.Proofs Require Import SmallModel Basics SweepDefs Bounded MergeNeutral MergeIdem SweepDefs2 SweepDefs3 Bounded3 MergeNeutralL FoldLaw RcValidN MergeExact MergeExactN.

(* apply_params(s, *sort_params(s)) equals s, for all valid signatures *)
Theorem C09_sort_apply_roundtrip s :
  valid_sig (params s) = true -> apply_params s (sort_params s) = Ok s.
Proof. exact (apply_sort_roundtrip s). Qed.
Print Assumptions C09_sort_apply_roundtrip.

Theorem C09_sort_flatten s :
  valid_sig (params s) = true -> flatten (sort_params s) = params s.
Proof. exact (sort_flatten_roundtrip s). Qed.
Print Assumptions C09_sort_flatten.

(* merge(s) equals s *)
Theorem C09_merge_single s : valid_sig (params s) = true -> merge [s] = Ok s.
Proof. exact (merge_single s). Qed.
Print Assumptions C09_merge_single.

(* the exactness decider is complete for ALL calls *)
Theorem C09_decider_complete r inputs :
  exact_cex r inputs = None ->
  forall c, noncolliding c r inputs = true ->
            accepts r c = forallb (fun s => accepts s c) inputs.
Proof. exact (exact_cex_complete r inputs). Qed.
Print Assumptions C09_decider_complete.

Theorem C09_none_decider_complete inputs :
  none_cex inputs = None -> forall c, forallb (fun s => accepts s c) inputs = false.
Proof. exact (none_cex_complete inputs). Qed.
Print Assumptions C09_none_decider_complete.

(* Bounded (bound in the statement): exactness and the raise condition for all
   name-aligned role-consistent pairs of U(2,{a,b}), ALL calls *)
Theorem C09_exact_pairs_U2 a b :
  In a U2ab -> In b U2ab -> name_aligned a b = true -> role_consistent [a; b] = true ->
  match merge [mk a; mk b] with
  | Ok r => forall c, noncolliding c (params r) [a; b] = true ->
                      accepts (params r) c = accepts a c && accepts b c
  | Err e => e = Incompatible /\ forall c, accepts a c && accepts b c = false
  end.
Proof. exact (merge_exact_pairs_U2 a b). Qed.
Print Assumptions C09_exact_pairs_U2.

(* for ALL valid signatures: a bare star-args / star-kwargs signature is neutral
   on the right of merge (whatever the stars are called) *)
Theorem C09_neutral_right s nva nvk sr dr :
  valid_sig (params s) = true -> stars_plain (params s) ->
  exists r, merge [s; mkSig [mkParam nva VP None None UEmpty; mkParam nvk VK None None UEmpty]
                            None UEmpty sr dr] = Ok r /\ params r = params s.
Proof. exact (merge_right_neutral s nva nvk sr dr). Qed.
Print Assumptions C09_neutral_right.

(* Bounded (bound in the statement): the fold law in parameters AND provenance for
   every role-consistent triple of U(1,{a,b}), each input owned by its own callable *)
Theorem C09_fold_law_U1 a b c :
  In a U1ab -> In b U1ab -> In c U1ab -> role_consistent [a; b; c] = true ->
  fold_check a b c = true.
Proof. exact (merge_fold_law_U1 a b c). Qed.
Print Assumptions C09_fold_law_U1.

(* for ALL valid signatures (unannotated parameters carry no upgraded annotation):
   merge(s, s) has the parameters of s *)
Theorem C09_idempotent s :
  valid_sig (params s) = true -> (forall p, In p (params s) -> ann_wf p) ->
  exists r, merge [s; s] = Ok r /\ params r = params s.
Proof. exact (merge_idempotent s). Qed.
Print Assumptions C09_idempotent.

(* ---- left neutrality (exact law, Proofs/MergeNeutralL.v) and the fold law for ALL signatures and any
   arity (Proofs/FoldLaw.v): merging a list equals folding the binary merge unless an intermediate
   result fails in the final validating constructor; the unconditional laws are refuted ---- *)
Theorem C09_merge_left_neutral : forall (s : sigT) (nva nvk : name) (sl : srcmap) (dl : depths), valid_sig (params s) = true -> stars_plain (params s) -> exists (src : srcmap) (dep : depths), merge [starsig nva nvk sl dl; s] = (if validate (lneutral nva nvk (params s)) then Ok {| params := lneutral nva nvk (params s); ret := None; uret := UEmpty; srcs := src; deps := dep |} else Err ValueErr).
Proof. exact @MergeNeutralL.merge_left_neutral. Qed.
Print Assumptions C09_merge_left_neutral.

Theorem C09_merge_left_neutral_fresh : forall (s : sigT) (nva nvk : name) (sl : srcmap) (dl : depths), valid_sig (params s) = true -> stars_plain (params s) -> ~ In nva (names_of (params s)) -> ~ In nvk (names_of (params s)) -> nva <> nvk -> exists r : sigT, merge [starsig nva nvk sl dl; s] = Ok r /\ params r = lneutral nva nvk (params s).
Proof. exact @MergeNeutralL.merge_left_neutral_fresh. Qed.
Print Assumptions C09_merge_left_neutral_fresh.

Theorem C09_merge_left_neutral_same : forall (s : sigT) (nva nvk : name) (sl : srcmap) (dl : depths), valid_sig (params s) = true -> stars_plain (params s) -> (forall p : param, In p (params s) -> pkind p = VP -> pname p = nva) -> (forall p : param, In p (params s) -> pkind p = VK -> pname p = nvk) -> exists r : sigT, merge [starsig nva nvk sl dl; s] = Ok r /\ params r = params s.
Proof. exact @MergeNeutralL.merge_left_neutral_same. Qed.
Print Assumptions C09_merge_left_neutral_same.

Theorem C09_merge_left_neutral_refuted : exists (s : sigT) (nva nvk : name), valid_sig (params s) = true /\ stars_plain (params s) /\ merge [starsig nva nvk [] []; s] = Err ValueErr.
Proof. exact @MergeNeutralL.merge_left_neutral_refuted. Qed.
Print Assumptions C09_merge_left_neutral_refuted.

Theorem C09_merge_fold_step : forall (a b : sigT) (rest : list sigT) (r1 : sigT), merge [a; b] = Ok r1 -> merge (a :: b :: rest) = merge (r1 :: rest).
Proof. exact @FoldLaw.merge_fold_step. Qed.
Print Assumptions C09_merge_fold_step.

Theorem C09_merge_fold_law : forall a b c : sigT, merge [a; b] <> Err ValueErr -> merge_nested [a; b; c] = merge [a; b; c].
Proof. exact @FoldLaw.merge_fold_law. Qed.
Print Assumptions C09_merge_fold_law.

Theorem C09_merge_fold_rc : forall a b c : sigT, valid_sig (params a) = true -> valid_sig (params b) = true -> role_consistent [params a; params b] = true -> merge_nested [a; b; c] = merge [a; b; c].
Proof. exact @FoldLaw.merge_fold_rc. Qed.
Print Assumptions C09_merge_fold_rc.

Theorem C09_merge_nested_differs_only_on_value_error : forall (s0 s1 : sigT) (ss : list sigT), merge_nested (s0 :: s1 :: ss) = merge (s0 :: s1 :: ss) \/ merge_nested (s0 :: s1 :: ss) = Err ValueErr.
Proof. exact @FoldLaw.merge_nested_differs_only_on_value_error. Qed.
Print Assumptions C09_merge_nested_differs_only_on_value_error.

Theorem C09_merge_fold_law_unconditional_refuted : exists a b c : sigT, valid_sig (params a) = true /\ valid_sig (params b) = true /\ valid_sig (params c) = true /\ merge_nested [a; b; c] = Err ValueErr /\ merge [a; b; c] <> Err ValueErr.
Proof. exact @FoldLaw.merge_fold_law_unconditional_refuted. Qed.
Print Assumptions C09_merge_fold_law_unconditional_refuted.


(* ---- nested and flat merge agree for any number of role-consistent valid inputs (whole result) ---- *)
Theorem C09_merge_nested_eq_rc : forall ss : list sigT, all_valid ss -> role_consistent (map params ss) = true -> merge_nested ss = merge ss.
Proof. exact @RcValidN.merge_nested_eq_rc. Qed.
Print Assumptions C09_merge_nested_eq_rc.


(* ---- exactness of merge for ALL valid name-aligned role-consistent pairs (Proofs/MergeExact.v): the result
   accepts a non-colliding call iff both inputs do, and merge raises IncompatibleSignatures only when no call
   is accepted by both ---- *)
Theorem C09_merge_exact : forall a b : sigT, valid_sig (params a) = true -> valid_sig (params b) = true -> name_aligned (params a) (params b) = true -> role_consistent [params a; params b] = true -> match merge [a; b] with | Ok r => forall c : call, noncolliding c (params r) [params a; params b] = true -> accepts (params r) c = accepts (params a) c && accepts (params b) c | Err e => e = Incompatible /\ (forall c : call, accepts (params a) c && accepts (params b) c = false) end.
Proof. exact @MergeExact.merge_exact. Qed.
Print Assumptions C09_merge_exact.

Theorem C09_merge_exact_mk : forall a b : list param, valid_sig a = true -> valid_sig b = true -> name_aligned a b = true -> role_consistent [a; b] = true -> match merge [{| params := a; ret := None; uret := UEmpty; srcs := []; deps := [] |}; {| params := b; ret := None; uret := UEmpty; srcs := []; deps := [] |}] with | Ok r => forall c : call, noncolliding c (params r) [a; b] = true -> accepts (params r) c = accepts a c && accepts b c | Err e => e = Incompatible /\ (forall c : call, accepts a c && accepts b c = false) end.
Proof. exact @MergeExact.merge_exact_mk. Qed.
Print Assumptions C09_merge_exact_mk.


(* ---- exactness through the n-ary fold (Proofs/MergeExactN.v): a successful merge of any number of valid
   name-aligned role-consistent inputs accepts exactly the non-colliding calls all inputs accept; the raise
   clause is FALSE for three inputs (known finding C09:nary-raise-order: it depends on the order) ---- *)
Theorem C09_merge_exact_n_ok : forall (ss : list sigT) (r : sigT), RcValidN.all_valid ss -> all_aligned (map params ss) = true -> role_consistent (map params ss) = true -> merge ss = Ok r -> forall c : call, noncolliding c (params r) (map params ss) = true -> accepts (params r) c = forallb (fun s : sigT => accepts (params s) c) ss.
Proof. exact @MergeExactN.merge_exact_n_ok. Qed.
Print Assumptions C09_merge_exact_n_ok.

Theorem C09_merge_nested_exact_n_ok : forall (ss : list sigT) (r : sigT), RcValidN.all_valid ss -> all_aligned (map params ss) = true -> role_consistent (map params ss) = true -> merge_nested ss = Ok r -> forall c : call, noncolliding c (params r) (map params ss) = true -> accepts (params r) c = forallb (fun s : sigT => accepts (params s) c) ss.
Proof. exact @MergeExactN.merge_nested_exact_n_ok. Qed.
Print Assumptions C09_merge_nested_exact_n_ok.

Theorem C09_merge_exact_n_err_refuted : exists (ss : list sigT) (c : call), RcValidN.all_valid ss /\ all_aligned (map params ss) = true /\ role_consistent (map params ss) = true /\ merge ss = Err Incompatible /\ forallb (fun s : sigT => accepts (params s) c) ss = true.
Proof. exact @MergeExactN.merge_exact_n_err_refuted. Qed.
Print Assumptions C09_merge_exact_n_err_refuted.

Theorem C09_merge_raise_depends_on_order : exists a b c : sigT, RcValidN.all_valid [a; b; c] /\ all_aligned (map params [a; b; c]) = true /\ role_consistent (map params [a; b; c]) = true /\ merge [a; b; c] = Err Incompatible /\ (exists r : sigT, merge [a; c; b] = Ok r /\ params r = [{| pname := 1; pkind := KO; pdef := None; pann := None; puann := UEmpty |}]).
Proof. exact @MergeExactN.merge_raise_depends_on_order. Qed.
Print Assumptions C09_merge_raise_depends_on_order.

Theorem C09_merge_exact_n_err_partial : forall (s0 : sigT) (ss : list sigT) (e : err), RcValidN.all_valid (s0 :: ss) -> role_consistent (map params (s0 :: ss)) = true -> merge (s0 :: ss) = Err e -> e = Incompatible /\ (exists (done : list sigT) (c : sigT) (rest : list sigT) (acc1 : sorted) (e1 : err) (r1 : sigT), ss = done ++ c :: rest /\ merge_steps (sort_params s0) done = Ok acc1 /\ merge (s0 :: done) = Ok r1 /\ params r1 = flatten acc1 /\ merger acc1 (sort_params c) = Err e1).
Proof. exact @MergeExactN.merge_exact_n_err_partial. Qed.
Print Assumptions C09_merge_exact_n_err_partial.


(* ---- idempotence for any number of copies, and of signatures that differ only in provenance
   (Proofs/MergeIdemN.v): the binary step generalised to operands with equal buckets, lifted by the fold ---- *)
From Sigtools.Proofs Require Import MergeIdemN.
Theorem C09_merge_same_params : forall s : Base.sigT, Algebra.valid_sig (Base.params s) = true -> (forall p : Base.param, List.In p (Base.params s) -> MergeIdem.ann_wf p) -> forall ss : list Base.sigT, List.Forall (fun x : Base.sigT => Base.params x = Base.params s) ss -> exists r : Base.sigT, Algebra.merge (s :: ss) = Base.Ok r /\ Base.params r = Base.params s.
Proof. exact @MergeIdemN.merge_same_params. Qed.
Print Assumptions C09_merge_same_params.

Theorem C09_merge_idempotent_n : forall s : Base.sigT, Algebra.valid_sig (Base.params s) = true -> (forall p : Base.param, List.In p (Base.params s) -> MergeIdem.ann_wf p) -> forall n : nat, exists r : Base.sigT, Algebra.merge (s :: List.repeat s n) = Base.Ok r /\ Base.params r = Base.params s.
Proof. exact @MergeIdemN.merge_idempotent_n. Qed.
Print Assumptions C09_merge_idempotent_n.

Theorem C09_merge_nested_same_params : forall (s : Base.sigT) (ss : list Base.sigT), Algebra.valid_sig (Base.params s) = true -> (forall p : Base.param, List.In p (Base.params s) -> MergeIdem.ann_wf p) -> List.Forall (fun x : Base.sigT => Base.params x = Base.params s) ss -> exists r : Base.sigT, Algebra.merge_nested (s :: ss) = Base.Ok r /\ Base.params r = Base.params s.
Proof. exact @MergeIdemN.merge_nested_same_params. Qed.
Print Assumptions C09_merge_nested_same_params.

Theorem C09_merge_nested_flat_same_params : forall (s : Base.sigT) (ss : list Base.sigT), Algebra.valid_sig (Base.params s) = true -> (forall p : Base.param, List.In p (Base.params s) -> MergeIdem.ann_wf p) -> List.Forall (fun x : Base.sigT => Base.params x = Base.params s) ss -> exists r1 r2 : Base.sigT, Algebra.merge (s :: ss) = Base.Ok r1 /\ Algebra.merge_nested (s :: ss) = Base.Ok r2 /\ Base.params r1 = Base.params r2.
Proof. exact @MergeIdemN.merge_nested_flat_same_params. Qed.
Print Assumptions C09_merge_nested_flat_same_params.

Theorem C09_merge_idempotent_needs_ann_wf : exists s : Base.sigT, Algebra.valid_sig (Base.params s) = true /\ match Algebra.merge (s :: s :: nil) with | Base.Ok r => Base.params r <> Base.params s | Base.Err _ => True end.
Proof. exact @MergeIdemN.merge_idempotent_needs_ann_wf. Qed.
Print Assumptions C09_merge_idempotent_needs_ann_wf.

