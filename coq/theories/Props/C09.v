From Sigtools.Model Require Import Base Bind Algebra.
Theorem C09_placeholder : True. Proof. exact I. Qed.
Print Assumptions C09_placeholder.
