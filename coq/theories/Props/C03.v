(* C03 — mask: exact residual signature after n positionals and named arguments. *)
From Sigtools.Model Require Import Base Bind Roles Algebra.
From Sigtools.Proofs Require Import SmallModel Basics.

Theorem C03_wf s n names0 h r : mask s n names0 h = Ok r -> validate (params r) = true.
Proof. exact (mask_wf s n names0 h r). Qed.
Print Assumptions C03_wf.

Theorem C03_only_value_errors s n h named pm : benign (mask_gen s n h named pm).
Proof. exact (mask_gen_only_value_errors s n h named pm). Qed.
Print Assumptions C03_only_value_errors.

Theorem C03_small_model sigs s c : In s sigs -> accepts s (rep_for sigs c) = accepts s c.
Proof. exact (accepts_rep sigs s c). Qed.
Print Assumptions C03_small_model.
