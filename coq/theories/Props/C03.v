(* C03 — mask: exact residual signature after n positionals and named arguments. *)
From Sigtools.Model Require Import Base Bind Roles Algebra.
From Sigtools.Model Require Import Universe.
From Sigtools.Proofs Require Import SmallModel Basics Deciders SweepDefs SweepDefs2 Bounded2 MaskLaws MaskExact SweepDefs3 Bounded3 MaskNamesLib MaskNames MaskAlgebra MaskNamesProps MaskHide MaskHideExact.

Theorem C03_wf s n names0 h r : mask s n names0 h = Ok r -> validate (params r) = true.
Proof. exact (mask_wf s n names0 h r). Qed.
Print Assumptions C03_wf.

Theorem C03_only_value_errors s n h named pm : benign (mask_gen s n h named pm).
Proof. exact (mask_gen_only_value_errors s n h named pm). Qed.
Print Assumptions C03_only_value_errors.

Theorem C03_small_model sigs s c : In s sigs -> accepts s (rep_for sigs c) = accepts s c.
Proof. exact (accepts_rep sigs s c). Qed.
Print Assumptions C03_small_model.

(* the exactness / raise-condition deciders used on the implementation's
   results are complete for ALL calls *)
Theorem C03_exact_decider_complete r s n names0 :
  ~ In (fresh_for (dedup (all_names [r; s]))) names0 ->
  mask_exact_cex r s n names0 = None ->
  forall c, disjointb (kws c) names0 = true -> noncolliding c r [s] = true ->
            accepts r c = accepts s (shift_call n names0 c).
Proof. exact (mask_exact_cex_complete r s n names0). Qed.
Print Assumptions C03_exact_decider_complete.

Theorem C03_none_decider_complete s n names0 :
  ~ In (fresh_for (dedup (all_names [s]))) names0 ->
  mask_none_cex s n names0 = None ->
  forall c, disjointb (kws c) names0 = true -> accepts s (shift_call n names0 c) = false.
Proof. exact (mask_none_cex_complete s n names0). Qed.
Print Assumptions C03_none_decider_complete.

(* Bounded (bound in the statement): every signature of U(2,{a,b}), n <= 4, every
   duplicate-free tuple of its own non-positional-only names in every order, ALL
   calls: exact residual signature, and ValueError exactly when the signature
   could not be passed those arguments at all *)
Theorem C03_mask_exact_U2 s n names0 :
  In s U2ab -> In n counts -> In names0 name_tuples -> names_avoid_po s names0 = true ->
  match mask (mk s) n names0 nohide with
  | Ok r => forall c, disjointb (kws c) names0 = true -> noncolliding c (params r) [s] = true ->
                      accepts (params r) c = accepts s (shift_call n names0 c)
  | Err e => e = ValueErr /\
             forall c, disjointb (kws c) names0 = true -> accepts s (shift_call n names0 c) = false
  end.
Proof. exact (mask_exact_U2 s n names0). Qed.
Print Assumptions C03_mask_exact_U2.

(* ---- for ALL signatures and ALL calls (no bound) ---- *)

(* mask(sig, 0) is sig: parameters, return annotation and provenance *)
Theorem C03_mask_zero s :
  valid_sig (params s) = true -> mask s 0 [] nohide0 = Ok s.
Proof. exact (mask_zero_identity s). Qed.
Print Assumptions C03_mask_zero.

(* mask(sig, n), n > 0 leading positionals: accepts a non-colliding call exactly
   when sig accepts it with n extra leading positional arguments; raises
   ValueError exactly when sig cannot be passed n positional arguments at all.
   (This is also the signature of a bound method, mask(sig, 1).) *)
Theorem C03_positional_exact s n :
  valid_sig (params s) = true -> n <> 0%nat ->
  match mask s n [] nohide0 with
  | Ok r => forall c, noncolliding c (params r) [params s] = true ->
                      accepts (params r) c = accepts (params s) (shift_call n [] c)
  | Err e => e = ValueErr /\ forall c, accepts (params s) (shift_call n [] c) = false
  end.
Proof. exact (mask_positional_exact s n). Qed.
Print Assumptions C03_positional_exact.

Example C03_positional_exact_nonvacuous :
  valid_sig [mkParam 1 PO None None UEmpty; mkParam 2 PK (Some 1) None UEmpty; mkParam 9 VP None None UEmpty] = true.
Proof. reflexivity. Qed.
Print Assumptions C03_positional_exact_nonvacuous.

(* Bounded: mask(mask(sig, n), m) equals mask(sig, n + m) for every signature of
   U(2,{a,b}) and n, m <= 3 (same parameters, or both raise) *)
Theorem C03_compose_U2 s n m :
  In s U2ab -> In n [0; 1; 2; 3]%nat -> In m [0; 1; 2; 3]%nat ->
  match mask (mk s) n [] nohide with
  | Ok r => res_params_eqb (mask r m [] nohide) (mask (mk s) (n + m) [] nohide) = true
  | Err _ => exists e, mask (mk s) (n + m) [] nohide = Err e
  end.
Proof. exact (mask_compose_U2 s n m). Qed.
Print Assumptions C03_compose_U2.

(* ---- masks WITH NAMES, all valid signatures (Proofs/MaskNames*.v, MaskAlgebra.v): exactness and the
   raise condition for EVERY duplicate-free name tuple (no side condition on the names is left after the
   repair of _mask: a keyword named like a consumed positional-only parameter goes to the double-star
   parameter), the formerly refuting input as a positive example, duplicates refuted, composition as an
   equality of whole results, permutation invariance for all 16 hide-flag sets ---- *)
Theorem C03_names_exact : forall (ps : list param) (n : nat) (names0 : list name), valid_sig ps = true -> NoDup names0 -> match mask (mk ps) n names0 nohide with | Ok r => forall c : call, disjointb (kws c) names0 = true -> noncolliding c (params r) [ps] = true -> accepts (params r) c = accepts ps (shift_call n names0 c) | Err e => e = ValueErr /\ (forall c : call, disjointb (kws c) names0 = true -> accepts ps (shift_call n names0 c) = false) end.
Proof. exact @MaskNamesProps.C03_names_exact. Qed.
Print Assumptions C03_names_exact.

Theorem C03_mask_names_exact : forall (s : sigT) (n : nat) (names0 : list name), valid_sig (params s) = true -> NoDup names0 -> match mask s n names0 nohide0 with | Ok r => forall c : call, disjointb (kws c) names0 = true -> noncolliding c (params r) [params s] = true -> accepts (params r) c = accepts (params s) (shift_call n names0 c) | Err e => e = ValueErr /\ (forall c : call, disjointb (kws c) names0 = true -> accepts (params s) (shift_call n names0 c) = false) end.
Proof. exact @MaskNames.mask_names_exact. Qed.
Print Assumptions C03_mask_names_exact.

Theorem C03_mask_names_exact_formerly_refuted : valid_sig (params po_sig) = true /\ NoDup [1] /\ (exists r : sigT, mask po_sig 1 [1] nohide0 = Ok r /\ params r = [{| pname := 10; pkind := VK; pdef := None; pann := None; puann := UEmpty |}] /\ (forall c : call, disjointb (kws c) [1] = true -> noncolliding c (params r) [params po_sig] = true -> accepts (params r) c = accepts (params po_sig) (shift_call 1 [1] c))).
Proof. exact @MaskNames.mask_names_exact_formerly_refuted. Qed.
Print Assumptions C03_mask_names_exact_formerly_refuted.

Theorem C03_mask_names_exact_dup_refuted : exists (s : sigT) (n : nat) (names0 : list name) (c : call), valid_sig (params s) = true /\ disjointb (kws c) names0 = true /\ mask s n names0 nohide0 = Err ValueErr /\ accepts (params s) (shift_call n names0 c) = true.
Proof. exact @MaskNames.mask_names_exact_dup_refuted. Qed.
Print Assumptions C03_mask_names_exact_dup_refuted.

Theorem C03_mask_compose : forall (s : sigT) (n m : nat), valid_sig (params s) = true -> match mask s n [] nohide0 with | Ok r => mask r m [] nohide0 = mask s (n + m) [] nohide0 | Err e => mask s (n + m) [] nohide0 = Err e end.
Proof. exact @MaskAlgebra.mask_compose. Qed.
Print Assumptions C03_mask_compose.

Theorem C03_mask_perm : forall (s : sigT) (n : nat) (names names' : list name) (h : hideflags), valid_sig (params s) = true -> Permutation.Permutation names names' -> perm_rel (mask s n names h) (mask s n names' h).
Proof. exact @MaskAlgebra.mask_perm. Qed.
Print Assumptions C03_mask_perm.


(* ---- hide flags, all valid signatures and all 16 flag sets (Proofs/MaskHide.v): which class each flag removes
   (closed form) and soundness with hidden arguments chosen by the caller of the inner function ---- *)
Theorem C03_mask_hide_sound : forall (s : sigT) (n : nat) (names0 : list name) (h : hideflags), valid_sig (params s) = true -> NoDup names0 -> match mask s n names0 h with | Ok r => forall c : call, disjointb (kws c) (hide_names h names0) = true -> noncolliding c (params r) [params s] = true -> accepts (params r) c = true -> exists (m : nat) (K : list name), (h_args h = false -> m = n) /\ (h_kwargs h = false -> K = []) /\ disjointb K (kws c) = true /\ accepts (params s) {| npos := m + npos c; kws := hide_names h names0 ++ kws c ++ K |} = true | Err e => e = ValueErr end.
Proof. exact @MaskHide.mask_hide_sound. Qed.
Print Assumptions C03_mask_hide_sound.

Theorem C03_mask_hide_shape : forall (s : sigT) (n : nat) (names0 : list name) (h : hideflags) (r : sigT), valid_sig (params s) = true -> mask s n names0 h = Ok r -> if h_kwargs h then params r = MaskNamesLib.blk (hide_pos s n h) [] (hide_va s h) [] None else exists kwo_f : list param, params r = MaskNamesLib.blk (hide_pos s n h) (MaskAlgebra.takew (MaskAlgebra.nh names0) (hide_pok s n h)) (MaskAlgebra.va_form names0 (hide_pok s n h) (hide_va s h)) kwo_f (hide_vk s h) /\ Permutation.Permutation kwo_f (MaskAlgebra.kwo_form names0 (hide_pok s n h) (kwoargs (sort_params s))).
Proof. exact @MaskHide.mask_hide_shape. Qed.
Print Assumptions C03_mask_hide_shape.


(* ---- exactness under hide flags: the plain converse is false for each flag (a hidden class cannot be used by the
   visible call); the exact equation that holds (Proofs/MaskHideExact.v) ---- *)
Theorem C03_mask_hide_exact_partial : forall (s : sigT) (n : nat) (names0 : list name) (h : hideflags) (r : sigT), valid_sig (params s) = true -> NoDup names0 -> h_kwargs h = false -> mask s n names0 h = Ok r -> forall c : call, disjointb (kws c) names0 = true -> noncolliding c (params r) [params s] = true -> accepts (params r) c = hide_rhs s r n names0 h c.
Proof. exact @MaskHideExact.mask_hide_exact_partial. Qed.
Print Assumptions C03_mask_hide_exact_partial.

Theorem C03_mask_hide_kwargs_exact : forall (s : sigT) (n : nat) (names0 : list name) (h : hideflags) (r : sigT), valid_sig (params s) = true -> h_kwargs h = true -> mask s n names0 h = Ok r -> forall c : call, accepts (params r) c = true <-> kws c = [] /\ ((npos c <= length (MaskHide.hide_pos s n h))%nat \/ isSome (MaskHide.hide_va s h) = true) /\ req_pos (MaskHide.hide_pos s n h) (npos c) [] = true.
Proof. exact @MaskHideExact.mask_hide_kwargs_exact. Qed.
Print Assumptions C03_mask_hide_kwargs_exact.

Theorem C03_mask_hide_exact_refuted : exists h : hideflags, converse_fails h.
Proof. exact @MaskHideExact.mask_hide_exact_refuted. Qed.
Print Assumptions C03_mask_hide_exact_refuted.

