(* C03 — placeholder until the theorems land *)
From Sigtools.Model Require Import Base Bind Algebra.
Theorem C03_placeholder : True. Proof. exact I. Qed.
Print Assumptions C03_placeholder.
