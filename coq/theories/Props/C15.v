From Sigtools.Model Require Import Base Bind Algebra.
Theorem C15_placeholder : True. Proof. exact I. Qed.
Print Assumptions C15_placeholder.
