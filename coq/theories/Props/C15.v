(* C15 — the algebra fails only with ValueError and never yields malformed output. *)
From Sigtools.Model Require Import Base Bind Roles Algebra.
From Sigtools.Proofs Require Import SmallModel Basics RcValid RcValidN.

Theorem C15_merge_wf ss r : merge ss = Ok r -> validate (params r) = true.
Proof. exact (merge_wf ss r). Qed.
Print Assumptions C15_merge_wf.
Theorem C15_embed_wf ss uva uvk r : embed ss uva uvk = Ok r -> validate (params r) = true.
Proof. exact (embed_wf ss uva uvk r). Qed.
Print Assumptions C15_embed_wf.
Theorem C15_mask_wf s n h named pm r : mask_gen s n h named pm = Ok r -> validate (params r) = true.
Proof. exact (mask_gen_wf s n h named pm r). Qed.
Print Assumptions C15_mask_wf.
Theorem C15_forwards_wf o i n names0 ha hk uva uvk p r :
  forwards o i n names0 ha hk uva uvk p = Ok r -> validate (params r) = true.
Proof. exact (forwards_wf o i n names0 ha hk uva uvk p r). Qed.
Print Assumptions C15_forwards_wf.

(* no exception other than IncompatibleSignatures / ValueError, for ALL inputs *)
Theorem C15_merge_only_value_errors s0 ss : benign (merge (s0 :: ss)).
Proof. exact (merge_only_value_errors s0 ss). Qed.
Print Assumptions C15_merge_only_value_errors.
Theorem C15_embed_only_value_errors s0 ss uva uvk : benign (embed (s0 :: ss) uva uvk).
Proof. exact (embed_only_value_errors s0 ss uva uvk). Qed.
Print Assumptions C15_embed_only_value_errors.
Theorem C15_mask_only_value_errors s n h named pm : benign (mask_gen s n h named pm).
Proof. exact (mask_gen_only_value_errors s n h named pm). Qed.
Print Assumptions C15_mask_only_value_errors.
Theorem C15_forwards_only_value_errors o i n names0 ha hk uva uvk p :
  benign (forwards o i n names0 ha hk uva uvk p).
Proof. exact (forwards_only_value_errors o i n names0 ha hk uva uvk p). Qed.
Print Assumptions C15_forwards_only_value_errors.

(* a plain ValueError (not IncompatibleSignatures) from merge can only come from
   the final validating constructor *)
Theorem C15_merge_value_error_only_from_validation s0 ss :
  merge (s0 :: ss) = Err ValueErr ->
  exists acc, merge_steps (sort_params s0) ss = Ok acc /\ validate (flatten acc) = false.
Proof. exact (merge_value_error_only_from_validation s0 ss). Qed.
Print Assumptions C15_merge_value_error_only_from_validation.

(* ---- role-consistent valid inputs never fail in the final validating constructor: the only failure of
   merge is IncompatibleSignatures (Proofs/RcValid.v); role consistency cannot be dropped ---- *)
Theorem C15_merge_rc_valid : forall a b : sigT, valid_sig (params a) = true -> valid_sig (params b) = true -> role_consistent [params a; params b] = true -> merge [a; b] <> Err ValueErr.
Proof. exact @RcValid.merge_rc_valid. Qed.
Print Assumptions C15_merge_rc_valid.

Theorem C15_merge_rc_only_incompatible : forall (a b : sigT) (e : err), valid_sig (params a) = true -> valid_sig (params b) = true -> role_consistent [params a; params b] = true -> merge [a; b] = Err e -> e = Incompatible.
Proof. exact @RcValid.merge_rc_only_incompatible. Qed.
Print Assumptions C15_merge_rc_only_incompatible.

Theorem C15_merge_rc_ok_iff_merger : forall a b : sigT, valid_sig (params a) = true -> valid_sig (params b) = true -> role_consistent [params a; params b] = true -> match merger (sort_params a) (sort_params b) with | Ok acc => merge [a; b] = Ok {| params := flatten acc; ret := ret a; uret := uret a; srcs := ssrc acc; deps := sdep acc |} | Err _ => merge [a; b] = Err Incompatible end.
Proof. exact @RcValid.merge_rc_ok_iff_merger. Qed.
Print Assumptions C15_merge_rc_ok_iff_merger.

Theorem C15_merge_valid_without_rc_refuted : exists a b : sigT, valid_sig (params a) = true /\ valid_sig (params b) = true /\ role_consistent [params a; params b] = false /\ merge [a; b] = Err ValueErr.
Proof. exact @RcValid.merge_valid_without_rc_refuted. Qed.
Print Assumptions C15_merge_valid_without_rc_refuted.


(* ---- any number of role-consistent valid inputs ---- *)
Theorem C15_merge_rc_valid_n : forall ss : list sigT, all_valid ss -> role_consistent (map params ss) = true -> merge ss <> Err ValueErr.
Proof. exact @RcValidN.merge_rc_valid_n. Qed.
Print Assumptions C15_merge_rc_valid_n.

Theorem C15_merge_rc_only_incompatible_n : forall (s0 : sigT) (ss : list sigT) (e : err), all_valid (s0 :: ss) -> role_consistent (map params (s0 :: ss)) = true -> merge (s0 :: ss) = Err e -> e = Incompatible.
Proof. exact @RcValidN.merge_rc_only_incompatible_n. Qed.
Print Assumptions C15_merge_rc_only_incompatible_n.

