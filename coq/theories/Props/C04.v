From Sigtools.Model Require Import Base Bind Algebra.
Theorem C04_placeholder : True. Proof. exact I. Qed.
Print Assumptions C04_placeholder.
