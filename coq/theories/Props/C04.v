(* C04 — declared forwarding: forwards = embed o mask. *)
From Sigtools.Model Require Import Base Bind Roles Algebra.
From Sigtools.Proofs Require Import SmallModel Basics Deciders MaskLaws MaskExact.

Theorem C04_def o i n names0 ha hk uva uvk :
  forwards o i n names0 ha hk uva uvk false =
  bind (mask i n names0 (mkHide ha hk false false)) (fun m => embed [o; m] uva uvk).
Proof. exact (forwards_def o i n names0 ha hk uva uvk). Qed.
Print Assumptions C04_def.

Theorem C04_partial_def o i n names0 ha hk uva uvk :
  forwards o i n names0 ha hk uva uvk true =
  bind (mask (mkSig (map (fun p => match pkind p with VP | VK => p | _ => set_def (Some 0) p end)
                         (params i)) (ret i) (uret i) (srcs i) (deps i))
             n names0 (mkHide ha hk false false))
       (fun m => embed [o; m] uva uvk).
Proof. exact (forwards_partial_def o i n names0 ha hk uva uvk). Qed.
Print Assumptions C04_partial_def.

Theorem C04_wf o i n names0 ha hk uva uvk p r :
  forwards o i n names0 ha hk uva uvk p = Ok r -> validate (params r) = true.
Proof. exact (forwards_wf o i n names0 ha hk uva uvk p r). Qed.
Print Assumptions C04_wf.

(* the wrapper-execution decider (calling the wrapper, which forwards its
   surplus to inner with n literal positionals and the named keywords) is
   complete for ALL calls *)
Theorem C04_exec_sound_decider_complete r o i uva uvk n0 names0 extra :
  chain_sound_cex r o i uva uvk n0 names0 extra = None ->
  forall c, noncolliding c r (o :: i :: extra) = true -> accepts r c = true ->
            chain o i uva uvk n0 names0 c = true.
Proof. exact (chain_sound_cex_complete r o i uva uvk n0 names0 extra). Qed.
Print Assumptions C04_exec_sound_decider_complete.

(* C04_bound, for ALL signatures and calls: the signature of a bound method is
   mask(sig, 1): it accepts exactly the non-colliding calls the function accepts
   with the instance as extra first positional argument *)
Theorem C04_bound_method s :
  valid_sig (params s) = true ->
  match mask s 1 [] nohide0 with
  | Ok r => forall c, noncolliding c (params r) [params s] = true ->
                      accepts (params r) c = accepts (params s) (shift_call 1 [] c)
  | Err e => e = ValueErr /\ forall c, accepts (params s) (shift_call 1 [] c) = false
  end.
Proof. intros H. exact (mask_positional_exact s 1 H (Nat.neq_succ_0 0)). Qed.
Print Assumptions C04_bound_method.
