(* C04 — declared forwarding: forwards = embed o mask. *)
From Sigtools.Model Require Import Base Bind Roles Algebra.
From Sigtools.Proofs Require Import SmallModel Basics Deciders MaskLaws MaskExact MaskNames ForwardsSound.

Theorem C04_def o i n names0 ha hk uva uvk :
  forwards o i n names0 ha hk uva uvk false =
  bind (mask i n names0 (mkHide ha hk false false)) (fun m => embed [o; m] uva uvk).
Proof. exact (forwards_def o i n names0 ha hk uva uvk). Qed.
Print Assumptions C04_def.

Theorem C04_partial_def o i n names0 ha hk uva uvk :
  forwards o i n names0 ha hk uva uvk true =
  bind (mask (mkSig (map (fun p => match pkind p with VP | VK => p | _ => set_def (Some 0) p end)
                         (params i)) (ret i) (uret i) (srcs i) (deps i))
             n names0 (mkHide ha hk false false))
       (fun m => embed [o; m] uva uvk).
Proof. exact (forwards_partial_def o i n names0 ha hk uva uvk). Qed.
Print Assumptions C04_partial_def.

Theorem C04_wf o i n names0 ha hk uva uvk p r :
  forwards o i n names0 ha hk uva uvk p = Ok r -> validate (params r) = true.
Proof. exact (forwards_wf o i n names0 ha hk uva uvk p r). Qed.
Print Assumptions C04_wf.

(* the wrapper-execution decider (calling the wrapper, which forwards its
   surplus to inner with n literal positionals and the named keywords) is
   complete for ALL calls *)
Theorem C04_exec_sound_decider_complete r o i uva uvk n0 names0 extra :
  chain_sound_cex r o i uva uvk n0 names0 extra = None ->
  forall c, noncolliding c r (o :: i :: extra) = true -> accepts r c = true ->
            chain o i uva uvk n0 names0 c = true.
Proof. exact (chain_sound_cex_complete r o i uva uvk n0 names0 extra). Qed.
Print Assumptions C04_exec_sound_decider_complete.

(* C04_bound, for ALL signatures and calls: the signature of a bound method is
   mask(sig, 1): it accepts exactly the non-colliding calls the function accepts
   with the instance as extra first positional argument *)
Theorem C04_bound_method s :
  valid_sig (params s) = true ->
  match mask s 1 [] nohide0 with
  | Ok r => forall c, noncolliding c (params r) [params s] = true ->
                      accepts (params r) c = accepts (params s) (shift_call 1 [] c)
  | Err e => e = ValueErr /\ forall c, accepts (params s) (shift_call 1 [] c) = false
  end.
Proof. intros H. exact (mask_positional_exact s 1 H (Nat.neq_succ_0 0)). Qed.
Print Assumptions C04_bound_method.

(* ---- executing the declared wrapper, ALL valid signatures (Proofs/ForwardsSound.v): a non-colliding call accepted
   by forwards(...) is accepted by the wrapper and, with the literal arguments and the surplus, by the inner function;
   the converse when no outer default is cleared; partial=True against the all-optional inner; raise conditions ---- *)
Theorem C04_exec_sound : forall (o i : sigT) (n : nat) (names0 : list name) (uva uvk : bool) (r : sigT) (c : call), valid_sig (params o) = true -> valid_sig (params i) = true -> NoDup names0 -> forwards o i n names0 false false uva uvk false = Ok r -> noncolliding c (params r) [params o; params i] = true -> disjointb (kws c) names0 = true -> accepts (params r) c = true -> wrapper_exec (params o) (params i) n names0 uva uvk c = true.
Proof. exact @ForwardsSound.C04_exec_sound. Qed.
Print Assumptions C04_exec_sound.

Theorem C04_exec_exact_defaults_kept : forall (o i : sigT) (n : nat) (names0 : list name) (uva uvk : bool) (r : sigT) (c : call), valid_sig (params o) = true -> valid_sig (params i) = true -> NoDup names0 -> forwards o i n names0 false false uva uvk false = Ok r -> map has_def (firstn (length (positional (params o))) (positional (params r))) = map has_def (positional (params o)) -> noncolliding c (params r) [params o; params i] = true -> disjointb (kws c) names0 = true -> accepts (params r) c = wrapper_exec (params o) (params i) n names0 uva uvk c.
Proof. exact @ForwardsSound.C04_exec_exact_defaults_kept. Qed.
Print Assumptions C04_exec_exact_defaults_kept.

Theorem C04_exec_exact : forall (o i : sigT) (n : nat) (names0 : list name) (uva uvk : bool) (r : sigT) (c : call), valid_sig (params o) = true -> valid_sig (params i) = true -> NoDup names0 -> forwards o i n names0 false false uva uvk false = Ok r -> SweepDefs2.has_default_pos (params o) = false -> noncolliding c (params r) [params o; params i] = true -> disjointb (kws c) names0 = true -> accepts (params r) c = wrapper_exec (params o) (params i) n names0 uva uvk c.
Proof. exact @ForwardsSound.C04_exec_exact. Qed.
Print Assumptions C04_exec_exact.

Theorem C04_forwards_partial_eq : forall (o i : sigT) (n : nat) (names0 : list name) (ha hk uva uvk : bool), forwards o i n names0 ha hk uva uvk true = forwards o (optional i) n names0 ha hk uva uvk false.
Proof. exact @ForwardsSound.forwards_partial_eq. Qed.
Print Assumptions C04_forwards_partial_eq.

Theorem C04_accepts_optional : forall (ps : list param) (c : call), accepts (map optp ps) c = accepts_surplus_only ps c.
Proof. exact @ForwardsSound.accepts_optional. Qed.
Print Assumptions C04_accepts_optional.

Theorem C04_partial_sound : forall (o i : sigT) (n : nat) (names0 : list name) (uva uvk : bool) (r : sigT) (c : call), valid_sig (params o) = true -> valid_sig (params i) = true -> NoDup names0 -> forwards o i n names0 false false uva uvk true = Ok r -> noncolliding c (params r) [params o; params i] = true -> disjointb (kws c) names0 = true -> accepts (params r) c = true -> wrapper_exec_partial (params o) (params i) n names0 uva uvk c = true.
Proof. exact @ForwardsSound.C04_partial_sound. Qed.
Print Assumptions C04_partial_sound.

Theorem C04_partial_exact : forall (o i : sigT) (n : nat) (names0 : list name) (uva uvk : bool) (r : sigT) (c : call), valid_sig (params o) = true -> valid_sig (params i) = true -> NoDup names0 -> forwards o i n names0 false false uva uvk true = Ok r -> map has_def (firstn (length (positional (params o))) (positional (params r))) = map has_def (positional (params o)) -> noncolliding c (params r) [params o; params i] = true -> disjointb (kws c) names0 = true -> accepts (params r) c = wrapper_exec_partial (params o) (params i) n names0 uva uvk c.
Proof. exact @ForwardsSound.C04_partial_exact. Qed.
Print Assumptions C04_partial_exact.

Theorem C04_raises_mask : forall (o i : sigT) (n : nat) (names0 : list name) (uva uvk : bool) (e : err), valid_sig (params i) = true -> NoDup names0 -> mask i n names0 nohide0 = Err e -> forwards o i n names0 false false uva uvk false = Err ValueErr /\ (forall c : call, disjointb (kws c) names0 = true -> wrapper_exec (params o) (params i) n names0 uva uvk c = false).
Proof. exact @ForwardsSound.C04_raises_mask. Qed.
Print Assumptions C04_raises_mask.

Theorem C04_raises_incompatible : forall (o i : sigT) (n : nat) (names0 : list name) (uva uvk : bool), valid_sig (params o) = true -> valid_sig (params i) = true -> NoDup names0 -> forwards o i n names0 false false uva uvk false = Err Incompatible -> existsb (fun p : param => is_named p && mem (pname p) (names_of (filter is_named (params i)))) (params o) = true \/ (forall c : call, disjointb (kws c) names0 = true -> wrapper_exec (params o) (params i) n names0 uva uvk c = false).
Proof. exact @ForwardsSound.C04_raises_incompatible. Qed.
Print Assumptions C04_raises_incompatible.

Theorem C04_raises_valueerror_refuted : exists (o i : sigT) (c : call), valid_sig (params o) = true /\ valid_sig (params i) = true /\ forwards o i 0 [] false false true true false = Err ValueErr /\ wrapper_exec (params o) (params i) 0 [] true true c = true.
Proof. exact @ForwardsSound.C04_raises_valueerror_refuted. Qed.
Print Assumptions C04_raises_valueerror_refuted.

