(* C12 — kwoargs / posoargs / autokwoargs: advertised signature equals call behaviour. *)
From Coq Require Import List NArith Bool Arith Permutation.
From Sigtools.Model Require Import Base Bind Algebra Modifiers.
From Sigtools.Proofs Require Import Modifiers.

Theorem C12_sig_partial posos kwos ps adv kp : valid_sig ps = true -> prepare ps posos kwos = Ok (adv, kp) -> adv = adv_spec posos kwos ps /\ kp = kwopos_from posos kwos 0 ps.
Proof. exact (prepare_spec posos kwos ps adv kp). Qed.
Print Assumptions C12_sig_partial.

Theorem C12_loop_refines posos kwos pos pre args kws m : NoDup (names_of pos) -> no_missing posos kwos pos kws -> call_loop (kwopos_from posos kwos (length pre) pos) (pre ++ args) kws m = (pre ++ fst (shufT posos kwos pos args kws), snd (shufT posos kwos pos args kws), m).
Proof. exact (call_loop_shufT posos kwos pos pre args kws m). Qed.
Print Assumptions C12_loop_refines.

Theorem C12_call_partial posos kwos pos args kws a1 a2 a3 : forallb is_positional pos = true -> NoDup (names_of pos) -> (forall p, In p pos -> sel_p posos p = true -> klookup (pname p) kws = None) -> no_missing posos kwos pos kws -> exists args' kws', call_loop (kwopos_from posos kwos 0 pos) args kws [] = (args', kws', []) /\ R3 (bind_params a1 pos args' kws') (bind_params a2 (A1 posos kwos pos) args kws) (bind_params a3 (Kp posos kwos pos) [] kws).
Proof. exact (call_positional posos kwos pos args kws a1 a2 a3). Qed.
Print Assumptions C12_call_partial.

Theorem C12_prepare_set_invariant ps P K P' K' : (forall x, mem x P = mem x P') -> (forall x, mem x K = mem x K') -> prepare ps P K = prepare ps P' K'.
Proof. exact (prepare_set_invariant ps P K P' K'). Qed.
Print Assumptions C12_prepare_set_invariant.

Theorem C12_cache_no_alias (V : Type) (c : list (ckey * V)) t t' f f' v : t <> t' -> cache_get (cache_set c (t', f') v) (t, f) = cache_get c (t, f).
Proof. exact (cache_no_alias c t t' f f' v). Qed.
Print Assumptions C12_cache_no_alias.

Theorem C12_lookup_history_independent (V : Type) (build : N -> N -> V) h : fst (desc_gets build [] h) = map (fun tf => build (fst tf) (snd tf)) h.
Proof. exact (desc_history_independent build h). Qed.
Print Assumptions C12_lookup_history_independent.
