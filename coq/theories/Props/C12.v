(* C12 — kwoargs / posoargs / autokwoargs: advertised signature equals call behaviour. *)
From Coq Require Import List NArith Bool Arith Permutation.
From Sigtools.Model Require Import Base Bind Algebra Modifiers.
From Sigtools.Proofs Require Import Modifiers ModifiersFull ModifiersForms.

Theorem C12_sig_partial posos kwos ps adv kp : valid_sig ps = true -> prepare ps posos kwos = Ok (adv, kp) -> adv = adv_spec posos kwos ps /\ kp = kwopos_from posos kwos 0 ps.
Proof. exact (prepare_spec posos kwos ps adv kp). Qed.
Print Assumptions C12_sig_partial.

Theorem C12_loop_refines posos kwos pos pre args kws m : NoDup (names_of pos) -> no_missing posos kwos pos kws -> call_loop (kwopos_from posos kwos (length pre) pos) (pre ++ args) kws m = (pre ++ fst (shufT posos kwos pos args kws), snd (shufT posos kwos pos args kws), m).
Proof. exact (call_loop_shufT posos kwos pos pre args kws m). Qed.
Print Assumptions C12_loop_refines.

Theorem C12_call_partial posos kwos pos args kws a1 a2 a3 : forallb is_positional pos = true -> NoDup (names_of pos) -> (forall p, In p pos -> sel_p posos p = true -> klookup (pname p) kws = None) -> no_missing posos kwos pos kws -> exists args' kws', call_loop (kwopos_from posos kwos 0 pos) args kws [] = (args', kws', []) /\ R3 (bind_params a1 pos args' kws') (bind_params a2 (A1 posos kwos pos) args kws) (bind_params a3 (Kp posos kwos pos) [] kws).
Proof. exact (call_positional posos kwos pos args kws a1 a2 a3). Qed.
Print Assumptions C12_call_partial.

Theorem C12_prepare_set_invariant ps P K P' K' : (forall x, mem x P = mem x P') -> (forall x, mem x K = mem x K') -> prepare ps P K = prepare ps P' K'.
Proof. exact (prepare_set_invariant ps P K P' K'). Qed.
Print Assumptions C12_prepare_set_invariant.

Theorem C12_cache_no_alias (V : Type) (c : list (ckey * V)) t t' f f' v : t <> t' -> cache_get (cache_set c (t', f') v) (t, f) = cache_get c (t, f).
Proof. exact (cache_no_alias c t t' f f' v). Qed.
Print Assumptions C12_cache_no_alias.

Theorem C12_lookup_history_independent (V : Type) (build : N -> N -> V) h : fst (desc_gets build [] h) = map (fun tf => build (fst tf) (snd tf)) h.
Proof. exact (desc_history_independent build h). Qed.
Print Assumptions C12_lookup_history_independent.

(* ---- full statements (Proofs/ModifiersFull.v): decoration succeeds iff the selection is
   admissible and then advertises exactly the stated rewrite; the decorated callable accepts
   exactly the calls its advertised signature accepts and hands the function the same bindings
   (every decorator form, the bound copy, autokwoargs with exceptions) ---- *)
Theorem C12_sig : forall (ps : list param) (posos kwos : list name), valid_sig ps = true -> prepare ps posos kwos = (if admissible posos kwos ps then Ok (adv_spec posos kwos ps, kwopos_from posos kwos 0 ps) else Err ValueErr).
Proof. exact @ModifiersFull.C12_sig. Qed.
Print Assumptions C12_sig.

Theorem C12_call : forall (ps : list param) (posos kwos : list name) (adv : list param) (kp : list (nat * param)) (args : list N) (kws : kwargs), valid_sig ps = true -> prepare ps posos kwos = Ok (adv, kp) -> named_posonly adv posos kws = false -> same_binding (decorated_call ps kp posos args kws) (bindv adv args kws).
Proof. exact @ModifiersFull.C12_call. Qed.
Print Assumptions C12_call.

Theorem C12_call_excluded : forall (ps : list param) (posos kwos : list name) (adv : list param) (kp : list (nat * param)) (args : list N) (kws : kwargs), valid_sig ps = true -> prepare ps posos kwos = Ok (adv, kp) -> excluded adv kws = false -> same_binding (decorated_call ps kp posos args kws) (bindv adv args kws).
Proof. exact @ModifiersFull.C12_call_excluded. Qed.
Print Assumptions C12_call_excluded.

Theorem C12_sig_decorate : forall (ps : list param) (f : form), valid_sig ps = true -> decorate ps f = match select ps f with | Ok ([] as posos, []) => Ok (ps, [], []) | Ok ([] as posos, (_ :: _) as kwos) | Ok ((_ :: _) as posos, kwos) => if admissible posos kwos ps then Ok (adv_spec posos kwos ps, kwopos_from posos kwos 0 ps, posos) else Err ValueErr | Err e => Err e end.
Proof. exact @ModifiersFull.C12_sig_decorate. Qed.
Print Assumptions C12_sig_decorate.

Theorem C12_call_decorate : forall (ps : list param) (f : form) (adv : list param) (kp : list (nat * param)) (posos : list name) (args : list N) (kws : kwargs), valid_sig ps = true -> decorate ps f = Ok (adv, kp, posos) -> named_posonly adv posos kws = false -> same_binding (decorated_call ps kp posos args kws) (bindv adv args kws).
Proof. exact @ModifiersFull.C12_call_decorate. Qed.
Print Assumptions C12_call_decorate.

Theorem C12_sig_bound : forall (ps : list param) (f : form) (adv : list param) (kp : list (nat * param)) (posos : list name), valid_sig ps = true -> decorate_bound ps f = Ok (adv, kp, posos) -> adv = drop_first ps /\ kp = [] /\ posos = [] \/ (exists kwos : list name, admissible posos kwos (drop_first ps) = true /\ adv = adv_spec posos kwos (drop_first ps) /\ kp = kwopos_from posos kwos 0 (drop_first ps)).
Proof. exact @ModifiersFull.C12_sig_bound. Qed.
Print Assumptions C12_sig_bound.

Theorem C12_call_bound : forall (ps : list param) (f : form) (p0 : param) (ps' adv : list param) (kp : list (nat * param)) (posos : list name) (s : N) (args : list N) (kws : kwargs), valid_sig ps = true -> ps = p0 :: ps' -> is_positional p0 = true -> decorate_bound ps f = Ok (adv, kp, posos) -> kmem (pname p0) kws = false -> named_posonly adv posos kws = false -> same_binding match pok_call kp posos args kws with | Ok (args', kws') => bindv ps (s :: args') kws' | Err _ => None end (option_map (cons (pname p0, BV s)) (bindv adv args kws)).
Proof. exact @ModifiersFull.C12_call_bound. Qed.
Print Assumptions C12_call_bound.

Theorem C12_auto_names : forall (ps : list param) (ex : list name), valid_sig ps = true -> autokwoargs_names ps ex = (if forallb (fun x : N => mem x (map pname (filter pkdef ps))) ex then Ok (auto_sel ps ex) else Err ValueErr).
Proof. exact @ModifiersFull.C12_auto_names. Qed.
Print Assumptions C12_auto_names.

Theorem C12_auto_admissible : forall (ps : list param) (ex : list name), valid_sig ps = true -> admissible [] (auto_sel ps ex) ps = true.
Proof. exact @ModifiersFull.C12_auto_admissible. Qed.
Print Assumptions C12_auto_admissible.

Theorem C12_sig_auto : forall (ps : list param) (ex : list name), valid_sig ps = true -> decorate ps (FAuto ex) = (if forallb (fun x : N => mem x (map pname (filter pkdef ps))) ex then match auto_sel ps ex with | [] => Ok (ps, [], []) | _ :: _ => Ok (adv_spec [] (auto_sel ps ex) ps, kwopos_from [] (auto_sel ps ex) 0 ps, []) end else Err ValueErr).
Proof. exact @ModifiersFull.C12_sig_auto. Qed.
Print Assumptions C12_sig_auto.


(* ---- closed forms of the start= / end= selections (Proofs/ModifiersForms.v) ---- *)
Theorem C12_select_start : forall (ps : list param) (s : name) (names0 : list name), valid_sig ps = true -> select ps (FStart s names0) = (if mem s (pk_names ps) then Ok ([], start_sel ps s names0) else Err ValueErr).
Proof. exact @ModifiersForms.C12_select_start. Qed.
Print Assumptions C12_select_start.

Theorem C12_select_end : forall (ps : list param) (e : name) (names0 : list name), valid_sig ps = true -> select ps (FEnd e names0) = (if mem e (pk_names ps) then Ok (end_sel ps e names0, []) else Err ValueErr).
Proof. exact @ModifiersForms.C12_select_end. Qed.
Print Assumptions C12_select_end.

Theorem C12_sig_start : forall (ps : list param) (s : name) (names0 : list name), valid_sig ps = true -> decorate ps (FStart s names0) = (if mem s (pk_names ps) then if ModifiersFull.admissible [] (start_sel ps s names0) ps then Ok (adv_spec [] (start_sel ps s names0) ps, kwopos_from [] (start_sel ps s names0) 0 ps, []) else Err ValueErr else Err ValueErr).
Proof. exact @ModifiersForms.C12_sig_start. Qed.
Print Assumptions C12_sig_start.

Theorem C12_sig_end : forall (ps : list param) (e : name) (names0 : list name), valid_sig ps = true -> decorate ps (FEnd e names0) = (if mem e (pk_names ps) then if ModifiersFull.admissible (end_sel ps e names0) [] ps then Ok (adv_spec (end_sel ps e names0) [] ps, kwopos_from (end_sel ps e names0) [] 0 ps, end_sel ps e names0) else Err ValueErr else Err ValueErr).
Proof. exact @ModifiersForms.C12_sig_end. Qed.
Print Assumptions C12_sig_end.

Theorem C12_sig_start_plain : forall (ps : list param) (s : name), valid_sig ps = true -> decorate ps (FStart s []) = (if mem s (pk_names ps) then Ok (adv_spec [] (from_name s (pk_names ps)) ps, kwopos_from [] (from_name s (pk_names ps)) 0 ps, []) else Err ValueErr).
Proof. exact @ModifiersForms.C12_sig_start_plain. Qed.
Print Assumptions C12_sig_start_plain.

Theorem C12_sig_end_plain : forall (ps : list param) (e : name), valid_sig ps = true -> decorate ps (FEnd e []) = (if mem e (pk_names ps) then Ok (adv_spec (upto_name e (pk_names ps)) [] ps, kwopos_from (upto_name e (pk_names ps)) [] 0 ps, upto_name e (pk_names ps)) else Err ValueErr).
Proof. exact @ModifiersForms.C12_sig_end_plain. Qed.
Print Assumptions C12_sig_end_plain.

