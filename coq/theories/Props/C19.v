From Sigtools.Model Require Import Base Bind Algebra.
Theorem C19_placeholder : True. Proof. exact I. Qed.
Print Assumptions C19_placeholder.
