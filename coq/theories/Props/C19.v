(* C19 — functools.partial objects get the signature Python actually enforces. *)
From Sigtools.Model Require Import Base Bind Roles Algebra.
From Sigtools.Model Require Import Universe.
From Sigtools.Proofs Require Import SmallModel Basics Deciders SweepDefs SweepDefs2 Bounded2 MaskLaws MaskExact MaskNamesLib MaskNames MaskNamesProps MaskAlgebra PartialShape PartialPerm.

Theorem C19_wf s n kw pobj r : sig_partial s n kw pobj = Ok r -> validate (params r) = true.
Proof. exact (sig_partial_wf s n kw pobj r). Qed.
Print Assumptions C19_wf.

Theorem C19_only_value_errors s n kw pobj : benign (sig_partial s n kw pobj).
Proof. exact (mask_gen_only_value_errors s n (mkHide false false false false) kw (Some pobj)). Qed.
Print Assumptions C19_only_value_errors.

Theorem C19_small_model sigs s c : In s sigs -> accepts s (rep_for sigs c) = accepts s c.
Proof. exact (accepts_rep sigs s c). Qed.
Print Assumptions C19_small_model.

Theorem C19_exact_decider_complete r s n names0 :
  partial_exact_cex r s n names0 = None ->
  forall c, noncolliding c r [s] = true ->
            accepts r c = accepts s (partial_call n names0 c).
Proof. exact (partial_exact_cex_complete r s n names0). Qed.
Print Assumptions C19_exact_decider_complete.

Theorem C19_none_decider_complete s n names0 :
  partial_none_cex s n names0 = None ->
  forall c, accepts s (partial_call n names0 c) = false.
Proof. exact (partial_none_cex_complete s n names0). Qed.
Print Assumptions C19_none_decider_complete.

(* Bounded (bound in the statement): functools.partial over U(2,{a,b}), up to 4
   bound positionals, every duplicate-free tuple of bound keyword names, ALL calls *)
Theorem C19_partial_exact_U2 s n names0 :
  In s U2ab -> In n counts -> In names0 name_tuples -> names_avoid_po s names0 = true ->
  match sig_partial (mk s) n (map (fun k => (k, 5)) names0) 200 with
  | Ok r => forall c, noncolliding c (params r) [s] = true ->
                      accepts (params r) c = accepts s (partial_call n names0 c)
  | Err e => e = ValueErr /\ forall c, accepts s (partial_call n names0 c) = false
  end.
Proof. exact (partial_exact_U2 s n names0). Qed.
Print Assumptions C19_partial_exact_U2.

(* for ALL functions and ALL calls: a partial object binding n > 0 positional
   arguments accepts exactly the non-colliding calls the function accepts with n
   extra leading positionals: bound positionals disappear *)
Theorem C19_positional_exact s n pobj :
  valid_sig (params s) = true -> n <> 0%nat ->
  match sig_partial s n [] pobj with
  | Ok r => forall c, noncolliding c (params r) [params s] = true ->
                      accepts (params r) c = accepts (params s) (partial_call n [] c)
  | Err e => e = ValueErr /\ forall c, accepts (params s) (partial_call n [] c) = false
  end.
Proof. exact (partial_positional_exact s n pobj). Qed.
Print Assumptions C19_positional_exact.

Theorem C19_nothing_bound s pobj r :
  valid_sig (params s) = true -> sig_partial s 0 [] pobj = Ok r -> params r = params s.
Proof. exact (partial_nothing_bound_params s pobj r). Qed.
Print Assumptions C19_nothing_bound.

(* ---- partial objects with bound KEYWORDS, all valid signatures (Proofs/MaskNames.v): the keywords may
   name keyword-passable parameters, foreign names and positional-only parameters among the bound
   positionals; a remaining positional-only parameter or a star parameter is refuted ---- *)
Theorem C19_names_exact : forall (ps : list param) (n : nat) (names0 : list name) (v : name -> N) (pobj : N), valid_sig ps = true -> NoDup names0 -> names_passable_n ps n names0 = true -> match sig_partial (mk ps) n (map (fun k : name => (k, v k)) names0) pobj with | Ok r => forall c : call, noncolliding c (params r) [ps] = true -> accepts (params r) c = accepts ps (partial_call n names0 c) | Err e => e = ValueErr /\ (forall c : call, accepts ps (partial_call n names0 c) = false) end.
Proof. exact @MaskNamesProps.C19_names_exact. Qed.
Print Assumptions C19_names_exact.

Theorem C19_partial_names_exact : forall (s : sigT) (n : nat) (kw : list (name * N)) (pobj : N), valid_sig (params s) = true -> NoDup (map fst kw) -> names_passable_n (params s) n (map fst kw) = true -> match sig_partial s n kw pobj with | Ok r => forall c : call, noncolliding c (params r) [params s] = true -> accepts (params r) c = accepts (params s) (partial_call n (map fst kw) c) | Err e => e = ValueErr /\ (forall c : call, accepts (params s) (partial_call n (map fst kw) c) = false) end.
Proof. exact @MaskNames.partial_names_exact. Qed.
Print Assumptions C19_partial_names_exact.

Theorem C19_partial_names_exact_refuted : exists (s : sigT) (n : nat) (kw : list (name * N)) (pobj : N) (c : call), valid_sig (params s) = true /\ NoDup (map fst kw) /\ avoid_remaining_po (params s) n (map fst kw) = true /\ sig_partial s n kw pobj = Err ValueErr /\ accepts (params s) (partial_call n (map fst kw) c) = true.
Proof. exact @MaskNames.partial_names_exact_refuted. Qed.
Print Assumptions C19_partial_names_exact_refuted.

Theorem C19_partial_names_exact_refuted_po : exists (s : sigT) (n : nat) (kw : list (name * N)) (pobj : N) (c : call), valid_sig (params s) = true /\ NoDup (map fst kw) /\ names_avoid_stars (params s) (map fst kw) = true /\ sig_partial s n kw pobj = Err ValueErr /\ accepts (params s) (partial_call n (map fst kw) c) = true.
Proof. exact @MaskNames.partial_names_exact_refuted_po. Qed.
Print Assumptions C19_partial_names_exact_refuted_po.

Theorem C19_names_avoid_passable_n : forall (ps : list param) (n : nat) (names0 : list name), names_avoid_po ps names0 = true -> names_avoid_stars ps names0 = true -> names_passable_n ps n names0 = true.
Proof. exact @MaskNamesProps.names_avoid_passable_n. Qed.
Print Assumptions C19_names_avoid_passable_n.

(* ---- the shape clauses for all valid signatures (Proofs/PartialShape.v) and permutation invariance of the bound
   keywords (Proofs/PartialPerm.v) ---- *)
Theorem C19_partial_shape : forall (s : sigT) (n : nat) (kw : list (name * N)) (pobj : N) (r : sigT), valid_sig (params s) = true -> NoDup (map fst kw) -> MaskNames.names_passable_n (params s) n (map fst kw) = true -> sig_partial s n kw pobj = Ok r -> let so := sort_params s in let ns := map fst kw in let pok1 := skipn (n - length (posargs so)) (pokargs so) in (exists kwo_f : list param, params r = MaskNamesLib.blk (skipn n (posargs so)) (MaskAlgebra.takew (MaskAlgebra.nh ns) pok1) (MaskAlgebra.va_form ns pok1 (varargs so)) kwo_f (varkwargs so) /\ Forall (fun p : param => pkind p = KO) kwo_f /\ Permutation.Permutation kwo_f (kwo_formP kw pok1 (kwoargs so))) /\ (forall kv : name * N, In kv (absorbed kw pok1 (kwoargs so)) -> src_get (srcs r) (fst kv) = [pobj]) /\ (forall y : name, (forall w : param, varargs so = Some w -> pname w <> y) -> ~ In y (map fst (absorbed kw pok1 (kwoargs so))) -> src_get (srcs r) y = src_get (src_pop_all (srcs s) (names_of (firstn n (posargs so ++ pokargs so)))) y) /\ deps r = dep_set (dep_incr 1 (deps s)) pobj 0 /\ dep_get (deps r) pobj = Some 0 /\ (forall f : N, f <> pobj -> dep_get (deps r) f = option_map (fun d : N => d + 1) (dep_get (deps s) f)).
Proof. exact @PartialShape.partial_shape. Qed.
Print Assumptions C19_partial_shape.

Theorem C19_partial_shape_clauses : forall (s : sigT) (n : nat) (kw : list (name * N)) (pobj : N) (r : sigT), valid_sig (params s) = true -> NoDup (map fst kw) -> MaskNames.names_passable_n (params s) n (map fst kw) = true -> sig_partial s n kw pobj = Ok r -> let so := sort_params s in let ns := map fst kw in let pok1 := skipn (n - length (posargs so)) (pokargs so) in positional (params r) = skipn n (posargs so) ++ MaskAlgebra.takew (MaskAlgebra.nh ns) pok1 /\ has_kind VP (params r) = isSome (varargs so) && forallb (MaskAlgebra.nh ns) pok1 /\ has_kind VK (params r) = isSome (varkwargs so) /\ (forall q : param, In q (kwonly (params r)) <-> (exists q0 : param, In q0 (kwoargs so ++ map (set_kind KO) (MaskAlgebra.dropw (MaskAlgebra.nh ns) pok1)) /\ q = bindv kw q0) \/ (exists kv : name * N, In kv (absorbed kw pok1 (kwoargs so)) /\ q = newp kv)) /\ (forall kv : name * N, In kv (absorbed kw pok1 (kwoargs so)) -> src_get (srcs r) (fst kv) = [pobj]) /\ dep_get (deps r) pobj = Some 0 /\ (forall f : N, f <> pobj -> dep_get (deps r) f = option_map (fun d : N => d + 1) (dep_get (deps s) f)).
Proof. exact @PartialShape.partial_shape_clauses. Qed.
Print Assumptions C19_partial_shape_clauses.

Theorem C19_partial_perm : forall (s : sigT) (n : nat) (kw kw' : list (name * N)) (pobj : N), valid_sig (params s) = true -> NoDup (map fst kw) -> MaskNames.names_passable_n (params s) n (map fst kw) = true -> Permutation.Permutation kw kw' -> MaskAlgebra.perm_rel (sig_partial s n kw pobj) (sig_partial s n kw' pobj).
Proof. exact @PartialPerm.partial_perm. Qed.
Print Assumptions C19_partial_perm.

