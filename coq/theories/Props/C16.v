(* C16 (second sentence): retrieval restores what it inspects, even when it fails.
   The theorems are about `prog`, the IR term REGENERATED from
   sigtools/_autoforwards.py and sigtools/specifiers.py by harness/translate_ir.py
   on every run (module SigtoolsGen.GenRetrieval, built by the check before this
   file is compiled).  Finite domains, written in the statements; proved by
   evaluating the checker of Proofs/IR.v on the regenerated term (vm_compute)
   and lifting with forallb_forall. *)
From Coq Require Import List NArith Bool Arith.
Import ListNotations.
From Sigtools Require Import Model.IR Proofs.IR.
From SigtoolsGen Require Import GenRetrieval.

Theorem C16_restore : forall (c : config) (cc : call_crash) (rets : list bool), cc_in NCALLS_AFF cc -> length rets = NCALLS_AFF -> run_holds c NCALLS_AFF (run_aff FUEL prog c (mk_oracle (crash_of_cc cc) rets [])).
Proof. exact (aff_check_sound FUEL prog (eq_refl true <: aff_check FUEL prog = true)). Qed.
Print Assumptions C16_restore.

Theorem C16_restore_getters : forall (c : config) (k : nat) (e : exn_choice) (rets : list bool), k < NGETS_AFF -> length rets = NCALLS_AFF -> run_get_holds c (run_aff FUEL prog c (mk_oracle (GetCrash k (exn_id e)) rets [])).
Proof. exact (aff_getter_full_check_sound FUEL prog (eq_refl true <: aff_getter_full_check FUEL prog = true)). Qed.
Print Assumptions C16_restore_getters.

Theorem C16_getter_crossings_bounded : forall (c : config) (cc : call_crash) (rets : list bool), cc_in NCALLS_AFF cc -> length rets = NCALLS_AFF -> ngets (snd (run_aff FUEL prog c (mk_oracle (crash_of_cc cc) rets []))) < NGETS_AFF.
Proof. exact (aff_gets_check_sound FUEL prog (eq_refl true <: aff_gets_check FUEL prog = true)). Qed.
Print Assumptions C16_getter_crossings_bounded.

Theorem C16_guard_empty : forall (on_class : bool) (cc : call_crash) (cbs : list cb_choice) (ret : bool), cc_in NCALLS_GET cc -> length cbs = NCB -> run_holds default_config NCALLS_GET (run_get FUEL prog default_config (mk_oracle (crash_of_cc cc) (repeat ret NCALLS_GET) (map cb_of cbs)) on_class).
Proof. exact (get_check_sound FUEL prog (eq_refl true <: get_check FUEL prog = true)). Qed.
Print Assumptions C16_guard_empty.

Theorem C16_with_always_exits : forall p orc f em body en st vm o ob st1 v2 st2, eval p orc f em en st = (EV vm, st1) -> as_obj vm = Some o -> alist_get o (heap st1) = Some ob -> call_method p orc f (ocls ob) M_enter [vm] st1 = (EV v2, st2) -> is_stuck (out_of (exec p orc f body en st2)) = false -> st_of (exec p orc (S f) (SWith em body) en st) = snd (call_method p orc f (ocls ob) M_exit [vm; VS VNone] (st_of (exec p orc f body en st2))).
Proof. exact with_always_exits. Qed.
Print Assumptions C16_with_always_exits.

Theorem C16_try_finally_always_runs : forall p orc f body hs orelse fin en st, is_stuck (out_of (try_head p orc f body hs orelse en st)) = false -> st_of (exec p orc (S f) (STry body hs orelse fin) en st) = st_of (exec p orc f fin (env_of (try_head p orc f body hs orelse en st)) (st_of (try_head p orc f body hs orelse en st))).
Proof. exact try_finally_always_runs. Qed.
Print Assumptions C16_try_finally_always_runs.
