(* C20 — support helpers faithfully build and bind signatures *)
From Coq Require Import List NArith Bool.
From Sigtools.Model Require Import Base Bind Algebra Universe Support.
From Sigtools.Proofs Require Import Support SupportFull SupportAccepts.
Import ListNotations.

Theorem C20_bind : forall ps args kws, valid_sig ps = true -> NoDup (map fst kws) -> po_kw_collision ps kws = false -> match bind_callsig ps args kws, bindv ps args kws with BOk a, Some b => forall x, dget a x = dget b x | BErr _, None => True | _, _ => False end.
Proof. exact bind_callsig_bindv. Qed.
Print Assumptions C20_bind.

Theorem C20_sort : forall ps cs, valid_sig ps = true -> (forall c, In c cs -> NoDup (map fst (snd c)) /\ po_kw_collision ps (snd c) = false) -> (forall c b, In (c, b) (fst (sort_callsigs ps cs)) <-> In c cs /\ exists b', bindv ps (fst c) (snd c) = Some b' /\ bind_callsig ps (fst c) (snd c) = BOk b /\ forall x, dget b x = dget b' x) /\ (forall c, In c (snd (sort_callsigs ps cs)) <-> In c cs /\ bindv ps (fst c) (snd c) = None).
Proof. exact sort_callsigs_cpython. Qed.
Print Assumptions C20_sort.

Theorem C20_bind_spec : forall ps args kws, NoDup (names_of ps) -> NoDup (map fst kws) -> match bind_callsig ps args kws with BOk a => okA ps args kws = true /\ (forall x, dget a x = L3 ps args kws x) | BErr _ => okA ps args kws = false end.
Proof. exact bind_callsig_spec. Qed.
Print Assumptions C20_bind_spec.

Theorem C20_bind_bounded : forall ps, In ps (universe 2 [1%N; 2%N] 9%N 10%N) -> forall c, In c (calls_for ps) -> bind_agrees ps (fst c) (snd c) = true.
Proof. exact bind_agrees_U2. Qed.
Print Assumptions C20_bind_bounded.

Theorem C20_sort_valid : forall ps cs c b, In (c, b) (fst (sort_callsigs ps cs)) <-> In c cs /\ bind_callsig ps (fst c) (snd c) = BOk b.
Proof. exact sort_callsigs_valid. Qed.
Print Assumptions C20_sort_valid.

Theorem C20_sort_partition : forall ps cs, map fst (fst (sort_callsigs ps cs)) = filter (bound_ok ps) cs /\ snd (sort_callsigs ps cs) = filter (fun c => negb (bound_ok ps c)) cs.
Proof. exact sort_callsigs_partition. Qed.
Print Assumptions C20_sort_partition.

Theorem C20_makeup : forall ps extra i K, (i <= length (mu_names ps extra))%nat -> subseq K (mu_kwnames ps extra) -> In (firstn i (mu_names ps extra), self_dict K) (make_up_callsigs ps extra).
Proof. exact make_up_callsigs_complete. Qed.
Print Assumptions C20_makeup.

Theorem C20_makeup_dict : forall K, NoDup K -> self_dict K = map (fun n => (n, n)) K.
Proof. exact self_dict_nodup. Qed.
Print Assumptions C20_makeup_dict.

Theorem C20_roundtrip_bounded : forall ps, In ps (universe 2 [1%N; 2%N] 9%N 10%N) -> roundtrip_native ps None = true /\ roundtrip_native (annot ps) (Some 7%N) = true.
Proof. exact roundtrip_native_U2. Qed.
Print Assumptions C20_roundtrip_bounded.

(* ---- round trip for ALL well-formed signatures and every spelling (Proofs/SupportFull.v), the value-level
   binder against the shape-level acceptance (Proofs/SupportAccepts.v); the hypotheses the proofs forced,
   as refutations ---- *)
Theorem C20_roundtrip_native_all : forall (ps : list param) (ret : option N), wf_sig ps = true -> roundtrip_native ps ret = true.
Proof. exact @SupportFull.roundtrip_native_all. Qed.
Print Assumptions C20_roundtrip_native_all.

Theorem C20_roundtrip_all_without_kwoargs : forall (ps : list param) (ret : option N) (oa op : bool), wf_sig ps = true -> code_sig (func_code (read_sig (print_sig ps) oa op false) ret oa) = Some (ps, ret).
Proof. exact @SupportFull.roundtrip_all_without_kwoargs. Qed.
Print Assumptions C20_roundtrip_all_without_kwoargs.

Theorem C20_roundtrip_modifiers_all : forall (ps : list param) (ret : option N) (oa op ok : bool), wf_sig ps = true -> has_kind PO ps = false -> code_sig (func_code (read_sig (print_sig ps) oa op ok) ret oa) = Some (if ok then ko_sorted ps else ps, ret).
Proof. exact @SupportFull.roundtrip_modifiers_all. Qed.
Print Assumptions C20_roundtrip_modifiers_all.

Theorem C20_ko_sorted_spec : forall ps : list param, valid_sig ps = true -> has_kind PO ps = false -> Permutation.Permutation (ko_sorted ps) ps /\ filter (fun p : param => negb (is_kind KO p)) (ko_sorted ps) = filter (fun p : param => negb (is_kind KO p)) ps /\ filter (is_kind KO) (ko_sorted ps) = filter ko_nodef ps ++ filter ko_def ps.
Proof. exact @SupportFull.ko_sorted_spec. Qed.
Print Assumptions C20_ko_sorted_spec.

Theorem C20_roundtrip_star_default_refuted : exists ps : list param, valid_sig ps = true /\ eager ps = true /\ roundtrip_native ps None = false.
Proof. exact @SupportFull.roundtrip_star_default_refuted. Qed.
Print Assumptions C20_roundtrip_star_default_refuted.

Theorem C20_roundtrip_not_eager_refuted : exists ps : list param, valid_sig ps = true /\ star_nodef ps = true /\ roundtrip_native ps None = false.
Proof. exact @SupportFull.roundtrip_not_eager_refuted. Qed.
Print Assumptions C20_roundtrip_not_eager_refuted.

Theorem C20_roundtrip_kwoargs_po_refuted : exists ps : list param, wf_sig ps = true /\ code_sig (func_code (read_sig (print_sig ps) false false true) None false) = None /\ (exists ps' : list param, wf_sig ps' = true /\ code_sig (func_code (read_sig (print_sig ps') false true true) None false) = None).
Proof. exact @SupportFull.roundtrip_kwoargs_po_refuted. Qed.
Print Assumptions C20_roundtrip_kwoargs_po_refuted.

Theorem C20_bindv_iff_accepts : forall (ps : list param) (args : list N) (kws : list (name * N)), valid_sig ps = true -> is_some (bindv ps args kws) = accepts ps {| npos := length args; kws := map fst kws |}.
Proof. exact @SupportAccepts.bindv_iff_accepts. Qed.
Print Assumptions C20_bindv_iff_accepts.

Theorem C20_bind_callsig_iff_accepts : forall (ps : list param) (args : list N) (kws : list (name * N)), valid_sig ps = true -> NoDup (map fst kws) -> po_kw_collision ps kws = false -> match bind_callsig ps args kws with | BOk _ => accepts ps {| npos := length args; kws := map fst kws |} = true | BErr _ => accepts ps {| npos := length args; kws := map fst kws |} = false end.
Proof. exact @SupportAccepts.bind_callsig_iff_accepts. Qed.
Print Assumptions C20_bind_callsig_iff_accepts.

