(* C20 — support helpers faithfully build and bind signatures *)
From Coq Require Import List NArith Bool.
From Sigtools.Model Require Import Base Bind Algebra Universe Support.
From Sigtools.Proofs Require Import Support.
Import ListNotations.

Theorem C20_bind : forall ps args kws, valid_sig ps = true -> NoDup (map fst kws) -> po_kw_collision ps kws = false -> match bind_callsig ps args kws, bindv ps args kws with BOk a, Some b => forall x, dget a x = dget b x | BErr _, None => True | _, _ => False end.
Proof. exact bind_callsig_bindv. Qed.
Print Assumptions C20_bind.

Theorem C20_sort : forall ps cs, valid_sig ps = true -> (forall c, In c cs -> NoDup (map fst (snd c)) /\ po_kw_collision ps (snd c) = false) -> (forall c b, In (c, b) (fst (sort_callsigs ps cs)) <-> In c cs /\ exists b', bindv ps (fst c) (snd c) = Some b' /\ bind_callsig ps (fst c) (snd c) = BOk b /\ forall x, dget b x = dget b' x) /\ (forall c, In c (snd (sort_callsigs ps cs)) <-> In c cs /\ bindv ps (fst c) (snd c) = None).
Proof. exact sort_callsigs_cpython. Qed.
Print Assumptions C20_sort.

Theorem C20_bind_spec : forall ps args kws, NoDup (names_of ps) -> NoDup (map fst kws) -> match bind_callsig ps args kws with BOk a => okA ps args kws = true /\ (forall x, dget a x = L3 ps args kws x) | BErr _ => okA ps args kws = false end.
Proof. exact bind_callsig_spec. Qed.
Print Assumptions C20_bind_spec.

Theorem C20_bind_bounded : forall ps, In ps (universe 2 [1%N; 2%N] 9%N 10%N) -> forall c, In c (calls_for ps) -> bind_agrees ps (fst c) (snd c) = true.
Proof. exact bind_agrees_U2. Qed.
Print Assumptions C20_bind_bounded.

Theorem C20_sort_valid : forall ps cs c b, In (c, b) (fst (sort_callsigs ps cs)) <-> In c cs /\ bind_callsig ps (fst c) (snd c) = BOk b.
Proof. exact sort_callsigs_valid. Qed.
Print Assumptions C20_sort_valid.

Theorem C20_sort_partition : forall ps cs, map fst (fst (sort_callsigs ps cs)) = filter (bound_ok ps) cs /\ snd (sort_callsigs ps cs) = filter (fun c => negb (bound_ok ps c)) cs.
Proof. exact sort_callsigs_partition. Qed.
Print Assumptions C20_sort_partition.

Theorem C20_makeup : forall ps extra i K, (i <= length (mu_names ps extra))%nat -> subseq K (mu_kwnames ps extra) -> In (firstn i (mu_names ps extra), self_dict K) (make_up_callsigs ps extra).
Proof. exact make_up_callsigs_complete. Qed.
Print Assumptions C20_makeup.

Theorem C20_makeup_dict : forall K, NoDup K -> self_dict K = map (fun n => (n, n)) K.
Proof. exact self_dict_nodup. Qed.
Print Assumptions C20_makeup_dict.

Theorem C20_roundtrip_bounded : forall ps, In ps (universe 2 [1%N; 2%N] 9%N 10%N) -> roundtrip_native ps None = true /\ roundtrip_native (annot ps) (Some 7%N) = true.
Proof. exact roundtrip_native_U2. Qed.
Print Assumptions C20_roundtrip_bounded.
