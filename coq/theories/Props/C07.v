(* C07 — retrieval is total and only ever narrows the callable's own signature
   (the part that is logic). *)
From Sigtools.Model Require Import Base Bind Algebra Visitor Discover.
From Sigtools.Proofs Require Import SmallModel Basics Discover VisitorTotal.

(* the fallback chain: discovery yields the plain signature or a well-formed one;
   no error value exists in the model's result type *)
Theorem C07_chain_total own plain have_ast calls :
  discover own plain have_ast calls = plain \/
  validate (params (discover own plain have_ast calls)) = true.
Proof. exact (discover_total_wf own plain have_ast calls). Qed.
Print Assumptions C07_chain_total.

(* any unresolvable / signature-less / incompatible forwarding call => fallback *)
Theorem C07_fallback own calls :
  forward_sigs own calls = None <->
  exists c, In c (filter relevant calls) /\ forall r, declared own c <> Some (Ok r).
Proof. exact (forward_sigs_fails own calls). Qed.
Print Assumptions C07_fallback.

(* the narrowing decider used on every corpus object is complete for ALL calls *)
Theorem C07_narrow_decider_complete a b :
  incl_cex a b = None ->
  forall c, noncolliding c a [b] = true -> accepts a c = true -> accepts b c = true.
Proof. exact (incl_cex_complete a b). Qed.
Print Assumptions C07_narrow_decider_complete.

(* the AST walker (Namespace / markers / CallListerVisitor with its deferred
   nested-scope calls) is total: on every tree, whatever nodes it contains, the
   model never runs out of fuel (fuel = number of Call nodes + 1) *)
Theorem C07_visitor_total fargs fkwonly va kw body :
  visit_function fargs fkwonly va kw body <> None.
Proof. exact (visit_function_total fargs fkwonly va kw body). Qed.
Print Assumptions C07_visitor_total.

(* while the deferred calls are being processed nothing is deferred again, and a
   visit never queues more calls than the tree contains *)
Theorem C07_walk_bounded n force st :
  v_rev (walk force n st) = v_rev st /\
  (v_rev st = true -> v_todo (walk force n st) = v_todo st) /\
  (length (v_todo (walk force n st)) <= length (v_todo st) + count_calls n)%nat.
Proof. exact (proj1 (proj1 (walk_keeps n)) force st). Qed.
Print Assumptions C07_walk_bounded.
