(* C07 — placeholder while the check is wired; replaced in this session *)
From Sigtools.Model Require Import Base Bind Algebra Visitor Discover.
Theorem C07_placeholder : True. Proof. exact I. Qed.
Print Assumptions C07_placeholder.
