(* C07 — retrieval is total and only ever narrows the callable's own signature
   (the part that is logic). *)
From Sigtools.Model Require Import Base Bind Algebra Visitor Discover.
From Sigtools.Proofs Require Import SmallModel Basics Discover.

(* the fallback chain: discovery yields the plain signature or a well-formed one;
   no error value exists in the model's result type *)
Theorem C07_chain_total own plain have_ast calls :
  discover own plain have_ast calls = plain \/
  validate (params (discover own plain have_ast calls)) = true.
Proof. exact (discover_total_wf own plain have_ast calls). Qed.
Print Assumptions C07_chain_total.

(* any unresolvable / signature-less / incompatible forwarding call => fallback *)
Theorem C07_fallback own calls :
  forward_sigs own calls = None <->
  exists c, In c (filter relevant calls) /\ forall r, declared own c <> Some (Ok r).
Proof. exact (forward_sigs_fails own calls). Qed.
Print Assumptions C07_fallback.

(* the narrowing decider used on every corpus object is complete for ALL calls *)
Theorem C07_narrow_decider_complete a b :
  incl_cex a b = None ->
  forall c, noncolliding c a [b] = true -> accepts a c = true -> accepts b c = true.
Proof. exact (incl_cex_complete a b). Qed.
Print Assumptions C07_narrow_decider_complete.
