(* C05 — automatic discovery never reports a signature the function cannot honour
   (the part that is logic: the walker's flags and what discovery builds from them). *)
From Sigtools.Model Require Import Base Bind Algebra Visitor Discover Exec ExecNested.
From Sigtools.Proofs Require Import SmallModel Basics Discover Exec MergeSoundN ForwardsSound DiscoverSoundWalk DiscoverSound ExecNested.

(* use_varargs / use_varkwargs is emitted only when the star argument of the
   call IS the wrapper's own star-parameter marker (object identity) *)
Theorem C05_use_flag_identity found original :
  fst (has_hide found original) = true ->
  exists u n n', found = Some (MArg u n) /\ original = Some (MArg u n').
Proof. exact (use_flag_identity found original). Qed.
Print Assumptions C05_use_flag_identity.

(* a marker tainted by a method call on it is never handed out as pristine *)
Theorem C05_tainted_not_pristine st u n :
  existsb (Nat.eqb u) (v_taint st) = true -> get_untainted st (MArg u n) = MUnknown.
Proof. exact (get_untainted_tainted st u n). Qed.
Print Assumptions C05_tainted_not_pristine.

Theorem C05_pristine_not_tainted st m u n :
  get_untainted st m = MArg u n -> existsb (Nat.eqb u) (v_taint st) = false.
Proof. exact (untainted_arg_not_tainted st m u n). Qed.
Print Assumptions C05_pristine_not_tainted.

(* use and hide exclude each other; a star argument yields exactly one of them *)
Theorem C05_flags_exclusive found original :
  let '(u, h) := has_hide found original in
  (u && h = false) /\ (u || h = match found with Some _ => true | None => false end).
Proof. exact (flags_exclusive found original). Qed.
Print Assumptions C05_flags_exclusive.

(* whatever the walker found, the reported signature is the plain one or went
   through the validating constructor *)
Theorem C05_plain_or_wf own plain have_ast calls :
  discover own plain have_ast calls = plain \/
  validate (params (discover own plain have_ast calls)) = true.
Proof. exact (discover_total_wf own plain have_ast calls). Qed.
Print Assumptions C05_plain_or_wf.

(* soundness of a reported signature against its inputs is decided, for ALL
   calls, by the extracted decider used on the implementation's outputs *)
Theorem C05_decider_complete r inputs :
  sound_cex r inputs = None ->
  forall c, noncolliding c r inputs = true -> accepts r c = true ->
            forallb (fun s => accepts s c) inputs = true.
Proof. exact (sound_cex_complete r inputs). Qed.
Print Assumptions C05_decider_complete.

(* ---- the walker against an execution semantics (Model/Exec.v) ----
   For every wrapper  def w( *va, **vk ): <body>  whose body is a program of the
   grammar [stmt] (forwarding calls, rebinding, augmented assignment, deletion,
   item assignment, method calls on and hand-off of the star variables,
   aliasing, unrelated calls, two-way branches; any length, any nesting): *)

(* the walker's flags are exactly the abstract interpretation *)
Theorem C05_walker_is_absint va vk l :
  va <> vk -> block_ok va vk l = true ->
  visitor_flags va vk l = Some (snd (absint_block l (true, true))).
Proof. exact (visitor_flags_absint va vk l). Qed.
Print Assumptions C05_walker_is_absint.

(* on every execution path, at every call executed: a star argument marked as
   used is, when the callee receives it, the caller's untouched object; a star
   argument written in the call is marked used or hidden *)
Theorem C05_flag_sound va vk l fls :
  va <> vk -> block_ok va vk l = true ->
  visitor_flags va vk l = Some fls ->
  forall fuel st' evs e,
    In (st', evs) (exec_block fuel l 0 (mkSem true true)) -> In e evs ->
    (ev_site e < length fls)%nat /\ flag_sound (nth (ev_site e) fls dflags) e.
Proof. exact (flags_sound va vk l fls). Qed.
Print Assumptions C05_flag_sound.

(* the quantification over executions is not empty *)
Theorem C05_exec_total l st : exec_block (depth_block l) l 0 st <> [].
Proof. exact (exec_total l st). Qed.
Print Assumptions C05_exec_total.

(* outside that fragment the statement is false of the faithful walker model (the
   known finding C05:nested-scope-mutation): a mutation of **kwargs in a nested
   scope, run before the forwarding call, is processed only afterwards *)
Theorem C05_nested_refuted :
  exists fls st' evs e,
    visitor_flags 1 2 nested_witness = Some fls /\
    In (st', evs) (exec_block 1 nested_witness 0 (mkSem true true)) /\ In e evs /\
    ~ flag_sound (nth (ev_site e) fls dflags) e.
Proof. exact flags_sound_nested_refuted. Qed.
Print Assumptions C05_nested_refuted.

Open Scope nat_scope.
(* ---- END TO END for the flat statement grammar (Proofs/DiscoverSound*.v): what the walker records per call site,
   and: a call accepted by the discovered signature makes every executed forwarding site whose written stars are
   flagged `use` hand its callee a call that the callee's signature accepts, with the caller's untouched objects.
   Nested scopes holding forwarding calls (Model/ExecNested.v, Proofs/ExecNested.v): flag soundness for every
   invocation time ---- *)
Theorem C05_walker_records : forall va vk : BinNums.N, va <> vk -> forall l : list Exec.stmt, block_ok va vk l = true -> exists recs : list Visitor.callrec, Visitor.visit_function nil nil (Some va) (Some vk) (Exec.compile_block va vk l) = Some recs /\ List.map fl recs = snd (Exec.absint_block l (true, true)) /\ List.Forall2 rec_ok (sites_block l) recs.
Proof. exact @DiscoverSoundWalk.walker_records. Qed.
Print Assumptions C05_walker_records.

Theorem C05_end_to_end : forall (va vk : BinNums.N) (l : list Exec.stmt) (env : BinNums.N -> Base.sigT) (recs : list Visitor.callrec) (sigs : list Base.sigT) (r : Base.sigT) (c : Bind.call), va <> vk -> block_ok va vk l = true -> (forall x : BinNums.N, Algebra.valid_sig (Base.params (env x)) = true) -> Visitor.visit_function nil nil (Some va) (Some vk) (Exec.compile_block va vk l) = Some recs -> Discover.forward_sigs (own_sig va vk) (calls_of env recs) = Some sigs -> Algebra.merge sigs = Base.Ok r -> Bind.accepts (Base.params r) c = true -> (Bind.kws c = nil \/ Bind.npos c = 0) \/ Roles.role_consistent (List.map Base.params sigs) = true /\ Bind.noncolliding c (Base.params r) (List.map Base.params sigs) = true -> forall (j : nat) (cal : BinNums.N) (nlit : nat) (kw : list BinNums.N) (pa pk : bool) (rc : Visitor.callrec), List.nth_error (DiscoverSoundWalk.sites_block l) j = Some (Some (cal, nlit, kw, pa, pk)) -> List.nth_error recs j = Some rc -> (pa || pk)%bool = true -> Visitor.c_use_varargs rc = pa -> Visitor.c_use_varkwargs rc = pk -> List.NoDup kw -> Bind.disjointb (Bind.kws c) kw = true -> (forall sj : Base.sigT, Algebra.forwards (own_sig va vk) (env cal) nlit kw false false pa pk false = Base.Ok sj -> Bind.noncolliding c (Base.params sj) (Base.params (own_sig va vk) :: Base.params (env cal) :: nil) = true) -> Bind.accepts (Base.params (env cal)) {| Bind.npos := nlit + (if pa then Bind.npos c else 0); Bind.kws := kw ++ (if pk then Bind.kws c else nil) |} = true /\ (forall (fuel : nat) (st' : Exec.sem) (evs : list Exec.event) (e : Exec.event), List.In (st', evs) (Exec.exec_block fuel l 0 {| Exec.pr_a := true; Exec.pr_k := true |}) -> List.In e evs -> Exec.ev_site e = j -> Exec.ev_a e = (if pa then Some true else None) /\ Exec.ev_k e = (if pk then Some true else None)).
Proof. exact @DiscoverSound.C05_end_to_end. Qed.
Print Assumptions C05_end_to_end.

Theorem C05_end_to_end_discover : forall (va vk : BinNums.N) (l : list Exec.stmt) (env : BinNums.N -> Base.sigT) (plain : Base.sigT) (recs : list Visitor.callrec) (c : Bind.call), va <> vk -> block_ok va vk l = true -> (forall x : BinNums.N, Algebra.valid_sig (Base.params (env x)) = true) -> Visitor.visit_function nil nil (Some va) (Some vk) (Exec.compile_block va vk l) = Some recs -> let r := Discover.discover (own_sig va vk) plain true (calls_of env recs) in r <> plain -> Bind.accepts (Base.params r) c = true -> Bind.kws c = nil \/ Bind.npos c = 0 -> forall (j : nat) (cal : BinNums.N) (nlit : nat) (kw : list BinNums.N) (pa pk : bool) (rc : Visitor.callrec), List.nth_error (DiscoverSoundWalk.sites_block l) j = Some (Some (cal, nlit, kw, pa, pk)) -> List.nth_error recs j = Some rc -> (pa || pk)%bool = true -> Visitor.c_use_varargs rc = pa -> Visitor.c_use_varkwargs rc = pk -> List.NoDup kw -> Bind.disjointb (Bind.kws c) kw = true -> (forall sj : Base.sigT, Algebra.forwards (own_sig va vk) (env cal) nlit kw false false pa pk false = Base.Ok sj -> Bind.noncolliding c (Base.params sj) (Base.params (own_sig va vk) :: Base.params (env cal) :: nil) = true) -> Bind.accepts (Base.params (env cal)) {| Bind.npos := nlit + (if pa then Bind.npos c else 0); Bind.kws := kw ++ (if pk then Bind.kws c else nil) |} = true /\ (forall (fuel : nat) (st' : Exec.sem) (evs : list Exec.event) (e : Exec.event), List.In (st', evs) (Exec.exec_block fuel l 0 {| Exec.pr_a := true; Exec.pr_k := true |}) -> List.In e evs -> Exec.ev_site e = j -> Exec.ev_a e = (if pa then Some true else None) /\ Exec.ev_k e = (if pk then Some true else None)).
Proof. exact @DiscoverSound.C05_end_to_end_discover. Qed.
Print Assumptions C05_end_to_end_discover.

Theorem C05_forwards_valid : forall (o i : Base.sigT) (n : nat) (names0 : list Base.name) (ha hk uva uvk : bool) (r : Base.sigT), Algebra.valid_sig (Base.params i) = true -> Algebra.forwards o i n names0 ha hk uva uvk false = Base.Ok r -> Algebra.valid_sig (Base.params r) = true.
Proof. exact @DiscoverSound.forwards_valid. Qed.
Print Assumptions C05_forwards_valid.

Theorem C05_flags_sound_nested : forall (va vk : N) (l : list nstmt) (fls : list flags), va <> vk -> nblock_ok va vk l = true -> visitor_flags_n va vk l = Some fls -> forall (fuel : nat) (st' : sem) (evs : list event) (e : event), In (st', evs) (exec_n fuel (mcalls_block l) l 0 0 [] {| pr_a := true; pr_k := true |}) -> In e evs -> (ev_site e < length fls)%nat /\ flag_sound (nth (ev_site e) fls dflags) e.
Proof. exact @ExecNested.flags_sound_nested. Qed.
Print Assumptions C05_flags_sound_nested.

Theorem C05_visitor_flags_n_absint : forall (va vk : N) (l : list nstmt), va <> vk -> nblock_ok va vk l = true -> visitor_flags_n va vk l = Some (absflags_n l).
Proof. exact @ExecNested.visitor_flags_n_absint. Qed.
Print Assumptions C05_visitor_flags_n_absint.

Theorem C05_run_n_total : forall l : list nstmt, run_n l <> [].
Proof. exact @ExecNested.run_n_total. Qed.
Print Assumptions C05_run_n_total.


(* ---- compound statement contexts: try/except/else/finally, with, comprehensions (Model/ExecTry.v, Proofs/ExecTry.v); the comprehension clauses are stated for the visit order of repair 562a505, the order before it is refuted ---- *)
From Sigtools.Model Require Import ExecTry.
From Sigtools.Proofs Require Import ExecTry.
Theorem C05_visitor_flags_t_absint : forall (va vk : N) (nm : tnames) (l : list tstmt), va <> vk -> fixed_ok va vk nm = true -> tblock_ok va vk l = true -> visitor_flags_t va vk nm l = Some (snd (absint_tb l (true, true))).
Proof. exact @ExecTry.visitor_flags_t_absint. Qed.
Print Assumptions C05_visitor_flags_t_absint.

Theorem C05_flags_sound_try : forall (va vk : N) (nm : tnames) (l : list tstmt) (fls : list flags), va <> vk -> fixed_ok va vk nm = true -> tblock_ok va vk l = true -> visitor_flags_t va vk nm l = Some fls -> forall (r : outcome) (e : event), In r (run_t l) -> In e (o_ev r) -> (ev_site e < length fls)%nat /\ flag_sound (nth (ev_site e) fls dflags) e.
Proof. exact @ExecTry.flags_sound_try. Qed.
Print Assumptions C05_flags_sound_try.

Theorem C05_flags_sound_try_general : forall (va vk : N) (l : list tstmt) (off : nat) (k : bool * bool) (st : sem) (r : outcome), tblock_ok va vk l = true -> le_abs k st -> In r (exec_tb l off st) -> le_abs (fst (absint_tb l k)) (o_st r) /\ (forall e : event, In e (o_ev r) -> (off <= ev_site e < off + tcalls_block l)%nat /\ flag_sound (nth (ev_site e - off) (snd (absint_tb l k)) dflags) e).
Proof. exact @ExecTry.flags_sound_try_general. Qed.
Print Assumptions C05_flags_sound_try_general.

Theorem C05_exec_t_total : forall (l : list tstmt) (off : nat) (st : sem), exists r : outcome, In r (exec_tb l off st) /\ o_prop r = false.
Proof. exact @ExecTry.exec_t_total. Qed.
Print Assumptions C05_exec_t_total.

Theorem C05_run_t_total : forall l : list tstmt, run_t l <> [].
Proof. exact @ExecTry.run_t_total. Qed.
Print Assumptions C05_run_t_total.

Theorem C05_exec_t_may_raise : forall (x : tstmt) (l : list tstmt) (off : nat) (st : sem), In (st, [], true) (exec_tb (x :: l) off st).
Proof. exact @ExecTry.exec_t_may_raise. Qed.
Print Assumptions C05_exec_t_may_raise.

Theorem C05_flags_sound_old_order_refuted : exists (fls : list flags) (r : outcome) (e : event), flags_of 1 2 [compile_mut_old 1 2 default_tnames 30 (SFwd 5 0 [] false true)] = Some fls /\ In r (run_t mut_witness) /\ In e (o_ev r) /\ ev_site e = 1%nat /\ ~ flag_sound (nth 0 fls dflags) e.
Proof. exact @ExecTry.flags_sound_old_order_refuted. Qed.
Print Assumptions C05_flags_sound_old_order_refuted.

Theorem C05_flags_sound_old_order_shadow_refuted : exists (fls : list flags) (r : outcome) (e : event), flags_of 1 2 [compile_shadow_old 1 2 SK (SFwd 5 0 [] false true)] = Some fls /\ In r (run_t shadow_witness) /\ In e (o_ev r) /\ ev_site e = 0%nat /\ ~ flag_sound (nth 0 fls dflags) e.
Proof. exact @ExecTry.flags_sound_old_order_shadow_refuted. Qed.
Print Assumptions C05_flags_sound_old_order_shadow_refuted.

Theorem C05_witnesses_repaired : tblock_ok 1 2 mut_witness = true /\ tblock_ok 1 2 shadow_witness = true /\ visitor_flags_t 1 2 default_tnames mut_witness = Some [dflags; (false, false, false, true)] /\ visitor_flags_t 1 2 default_tnames shadow_witness = Some [(false, false, false, true)].
Proof. exact @ExecTry.witnesses_repaired. Qed.
Print Assumptions C05_witnesses_repaired.


(* ---- for loops on top of the compound contexts (Model/ExecLoop.v, Proofs/ExecLoop.v: the grammar of ExecTry plus TFor; from here on tstmt, exec_t, ... denote ExecLoop's). The walker reads a loop body once: soundness is REFUTED in general (the real library behaves alike; loops are outside C05's quantified grammar) and proved for loop bodies that are fixed points of the abstract interpretation ---- *)
From Sigtools.Model Require Import ExecLoop.
From Sigtools.Proofs Require Import ExecLoop.
Theorem C05_loop_visitor_flags_t_absint : forall (va vk : N) (nm : tnames) (l : list tstmt), va <> vk -> fixed_ok va vk nm = true -> tblock_ok va vk l = true -> visitor_flags_t va vk nm l = Some (snd (absint_tb l (true, true))).
Proof. exact @ExecLoop.visitor_flags_t_absint. Qed.
Print Assumptions C05_loop_visitor_flags_t_absint.

Theorem C05_loop_flags_sound_try : forall (va vk : N) (nm : tnames) (l : list tstmt) (fls : list flags), va <> vk -> fixed_ok va vk nm = true -> tblock_ok va vk l = true -> tblock_loop_free l = true -> visitor_flags_t va vk nm l = Some fls -> forall (r : outcome) (e : event), In r (run_t l) -> In e (o_ev r) -> (ev_site e < length fls)%nat /\ flag_sound (nth (ev_site e) fls dflags) e.
Proof. exact @ExecLoop.flags_sound_try. Qed.
Print Assumptions C05_loop_flags_sound_try.

Theorem C05_loop_flags_sound_loop_partial : forall (va vk : N) (nm : tnames) (l : list tstmt) (fls : list flags), va <> vk -> fixed_ok va vk nm = true -> tblock_ok va vk l = true -> loop_stable l = true -> visitor_flags_t va vk nm l = Some fls -> forall (r : outcome) (e : event), In r (run_t l) -> In e (o_ev r) -> (ev_site e < length fls)%nat /\ flag_sound (nth (ev_site e) fls dflags) e.
Proof. exact @ExecLoop.flags_sound_loop_partial. Qed.
Print Assumptions C05_loop_flags_sound_loop_partial.

Theorem C05_loop_flags_sound_loop_quiet : forall (va vk : N) (nm : tnames) (l : list tstmt) (fls : list flags), va <> vk -> fixed_ok va vk nm = true -> tblock_ok va vk l = true -> tblock_loop_quiet l = true -> visitor_flags_t va vk nm l = Some fls -> forall (r : outcome) (e : event), In r (run_t l) -> In e (o_ev r) -> (ev_site e < length fls)%nat /\ flag_sound (nth (ev_site e) fls dflags) e.
Proof. exact @ExecLoop.flags_sound_loop_quiet. Qed.
Print Assumptions C05_loop_flags_sound_loop_quiet.

Theorem C05_loop_flags_sound_loop_refuted : exists (fls : list flags) (r : outcome) (e : event), fixed_ok 1 2 default_tnames = true /\ tblock_ok 1 2 loop_witness = true /\ forallb wf_t loop_witness = true /\ loop_stable loop_witness = false /\ visitor_flags_t 1 2 default_tnames loop_witness = Some fls /\ In r (run_t loop_witness) /\ In e (o_ev r) /\ ~ flag_sound (nth (ev_site e) fls dflags) e.
Proof. exact @ExecLoop.flags_sound_loop_refuted. Qed.
Print Assumptions C05_loop_flags_sound_loop_refuted.

