(* C05 — placeholder while the check is wired; replaced in this session *)
From Sigtools.Model Require Import Base Bind Algebra Visitor Discover.
Theorem C05_placeholder : True. Proof. exact I. Qed.
Print Assumptions C05_placeholder.
