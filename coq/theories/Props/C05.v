(* C05 — automatic discovery never reports a signature the function cannot honour
   (the part that is logic: the walker's flags and what discovery builds from them). *)
From Sigtools.Model Require Import Base Bind Algebra Visitor Discover Exec.
From Sigtools.Proofs Require Import SmallModel Basics Discover Exec.

(* use_varargs / use_varkwargs is emitted only when the star argument of the
   call IS the wrapper's own star-parameter marker (object identity) *)
Theorem C05_use_flag_identity found original :
  fst (has_hide found original) = true ->
  exists u n n', found = Some (MArg u n) /\ original = Some (MArg u n').
Proof. exact (use_flag_identity found original). Qed.
Print Assumptions C05_use_flag_identity.

(* a marker tainted by a method call on it is never handed out as pristine *)
Theorem C05_tainted_not_pristine st u n :
  existsb (Nat.eqb u) (v_taint st) = true -> get_untainted st (MArg u n) = MUnknown.
Proof. exact (get_untainted_tainted st u n). Qed.
Print Assumptions C05_tainted_not_pristine.

Theorem C05_pristine_not_tainted st m u n :
  get_untainted st m = MArg u n -> existsb (Nat.eqb u) (v_taint st) = false.
Proof. exact (untainted_arg_not_tainted st m u n). Qed.
Print Assumptions C05_pristine_not_tainted.

(* use and hide exclude each other; a star argument yields exactly one of them *)
Theorem C05_flags_exclusive found original :
  let '(u, h) := has_hide found original in
  (u && h = false) /\ (u || h = match found with Some _ => true | None => false end).
Proof. exact (flags_exclusive found original). Qed.
Print Assumptions C05_flags_exclusive.

(* whatever the walker found, the reported signature is the plain one or went
   through the validating constructor *)
Theorem C05_plain_or_wf own plain have_ast calls :
  discover own plain have_ast calls = plain \/
  validate (params (discover own plain have_ast calls)) = true.
Proof. exact (discover_total_wf own plain have_ast calls). Qed.
Print Assumptions C05_plain_or_wf.

(* soundness of a reported signature against its inputs is decided, for ALL
   calls, by the extracted decider used on the implementation's outputs *)
Theorem C05_decider_complete r inputs :
  sound_cex r inputs = None ->
  forall c, noncolliding c r inputs = true -> accepts r c = true ->
            forallb (fun s => accepts s c) inputs = true.
Proof. exact (sound_cex_complete r inputs). Qed.
Print Assumptions C05_decider_complete.

(* ---- the walker against an execution semantics (Model/Exec.v) ----
   For every wrapper  def w( *va, **vk ): <body>  whose body is a program of the
   grammar [stmt] (forwarding calls, rebinding, augmented assignment, deletion,
   item assignment, method calls on and hand-off of the star variables,
   aliasing, unrelated calls, two-way branches; any length, any nesting): *)

(* the walker's flags are exactly the abstract interpretation *)
Theorem C05_walker_is_absint va vk l :
  va <> vk -> block_ok va vk l = true ->
  visitor_flags va vk l = Some (snd (absint_block l (true, true))).
Proof. exact (visitor_flags_absint va vk l). Qed.
Print Assumptions C05_walker_is_absint.

(* on every execution path, at every call executed: a star argument marked as
   used is, when the callee receives it, the caller's untouched object; a star
   argument written in the call is marked used or hidden *)
Theorem C05_flag_sound va vk l fls :
  va <> vk -> block_ok va vk l = true ->
  visitor_flags va vk l = Some fls ->
  forall fuel st' evs e,
    In (st', evs) (exec_block fuel l 0 (mkSem true true)) -> In e evs ->
    (ev_site e < length fls)%nat /\ flag_sound (nth (ev_site e) fls dflags) e.
Proof. exact (flags_sound va vk l fls). Qed.
Print Assumptions C05_flag_sound.

(* the quantification over executions is not empty *)
Theorem C05_exec_total l st : exec_block (depth_block l) l 0 st <> [].
Proof. exact (exec_total l st). Qed.
Print Assumptions C05_exec_total.

(* outside that fragment the statement is false of the faithful walker model (the
   known finding C05:nested-scope-mutation): a mutation of **kwargs in a nested
   scope, run before the forwarding call, is processed only afterwards *)
Theorem C05_nested_refuted :
  exists fls st' evs e,
    visitor_flags 1 2 nested_witness = Some fls /\
    In (st', evs) (exec_block 1 nested_witness 0 (mkSem true true)) /\ In e evs /\
    ~ flag_sound (nth (ev_site e) fls dflags) e.
Proof. exact flags_sound_nested_refuted. Qed.
Print Assumptions C05_nested_refuted.
