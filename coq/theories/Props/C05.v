(* C05 — automatic discovery never reports a signature the function cannot honour
   (the part that is logic: the walker's flags and what discovery builds from them). *)
From Sigtools.Model Require Import Base Bind Algebra Visitor Discover.
From Sigtools.Proofs Require Import SmallModel Basics Discover.

(* use_varargs / use_varkwargs is emitted only when the star argument of the
   call IS the wrapper's own star-parameter marker (object identity) *)
Theorem C05_use_flag_identity found original :
  fst (has_hide found original) = true ->
  exists u n n', found = Some (MArg u n) /\ original = Some (MArg u n').
Proof. exact (use_flag_identity found original). Qed.
Print Assumptions C05_use_flag_identity.

(* a marker tainted by a method call on it is never handed out as pristine *)
Theorem C05_tainted_not_pristine st u n :
  existsb (Nat.eqb u) (v_taint st) = true -> get_untainted st (MArg u n) = MUnknown.
Proof. exact (get_untainted_tainted st u n). Qed.
Print Assumptions C05_tainted_not_pristine.

Theorem C05_pristine_not_tainted st m u n :
  get_untainted st m = MArg u n -> existsb (Nat.eqb u) (v_taint st) = false.
Proof. exact (untainted_arg_not_tainted st m u n). Qed.
Print Assumptions C05_pristine_not_tainted.

(* use and hide exclude each other; a star argument yields exactly one of them *)
Theorem C05_flags_exclusive found original :
  let '(u, h) := has_hide found original in
  (u && h = false) /\ (u || h = match found with Some _ => true | None => false end).
Proof. exact (flags_exclusive found original). Qed.
Print Assumptions C05_flags_exclusive.

(* whatever the walker found, the reported signature is the plain one or went
   through the validating constructor *)
Theorem C05_plain_or_wf own plain have_ast calls :
  discover own plain have_ast calls = plain \/
  validate (params (discover own plain have_ast calls)) = true.
Proof. exact (discover_total_wf own plain have_ast calls). Qed.
Print Assumptions C05_plain_or_wf.

(* soundness of a reported signature against its inputs is decided, for ALL
   calls, by the extracted decider used on the implementation's outputs *)
Theorem C05_decider_complete r inputs :
  sound_cex r inputs = None ->
  forall c, noncolliding c r inputs = true -> accepts r c = true ->
            forallb (fun s => accepts s c) inputs = true.
Proof. exact (sound_cex_complete r inputs). Qed.
Print Assumptions C05_decider_complete.
