From Sigtools.Model Require Import Eq.
From Sigtools.Proofs Require Import Eq.
From Coq Require Import Permutation.
Theorem C14_total : forall e a b, fok_s a -> fok_s b -> exists c, py_eq e a b = Val c. Proof. exact eq_total. Qed.
Print Assumptions C14_total.
Theorem C14_refl : forall e s, py_eq e (SObj s) (SObj s) = Val true. Proof. exact eq_refl_s. Qed.
Print Assumptions C14_refl.
Theorem C14_sym : forall e s b, fok_s b -> py_eq e (SObj s) b = py_eq e b (SObj s). Proof. exact eq_sym_s. Qed.
Print Assumptions C14_sym.
Theorem C14_plain : forall e i j d x, py_eq e (SObj (Upgraded i d x)) (SObj (Plain j d)) = Val true /\ py_eq e (SObj (Plain j d)) (SObj (Upgraded i d x)) = Val true. Proof. exact eq_plain. Qed.
Print Assumptions C14_plain.
Theorem C14_ne : forall e a b, py_ne e a b = ne_of_eq (py_eq e a b). Proof. exact ne_neg. Qed.
Print Assumptions C14_ne.
Theorem C14_param_total : forall e a b, fok_p a -> fok_p b -> exists c, ppy_eq e a b = Val c. Proof. exact peq_total. Qed.
Print Assumptions C14_param_total.
Theorem C14_param_refl : forall e p, ppy_eq e (PObj p) (PObj p) = Val true. Proof. exact peq_refl. Qed.
Print Assumptions C14_param_refl.
Theorem C14_param_sym : forall e p b, fok_p b -> ppy_eq e (PObj p) b = ppy_eq e b (PObj p). Proof. exact peq_sym. Qed.
Print Assumptions C14_param_sym.
Theorem C14_param_plain : forall e i j d x, ppy_eq e (PObj (PUpgraded i d x)) (PObj (PPlain j d)) = Val true /\ ppy_eq e (PObj (PPlain j d)) (PObj (PUpgraded i d x)) = Val true. Proof. exact peq_plain. Qed.
Print Assumptions C14_param_plain.
Theorem C14_param_ne : forall e a b, ppy_ne e a b = ne_of_eq (ppy_eq e a b). Proof. exact pne_neg. Qed.
Print Assumptions C14_param_ne.
Theorem C14_hashable : forall vh hn hk hv ht hf i j d x, hashable vh hn hk hv ht hf (Upgraded i d x) = hashable vh hn hk hv ht hf (Plain j d). Proof. exact hashable_as_plain. Qed.
Print Assumptions C14_hashable.
Theorem C14_hash_plain : forall vh hn hk hv ht hf i j d x, py_hash vh hn hk hv ht hf (Upgraded i d x) = py_hash vh hn hk hv ht hf (Plain j d). Proof. exact hash_as_plain. Qed.
Print Assumptions C14_hash_plain.
Theorem C14_hash : forall vh hn hk hv ht hf, (forall l l', Permutation l l' -> hf l = hf l') -> forall e a b, (sid a = sid b -> sd a = sd b) -> idc (s_params (sd a)) (s_params (sd b)) -> py_eq e (SObj a) (SObj b) = Val true -> py_hash vh hn hk hv ht hf a = py_hash vh hn hk hv ht hf b. Proof. exact eq_hash. Qed.
Print Assumptions C14_hash.
Theorem C14_param_hash : forall vh hn hk hv ht e a b, (pid a = pid b -> pd a = pd b) -> ppy_eq e (PObj a) (PObj b) = Val true -> p_hash vh hn hk hv ht a = p_hash vh hn hk hv ht b. Proof. exact peq_hash. Qed.
Print Assumptions C14_param_hash.
Theorem C14_replace_param : forall newid d x r p', uparam_replace newid d x r = Ok p' -> exists d' x', p' = PUpgraded newid d' x' /\ x_uann x' = dflt (r_uann r) (x_uann x) /\ x_srcs x' = dflt (r_srcs r) (x_srcs x) /\ x_deps x' = dflt (r_deps r) (x_deps x) /\ x_fn x' = dflt (r_fn r) (x_fn x) /\ d_name d' = dflt (r_name r) (d_name d) /\ d_kind d' = dflt (r_kind r) (d_kind d) /\ d_def d' = dflt (r_def r) (d_def d) /\ d_ann d' = dflt (r_ann r) (d_ann d). Proof. exact replace_param. Qed.
Print Assumptions C14_replace_param.
Theorem C14_replace : forall newid d x r s', usig_replace newid d x r = Ok s' -> exists d' x', s' = Upgraded newid d' x' /\ x_uret x' = dflt (r_uret r) (x_uret x) /\ (r_sources r = None -> x_ssrcs x' = x_ssrcs x /\ x_sdeps x' = x_sdeps x) /\ (forall m, r_sources r = Some m -> x_ssrcs x' = fst m /\ x_sdeps x' = snd m) /\ s_ret d' = dflt (r_ret r) (s_ret d) /\ (r_params r = None -> s_params d' = s_params d) /\ (forall ps, r_params r = Some ps -> map pd (s_params d') = map pd ps /\ Forall (fun p => p_is_upgraded p = true) (s_params d') /\ (forall p, p_is_upgraded p = true -> In p ps -> In p (s_params d'))) /\ validate (map to_param (s_params d')) = true. Proof. exact replace_sig. Qed.
Print Assumptions C14_replace.
Theorem C14_bind : forall i j d x c, sig_accepts (Upgraded i d x) c = sig_accepts (Plain j d) c. Proof. exact bind_as_plain. Qed.
Print Assumptions C14_bind.
Theorem C14_total_refuted_legacy : exists a b, fok_s a /\ fok_s b /\ py_eq_legacy e0 a b = Raise. Proof. exact total_refuted_legacy. Qed.
Print Assumptions C14_total_refuted_legacy.
Theorem C14_hashable_refuted_legacy : py_hash_with (fun _ => true) (fun _ => 0) (fun _ => 0) (fun _ => 0) (fun _ => 0) (fun _ => 0) usig_cls_legacy u0 = None /\ py_hash_with (fun _ => true) (fun _ => 0) (fun _ => 0) (fun _ => 0) (fun _ => 0) (fun _ => 0) usig_cls_legacy (Plain 2 (mkSD [] None)) <> None. Proof. exact hashable_refuted_legacy. Qed.
Print Assumptions C14_hashable_refuted_legacy.
Theorem C14_refl_refuted_pre_f8d05b6 : py_eq_with uann_eq_pre (usig_eq uann_eq_pre) e0 (SObj u1) (SObj u1) = Raise. Proof. exact refl_refuted_pre_f8d05b6. Qed.
Print Assumptions C14_refl_refuted_pre_f8d05b6.
