(* C06 — placeholder while the check is wired; replaced below in this session *)
From Sigtools.Model Require Import Base Bind Algebra Visitor Discover.
Theorem C06_placeholder : True. Proof. exact I. Qed.
Print Assumptions C06_placeholder.
