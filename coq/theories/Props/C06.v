(* C06 — automatic discovery agrees with the equivalent explicit declaration. *)
From Sigtools.Model Require Import Base Bind Algebra Visitor Discover Exec.
From Sigtools.Proofs Require Import SmallModel Basics Discover Exec.

(* the signatures forward_signatures collects are exactly forwards(wrapper,
   callee, n, *names, flags) of the calls that forward a star, in order *)
Theorem C06_forward_sigs_declared own calls sigs :
  forward_sigs own calls = Some sigs <->
  Forall2 (fun c r => declared own c = Some (Ok r)) (filter relevant calls) sigs.
Proof. exact (forward_sigs_declared own calls sigs). Qed.
Print Assumptions C06_forward_sigs_declared.

(* discovery fails (-> fallback) exactly when some star-forwarding call cannot
   be resolved, has no signature, or its declaration raises *)
Theorem C06_forward_sigs_fails own calls :
  forward_sigs own calls = None <->
  exists c, In c (filter relevant calls) /\ forall r, declared own c <> Some (Ok r).
Proof. exact (forward_sigs_fails own calls). Qed.
Print Assumptions C06_forward_sigs_fails.

(* the discovered signature is the merge of the declared ones, else the plain one *)
Theorem C06_discover_spec own plain have_ast calls :
  (exists sigs r,
      has_star own = true /\ have_ast = true /\ sigs <> [] /\
      Forall2 (fun c s => declared own c = Some (Ok s)) (filter relevant calls) sigs /\
      merge sigs = Ok r /\ discover own plain have_ast calls = r)
  \/ discover own plain have_ast calls = plain.
Proof. exact (discover_spec own plain have_ast calls). Qed.
Print Assumptions C06_discover_spec.

(* calls that forward neither star (decoys) do not change the outcome *)
Theorem C06_decoys_ignored own plain have_ast calls :
  discover own plain have_ast (filter relevant calls) = discover own plain have_ast calls.
Proof. exact (discover_decoys own plain have_ast calls). Qed.
Print Assumptions C06_decoys_ignored.

Theorem C06_flags found original :
  has_hide found original =
  match found with
  | None => (false, false)
  | Some m => if same_object m original then (true, false) else (false, true)
  end.
Proof. exact (has_hide_spec found original). Qed.
Print Assumptions C06_flags.

(* ---- invariance under semantically irrelevant variation, proved on the statement grammar of
   Model/Exec.v (any program, any position): an unrelated call, a read-only alias of the positional star,
   and moving statements under a branch leave every call's flags unchanged (Proofs/Exec.v) ---- *)
Theorem C06_unrelated_call_invariant va vk l1 l2 f :
  va <> vk -> block_ok va vk (l1 ++ l2) = true -> names_ok va vk (SOther f) = true ->
  exists f1 f2,
    visitor_flags va vk (l1 ++ l2) = Some (f1 ++ f2) /\
    visitor_flags va vk (l1 ++ SOther f :: l2) = Some (f1 ++ dflags :: f2) /\
    length f1 = ncalls_block l1.
Proof. exact (unrelated_call_invariant va vk l1 l2 f). Qed.
Print Assumptions C06_unrelated_call_invariant.

Theorem C06_alias_args_invariant va vk l1 l2 y :
  va <> vk -> block_ok va vk (l1 ++ l2) = true -> names_ok va vk (SAlias y SA) = true ->
  visitor_flags va vk (l1 ++ SAlias y SA :: l2) = visitor_flags va vk (l1 ++ l2).
Proof. exact (alias_args_invariant va vk l1 l2 y). Qed.
Print Assumptions C06_alias_args_invariant.

Theorem C06_branch_context_invariant va vk l1 a b l2 :
  va <> vk -> block_ok va vk (l1 ++ a ++ b ++ l2) = true ->
  visitor_flags va vk (l1 ++ SIf a b :: l2) = visitor_flags va vk (l1 ++ a ++ b ++ l2).
Proof. exact (branch_context_invariant va vk l1 a b l2). Qed.
Print Assumptions C06_branch_context_invariant.
