(* C06 — automatic discovery agrees with the equivalent explicit declaration. *)
From Sigtools.Model Require Import Base Bind Algebra Visitor Discover Exec.
From Sigtools.Proofs Require Import SmallModel Basics Discover Exec.

(* the signatures forward_signatures collects are exactly forwards(wrapper,
   callee, n, *names, flags) of the calls that forward a star, in order *)
Theorem C06_forward_sigs_declared own calls sigs :
  forward_sigs own calls = Some sigs <->
  Forall2 (fun c r => declared own c = Some (Ok r)) (filter relevant calls) sigs.
Proof. exact (forward_sigs_declared own calls sigs). Qed.
Print Assumptions C06_forward_sigs_declared.

(* discovery fails (-> fallback) exactly when some star-forwarding call cannot
   be resolved, has no signature, or its declaration raises *)
Theorem C06_forward_sigs_fails own calls :
  forward_sigs own calls = None <->
  exists c, In c (filter relevant calls) /\ forall r, declared own c <> Some (Ok r).
Proof. exact (forward_sigs_fails own calls). Qed.
Print Assumptions C06_forward_sigs_fails.

(* the discovered signature is the merge of the declared ones, else the plain one *)
Theorem C06_discover_spec own plain have_ast calls :
  (exists sigs r,
      has_star own = true /\ have_ast = true /\ sigs <> [] /\
      Forall2 (fun c s => declared own c = Some (Ok s)) (filter relevant calls) sigs /\
      merge sigs = Ok r /\ discover own plain have_ast calls = r)
  \/ discover own plain have_ast calls = plain.
Proof. exact (discover_spec own plain have_ast calls). Qed.
Print Assumptions C06_discover_spec.

(* calls that forward neither star (decoys) do not change the outcome *)
Theorem C06_decoys_ignored own plain have_ast calls :
  discover own plain have_ast (filter relevant calls) = discover own plain have_ast calls.
Proof. exact (discover_decoys own plain have_ast calls). Qed.
Print Assumptions C06_decoys_ignored.

Theorem C06_flags found original :
  has_hide found original =
  match found with
  | None => (false, false)
  | Some m => if same_object m original then (true, false) else (false, true)
  end.
Proof. exact (has_hide_spec found original). Qed.
Print Assumptions C06_flags.

(* ---- invariance under semantically irrelevant variation, proved on the statement grammar of
   Model/Exec.v (any program, any position): an unrelated call, a read-only alias of the positional star,
   and moving statements under a branch leave every call's flags unchanged (Proofs/Exec.v) ---- *)
Theorem C06_unrelated_call_invariant va vk l1 l2 f :
  va <> vk -> block_ok va vk (l1 ++ l2) = true -> names_ok va vk (SOther f) = true ->
  exists f1 f2,
    visitor_flags va vk (l1 ++ l2) = Some (f1 ++ f2) /\
    visitor_flags va vk (l1 ++ SOther f :: l2) = Some (f1 ++ dflags :: f2) /\
    length f1 = ncalls_block l1.
Proof. exact (unrelated_call_invariant va vk l1 l2 f). Qed.
Print Assumptions C06_unrelated_call_invariant.

Theorem C06_alias_args_invariant va vk l1 l2 y :
  va <> vk -> block_ok va vk (l1 ++ l2) = true -> names_ok va vk (SAlias y SA) = true ->
  visitor_flags va vk (l1 ++ SAlias y SA :: l2) = visitor_flags va vk (l1 ++ l2).
Proof. exact (alias_args_invariant va vk l1 l2 y). Qed.
Print Assumptions C06_alias_args_invariant.

Theorem C06_branch_context_invariant va vk l1 a b l2 :
  va <> vk -> block_ok va vk (l1 ++ a ++ b ++ l2) = true ->
  visitor_flags va vk (l1 ++ SIf a b :: l2) = visitor_flags va vk (l1 ++ a ++ b ++ l2).
Proof. exact (branch_context_invariant va vk l1 a b l2). Qed.
Print Assumptions C06_branch_context_invariant.

(* ---- invariance under irrelevant variation: nested grammar (flags), and lifted to the DISCOVERED SIGNATURE at any position incl. inside branches (Proofs/InvarianceNested.v, WalkRel.v, InvarianceDiscover.v, InvarianceNestedDiscover.v) ---- *)
From Sigtools.Model Require Import ExecNested.
From Sigtools.Proofs Require Import InvarianceNested.
Theorem C06_nested_unrelated_invariant : forall (va vk : N) (l1 l2 : list nstmt) (x : nstmt), va <> vk -> nblock_ok va vk (l1 ++ l2) = true -> nnames_ok va vk x = true -> unrelated_n x = true -> exists fm1 fm2 fd1 fd2 : list flags, visitor_flags_n va vk (l1 ++ l2) = Some ((fm1 ++ fm2) ++ fd1 ++ fd2) /\ visitor_flags_n va vk (l1 ++ x :: l2) = Some ((fm1 ++ repeat dflags (mcalls x) ++ fm2) ++ fd1 ++ repeat dflags (dcalls x) ++ fd2) /\ length fm1 = mcalls_block l1 /\ length fm2 = mcalls_block l2 /\ length fd1 = length (deferred l1) /\ length fd2 = length (deferred l2) /\ fst (absint_n (l1 ++ x :: l2) (true, true)) = fst (absint_n (l1 ++ l2) (true, true)).
Proof. exact @InvarianceNested.nested_unrelated_invariant. Qed.
Print Assumptions C06_nested_unrelated_invariant.

Theorem C06_nested_insert_any : forall (va vk : N) (l1 l2 : list nstmt) (x : nstmt), va <> vk -> nblock_ok va vk (l1 ++ l2) = true -> nnames_ok va vk x = true -> transparent_n x = true -> exists (fm1 fm2 fd1 fd2 : list flags) (kF : bool * bool), visitor_flags_n va vk (l1 ++ l2) = Some ((fm1 ++ fm2) ++ fd1 ++ fd2) /\ visitor_flags_n va vk (l1 ++ x :: l2) = Some ((fm1 ++ repeat dflags (mcalls x) ++ fm2) ++ fd1 ++ map (nflags kF) (deferred1 x) ++ fd2) /\ length fm1 = mcalls_block l1 /\ length fm2 = mcalls_block l2 /\ length fd1 = length (deferred l1) /\ length fd2 = length (deferred l2) /\ fst (absint_n (l1 ++ l2) (true, true)) = kF /\ fst (absint_n (l1 ++ x :: l2) (true, true)) = kF.
Proof. exact @InvarianceNested.nested_insert_any. Qed.
Print Assumptions C06_nested_insert_any.

Theorem C06_move_to_lambda_gen : forall (va vk : N) (l1 l2 : list nstmt) (c : N) (n : nat) (kw : list N) (pa pk : bool), va <> vk -> nblock_ok va vk (l1 ++ l2) = true -> name_ok va vk c = true -> exists (fm1 fm2 fd1 fd2 : list flags) (k1 kF : bool * bool), visitor_flags_n va vk (l1 ++ NLeaf (SFwd c n kw pa pk) :: l2) = Some ((fm1 ++ nflags k1 (NCFwd c n kw pa pk) :: fm2) ++ fd1 ++ fd2) /\ visitor_flags_n va vk (l1 ++ NLam (NCFwd c n kw pa pk) :: l2) = Some ((fm1 ++ dflags :: fm2) ++ fd1 ++ nflags kF (NCFwd c n kw pa pk) :: fd2) /\ length fm1 = mcalls_block l1 /\ length fm2 = mcalls_block l2 /\ length fd1 = length (deferred l1) /\ length fd2 = length (deferred l2) /\ k1 = fst (absint_n l1 (true, true)) /\ kF = fst (absint_n l2 k1) /\ fst (absint_n (l1 ++ NLeaf (SFwd c n kw pa pk) :: l2) (true, true)) = kF /\ fst (absint_n (l1 ++ NLam (NCFwd c n kw pa pk) :: l2) (true, true)) = kF.
Proof. exact @InvarianceNested.move_to_lambda_gen. Qed.
Print Assumptions C06_move_to_lambda_gen.

Theorem C06_move_to_lambda_invariant : forall (va vk : N) (l1 l2 : list nstmt) (c : N) (n : nat) (kw : list N) (pa pk : bool), va <> vk -> nblock_ok va vk (l1 ++ l2) = true -> name_ok va vk c = true -> fst (absint_n (l1 ++ l2) (true, true)) = (true, true) -> exists fm1 fm2 fd1 fd2 : list (bool * bool * bool * bool), visitor_flags_n va vk (l1 ++ NLeaf (SFwd c n kw pa pk) :: l2) = Some ((fm1 ++ (pa, pk, false, false) :: fm2) ++ fd1 ++ fd2) /\ visitor_flags_n va vk (l1 ++ NLam (NCFwd c n kw pa pk) :: l2) = Some ((fm1 ++ dflags :: fm2) ++ fd1 ++ (pa, pk, false, false) :: fd2) /\ length fm1 = mcalls_block l1 /\ length fm2 = mcalls_block l2 /\ length fd1 = length (deferred l1) /\ length fd2 = length (deferred l2) /\ Permutation.Permutation (dflags :: (fm1 ++ (pa, pk, false, false) :: fm2) ++ fd1 ++ fd2) ((fm1 ++ dflags :: fm2) ++ fd1 ++ (pa, pk, false, false) :: fd2).
Proof. exact @InvarianceNested.move_to_lambda_invariant. Qed.
Print Assumptions C06_move_to_lambda_invariant.

Theorem C06_move_to_lambda_unrestricted_refuted : exists (va vk : N) (l1 l2 : list nstmt) (c : N) (n : nat) (kw : list N) (pa pk : bool) (f1 f2 : list flags), va <> vk /\ nblock_ok va vk (l1 ++ l2) = true /\ name_ok va vk c = true /\ visitor_flags_n va vk (l1 ++ NLeaf (SFwd c n kw pa pk) :: l2) = Some f1 /\ visitor_flags_n va vk (l1 ++ NLam (NCFwd c n kw pa pk) :: l2) = Some f2 /\ In (true, true, false, false) f1 /\ ~ In (true, true, false, false) f2.
Proof. exact @InvarianceNested.move_to_lambda_unrestricted_refuted. Qed.
Print Assumptions C06_move_to_lambda_unrestricted_refuted.

From Sigtools.Proofs Require Import InvarianceDiscover.
Theorem C06_walker_records_insert_neutral : forall va vk : N, va <> vk -> forall (l1 : list stmt) (x : stmt) (l2 : list stmt), block_ok va vk (l1 ++ l2) = true -> names_ok va vk x = true -> neutral x = true -> exists (r1 r2 : list callrec) (c : callrec), visit_function [] [] (Some va) (Some vk) (compile_block va vk (l1 ++ l2)) = Some (r1 ++ r2) /\ visit_function [] [] (Some va) (Some vk) (compile_block va vk (l1 ++ x :: l2)) = Some (r1 ++ c :: r2) /\ fl c = dflags /\ length r1 = ncalls_block l1.
Proof. exact @InvarianceDiscover.walker_records_insert_neutral. Qed.
Print Assumptions C06_walker_records_insert_neutral.

Theorem C06_discover_neutral_anywhere : forall va vk : N, va <> vk -> forall (res : callrec -> resolved) (own plain : sigT) (have_ast : bool) (c : bctx) (ins : list stmt), block_ok va vk (plug c []) = true -> block_ok va vk ins = true -> forallb neutral ins = true -> discovered va vk res own plain have_ast (plug c ins) = discovered va vk res own plain have_ast (plug c []).
Proof. exact @InvarianceDiscover.discover_neutral_anywhere. Qed.
Print Assumptions C06_discover_neutral_anywhere.

Theorem C06_discover_unrelated_call_anywhere : forall va vk : N, va <> vk -> forall (res : callrec -> resolved) (own plain : sigT) (have_ast : bool) (c : bctx) (f : N), block_ok va vk (plug c []) = true -> names_ok va vk (SOther f) = true -> discovered va vk res own plain have_ast (plug c [SOther f]) = discovered va vk res own plain have_ast (plug c []).
Proof. exact @InvarianceDiscover.discover_unrelated_call_anywhere. Qed.
Print Assumptions C06_discover_unrelated_call_anywhere.

Theorem C06_discover_pass_args_anywhere : forall va vk : N, va <> vk -> forall (res : callrec -> resolved) (own plain : sigT) (have_ast : bool) (c : bctx) (f : N), block_ok va vk (plug c []) = true -> names_ok va vk (SPass f SA) = true -> discovered va vk res own plain have_ast (plug c [SPass f SA]) = discovered va vk res own plain have_ast (plug c []).
Proof. exact @InvarianceDiscover.discover_pass_args_anywhere. Qed.
Print Assumptions C06_discover_pass_args_anywhere.

Theorem C06_walker_branch_anywhere : forall va vk : N, va <> vk -> forall (c : bctx) (a b : list stmt), block_ok va vk (plug c (a ++ b)) = true -> visit_function [] [] (Some va) (Some vk) (compile_block va vk (plug c [SIf a b])) = visit_function [] [] (Some va) (Some vk) (compile_block va vk (plug c (a ++ b))).
Proof. exact @InvarianceDiscover.walker_branch_anywhere. Qed.
Print Assumptions C06_walker_branch_anywhere.

Theorem C06_discover_branch_anywhere : forall va vk : N, va <> vk -> forall (res : callrec -> resolved) (own plain : sigT) (have_ast : bool) (c : bctx) (a b : list stmt), block_ok va vk (plug c (a ++ b)) = true -> discovered va vk res own plain have_ast (plug c [SIf a b]) = discovered va vk res own plain have_ast (plug c (a ++ b)).
Proof. exact @InvarianceDiscover.discover_branch_anywhere. Qed.
Print Assumptions C06_discover_branch_anywhere.

Theorem C06_discover_branch_neutral_arm_anywhere : forall va vk : N, va <> vk -> forall (res : callrec -> resolved) (own plain : sigT) (have_ast : bool) (c : bctx) (a b : list stmt), block_ok va vk (plug c a) = true -> block_ok va vk b = true -> forallb neutral b = true -> discovered va vk res own plain have_ast (plug c [SIf a b]) = discovered va vk res own plain have_ast (plug c a) /\ discovered va vk res own plain have_ast (plug c [SIf b a]) = discovered va vk res own plain have_ast (plug c a).
Proof. exact @InvarianceDiscover.discover_branch_neutral_arm_anywhere. Qed.
Print Assumptions C06_discover_branch_neutral_arm_anywhere.

Theorem C06_discover_neutral_env : forall (va vk : N) (c : bctx) (ins : list stmt) (env : N -> sigT) (own plain : sigT) (have_ast : bool) (recs recs' : list callrec), va <> vk -> block_ok va vk (plug c []) = true -> block_ok va vk ins = true -> forallb neutral ins = true -> visit_function [] [] (Some va) (Some vk) (compile_block va vk (plug c [])) = Some recs -> visit_function [] [] (Some va) (Some vk) (compile_block va vk (plug c ins)) = Some recs' -> discover own plain have_ast (DiscoverSound.calls_of env recs') = discover own plain have_ast (DiscoverSound.calls_of env recs).
Proof. exact @InvarianceDiscover.C06_discover_neutral_env. Qed.
Print Assumptions C06_discover_neutral_env.

Theorem C06_discover_branch_env : forall (va vk : N) (c : bctx) (a b : list stmt) (env : N -> sigT) (own plain : sigT) (have_ast : bool) (recs recs' : list callrec), va <> vk -> block_ok va vk (plug c (a ++ b)) = true -> visit_function [] [] (Some va) (Some vk) (compile_block va vk (plug c (a ++ b))) = Some recs -> visit_function [] [] (Some va) (Some vk) (compile_block va vk (plug c [SIf a b])) = Some recs' -> recs' = recs /\ discover own plain have_ast (DiscoverSound.calls_of env recs') = discover own plain have_ast (DiscoverSound.calls_of env recs).
Proof. exact @InvarianceDiscover.C06_discover_branch_env. Qed.
Print Assumptions C06_discover_branch_env.

Theorem C06_discover_pass_kwargs_refuted : exists (va vk : N) (l1 l2 : list stmt) (f : N) (env : N -> sigT), va <> vk /\ block_ok va vk (l1 ++ l2) = true /\ names_ok va vk (SPass f SK) = true /\ (forall x : N, valid_sig (params (env x)) = true) /\ discovered va vk (DiscoverSound.resolve env) (DiscoverSound.own_sig va vk) plain0 true (l1 ++ SPass f SK :: l2) <> discovered va vk (DiscoverSound.resolve env) (DiscoverSound.own_sig va vk) plain0 true (l1 ++ l2).
Proof. exact @InvarianceDiscover.discover_pass_kwargs_refuted. Qed.
Print Assumptions C06_discover_pass_kwargs_refuted.

Theorem C06_discover_alias_refuted : exists (va vk : N) (l1 l2 : list stmt) (y : N) (env : N -> sigT), va <> vk /\ block_ok va vk (l1 ++ l2) = true /\ names_ok va vk (SAlias y SA) = true /\ (forall x : N, valid_sig (params (env x)) = true) /\ visitor_flags va vk (l1 ++ SAlias y SA :: l2) = visitor_flags va vk (l1 ++ l2) /\ discovered va vk (DiscoverSound.resolve env) (DiscoverSound.own_sig va vk) plain0 true (l1 ++ SAlias y SA :: l2) <> discovered va vk (DiscoverSound.resolve env) (DiscoverSound.own_sig va vk) plain0 true (l1 ++ l2).
Proof. exact @InvarianceDiscover.discover_alias_refuted. Qed.
Print Assumptions C06_discover_alias_refuted.

From Sigtools.Proofs Require Import InvarianceNestedDiscover.
Theorem C06_walker_records_nested : forall va vk : N, va <> vk -> forall l : list nstmt, nblock_ok va vk l = true -> exists (nmF : list (N * marker)) (imF : list N) (tnF : list nat) (csF : list callrec), VisitorTotal.walk_list (mains va vk l) (InvarianceDiscover.st0 va vk) = mst va vk nmF imF csF tnF 2 false /\ Good va vk nmF imF tnF (fst (absint_n l (true, true))) /\ visit_function [] [] (Some va) (Some vk) (compile_nblock va vk l) = Some (csF ++ map (drec va vk nmF tnF) (deferred l)).
Proof. exact @InvarianceNestedDiscover.walker_records_nested. Qed.
Print Assumptions C06_walker_records_nested.

Theorem C06_walker_records_nested_unrelated : forall va vk : N, va <> vk -> forall (l1 l2 : list nstmt) (x : nstmt), nblock_ok va vk (l1 ++ l2) = true -> nnames_ok va vk x = true -> unrelated_d x = true -> exists rm1 rm2 rd1 rd2 cx dx : list callrec, visit_function [] [] (Some va) (Some vk) (compile_nblock va vk (l1 ++ l2)) = Some ((rm1 ++ rm2) ++ rd1 ++ rd2) /\ visit_function [] [] (Some va) (Some vk) (compile_nblock va vk (l1 ++ x :: l2)) = Some ((rm1 ++ cx ++ rm2) ++ rd1 ++ dx ++ rd2) /\ Forall (fun c : callrec => fl c = dflags) cx /\ Forall (fun c : callrec => fl c = dflags) dx /\ length cx = mcalls x /\ length dx = dcalls x /\ length rd1 = length (deferred l1) /\ length rd2 = length (deferred l2).
Proof. exact @InvarianceNestedDiscover.walker_records_nested_unrelated. Qed.
Print Assumptions C06_walker_records_nested_unrelated.

Theorem C06_discover_nested_unrelated : forall (va vk : N) (res : callrec -> resolved) (own plain : sigT) (have_ast : bool) (l1 l2 : list nstmt) (x : nstmt), va <> vk -> nblock_ok va vk (l1 ++ l2) = true -> nnames_ok va vk x = true -> unrelated_d x = true -> discovered_n va vk res own plain have_ast (l1 ++ x :: l2) = discovered_n va vk res own plain have_ast (l1 ++ l2).
Proof. exact @InvarianceNestedDiscover.discover_nested_unrelated. Qed.
Print Assumptions C06_discover_nested_unrelated.

Theorem C06_discover_nested_unrelated_env : forall (va vk : N) (env : N -> sigT) (own plain : sigT) (have_ast : bool) (l1 l2 : list nstmt) (x : nstmt) (recs recs' : list callrec), va <> vk -> nblock_ok va vk (l1 ++ l2) = true -> nnames_ok va vk x = true -> unrelated_d x = true -> visit_function [] [] (Some va) (Some vk) (compile_nblock va vk (l1 ++ l2)) = Some recs -> visit_function [] [] (Some va) (Some vk) (compile_nblock va vk (l1 ++ x :: l2)) = Some recs' -> discover own plain have_ast (DiscoverSound.calls_of env recs') = discover own plain have_ast (DiscoverSound.calls_of env recs).
Proof. exact @InvarianceNestedDiscover.C06_discover_nested_unrelated_env. Qed.
Print Assumptions C06_discover_nested_unrelated_env.

Theorem C06_move_to_lambda_discover_refuted : exists (va vk : N) (l1 l2 : list nstmt) (c : N) (n : nat) (kw : list N) (pa pk : bool) (env : N -> sigT), va <> vk /\ nblock_ok va vk (l1 ++ l2) = true /\ name_ok va vk c = true /\ fst (absint_n (l1 ++ l2) (true, true)) = (true, true) /\ (forall x : N, valid_sig (params (env x)) = true) /\ discovered_n va vk (DiscoverSound.resolve env) (DiscoverSound.own_sig va vk) InvarianceDiscover.plain0 true (l1 ++ NLam (NCFwd c n kw pa pk) :: l2) <> discovered_n va vk (DiscoverSound.resolve env) (DiscoverSound.own_sig va vk) InvarianceDiscover.plain0 true (l1 ++ NLeaf (SFwd c n kw pa pk) :: l2).
Proof. exact @InvarianceNestedDiscover.move_to_lambda_discover_refuted. Qed.
Print Assumptions C06_move_to_lambda_discover_refuted.

