From Sigtools.Model Require Import Base Bind Algebra.
Theorem C08_placeholder : True. Proof. exact I. Qed.
Print Assumptions C08_placeholder.
