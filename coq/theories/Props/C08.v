(* C08 — parameter provenance is complete, truthful and depth-ordered. *)
From Sigtools.Model Require Import Base Bind Roles Algebra.
From Sigtools.Proofs Require Import Prov ProvKeys ProvNoDup Contrib ContribEmbed ProvNoDupOps ContribMore ProvDepths.

(* merge_depths keeps, for every callable, the smallest depth listed on either side *)
Theorem C08_depths_min l r f :
  dep_get (merge_depths l r) f = opt_min (dep_get l f) (rmin r f).
Proof. exact (merge_depths_get l r f). Qed.
Print Assumptions C08_depths_min.

Theorem C08_depths_defined l r f :
  dep_get l f <> None \/ rmin r f <> None -> dep_get (merge_depths l r) f <> None.
Proof. exact (merge_depths_defined l r f). Qed.
Print Assumptions C08_depths_defined.

(* embedding at step k > 0 puts every callable of the inner signature strictly deeper *)
Theorem C08_depth_increase k d f v :
  (0 < k)%N -> dep_get d f = Some v ->
  exists v', dep_get (dep_incr k d) f = Some v' /\ (v < v')%N.
Proof. exact (embed_depth_increase k d f v). Qed.
Print Assumptions C08_depth_increase.

(* a removed parameter keeps no provenance entry *)
Theorem C08_removed_has_no_entry m ks k :
  src_mem (src_pop_all m ks) k = src_mem m k && negb (mem k ks).
Proof. exact (src_pop_all_mem m ks k). Qed.
Print Assumptions C08_removed_has_no_entry.

(* _add_sources appends: the provenance list of a merged parameter is the
   concatenation of the operands' lists, nothing else changes *)
Theorem C08_add_sources m k vs k' :
  src_get (src_add m k vs) k' = if N.eqb k' k then src_get m k ++ vs else src_get m k'.
Proof. exact (src_get_add m k vs k'). Qed.
Print Assumptions C08_add_sources.

(* ---- provenance of whole operations, all inputs (Proofs/ProvKeys.v, ProvNoDup.v, Contrib.v): exactly one
   non-empty entry per parameter and nothing else, every listed callable comes from an input, exactness
   for consistently named inputs; the two cases where the statement is false of the faithful model are
   refutations and reproduce on the implementation (see known_findings.json) ---- *)
Theorem C08_merge_src_ok : forall (s0 s1 : sigT) (ss : list sigT) (r : sigT), merge (s0 :: s1 :: ss) = Ok r -> Forall src_ok (s0 :: s1 :: ss) -> src_ok r.
Proof. exact @ProvKeys.merge_src_ok. Qed.
Print Assumptions C08_merge_src_ok.

Theorem C08_merge_src_ok_weak : forall (s0 s1 : sigT) (ss : list sigT) (r : sigT), Forall src_nonempty (s0 :: s1 :: ss) -> merge (s0 :: s1 :: ss) = Ok r -> src_ok r.
Proof. exact @ProvKeys.merge_src_ok_weak. Qed.
Print Assumptions C08_merge_src_ok_weak.

Theorem C08_merge_truthful : forall (ss : list sigT) (r : sigT) (x : name) (f : N), merge ss = Ok r -> In f (src_get (srcs r) x) -> exists s : sigT, In s ss /\ In f (src_get (srcs s) x).
Proof. exact @ProvKeys.merge_truthful. Qed.
Print Assumptions C08_merge_truthful.

Theorem C08_embed2_src_ok : forall (o i : sigT) (uva uvk : bool) (r : sigT), embed [o; i] uva uvk = Ok r -> valid_sig (params o) = true -> src_ok o -> src_nonempty i -> src_ok r.
Proof. exact @ProvKeys.embed2_src_ok. Qed.
Print Assumptions C08_embed2_src_ok.

Theorem C08_embed2_truthful : forall (o i : sigT) (uva uvk : bool) (r : sigT) (x : name) (f : N), embed [o; i] uva uvk = Ok r -> valid_sig (params o) = true -> src_ok o -> In f (src_get (srcs r) x) -> In f (src_get (srcs o) x) \/ In f (src_get (srcs i) x).
Proof. exact @ProvKeys.embed2_truthful. Qed.
Print Assumptions C08_embed2_truthful.

Theorem C08_embed_src_ok : forall (s0 : sigT) (ss : list sigT) (uva uvk : bool) (r : sigT), embed (s0 :: ss) uva uvk = Ok r -> valid_sig (params s0) = true -> stars_apart (s0 :: ss) = true -> src_ok s0 -> Forall src_nonempty ss -> src_ok r.
Proof. exact @ProvKeys.embed_src_ok. Qed.
Print Assumptions C08_embed_src_ok.

Theorem C08_mask_src_ok : forall (s : sigT) (n : nat) (names0 : list name) (h : hideflags) (r : sigT), mask s n names0 h = Ok r -> valid_sig (params s) = true -> src_ok s -> src_ok r.
Proof. exact @ProvKeys.mask_src_ok. Qed.
Print Assumptions C08_mask_src_ok.

Theorem C08_forwards_src_ok : forall (o i : sigT) (n : nat) (names0 : list name) (ha hk uva uvk pt : bool) (r : sigT), forwards o i n names0 ha hk uva uvk pt = Ok r -> valid_sig (params o) = true -> src_ok o -> valid_sig (params i) = true -> src_ok i -> src_ok r.
Proof. exact @ProvKeys.forwards_src_ok. Qed.
Print Assumptions C08_forwards_src_ok.

Theorem C08_sig_partial_src_ok : forall (s : sigT) (n : nat) (kw : list (name * N)) (pobj : N) (r : sigT), sig_partial s n kw pobj = Ok r -> valid_sig (params s) = true -> src_ok s -> src_ok r.
Proof. exact @ProvKeys.sig_partial_src_ok. Qed.
Print Assumptions C08_sig_partial_src_ok.

Theorem C08_mask_gen_src_ok : forall (s : sigT) (n : nat) (h : hideflags) (named0 : list (name * N)) (pm : pmode) (r : sigT), mask_gen s n h named0 pm = Ok r -> valid_sig (params s) = true -> src_ok s -> (pm <> None -> h_kwargs h || h_varkwargs h = false) -> src_ok r.
Proof. exact @ProvKeys.mask_gen_src_ok. Qed.
Print Assumptions C08_mask_gen_src_ok.

Theorem C08_default_sources_ok : forall (f : N) (ps : list param) (rt : option N) (ur : uann) (d : depths), NoDup (names_of ps) -> src_ok {| params := ps; ret := rt; uret := ur; srcs := map (fun p : param => (pname p, [f])) ps; deps := d |}.
Proof. exact @ProvKeys.default_sources_ok. Qed.
Print Assumptions C08_default_sources_ok.

Theorem C08_embed_src_ok_refuted : exists s0 s1 s2 r : sigT, valid_sig (params s0) = true /\ valid_sig (params s1) = true /\ valid_sig (params s2) = true /\ src_ok s0 /\ src_ok s1 /\ src_ok s2 /\ embed [s0; s1; s2] true true = Ok r /\ src_mem (srcs r) 1 = false /\ mem 1 (names_of (params r)) = true /\ ~ src_ok r.
Proof. exact @ProvKeys.embed_src_ok_refuted. Qed.
Print Assumptions C08_embed_src_ok_refuted.

(* formerly C08_sig_partial_keys_refuted: partial(f, args=7, a=7) for f(a, *args, **kw) keeps the entry of
   the new keyword-only `args` since the repair of _mask *)
Theorem C08_sig_partial_star_named_keyword : exists r : sigT, sig_partial (dsig 100 [bp 1 PK; bp 9 VP; bp 10 VK]) 0 [(9, 7); (1, 7)] 200 = Ok r /\ names_of (params r) = [9; 1; 10] /\ map pkind (params r) = [KO; KO; VK] /\ srcs r = [(1, [100]); (9, [200]); (10, [100])] /\ src_ok r.
Proof. exact @ProvKeys.sig_partial_star_named_keyword. Qed.
Print Assumptions C08_sig_partial_star_named_keyword.

Theorem C08_merge_nodup_refuted : exists a b r : sigT, src_ok a /\ src_ok b /\ (forall x : name, NoDup (src_get (srcs a) x)) /\ (forall x : name, NoDup (src_get (srcs b) x)) /\ merge [a; b] = Ok r /\ src_get (srcs r) 1 = [100; 100].
Proof. exact @ProvKeys.merge_nodup_refuted. Qed.
Print Assumptions C08_merge_nodup_refuted.

Theorem C08_merge2_src_shape : forall (a b r : sigT) (x : name), merge [a; b] = Ok r -> valid_sig (params a) = true -> valid_sig (params b) = true -> src_get (srcs r) x = [] \/ src_get (srcs r) x = src_get (srcs a) x \/ src_get (srcs r) x = src_get (srcs b) x \/ src_get (srcs r) x = src_get (srcs a) x ++ src_get (srcs b) x \/ src_get (srcs r) x = src_get (srcs b) x ++ src_get (srcs a) x.
Proof. exact @ProvNoDup.merge2_src_shape. Qed.
Print Assumptions C08_merge2_src_shape.

Theorem C08_merge2_nodup_partial : forall (a b r : sigT) (x : name), merge [a; b] = Ok r -> valid_sig (params a) = true -> valid_sig (params b) = true -> NoDup (src_get (srcs a) x) -> NoDup (src_get (srcs b) x) -> (forall f : N, In f (src_get (srcs a) x) -> ~ In f (src_get (srcs b) x)) -> NoDup (src_get (srcs r) x).
Proof. exact @ProvNoDup.merge2_nodup_partial. Qed.
Print Assumptions C08_merge2_nodup_partial.

Theorem C08_merge2_src_exact : forall a b : sigT, valid_sig (params a) = true -> valid_sig (params b) = true -> name_aligned (params a) (params b) = true -> role_consistent [params a; params b] = true -> forall (r : sigT) (p : param) (f : N), merge [a; b] = Ok r -> ProvKeys.src_ok a -> ProvKeys.src_ok b -> In p (params r) -> is_named p = true -> In f (src_get (srcs r) (pname p)) <-> In f (src_get (srcs a) (pname p)) \/ In f (src_get (srcs b) (pname p)).
Proof. exact @Contrib.merge2_src_exact. Qed.
Print Assumptions C08_merge2_src_exact.


(* ---- list shapes, duplicate-freedom and exactness for mask / partial / embed / forwards and the n-ary merge
   (Proofs/ProvNoDupOps.v) ---- *)
Theorem C08_mask_gen_src_shape : forall (s : sigT) (n : nat) (h : hideflags) (named : list (name * N)) (pm : pmode) (r : sigT) (x : name), mask_gen s n h named pm = Ok r -> src_get (srcs r) x = src_get (srcs s) x \/ src_get (srcs r) x = [] \/ (exists pobj : N, pm = Some pobj /\ src_get (srcs r) x = [pobj]).
Proof. exact @ProvNoDupOps.mask_gen_src_shape. Qed.
Print Assumptions C08_mask_gen_src_shape.

Theorem C08_mask_nodup : forall (s : sigT) (n : nat) (names0 : list name) (h : hideflags) (r : sigT) (x : name), mask s n names0 h = Ok r -> NoDup (src_get (srcs s) x) -> NoDup (src_get (srcs r) x).
Proof. exact @ProvNoDupOps.mask_nodup. Qed.
Print Assumptions C08_mask_nodup.

Theorem C08_sig_partial_nodup : forall (s : sigT) (n : nat) (kw : list (name * N)) (pobj : N) (r : sigT) (x : name), sig_partial s n kw pobj = Ok r -> NoDup (src_get (srcs s) x) -> NoDup (src_get (srcs r) x).
Proof. exact @ProvNoDupOps.sig_partial_nodup. Qed.
Print Assumptions C08_sig_partial_nodup.

Theorem C08_embed2_src_shape : forall (o i : sigT) (uva uvk : bool) (r : sigT) (x : name), embed [o; i] uva uvk = Ok r -> valid_sig (params o) = true -> ProvKeys.src_ok o -> valid_sig (params i) = true -> src_get (srcs r) x = src_get (srcs o) x \/ src_get (srcs r) x = src_get (srcs i) x \/ src_get (srcs r) x = [].
Proof. exact @ProvNoDupOps.embed2_src_shape. Qed.
Print Assumptions C08_embed2_src_shape.

Theorem C08_embed2_nodup : forall (o i : sigT) (uva uvk : bool) (r : sigT) (x : name), embed [o; i] uva uvk = Ok r -> valid_sig (params o) = true -> ProvKeys.src_ok o -> valid_sig (params i) = true -> NoDup (src_get (srcs o) x) -> NoDup (src_get (srcs i) x) -> NoDup (src_get (srcs r) x).
Proof. exact @ProvNoDupOps.embed2_nodup. Qed.
Print Assumptions C08_embed2_nodup.

Theorem C08_forwards_src_shape : forall (o i : sigT) (n : nat) (names0 : list name) (ha hk uva uvk pt : bool) (r : sigT) (x : name), forwards o i n names0 ha hk uva uvk pt = Ok r -> valid_sig (params o) = true -> ProvKeys.src_ok o -> src_get (srcs r) x = src_get (srcs o) x \/ src_get (srcs r) x = src_get (srcs i) x \/ src_get (srcs r) x = [].
Proof. exact @ProvNoDupOps.forwards_src_shape. Qed.
Print Assumptions C08_forwards_src_shape.

Theorem C08_forwards_nodup : forall (o i : sigT) (n : nat) (names0 : list name) (ha hk uva uvk pt : bool) (r : sigT) (x : name), forwards o i n names0 ha hk uva uvk pt = Ok r -> valid_sig (params o) = true -> ProvKeys.src_ok o -> NoDup (src_get (srcs o) x) -> NoDup (src_get (srcs i) x) -> NoDup (src_get (srcs r) x).
Proof. exact @ProvNoDupOps.forwards_nodup. Qed.
Print Assumptions C08_forwards_nodup.

Theorem C08_embed2_src_exact : forall (o i : sigT) (uva uvk : bool) (r : sigT) (p : param) (f : N), embed [o; i] uva uvk = Ok r -> valid_sig (params o) = true -> ProvKeys.src_ok o -> ProvKeys.src_ok i -> names_apart (params o) (params i) = true -> In p (params r) -> is_named p = true -> In f (src_get (srcs r) (pname p)) <-> In f (src_get (srcs o) (pname p)) \/ In f (src_get (srcs i) (pname p)).
Proof. exact @ProvNoDupOps.embed2_src_exact. Qed.
Print Assumptions C08_embed2_src_exact.

Theorem C08_forwards_src_exact : forall (o i : sigT) (n : nat) (names0 : list name) (ha hk uva uvk pt : bool) (r : sigT) (p : param) (f : N), forwards o i n names0 ha hk uva uvk pt = Ok r -> valid_sig (params o) = true -> ProvKeys.src_ok o -> valid_sig (params i) = true -> ProvKeys.src_ok i -> names_apart (params o) (params i) = true -> In p (params r) -> is_named p = true -> In f (src_get (srcs r) (pname p)) <-> In f (src_get (srcs o) (pname p)) \/ In f (src_get (srcs i) (pname p)).
Proof. exact @ProvNoDupOps.forwards_src_exact. Qed.
Print Assumptions C08_forwards_src_exact.

Theorem C08_embed2_src_exact_needs_apart : exists (o i r : sigT) (p : param), valid_sig (params o) = true /\ ProvKeys.src_ok o /\ valid_sig (params i) = true /\ ProvKeys.src_ok i /\ embed [o; i] false false = Ok r /\ In p (params r) /\ is_named p = true /\ src_get (srcs r) (pname p) = [100] /\ src_get (srcs i) (pname p) = [101].
Proof. exact @ProvNoDupOps.embed2_src_exact_needs_apart. Qed.
Print Assumptions C08_embed2_src_exact_needs_apart.

Theorem C08_merge_nested_src_shape : forall (ss : list sigT) (r : sigT) (x : name), merge_nested ss = Ok r -> Forall (fun s : sigT => valid_sig (params s) = true) ss -> exists js : list nat, NoDup js /\ (forall j : nat, In j js -> (j < length ss)%nat) /\ src_get (srcs r) x = cat_of ss x js.
Proof. exact @ProvNoDupOps.merge_nested_src_shape. Qed.
Print Assumptions C08_merge_nested_src_shape.

Theorem C08_merge_src_shape_rc : forall (ss : list sigT) (r : sigT) (x : name), merge ss = Ok r -> Forall (fun s : sigT => valid_sig (params s) = true) ss -> role_consistent (map params ss) = true -> exists js : list nat, NoDup js /\ (forall j : nat, In j js -> (j < length ss)%nat) /\ src_get (srcs r) x = cat_of ss x js.
Proof. exact @ProvNoDupOps.merge_src_shape_rc. Qed.
Print Assumptions C08_merge_src_shape_rc.

Theorem C08_merge_nested_nodup : forall (ss : list sigT) (r : sigT) (x : name), merge_nested ss = Ok r -> Forall (fun s : sigT => valid_sig (params s) = true) ss -> (forall j : nat, NoDup (src_get (srcs (nth j ss nosig)) x)) -> (forall (j k : nat) (f : N), j <> k -> In f (src_get (srcs (nth j ss nosig)) x) -> ~ In f (src_get (srcs (nth k ss nosig)) x)) -> NoDup (src_get (srcs r) x).
Proof. exact @ProvNoDupOps.merge_nested_nodup. Qed.
Print Assumptions C08_merge_nested_nodup.


(* ---- n-ary embed list shapes under stars_apart; depths of whole operations in closed form (Proofs/ProvDepths.v);
   the list shape of the plain n-ary merge fold is FALSE (known finding C08:nary-merge-duplicate) ---- *)
Theorem C08_embed_src_shape : forall (s0 : sigT) (ss : list sigT) (uva uvk : bool) (r : sigT) (x : name), embed (s0 :: ss) uva uvk = Ok r -> Forall (fun s : sigT => valid_sig (params s) = true) (s0 :: ss) -> ProvKeys.stars_apart (s0 :: ss) = true -> ProvKeys.src_ok s0 -> Forall ProvKeys.src_nonempty ss -> src_get (srcs r) x = [] \/ (exists s : sigT, In s (s0 :: ss) /\ src_get (srcs r) x = src_get (srcs s) x).
Proof. exact @ContribMore.embed_src_shape. Qed.
Print Assumptions C08_embed_src_shape.

Theorem C08_embed_nodup : forall (s0 : sigT) (ss : list sigT) (uva uvk : bool) (r : sigT) (x : name), embed (s0 :: ss) uva uvk = Ok r -> Forall (fun s : sigT => valid_sig (params s) = true) (s0 :: ss) -> ProvKeys.stars_apart (s0 :: ss) = true -> ProvKeys.src_ok s0 -> Forall ProvKeys.src_nonempty ss -> (forall s : sigT, In s (s0 :: ss) -> NoDup (src_get (srcs s) x)) -> NoDup (src_get (srcs r) x).
Proof. exact @ContribMore.embed_nodup. Qed.
Print Assumptions C08_embed_nodup.

Theorem C08_merge_fold_shape_refuted : exists s1 s2 s3 s4 r : sigT, valid_sig (params s1) = true /\ valid_sig (params s2) = true /\ valid_sig (params s3) = true /\ valid_sig (params s4) = true /\ ProvKeys.src_ok s1 /\ ProvKeys.src_ok s2 /\ ProvKeys.src_ok s3 /\ ProvKeys.src_ok s4 /\ merge [s1; s2; s3; s4] = Ok r /\ names_of (params r) = [1] /\ src_get (srcs r) 1 = [100; 101; 100; 101] /\ ~ NoDup (src_get (srcs r) 1) /\ srcs s1 = [(1, [100]); (9, [100])] /\ srcs s2 = [(2, [101]); (1, [101])] /\ srcs s3 = [(9, [102])] /\ srcs s4 = [(3, [103])].
Proof. exact @ContribMore.merge_fold_shape_refuted. Qed.
Print Assumptions C08_merge_fold_shape_refuted.

Theorem C08_merge_deps : forall (s0 : sigT) (ss : list sigT) (r : sigT), merge (s0 :: ss) = Ok r -> deps r = fold_left merge_depths (map deps ss) (deps s0).
Proof. exact @ProvDepths.merge_deps. Qed.
Print Assumptions C08_merge_deps.

Theorem C08_merge_depth_of : forall (s0 : sigT) (ss : list sigT) (r : sigT) (f : N), merge (s0 :: ss) = Ok r -> dep_get (deps r) f = opt_min (dep_get (deps s0) f) (min_all (map deps ss) f).
Proof. exact @ProvDepths.merge_depth_of. Qed.
Print Assumptions C08_merge_depth_of.

Theorem C08_embed_deps_spec : forall (s0 : sigT) (ss : list sigT) (uva uvk : bool) (r : sigT), embed (s0 :: ss) uva uvk = Ok r -> deps r = embed_deps (deps s0) ss 1.
Proof. exact @ProvDepths.embed_deps_spec. Qed.
Print Assumptions C08_embed_deps_spec.

Theorem C08_embed2_deps : forall (o i : sigT) (uva uvk : bool) (r : sigT), embed [o; i] uva uvk = Ok r -> deps r = merge_depths (deps o) (dep_incr 1 (deps i)).
Proof. exact @ProvDepths.embed2_deps. Qed.
Print Assumptions C08_embed2_deps.

Theorem C08_embed2_depth_of : forall (o i : sigT) (uva uvk : bool) (r : sigT) (f : N), embed [o; i] uva uvk = Ok r -> dep_get (deps r) f = opt_min (dep_get (deps o) f) (option_map (fun v : N => v + 1) (rmin (deps i) f)).
Proof. exact @ProvDepths.embed2_depth_of. Qed.
Print Assumptions C08_embed2_depth_of.

Theorem C08_embed2_strictly_deeper : forall (o i : sigT) (uva uvk : bool) (r : sigT) (f v : N), embed [o; i] uva uvk = Ok r -> dep_get (deps o) f = None -> rmin (deps i) f = Some v -> dep_get (deps r) f = Some (v + 1) /\ v < v + 1.
Proof. exact @ProvDepths.embed2_strictly_deeper. Qed.
Print Assumptions C08_embed2_strictly_deeper.

Theorem C08_embed_outer_depth_kept : forall (s0 : sigT) (ss : list sigT) (uva uvk : bool) (r : sigT) (f d : N), embed (s0 :: ss) uva uvk = Ok r -> dep_get (deps s0) f = Some d -> exists d' : N, dep_get (deps r) f = Some d' /\ d' <= d.
Proof. exact @ProvDepths.embed_outer_depth_kept. Qed.
Print Assumptions C08_embed_outer_depth_kept.

Theorem C08_mask_deps : forall (s : sigT) (n : nat) (names0 : list name) (h : hideflags) (r : sigT), mask s n names0 h = Ok r -> deps r = deps s.
Proof. exact @ProvDepths.mask_deps. Qed.
Print Assumptions C08_mask_deps.

Theorem C08_sig_partial_deps : forall (s : sigT) (n : nat) (kw : list (name * N)) (pobj : N) (r : sigT), sig_partial s n kw pobj = Ok r -> deps r = dep_set (dep_incr 1 (deps s)) pobj 0.
Proof. exact @ProvDepths.sig_partial_deps. Qed.
Print Assumptions C08_sig_partial_deps.

Theorem C08_forwards_deps : forall (o i : sigT) (n : nat) (names0 : list name) (ha hk uva uvk pt : bool) (r : sigT), forwards o i n names0 ha hk uva uvk pt = Ok r -> deps r = merge_depths (deps o) (dep_incr 1 (deps i)).
Proof. exact @ProvDepths.forwards_deps. Qed.
Print Assumptions C08_forwards_deps.


(* ---- the n-ary embed without the stars_apart hypothesis, its exact hypothesis, and the plain n-ary merge (Proofs/ProvEmbedN.v, ProvEmbedNExact.v) ---- *)
From Sigtools.Proofs Require Import ProvEmbedN.
Theorem C08_embed_n_src_ok : forall (s0 : sigT) (ss : list sigT) (uva uvk : bool) (r : sigT), embed (s0 :: ss) uva uvk = Ok r -> valid_sig (params s0) = true -> stars_apart_fold uva uvk (s0 :: ss) = true -> src_ok s0 -> Forall src_nonempty ss -> src_ok r.
Proof. exact @ProvEmbedN.embed_n_src_ok. Qed.
Print Assumptions C08_embed_n_src_ok.

Theorem C08_stars_apart_fold_weaker : forall (uva uvk : bool) (ss : list sigT), stars_apart ss = true -> stars_apart_fold uva uvk ss = true.
Proof. exact @ProvEmbedN.stars_apart_fold_weaker. Qed.
Print Assumptions C08_stars_apart_fold_weaker.

Theorem C08_embed_n_truthful : forall (s0 : sigT) (ss : list sigT) (uva uvk : bool) (r : sigT) (x : name) (f : N), embed (s0 :: ss) uva uvk = Ok r -> NoDup (keys (srcs s0)) -> In f (src_get (srcs r) x) -> exists s : sigT, In s (s0 :: ss) /\ In f (src_get (srcs s) x).
Proof. exact @ProvEmbedN.embed_n_truthful. Qed.
Print Assumptions C08_embed_n_truthful.

Theorem C08_embed_n_truthful_entries : forall (s0 : sigT) (ss : list sigT) (uva uvk : bool) (r : sigT) (x : name) (f : N), embed (s0 :: ss) uva uvk = Ok r -> In f (src_get (srcs r) x) -> exists (s : sigT) (v : list N), In s (s0 :: ss) /\ In (x, v) (srcs s) /\ In f v.
Proof. exact @ProvEmbedN.embed_n_truthful_entries. Qed.
Print Assumptions C08_embed_n_truthful_entries.

Theorem C08_embed_n_truthful_needs_dict : exists s0 s1 r : sigT, embed [s0; s1] true true = Ok r /\ valid_sig (params s0) = true /\ valid_sig (params s1) = true /\ src_get (srcs r) 1 = [200] /\ src_get (srcs s0) 1 = [100] /\ src_get (srcs s1) 1 = [].
Proof. exact @ProvEmbedN.embed_n_truthful_needs_dict. Qed.
Print Assumptions C08_embed_n_truthful_needs_dict.

Theorem C08_embed_n_src_shape : forall (s0 : sigT) (ss : list sigT) (uva uvk : bool) (r : sigT) (x : name), embed (s0 :: ss) uva uvk = Ok r -> Forall (fun s : sigT => valid_sig (params s) = true) (s0 :: ss) -> NoDup (keys (srcs s0)) -> src_get (srcs r) x = [] \/ (exists s : sigT, In s (s0 :: ss) /\ src_get (srcs r) x = src_get (srcs s) x).
Proof. exact @ProvEmbedN.embed_n_src_shape. Qed.
Print Assumptions C08_embed_n_src_shape.

Theorem C08_embed_n_nodup : forall (s0 : sigT) (ss : list sigT) (uva uvk : bool) (r : sigT) (x : name), embed (s0 :: ss) uva uvk = Ok r -> Forall (fun s : sigT => valid_sig (params s) = true) (s0 :: ss) -> NoDup (keys (srcs s0)) -> (forall s : sigT, In s (s0 :: ss) -> NoDup (src_get (srcs s) x)) -> NoDup (src_get (srcs r) x).
Proof. exact @ProvEmbedN.embed_n_nodup. Qed.
Print Assumptions C08_embed_n_nodup.

Theorem C08_merge_src_shape_n_partial : forall (ss : list sigT) (r : sigT) (x : name), merge ss = Ok r -> exists js : list nat, (forall j : nat, In j js -> (j < length ss)%nat) /\ src_get (srcs r) x = cat_of ss x js.
Proof. exact @ProvEmbedN.merge_src_shape_n_partial. Qed.
Print Assumptions C08_merge_src_shape_n_partial.

Theorem C08_merge_src_shape_n_refuted : exists (s1 s2 s3 s4 r : sigT) (x : name), Forall (fun s : sigT => valid_sig (params s) = true) [s1; s2; s3; s4] /\ Forall src_ok [s1; s2; s3; s4] /\ merge [s1; s2; s3; s4] = Ok r /\ ~ (exists js : list nat, NoDup js /\ (forall j : nat, In j js -> (j < length [s1; s2; s3; s4])%nat) /\ src_get (srcs r) x = cat_of [s1; s2; s3; s4] x js).
Proof. exact @ProvEmbedN.merge_src_shape_n_refuted. Qed.
Print Assumptions C08_merge_src_shape_n_refuted.

From Sigtools.Proofs Require Import ProvEmbedNExact.
Theorem C08_embed_n_src_ok_exact : forall (s0 : sigT) (ss : list sigT) (uva uvk : bool) (r : sigT), embed (s0 :: ss) uva uvk = Ok r -> valid_sig (params s0) = true -> stars_apart_exact uva uvk (s0 :: ss) = true -> src_ok s0 -> Forall src_nonempty ss -> src_ok r.
Proof. exact @ProvEmbedNExact.embed_n_src_ok_exact. Qed.
Print Assumptions C08_embed_n_src_ok_exact.

Theorem C08_embed_n_src_ok_necessary : forall (s0 : sigT) (ss : list sigT) (uva uvk : bool) (r : sigT), embed (s0 :: ss) uva uvk = Ok r -> stars_apart_exact uva uvk (s0 :: ss) = false -> ~ src_ok r.
Proof. exact @ProvEmbedNExact.embed_n_src_ok_necessary. Qed.
Print Assumptions C08_embed_n_src_ok_necessary.

Theorem C08_embed_n_src_ok_iff : forall (s0 : sigT) (ss : list sigT) (uva uvk : bool) (r : sigT), embed (s0 :: ss) uva uvk = Ok r -> valid_sig (params s0) = true -> src_ok s0 -> Forall src_nonempty ss -> src_ok r <-> stars_apart_exact uva uvk (s0 :: ss) = true.
Proof. exact @ProvEmbedNExact.embed_n_src_ok_iff. Qed.
Print Assumptions C08_embed_n_src_ok_iff.

Theorem C08_stars_apart_fold_exact : forall (uva uvk : bool) (ss : list sigT), stars_apart_fold uva uvk ss = true -> stars_apart_exact uva uvk ss = true.
Proof. exact @ProvEmbedNExact.stars_apart_fold_exact. Qed.
Print Assumptions C08_stars_apart_fold_exact.

Theorem C08_stars_apart_fold_not_necessary : exists r : sigT, embed [dsig 100 [bp 9 VP]; dsig 101 [bp 9 VP; {| pname := 1; pkind := KO; pdef := Some 1; pann := None; puann := UEmpty |}]; dsig 102 [bp 1 VP]; dsig 103 [bp 9 VP]] true true = Ok r /\ stars_apart_fold true true [dsig 100 [bp 9 VP]; dsig 101 [bp 9 VP; {| pname := 1; pkind := KO; pdef := Some 1; pann := None; puann := UEmpty |}]; dsig 102 [bp 1 VP]; dsig 103 [bp 9 VP]] = false /\ src_ok r.
Proof. exact @ProvEmbedN.stars_apart_fold_not_necessary. Qed.
Print Assumptions C08_stars_apart_fold_not_necessary.

