(* C08 — parameter provenance is complete, truthful and depth-ordered. *)
From Sigtools.Model Require Import Base Bind Roles Algebra.
From Sigtools.Proofs Require Import Prov.

(* merge_depths keeps, for every callable, the smallest depth listed on either side *)
Theorem C08_depths_min l r f :
  dep_get (merge_depths l r) f = opt_min (dep_get l f) (rmin r f).
Proof. exact (merge_depths_get l r f). Qed.
Print Assumptions C08_depths_min.

Theorem C08_depths_defined l r f :
  dep_get l f <> None \/ rmin r f <> None -> dep_get (merge_depths l r) f <> None.
Proof. exact (merge_depths_defined l r f). Qed.
Print Assumptions C08_depths_defined.

(* embedding at step k > 0 puts every callable of the inner signature strictly deeper *)
Theorem C08_depth_increase k d f v :
  (0 < k)%N -> dep_get d f = Some v ->
  exists v', dep_get (dep_incr k d) f = Some v' /\ (v < v')%N.
Proof. exact (embed_depth_increase k d f v). Qed.
Print Assumptions C08_depth_increase.

(* a removed parameter keeps no provenance entry *)
Theorem C08_removed_has_no_entry m ks k :
  src_mem (src_pop_all m ks) k = src_mem m k && negb (mem k ks).
Proof. exact (src_pop_all_mem m ks k). Qed.
Print Assumptions C08_removed_has_no_entry.

(* _add_sources appends: the provenance list of a merged parameter is the
   concatenation of the operands' lists, nothing else changes *)
Theorem C08_add_sources m k vs k' :
  src_get (src_add m k vs) k' = if N.eqb k' k then src_get m k ++ vs else src_get m k'.
Proof. exact (src_get_add m k vs k'). Qed.
Print Assumptions C08_add_sources.
