(* C18 — decorator application order, repeated use, lifetimes. *)
From Coq Require Import Permutation.
From Sigtools.Model Require Import Base Cache.
From Sigtools.Proofs Require Import Cache CacheExact CacheForms.

Theorem C18_order : forall d l1 l2 d1 d2,
  Permutation l1 l2 -> Forall explicit l1 ->
  ann_functional (all_anns l1) -> rets_agree (all_rets l1) ->
  run_mods d l1 = Some d1 -> run_mods d l2 = Some d2 ->
  dequiv d1 d2 /\ advertised d1 = advertised d2 /\
  (forall a k, pok_call d1 a k = pok_call d2 a k).
Proof. exact order_invariant. Qed.
Print Assumptions C18_order.

Theorem C18_sets_only : forall pos pos' kwo kwo' ps,
  (forall x, mem x pos = mem x pos') -> (forall x, mem x kwo = mem x kwo') ->
  prepare pos kwo ps = prepare pos' kwo' ps.
Proof. exact prepare_ext. Qed.
Print Assumptions C18_sets_only.

Theorem C18_annotate_updates : forall d ret A d',
  apply_mod d (MAnn ret A) = Some d' ->
  advertised d' =
    option_map (fun r => (map (ann_param A) (fst r), map (map_ip (ann_param A)) (snd r)))
               (advertised d)
  /\ d_ret d' = match ret with Some r => Some r | None => d_ret d end
  /\ d_pos d' = d_pos d /\ d_kwo d' = d_kwo d.
Proof. exact annotate_updates. Qed.
Print Assumptions C18_annotate_updates.

Theorem C18_annotate_visible : forall d ret A d' p v,
  apply_mod d (MAnn ret A) = Some d' -> advertised d <> None ->
  In p (adv_params d') -> ann_lookup A (pname p) = Some v ->
  pann p = Some v /\ puann p = UPre v.
Proof. exact annotate_visible. Qed.
Print Assumptions C18_annotate_visible.

Theorem C18_history_binding : forall k h,
  map obs_bind (run_impl k c_init h) = map obs_bind (run_spec k 0 h).
Proof. exact history_binding. Qed.
Print Assumptions C18_history_binding.

Theorem C18_history_partial : forall k h,
  k <> DPok \/ no_redecorate_after_touch false h = true ->
  map obs_beh (run_impl k c_init h) = map obs_beh (run_spec k 0 h).
Proof. exact history_refines. Qed.
Print Assumptions C18_history_partial.

Theorem C18_history_refuted :
  exists h, map obs_beh (run_impl DPok c_init h) <> map obs_beh (run_spec DPok 0 h).
Proof. exact history_stale_refuted. Qed.
Print Assumptions C18_history_refuted.

Theorem C18_reclaim_refuted :
  run_impl DPok c_init leak_witness <> run_spec DPok 0 leak_witness
  /\ (let st := run_state DPok c_init [OpGet (Some false)] in
      let x := slot_inst st false in
      Reach (all_edges (c_strong st) (c_weak st))
            (n_class :: filter (fun y => negb (owned_by st y x)) (c_locals st)) x).
Proof. exact reclaim_refuted. Qed.
Print Assumptions C18_reclaim_refuted.

Theorem C18_reclaim_partial : forall k h, k <> DPok -> run_impl k c_init h = run_spec k 0 h.
Proof. exact reclaim_partial. Qed.
Print Assumptions C18_reclaim_partial.

Theorem C18_reclaim_untouched : forall k h s,
  let st := run_state k c_init h in
  ~ In (slot_inst st s) (map fst (c_cache st)) ->
  o_reclaimed (snd (impl_step k st (OpDrop s))) = true.
Proof. exact reclaim_untouched. Qed.
Print Assumptions C18_reclaim_untouched.

Theorem C18_unreachable : forall st s ws2,
  hinv st -> incl ws2 (c_weak st) ->
  ~ In (slot_inst st s) (map fst (c_cache st)) ->
  ~ Reach (all_edges (c_strong st) ws2)
          (n_class :: filter (fun y => negb (owned_by st y (slot_inst st s))) (c_locals st))
          (slot_inst st s).
Proof. exact drop_unreachable. Qed.
Print Assumptions C18_unreachable.

(* ---- order independence for EVERY decorator form (start=, end=, autokwoargs, annotate included), closed forms
   of the selecting forms, what is order dependent (admissibility itself: refutations checked on the code);
   reclamation and refinement characterised exactly (Proofs/CacheForms.v, CacheExact.v) ---- *)
Theorem C18_order_forms : forall (d : dobj) (l1 l2 : list modifier) (d1 d2 : dobj), wfd d -> good d -> Permutation l1 l2 -> ann_functional (all_anns l1) -> rets_agree (all_rets l1) -> run_mods d l1 = Some d1 -> run_mods d l2 = Some d2 -> dequiv d1 d2 /\ advertised d1 = advertised d2 /\ (forall (a : list N) (k : list (name * N)), pok_call d1 a k = pok_call d2 a k).
Proof. exact @CacheForms.order_forms. Qed.
Print Assumptions C18_order_forms.

Theorem C18_forms_sets : forall (d : dobj) (l1 l2 : list modifier) (d1 d2 : dobj), inv d -> Permutation l1 l2 -> run_mods d l1 = Some d1 -> run_mods d l2 = Some d2 -> forall x : name, Pm d1 x = Pm d2 x /\ Km d1 x = Km d2 x.
Proof. exact @CacheForms.forms_sets. Qed.
Print Assumptions C18_forms_sets.

Theorem C18_start_closed : forall (d : dobj) (s : name), korder (d_params d) = true -> good d -> start_names s false (adv_params d) = (from s (free_names d), mem s (free_names d)).
Proof. exact @CacheForms.start_closed. Qed.
Print Assumptions C18_start_closed.

Theorem C18_end_closed : forall (d : dobj) (e : name), korder (d_params d) = true -> good d -> end_names e false (adv_params d) = (upto e (free_names d), mem e (free_names d)).
Proof. exact @CacheForms.end_closed. Qed.
Print Assumptions C18_end_closed.

Theorem C18_auto_closed : forall (d : dobj) (E : list name), korder (d_params d) = true -> good d -> auto_names E (adv_params d) = (if forallb (fun e : N => mem e (free_def_names d)) E then Some (filter (fun x : N => negb (mem x E)) (free_def_names d)) else None).
Proof. exact @CacheForms.auto_closed. Qed.
Print Assumptions C18_auto_closed.

Theorem C18_wf_sig_wfd : forall d : dobj, wf_sig (d_params d) = true -> wfd d.
Proof. exact @CacheForms.wf_sig_wfd. Qed.
Print Assumptions C18_wf_sig_wfd.

Theorem C18_good_bare : forall (ps : list param) (r : option N), good {| d_params := ps; d_ret := r; d_pos := []; d_kwo := [] |}.
Proof. exact @CacheForms.good_bare. Qed.
Print Assumptions C18_good_bare.

Theorem C18_order_forms_defaults_refuted : korder (d_params bad_defaults) = true /\ nodupb (pk_names (d_params bad_defaults)) = true /\ (exists d1 d2 : dobj, run_mods bad_defaults [MPosEnd 2 []; MAuto []] = Some d1 /\ run_mods bad_defaults [MAuto []; MPosEnd 2 []] = Some d2 /\ Pm d1 1 = true /\ Pm d2 1 = false /\ Km d2 1 = true).
Proof. exact @CacheForms.order_forms_defaults_refuted. Qed.
Print Assumptions C18_order_forms_defaults_refuted.

Theorem C18_admissibility_order_refuted : wf_sig (d_params two_defaults) = true /\ run_mods two_defaults [MPosEnd 1 []; MAuto []] <> None /\ run_mods two_defaults [MAuto []; MPosEnd 1 []] = None /\ run_mods two_defaults [MAuto [2]; MPosEnd 2 []] <> None /\ run_mods two_defaults [MPosEnd 2 []; MAuto [2]] = None /\ run_mods two_defaults [MKwoStart 2 []; MPosEnd 2 []] = None /\ run_mods two_defaults [MPosEnd 2 []; MKwoStart 2 []] = None /\ run_mods two_defaults [MPos [1]; MPos [2]] <> None /\ run_mods two_defaults [MPos [2]; MPos [1]] = None.
Proof. exact @CacheForms.admissibility_order_refuted. Qed.
Print Assumptions C18_admissibility_order_refuted.

Theorem C18_reclaim_exact : forall (h : list op) (s : bool), let st := run_state DPok c_init h in o_reclaimed (snd (impl_step DPok st (OpDrop s))) = negb (cached st (slot_inst st s)).
Proof. exact @CacheExact.reclaim_exact. Qed.
Print Assumptions C18_reclaim_exact.

Theorem C18_refines_exact : forall h : list op, map obs_beh (run_impl DPok c_init h) = map obs_beh (run_spec DPok 0 h) <-> stale_free (SFresh, SFresh) h = true.
Proof. exact @CacheExact.refines_exact. Qed.
Print Assumptions C18_refines_exact.

Theorem C18_stale_free_weaker : forall h : list op, no_redecorate_after_touch false h = true -> stale_free (SFresh, SFresh) h = true.
Proof. exact @CacheExact.stale_free_weaker. Qed.
Print Assumptions C18_stale_free_weaker.

