(* C18 — decorator application order, repeated use, lifetimes. *)
From Coq Require Import Permutation.
From Sigtools.Model Require Import Base Cache.
From Sigtools.Proofs Require Import Cache.

Theorem C18_order : forall d l1 l2 d1 d2,
  Permutation l1 l2 -> Forall explicit l1 ->
  ann_functional (all_anns l1) -> rets_agree (all_rets l1) ->
  run_mods d l1 = Some d1 -> run_mods d l2 = Some d2 ->
  dequiv d1 d2 /\ advertised d1 = advertised d2 /\
  (forall a k, pok_call d1 a k = pok_call d2 a k).
Proof. exact order_invariant. Qed.
Print Assumptions C18_order.

Theorem C18_sets_only : forall pos pos' kwo kwo' ps,
  (forall x, mem x pos = mem x pos') -> (forall x, mem x kwo = mem x kwo') ->
  prepare pos kwo ps = prepare pos' kwo' ps.
Proof. exact prepare_ext. Qed.
Print Assumptions C18_sets_only.

Theorem C18_annotate_updates : forall d ret A d',
  apply_mod d (MAnn ret A) = Some d' ->
  advertised d' =
    option_map (fun r => (map (ann_param A) (fst r), map (map_ip (ann_param A)) (snd r)))
               (advertised d)
  /\ d_ret d' = match ret with Some r => Some r | None => d_ret d end
  /\ d_pos d' = d_pos d /\ d_kwo d' = d_kwo d.
Proof. exact annotate_updates. Qed.
Print Assumptions C18_annotate_updates.

Theorem C18_annotate_visible : forall d ret A d' p v,
  apply_mod d (MAnn ret A) = Some d' -> advertised d <> None ->
  In p (adv_params d') -> ann_lookup A (pname p) = Some v ->
  pann p = Some v /\ puann p = UPre v.
Proof. exact annotate_visible. Qed.
Print Assumptions C18_annotate_visible.

Theorem C18_history_binding : forall k h,
  map obs_bind (run_impl k c_init h) = map obs_bind (run_spec k 0 h).
Proof. exact history_binding. Qed.
Print Assumptions C18_history_binding.

Theorem C18_history_partial : forall k h,
  k <> DPok \/ no_redecorate_after_touch false h = true ->
  map obs_beh (run_impl k c_init h) = map obs_beh (run_spec k 0 h).
Proof. exact history_refines. Qed.
Print Assumptions C18_history_partial.

Theorem C18_history_refuted :
  exists h, map obs_beh (run_impl DPok c_init h) <> map obs_beh (run_spec DPok 0 h).
Proof. exact history_stale_refuted. Qed.
Print Assumptions C18_history_refuted.

Theorem C18_reclaim_refuted :
  run_impl DPok c_init leak_witness <> run_spec DPok 0 leak_witness
  /\ (let st := run_state DPok c_init [OpGet (Some false)] in
      let x := slot_inst st false in
      Reach (all_edges (c_strong st) (c_weak st))
            (n_class :: filter (fun y => negb (owned_by st y x)) (c_locals st)) x).
Proof. exact reclaim_refuted. Qed.
Print Assumptions C18_reclaim_refuted.

Theorem C18_reclaim_partial : forall k h, k <> DPok -> run_impl k c_init h = run_spec k 0 h.
Proof. exact reclaim_partial. Qed.
Print Assumptions C18_reclaim_partial.

Theorem C18_reclaim_untouched : forall k h s,
  let st := run_state k c_init h in
  ~ In (slot_inst st s) (map fst (c_cache st)) ->
  o_reclaimed (snd (impl_step k st (OpDrop s))) = true.
Proof. exact reclaim_untouched. Qed.
Print Assumptions C18_reclaim_untouched.

Theorem C18_unreachable : forall st s ws2,
  hinv st -> incl ws2 (c_weak st) ->
  ~ In (slot_inst st s) (map fst (c_cache st)) ->
  ~ Reach (all_edges (c_strong st) ws2)
          (n_class :: filter (fun y => negb (owned_by st y (slot_inst st s))) (c_locals st))
          (slot_inst st s).
Proof. exact drop_unreachable. Qed.
Print Assumptions C18_unreachable.
