(* C02 — embed: result = calling outer, which forwards *args/**kwargs to inner. *)
From Sigtools.Model Require Import Base Bind Roles Algebra.
From Sigtools.Proofs Require Import SmallModel Basics.

(* every result of embed went through the validating constructor *)
Theorem C02_wf ss uva uvk r : embed ss uva uvk = Ok r -> validate (params r) = true.
Proof. exact (embed_wf ss uva uvk r). Qed.
Print Assumptions C02_wf.

(* embed fails only with IncompatibleSignatures / ValueError, for all inputs *)
Theorem C02_only_value_errors s0 ss uva uvk : benign (embed (s0 :: ss) uva uvk).
Proof. exact (embed_only_value_errors s0 ss uva uvk). Qed.
Print Assumptions C02_only_value_errors.

(* acceptance of any call is decided on the finite family of shapes the deciders enumerate *)
Theorem C02_small_model sigs s c : In s sigs -> accepts s (rep_for sigs c) = accepts s c.
Proof. exact (accepts_rep sigs s c). Qed.
Print Assumptions C02_small_model.
