From Sigtools.Model Require Import Base Bind Algebra.
Theorem C02_placeholder : True. Proof. exact I. Qed.
Print Assumptions C02_placeholder.
