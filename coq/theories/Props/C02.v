(* C02 — embed: result = calling outer, which forwards *args/**kwargs to inner. *)
From Sigtools.Model Require Import Base Bind Roles Algebra.
From Sigtools.Model Require Import Universe.
From Sigtools.Proofs Require Import SmallModel Basics Deciders SweepDefs SweepDefs2 Bounded2 MergeNeutral SweepDefs3 Bounded3 EmbedSound EmbedSoundAssoc ForwardsSound EmbedChainN EmbedChainRaise.

(* every result of embed went through the validating constructor *)
Theorem C02_wf ss uva uvk r : embed ss uva uvk = Ok r -> validate (params r) = true.
Proof. exact (embed_wf ss uva uvk r). Qed.
Print Assumptions C02_wf.

(* embed fails only with IncompatibleSignatures / ValueError, for all inputs *)
Theorem C02_only_value_errors s0 ss uva uvk : benign (embed (s0 :: ss) uva uvk).
Proof. exact (embed_only_value_errors s0 ss uva uvk). Qed.
Print Assumptions C02_only_value_errors.

(* acceptance of any call is decided on the finite family of shapes the deciders enumerate *)
Theorem C02_small_model sigs s c : In s sigs -> accepts s (rep_for sigs c) = accepts s c.
Proof. exact (accepts_rep sigs s c). Qed.
Print Assumptions C02_small_model.

(* the extracted deciders for "calling outer, which forwards its surplus to
   inner" are complete for ALL calls (family of shapes up to the SUM of the
   positional counts: a surplus larger than inner's capacity must be tried) *)
Theorem C02_chain_sound_decider_complete r o i uva uvk n0 names0 extra :
  chain_sound_cex r o i uva uvk n0 names0 extra = None ->
  forall c, noncolliding c r (o :: i :: extra) = true -> accepts r c = true ->
            chain o i uva uvk n0 names0 c = true.
Proof. exact (chain_sound_cex_complete r o i uva uvk n0 names0 extra). Qed.
Print Assumptions C02_chain_sound_decider_complete.

Theorem C02_chain_exact_decider_complete r o i uva uvk n0 names0 extra :
  chain_exact_cex r o i uva uvk n0 names0 extra = None ->
  forall c, noncolliding c r (o :: i :: extra) = true ->
            accepts r c = chain o i uva uvk n0 names0 c.
Proof. exact (chain_exact_cex_complete r o i uva uvk n0 names0 extra). Qed.
Print Assumptions C02_chain_exact_decider_complete.

Theorem C02_chain_none_decider_complete o i uva uvk n0 names0 :
  chain_none_cex o i uva uvk n0 names0 = None ->
  forall c, chain o i uva uvk n0 names0 c = false.
Proof. exact (chain_none_cex_complete o i uva uvk n0 names0). Qed.
Print Assumptions C02_chain_none_decider_complete.
 
(* Bounded (bound in the statement): outer in U(2,{a,b}) (220 signatures), inner in
   U(1,{c,d}) (52), the four use_varargs/use_varkwargs combinations, ALL calls:
   the result is sound for "calling outer, which forwards its surplus to inner",
   exact unless outer has a defaulted positional parameter, and embed raises
   only for a same-named parameter or when no call at all could succeed *)
Theorem C02_embed_chain_U2 o i uva uvk :
  In o U2ab -> In i U1cd ->
  match embed [mk o; mk i] uva uvk with
  | Ok r =>
      (forall c, noncolliding c (params r) [o; i] = true -> accepts (params r) c = true ->
                 chain o i uva uvk 0 [] c = true) /\
      (has_default_pos o = false ->
       forall c, noncolliding c (params r) [o; i] = true ->
                 accepts (params r) c = chain o i uva uvk 0 [] c)
  | Err Incompatible =>
      existsb (fun p => is_named p && mem (pname p) (names_of (filter is_named i))) o = true
      \/ forall c, chain o i uva uvk 0 [] c = false
  | Err _ => True
  end.
Proof. exact (embed_chain_U2 o i uva uvk). Qed.
Print Assumptions C02_embed_chain_U2.

(* for ALL valid inner signatures: embedding into a bare star-args / star-kwargs
   signature returns the inner parameters unchanged *)
Theorem C02_neutral i nva nvk sr dr :
  valid_sig (params i) = true -> stars_plain (params i) ->
  exists r, embed [mkSig [mkParam nva VP None None UEmpty; mkParam nvk VK None None UEmpty]
                         None UEmpty sr dr; i] true true = Ok r /\ params r = params i.
Proof. exact (embed_into_bare_stars i nva nvk sr dr). Qed.
Print Assumptions C02_neutral.

(* Bounded: embed(a, b, c) has the same parameters as embed(embed(a, b), c) for
   a in U(1,{a,b}), b in U(1,{c,d}), c in U(1,{e,f}), the four flag combinations *)
Theorem C02_assoc_U1 a b c uva uvk :
  In a U1ab -> In b U1cd -> In c U1ef ->
  match embed [mk a; mk b] uva uvk with
  | Ok ab => res_params_eqb (embed [mk a; mk b; mk c] uva uvk) (embed [ab; mk c] uva uvk) = true
  | Err _ => exists e, embed [mk a; mk b; mk c] uva uvk = Err e
  end.
Proof. exact (embed_assoc_U1 a b c uva uvk). Qed.
Print Assumptions C02_assoc_U1.

(* ---- embed for ALL valid signatures (Proofs/EmbedSound*.v): soundness against the chain semantics, exactness
   unless an outer default was cleared (side condition forced: refutation), the raise condition, a valid result,
   associativity of the n-ary fold for any arity; the Err clause of associativity is refuted ---- *)
Theorem C02_sound : forall (o i : sigT) (uva uvk : bool) (r : sigT) (c : call), valid_sig (params o) = true -> valid_sig (params i) = true -> embed [o; i] uva uvk = Ok r -> noncolliding c (params r) [params o; params i] = true -> accepts (params r) c = true -> chain (params o) (params i) uva uvk 0 [] c = true.
Proof. exact @EmbedSound.C02_sound. Qed.
Print Assumptions C02_sound.

Theorem C02_exact : forall (o i : sigT) (uva uvk : bool) (r : sigT) (c : call), valid_sig (params o) = true -> valid_sig (params i) = true -> embed [o; i] uva uvk = Ok r -> has_default_pos (params o) = false -> noncolliding c (params r) [params o; params i] = true -> accepts (params r) c = chain (params o) (params i) uva uvk 0 [] c.
Proof. exact @EmbedSound.C02_exact. Qed.
Print Assumptions C02_exact.

Theorem C02_exact_defaults_kept : forall (o i : sigT) (uva uvk : bool) (r : sigT) (c : call), valid_sig (params o) = true -> valid_sig (params i) = true -> embed [o; i] uva uvk = Ok r -> map has_def (firstn (length (positional (params o))) (positional (params r))) = map has_def (positional (params o)) -> noncolliding c (params r) [params o; params i] = true -> accepts (params r) c = chain (params o) (params i) uva uvk 0 [] c.
Proof. exact @EmbedSound.C02_exact_defaults_kept. Qed.
Print Assumptions C02_exact_defaults_kept.

Theorem C02_exact_needs_side_condition : let o := {| params := [{| pname := 1; pkind := PK; pdef := Some 1; pann := None; puann := UEmpty |}; {| pname := 9; pkind := VP; pdef := None; pann := None; puann := UEmpty |}; {| pname := 10; pkind := VK; pdef := None; pann := None; puann := UEmpty |}]; ret := None; uret := UEmpty; srcs := []; deps := [] |} in let i := {| params := [{| pname := 3; pkind := PK; pdef := None; pann := None; puann := UEmpty |}]; ret := None; uret := UEmpty; srcs := []; deps := [] |} in let c := {| npos := 0; kws := [3] |} in valid_sig (params o) = true /\ valid_sig (params i) = true /\ (exists r : sigT, embed [o; i] true true = Ok r /\ params r = [{| pname := 1; pkind := PK; pdef := None; pann := None; puann := UEmpty |}; {| pname := 3; pkind := PK; pdef := None; pann := None; puann := UEmpty |}] /\ noncolliding c (params r) [params o; params i] = true /\ accepts (params r) c = false /\ chain (params o) (params i) true true 0 [] c = true).
Proof. exact @EmbedSound.C02_exact_needs_side_condition. Qed.
Print Assumptions C02_exact_needs_side_condition.

Theorem C02_raises : forall (o i : sigT) (uva uvk : bool), valid_sig (params o) = true -> valid_sig (params i) = true -> embed [o; i] uva uvk = Err Incompatible -> existsb (fun p : param => is_named p && mem (pname p) (names_of (filter is_named (params i)))) (params o) = true \/ (forall c : call, chain (params o) (params i) uva uvk 0 [] c = false).
Proof. exact @EmbedSound.C02_raises. Qed.
Print Assumptions C02_raises.

Theorem C02_embed_chain : forall (o i : list param) (uva uvk : bool), valid_sig o = true -> valid_sig i = true -> match embed [{| params := o; ret := None; uret := UEmpty; srcs := []; deps := [] |}; {| params := i; ret := None; uret := UEmpty; srcs := []; deps := [] |}] uva uvk with | Ok r => (forall c : call, noncolliding c (params r) [o; i] = true -> accepts (params r) c = true -> chain o i uva uvk 0 [] c = true) /\ (has_default_pos o = false -> forall c : call, noncolliding c (params r) [o; i] = true -> accepts (params r) c = chain o i uva uvk 0 [] c) | Err Incompatible => existsb (fun p : param => is_named p && mem (pname p) (names_of (filter is_named i))) o = true \/ (forall c : call, chain o i uva uvk 0 [] c = false) | _ => True end.
Proof. exact @EmbedSound.C02_embed_chain. Qed.
Print Assumptions C02_embed_chain.

Theorem C02_embed2_valid : forall (a b : sigT) (uva uvk : bool) (ab : sigT), valid_sig (params b) = true -> embed [a; b] uva uvk = Ok ab -> valid_sig (params ab) = true.
Proof. exact @EmbedSoundAssoc.embed2_valid. Qed.
Print Assumptions C02_embed2_valid.

Theorem C02_assoc : forall (a b : sigT) (rest : list sigT) (uva uvk : bool) (ab : sigT), valid_sig (params b) = true -> embed [a; b] uva uvk = Ok ab -> same_sig (embed (a :: b :: rest) uva uvk) (embed (ab :: rest) uva uvk).
Proof. exact @EmbedSoundAssoc.C02_assoc. Qed.
Print Assumptions C02_assoc.

Theorem C02_assoc3 : forall (a b c : sigT) (uva uvk : bool) (ab : sigT), valid_sig (params b) = true -> embed [a; b] uva uvk = Ok ab -> same_sig (embed [a; b; c] uva uvk) (embed [ab; c] uva uvk).
Proof. exact @EmbedSoundAssoc.C02_assoc3. Qed.
Print Assumptions C02_assoc3.

Theorem C02_assoc_incompatible : forall (a b : sigT) (rest : list sigT) (uva uvk : bool), embed [a; b] uva uvk = Err Incompatible -> embed (a :: b :: rest) uva uvk = Err Incompatible.
Proof. exact @EmbedSoundAssoc.C02_assoc_incompatible. Qed.
Print Assumptions C02_assoc_incompatible.

Theorem C02_assoc_error_clause_refuted : exists a b c : sigT, valid_sig (params a) = true /\ valid_sig (params b) = true /\ valid_sig (params c) = true /\ embed [a; b] true true = Err ValueErr /\ (exists r : sigT, embed [a; b; c] true true = Ok r).
Proof. exact @EmbedSoundAssoc.C02_assoc_error_clause_refuted. Qed.
Print Assumptions C02_assoc_error_clause_refuted.

Theorem C02_sound3_partial : forall (a b c : sigT) (uva uvk : bool) (ab r : sigT) (c0 : call), valid_sig (params a) = true -> valid_sig (params b) = true -> valid_sig (params c) = true -> embed [a; b] uva uvk = Ok ab -> embed [a; b; c] uva uvk = Ok r -> noncolliding c0 (params r) [params ab; params c] = true -> noncolliding c0 (params ab) [params a; params b] = true -> accepts (params r) c0 = true -> chain (params ab) (params c) uva uvk 0 [] c0 = true /\ chain (params a) (params b) uva uvk 0 [] c0 = true.
Proof. exact @EmbedSoundAssoc.C02_sound3_partial. Qed.
Print Assumptions C02_sound3_partial.


(* ---- the flat n-ary chain: the surplus of embed [a;b] is the surplus of b on the surplus of a; soundness and
   exactness of embed of any number of signatures against chain_n (Proofs/EmbedChainN.v) ---- *)
Theorem C02_surplus_embed2 : forall (a b : sigT) (uva uvk : bool) (ab : sigT) (c : call), valid_sig (params a) = true -> valid_sig (params b) = true -> embed [a; b] uva uvk = Ok ab -> noncolliding c (params ab) [params a; params b] = true -> accepts (params a) c = true -> surplus (params ab) uva uvk c = surplus (params b) uva uvk (surplus (params a) uva uvk c).
Proof. exact @EmbedChainN.surplus_embed2. Qed.
Print Assumptions C02_surplus_embed2.

Theorem C02_chain_sound : forall (rest : list sigT) (a : sigT) (uva uvk : bool) (r : sigT) (c : call), valid_sig (params a) = true -> Forall (fun s : sigT => valid_sig (params s) = true) rest -> embed (a :: rest) uva uvk = Ok r -> levels a rest uva uvk c -> accepts (params r) c = true -> chain_n (map params (a :: rest)) uva uvk c = true.
Proof. exact @EmbedChainN.C02_chain_sound. Qed.
Print Assumptions C02_chain_sound.

Theorem C02_chain_exact : forall (rest : list sigT) (a : sigT) (uva uvk : bool) (r : sigT) (c : call), valid_sig (params a) = true -> Forall (fun s : sigT => valid_sig (params s) = true) rest -> embed (a :: rest) uva uvk = Ok r -> levels_kept a rest uva uvk c -> accepts (params r) c = chain_n (map params (a :: rest)) uva uvk c.
Proof. exact @EmbedChainN.C02_chain_exact. Qed.
Print Assumptions C02_chain_exact.

Theorem C02_sound3 : forall (a b c : sigT) (uva uvk : bool) (ab r : sigT) (c0 : call), valid_sig (params a) = true -> valid_sig (params b) = true -> valid_sig (params c) = true -> embed [a; b] uva uvk = Ok ab -> embed [a; b; c] uva uvk = Ok r -> noncolliding c0 (params ab) [params a; params b] = true -> noncolliding c0 (params r) [params ab; params c] = true -> accepts (params r) c0 = true -> accepts (params a) c0 = true /\ accepts (params b) (surplus (params a) uva uvk c0) = true /\ accepts (params c) (surplus (params b) uva uvk (surplus (params a) uva uvk c0)) = true.
Proof. exact @EmbedChainN.C02_sound3. Qed.
Print Assumptions C02_sound3.


(* ---- the raise clause for any number of signatures, unconditional (Proofs/EmbedChainRaise.v) ---- *)
Theorem C02_chain_raises_unconditional : forall (rest : list sigT) (a : sigT) (uva uvk : bool), valid_sig (params a) = true -> Forall (fun s : sigT => valid_sig (params s) = true) rest -> embed (a :: rest) uva uvk = Err Incompatible -> exists (pre : list sigT) (b : sigT) (post : list sigT), rest = pre ++ b :: post /\ ((exists s : sigT, In s (a :: pre) /\ shares_name (params s) (params b) = true) \/ (forall c : call, EmbedChainN.chain_n (map params (a :: rest)) uva uvk c = false)).
Proof. exact @EmbedChainRaise.C02_chain_raises_unconditional. Qed.
Print Assumptions C02_chain_raises_unconditional.

Theorem C02_chain_raises_level : forall (rest : list sigT) (a : sigT) (uva uvk : bool), valid_sig (params a) = true -> Forall (fun s : sigT => valid_sig (params s) = true) rest -> embed (a :: rest) uva uvk = Err Incompatible -> exists (pre : list sigT) (b : sigT) (post : list sigT), rest = pre ++ b :: post /\ (embed (a :: pre ++ [b]) uva uvk = Err ValueErr \/ (exists r : sigT, embed (a :: pre) uva uvk = Ok r /\ embed (a :: pre ++ [b]) uva uvk = Err Incompatible /\ (forall x : name, In x (nnames (params r)) -> exists s : sigT, In s (a :: pre) /\ In x (nnames (params s))) /\ (shares_name (params r) (params b) = true \/ (forall c : call, chain (params r) (params b) uva uvk 0 [] c = false)))).
Proof. exact @EmbedChainRaise.C02_chain_raises_level. Qed.
Print Assumptions C02_chain_raises_level.

