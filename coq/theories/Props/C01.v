From Sigtools.Model Require Import Base Bind Algebra.
Theorem C01_placeholder : True. Proof. exact I. Qed.
Print Assumptions C01_placeholder.
