(* C01 — merge: a call accepted by the merged signature is accepted by every input.
   Only statements, each closed by `exact <lemma>`; proofs live in Proofs/. *)
From Sigtools.Model Require Import Base Bind Roles Algebra Universe.
From Sigtools.Proofs Require Import SmallModel Basics SweepDefs Bounded.
From Coq Require Import Lia.

(* Small-model theorem for call shapes: acceptance of ANY call by ANY signature is
   decided by its canonical representative in a finite family. *)
Theorem C01_small_model ps M ns fresh c :
  (length (positional ps) <= M)%nat -> incl (names_of ps) ns -> ~ In fresh ns ->
  accepts ps (canon M ns fresh c) = accepts ps c.
Proof. exact (accepts_canon ps M ns fresh c). Qed.
Print Assumptions C01_small_model.

(* The extracted decider used on the implementation's outputs is complete: when it
   finds no counter-example among the finite family, the result is sound for ALL
   non-colliding calls (unbounded in signatures and calls). *)
Theorem C01_decider_complete r inputs :
  sound_cex r inputs = None ->
  forall c, noncolliding c r inputs = true -> accepts r c = true ->
            forallb (fun s => accepts s c) inputs = true.
Proof. exact (sound_cex_complete r inputs). Qed.
Print Assumptions C01_decider_complete.

Theorem C01_decider_pure_complete r inputs :
  sound_pure_cex r inputs = None ->
  forall c, (npos c = 0%nat \/ kws c = []) -> accepts r c = true ->
            forallb (fun s => accepts s c) inputs = true.
Proof. exact (sound_pure_cex_complete r inputs). Qed.
Print Assumptions C01_decider_pure_complete.

(* ... and every counter-example it returns is a genuine one *)
Theorem C01_decider_witness r inputs c :
  sound_cex r inputs = Some c ->
  noncolliding c r inputs = true /\ accepts r c = true /\
  forallb (fun s => accepts s c) inputs = false.
Proof. exact (sound_cex_witness r inputs c). Qed.
Print Assumptions C01_decider_witness.

(* Bounded (bound in the statement): every pair of U(2,{a,b}) (220 signatures), ALL calls *)
Theorem C01_sound_pairs_U2 a b r :
  In a U2ab -> In b U2ab -> merge [mk a; mk b] = Ok r ->
  (forall c, (npos c = 0%nat \/ kws c = []) -> accepts (params r) c = true ->
             accepts a c = true /\ accepts b c = true) /\
  (role_consistent [a; b] = true ->
   forall c, noncolliding c (params r) [a; b] = true -> accepts (params r) c = true ->
             accepts a c = true /\ accepts b c = true).
Proof. exact (merge_sound_pairs_U2 a b r). Qed.
Print Assumptions C01_sound_pairs_U2.

(* Bounded: every triple of U(1,{a,b}) through the n-ary fold over buckets, ALL calls *)
Theorem C01_sound_triples_U1 a b c0 r :
  In a U1ab -> In b U1ab -> In c0 U1ab -> merge [mk a; mk b; mk c0] = Ok r ->
  (forall c, (npos c = 0%nat \/ kws c = []) -> accepts (params r) c = true ->
             forallb (fun s => accepts s c) [a; b; c0] = true) /\
  (role_consistent [a; b; c0] = true ->
   forall c, noncolliding c (params r) [a; b; c0] = true -> accepts (params r) c = true ->
             forallb (fun s => accepts s c) [a; b; c0] = true).
Proof. exact (merge_sound_triples_U1 a b c0 r). Qed.
Print Assumptions C01_sound_triples_U1.

Example C01_universe_nonempty : length U2ab = 220%nat /\ length U1ab = 52%nat.
Proof. split; vm_compute; reflexivity. Qed.
Print Assumptions C01_universe_nonempty.
