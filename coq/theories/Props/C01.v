(* C01 — merge: a call accepted by the merged signature is accepted by every input.
   Only statements, each closed by `exact <lemma>`; proofs live in Proofs/. *)
From Sigtools.Model Require Import Base Bind Roles Algebra Universe.
From Sigtools.Proofs Require Import SmallModel Basics SweepDefs Bounded MergeSound MergeSoundMixed MergeSoundN.
From Coq Require Import Lia.

(* Small-model theorem for call shapes: acceptance of ANY call by ANY signature is
   decided by its canonical representative in a finite family. *)
Theorem C01_small_model ps M ns fresh c :
  (length (positional ps) <= M)%nat -> incl (names_of ps) ns -> ~ In fresh ns ->
  accepts ps (canon M ns fresh c) = accepts ps c.
Proof. exact (accepts_canon ps M ns fresh c). Qed.
Print Assumptions C01_small_model.

(* The extracted decider used on the implementation's outputs is complete: when it
   finds no counter-example among the finite family, the result is sound for ALL
   non-colliding calls (unbounded in signatures and calls). *)
Theorem C01_decider_complete r inputs :
  sound_cex r inputs = None ->
  forall c, noncolliding c r inputs = true -> accepts r c = true ->
            forallb (fun s => accepts s c) inputs = true.
Proof. exact (sound_cex_complete r inputs). Qed.
Print Assumptions C01_decider_complete.

Theorem C01_decider_pure_complete r inputs :
  sound_pure_cex r inputs = None ->
  forall c, (npos c = 0%nat \/ kws c = []) -> accepts r c = true ->
            forallb (fun s => accepts s c) inputs = true.
Proof. exact (sound_pure_cex_complete r inputs). Qed.
Print Assumptions C01_decider_pure_complete.

(* ... and every counter-example it returns is a genuine one *)
Theorem C01_decider_witness r inputs c :
  sound_cex r inputs = Some c ->
  noncolliding c r inputs = true /\ accepts r c = true /\
  forallb (fun s => accepts s c) inputs = false.
Proof. exact (sound_cex_witness r inputs c). Qed.
Print Assumptions C01_decider_witness.

(* Bounded (bound in the statement): every pair of U(2,{a,b}) (220 signatures), ALL calls *)
Theorem C01_sound_pairs_U2 a b r :
  In a U2ab -> In b U2ab -> merge [mk a; mk b] = Ok r ->
  (forall c, (npos c = 0%nat \/ kws c = []) -> accepts (params r) c = true ->
             accepts a c = true /\ accepts b c = true) /\
  (role_consistent [a; b] = true ->
   forall c, noncolliding c (params r) [a; b] = true -> accepts (params r) c = true ->
             accepts a c = true /\ accepts b c = true).
Proof. exact (merge_sound_pairs_U2 a b r). Qed.
Print Assumptions C01_sound_pairs_U2.

(* Bounded: every triple of U(1,{a,b}) through the n-ary fold over buckets, ALL calls *)
Theorem C01_sound_triples_U1 a b c0 r :
  In a U1ab -> In b U1ab -> In c0 U1ab -> merge [mk a; mk b; mk c0] = Ok r ->
  (forall c, (npos c = 0%nat \/ kws c = []) -> accepts (params r) c = true ->
             forallb (fun s => accepts s c) [a; b; c0] = true) /\
  (role_consistent [a; b; c0] = true ->
   forall c, noncolliding c (params r) [a; b; c0] = true -> accepts (params r) c = true ->
             forallb (fun s => accepts s c) [a; b; c0] = true).
Proof. exact (merge_sound_triples_U1 a b c0 r). Qed.
Print Assumptions C01_sound_triples_U1.

Example C01_universe_nonempty : length U2ab = 220%nat /\ length U1ab = 52%nat.
Proof. split; vm_compute; reflexivity. Qed.
Print Assumptions C01_universe_nonempty.

(* ---- soundness of merge for ALL signatures (Proofs/MergeSound*.v): pure-positional and pure-keyword calls
   through the n-ary fold (also when an intermediate accumulator is not a valid signature) and through the
   nested form; mixed calls for pairs under role consistency and non-collision, both conditions forced
   (refutations) ---- *)
Theorem C01_merge_sound_pos_kw : forall (ss : list sigT) (r : sigT) (c : call), Forall (fun s : sigT => valid_sig (params s) = true) ss -> merge ss = Ok r -> kws c = [] \/ npos c = 0%nat -> accepts (params r) c = true -> Forall (fun s : sigT => accepts (params s) c = true) ss.
Proof. exact @MergeSound.merge_sound_pos_kw. Qed.
Print Assumptions C01_merge_sound_pos_kw.

Theorem C01_merge2_sound_pos_kw : forall (a b r : sigT) (c : call), valid_sig (params a) = true -> valid_sig (params b) = true -> merge [a; b] = Ok r -> kws c = [] \/ npos c = 0%nat -> accepts (params r) c = true -> accepts (params a) c = true /\ accepts (params b) c = true.
Proof. exact @MergeSound.merge2_sound_pos_kw. Qed.
Print Assumptions C01_merge2_sound_pos_kw.

Theorem C01_merge_nested_sound_pos_kw : forall (ss : list sigT) (r : sigT) (c : call), Forall (fun s : sigT => valid_sig (params s) = true) ss -> merge_nested ss = Ok r -> kws c = [] \/ npos c = 0%nat -> accepts (params r) c = true -> Forall (fun s : sigT => accepts (params s) c = true) ss.
Proof. exact @MergeSound.merge_nested_sound_pos_kw. Qed.
Print Assumptions C01_merge_nested_sound_pos_kw.

Theorem C01_merge_valid : forall (ss : list sigT) (r : sigT), Forall (fun s : sigT => valid_sig (params s) = true) ss -> merge ss = Ok r -> valid_sig (params r) = true.
Proof. exact @MergeSound.merge_valid. Qed.
Print Assumptions C01_merge_valid.

Theorem C01_merge_sound_invalid_intermediate : let a := {| params := [{| pname := 2; pkind := PK; pdef := None; pann := None; puann := UEmpty |}; {| pname := 10; pkind := VK; pdef := None; pann := None; puann := UEmpty |}]; ret := None; uret := UEmpty; srcs := []; deps := [] |} in let b := {| params := [{| pname := 1; pkind := PK; pdef := None; pann := None; puann := UEmpty |}; {| pname := 2; pkind := KO; pdef := Some 1; pann := None; puann := UEmpty |}; {| pname := 10; pkind := VK; pdef := None; pann := None; puann := UEmpty |}]; ret := None; uret := UEmpty; srcs := []; deps := [] |} in let c := {| params := [{| pname := 3; pkind := PK; pdef := None; pann := None; puann := UEmpty |}]; ret := None; uret := UEmpty; srcs := []; deps := [] |} in Forall (fun s : sigT => valid_sig (params s) = true) [a; b; c] /\ (exists acc : sorted, merger (sort_params a) (sort_params b) = Ok acc /\ validate (flatten acc) = false) /\ (exists r : sigT, merge [a; b; c] = Ok r /\ params r = [{| pname := 2; pkind := PO; pdef := None; pann := None; puann := UEmpty |}] /\ accepts (params r) {| npos := 1; kws := [] |} = true).
Proof. exact @MergeSound.merge_sound_invalid_intermediate. Qed.
Print Assumptions C01_merge_sound_invalid_intermediate.

Theorem C01_merge2_sound_mixed : forall (a b r : sigT) (c : call), valid_sig (params a) = true -> valid_sig (params b) = true -> role_consistent [params a; params b] = true -> merge [a; b] = Ok r -> noncolliding c (params r) [params a; params b] = true -> accepts (params r) c = true -> accepts (params a) c = true /\ accepts (params b) c = true.
Proof. exact @MergeSoundMixed.merge2_sound_mixed. Qed.
Print Assumptions C01_merge2_sound_mixed.

Theorem C01_sound_pairs : forall (a b : list param) (r : sigT), valid_sig a = true -> valid_sig b = true -> merge [{| params := a; ret := None; uret := UEmpty; srcs := []; deps := [] |}; {| params := b; ret := None; uret := UEmpty; srcs := []; deps := [] |}] = Ok r -> (forall c : call, npos c = 0%nat \/ kws c = [] -> accepts (params r) c = true -> accepts a c = true /\ accepts b c = true) /\ (role_consistent [a; b] = true -> forall c : call, noncolliding c (params r) [a; b] = true -> accepts (params r) c = true -> accepts a c = true /\ accepts b c = true).
Proof. exact @MergeSoundMixed.C01_sound_pairs. Qed.
Print Assumptions C01_sound_pairs.

Theorem C01_merge2_mixed_needs_role_consistency : let a := {| params := [{| pname := 1; pkind := PK; pdef := None; pann := None; puann := UEmpty |}; {| pname := 2; pkind := PK; pdef := None; pann := None; puann := UEmpty |}]; ret := None; uret := UEmpty; srcs := []; deps := [] |} in let b := {| params := [{| pname := 2; pkind := PK; pdef := None; pann := None; puann := UEmpty |}; {| pname := 9; pkind := VP; pdef := None; pann := None; puann := UEmpty |}; {| pname := 10; pkind := VK; pdef := None; pann := None; puann := UEmpty |}]; ret := None; uret := UEmpty; srcs := []; deps := [] |} in let c := {| npos := 1; kws := [2] |} in valid_sig (params a) = true /\ valid_sig (params b) = true /\ role_consistent [params a; params b] = false /\ (exists r : sigT, merge [a; b] = Ok r /\ noncolliding c (params r) [params a; params b] = true /\ accepts (params r) c = true /\ accepts (params b) c = false).
Proof. exact @MergeSoundMixed.merge2_mixed_needs_role_consistency. Qed.
Print Assumptions C01_merge2_mixed_needs_role_consistency.

Theorem C01_merge2_mixed_needs_noncolliding : let a := {| params := [{| pname := 1; pkind := PK; pdef := None; pann := None; puann := UEmpty |}; {| pname := 10; pkind := VK; pdef := None; pann := None; puann := UEmpty |}]; ret := None; uret := UEmpty; srcs := []; deps := [] |} in let b := {| params := [{| pname := 2; pkind := PK; pdef := None; pann := None; puann := UEmpty |}; {| pname := 10; pkind := VK; pdef := None; pann := None; puann := UEmpty |}]; ret := None; uret := UEmpty; srcs := []; deps := [] |} in let c := {| npos := 1; kws := [2] |} in valid_sig (params a) = true /\ valid_sig (params b) = true /\ role_consistent [params a; params b] = true /\ (exists r : sigT, merge [a; b] = Ok r /\ noncolliding c (params r) [params a; params b] = false /\ accepts (params r) c = true /\ accepts (params b) c = false).
Proof. exact @MergeSoundMixed.merge2_mixed_needs_noncolliding. Qed.
Print Assumptions C01_merge2_mixed_needs_noncolliding.


(* ---- every non-colliding call through the n-ary fold, any number of valid role-consistent inputs
   (Proofs/MergeSoundN.v; role consistency is not preserved by a merge step, the fold carries a weaker
   relation) ---- *)
Theorem C01_merge_sound_mixed_n : forall (ss : list sigT) (r : sigT) (c : call), RcValidN.all_valid ss -> role_consistent (map params ss) = true -> merge ss = Ok r -> noncolliding c (params r) (map params ss) = true -> accepts (params r) c = true -> Forall (fun s : sigT => accepts (params s) c = true) ss.
Proof. exact @MergeSoundN.merge_sound_mixed_n. Qed.
Print Assumptions C01_merge_sound_mixed_n.

Theorem C01_merge_nested_sound_mixed_n : forall (ss : list sigT) (r : sigT) (c : call), RcValidN.all_valid ss -> role_consistent (map params ss) = true -> merge_nested ss = Ok r -> noncolliding c (params r) (map params ss) = true -> accepts (params r) c = true -> Forall (fun s : sigT => accepts (params s) c = true) ss.
Proof. exact @MergeSoundN.merge_nested_sound_mixed_n. Qed.
Print Assumptions C01_merge_nested_sound_mixed_n.

