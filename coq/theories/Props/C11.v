From Sigtools.Model Require Import Base Bind Algebra Annot Visitor Discover.
From Sigtools.Proofs Require Import Annot AnnotTwins AnnotWraps AnnotDiscover.
Open Scope N_scope.

Theorem C11_carried_merge : forall s0 ss r, merge (s0 :: ss) = Ok r ->
  Forall (carried (flat_map params (s0 :: ss))) (params r) /\ ret r = ret s0 /\ uret r = uret s0.
Proof. exact carried_merge. Qed.
Print Assumptions C11_carried_merge.

Theorem C11_carried_embed : forall s0 ss uva uvk r, embed (s0 :: ss) uva uvk = Ok r ->
  Forall (carried (flat_map params (s0 :: ss))) (params r) /\ ret r = ret s0 /\ uret r = uret s0.
Proof. exact carried_embed. Qed.
Print Assumptions C11_carried_embed.

Theorem C11_carried_mask : forall s n h named pm r, mask_gen s n h named pm = Ok r ->
  Forall (carried_named (params s)) (params r) /\ ret r = ret s /\ uret r = uret s.
Proof. exact carried_mask_gen. Qed.
Print Assumptions C11_carried_mask.

Theorem C11_carried_partial : forall s n kw pobj r, sig_partial s n kw pobj = Ok r ->
  Forall (carried_named (params s)) (params r) /\ ret r = ret s /\ uret r = uret s.
Proof. exact carried_sig_partial. Qed.
Print Assumptions C11_carried_partial.

Theorem C11_carried_forwards : forall o i n names0 ha hk uva uvk p r,
  forwards o i n names0 ha hk uva uvk p = Ok r ->
  Forall (carried (params o ++ params i)) (params r) /\ ret r = ret o /\ uret r = uret o.
Proof. exact carried_forwards. Qed.
Print Assumptions C11_carried_forwards.

Theorem C11_carried_named_refuted :
  exists ss r, merge ss = Ok r /\ ~ Forall (carried_named (flat_map params ss)) (params r).
Proof. exact carried_named_merge_refuted. Qed.
Print Assumptions C11_carried_named_refuted.

Theorem C11_source_value_merge : forall d0 ds g r, merge (map up (d0 :: ds)) = Ok r ->
  Forall (in_context (d0 :: ds) g) (params r) /\
  source_value g (uret r) = source_value g (uret (up d0)).
Proof. exact context_merge. Qed.
Print Assumptions C11_source_value_merge.

Theorem C11_source_value_embed : forall d0 ds uva uvk g r, embed (map up (d0 :: ds)) uva uvk = Ok r ->
  Forall (in_context (d0 :: ds) g) (params r) /\
  source_value g (uret r) = source_value g (uret (up d0)).
Proof. exact context_embed. Qed.
Print Assumptions C11_source_value_embed.

Theorem C11_source_value_forwards : forall d0 d1 n names0 ha hk uva uvk pt g r,
  forwards (up d0) (up d1) n names0 ha hk uva uvk pt = Ok r ->
  Forall (in_context [d0; d1] g) (params r) /\
  source_value g (uret r) = source_value g (uret (up d0)).
Proof. exact context_forwards. Qed.
Print Assumptions C11_source_value_forwards.

Theorem C11_source_value_mask : forall d0 n h named pm g r, mask_gen (up d0) n h named pm = Ok r ->
  Forall (in_context [d0] g) (params r) /\
  source_value g (uret r) = source_value g (uret (up d0)).
Proof. exact context_mask_gen. Qed.
Print Assumptions C11_source_value_mask.

Theorem C11_source_value_postponed : forall g f a,
  source_value g (upgrade (Some true) (Some f) (Some a)) = g f a.
Proof. exact source_value_postponed. Qed.
Print Assumptions C11_source_value_postponed.

Theorem C11_annotate : forall retv anns s r g, annotate retv anns s = Ok r ->
  map pname (params r) = map pname (params s) /\
  map pkind (params r) = map pkind (params s) /\
  map pdef (params r) = map pdef (params s) /\
  (forall p, In p (params r) ->
     match assoc_ann (pname p) anns with
     | Some v => pann p = v /\ puann p = preevaluated v /\ source_value g (puann p) = v
     | None => In p (params s)
     end) /\
  match retv with
  | Some v => ret r = v /\ uret r = preevaluated v /\ source_value g (uret r) = v
  | None => ret r = ret s /\ uret r = uret s
  end.
Proof. exact annotate_verbatim. Qed.
Print Assumptions C11_annotate.

Theorem C11_evaluated : forall g s,
  map pname (params (evaluated g s)) = map pname (params s) /\
  map pkind (params (evaluated g s)) = map pkind (params s) /\
  map pdef (params (evaluated g s)) = map pdef (params s) /\
  map puann (params (evaluated g s)) = map puann (params s) /\
  map pann (params (evaluated g s)) = map (fun p => source_value g (puann p)) (params s) /\
  ret (evaluated g s) = source_value g (uret s) /\ uret (evaluated g s) = uret s /\
  srcs (evaluated g s) = srcs s /\ deps (evaluated g s) = deps s /\
  observe g (evaluated g s) = observe g s.
Proof. exact evaluated_spec. Qed.
Print Assumptions C11_evaluated.

Theorem C11_pep563_refuted :
  exists g ds, Forall (fun d : fdesc => fst (fst (fst d)) = Some true) ds /\
    res_map (observe g) (merge (map up ds)) <>
    res_map (observe g) (merge (map up (map (eager_twin g) ds))).
Proof. exact pep563_refuted. Qed.
Print Assumptions C11_pep563_refuted.

Theorem C11_pep563_refuted_two_spellings :
  res_map (observe g_w2) (merge (map up ds_w2)) = Ok ([(1, PK, None, None)], None) /\
  res_map (observe g_w2) (merge (map up (map (eager_twin g_w2) ds_w2))) = Ok ([(1, PK, None, Some 1)], None).
Proof. exact pep563_refuted_two_spellings. Qed.
Print Assumptions C11_pep563_refuted_two_spellings.

Theorem C11_pep563_concile_partial : forall rho a b, injective rho ->
  eagerize_param rho (concile a b) = concile (eagerize_param rho a) (eagerize_param rho b).
Proof. exact eagerize_concile. Qed.
Print Assumptions C11_pep563_concile_partial.

Theorem C11_pep563_merge : forall rho, injective rho -> forall g ss, Forall (coherent_sig rho g) ss ->
  res_map (observe g) (merge (map (eagerize rho) ss)) = res_map (observe g) (merge ss).
Proof. exact pep563_merge. Qed.
Print Assumptions C11_pep563_merge.

Theorem C11_pep563_partial : forall rho, injective rho -> forall g ds, Forall (twin_ok rho g) ds ->
  res_map (observe g) (merge (map up (map (eager_twin g) ds))) =
  res_map (observe g) (merge (map up ds)).
Proof. exact pep563_partial. Qed.
Print Assumptions C11_pep563_partial.

(* ---- twin invariance beyond merge (Proofs/AnnotTwins.v): computing on postponed-annotation
   signatures and then evaluating gives what computing on the eagerly annotated twins gives, for
   embed, mask, partial, forwards and the composition automatic discovery performs.  mask and
   partial need no hypothesis on the environment; embed / forwards / discover compare annotations
   (conciliation) and need it injective on the spellings involved: the two refutations show the
   inputs that force this. *)
Theorem C11_twin_embed : forall rho : N -> N, injective rho -> forall (g : genv) (ds : list fdesc) (uva uvk : bool), Forall (twin_ok rho g) ds -> res_map (observe g) (embed (map up (map (eager_twin g) ds)) uva uvk) = res_map (observe g) (embed (map up ds) uva uvk).
Proof. exact @twin_embed. Qed.
Print Assumptions C11_twin_embed.

Theorem C11_twin_forwards : forall rho : N -> N, injective rho -> forall (g : genv) (d0 d1 : fdesc) (n : nat) (names0 : list name) (ha hk uva uvk p : bool), twin_ok rho g d0 -> twin_ok rho g d1 -> res_map (observe g) (forwards (up (eager_twin g d0)) (up (eager_twin g d1)) n names0 ha hk uva uvk p) = res_map (observe g) (forwards (up d0) (up d1) n names0 ha hk uva uvk p).
Proof. exact @twin_forwards. Qed.
Print Assumptions C11_twin_forwards.

Theorem C11_twin_discover : forall rho : N -> N, injective rho -> forall (g : genv) (d_own d_plain : fdesc) (ha : bool) (cs : list (callinfo * fdesc * bool)), twin_ok rho g d_own -> twin_ok rho g d_plain -> Forall (fun x : callinfo * fdesc * bool => twin_ok rho g (snd (fst x))) cs -> observe g (discover (up (eager_twin g d_own)) (up (eager_twin g d_plain)) ha (calls_of (eager_twin g) cs)) = observe g (discover (up d_own) (up d_plain) ha (calls_of (fun d : fdesc => d) cs)).
Proof. exact @twin_discover. Qed.
Print Assumptions C11_twin_discover.

Theorem C11_twin_mask_gen : forall (g : genv) (d : fdesc) (n : nat) (h : hideflags) (named : list (name * N)) (pm : pmode), bound_ok g d -> res_map (observe g) (mask_gen (up (eager_twin g d)) n h named pm) = res_map (observe g) (mask_gen (up d) n h named pm).
Proof. exact @twin_mask_gen. Qed.
Print Assumptions C11_twin_mask_gen.

Theorem C11_twin_mask : forall (g : genv) (d : fdesc) (n : nat) (names0 : list name) (h : hideflags), bound_ok g d -> res_map (observe g) (mask (up (eager_twin g d)) n names0 h) = res_map (observe g) (mask (up d) n names0 h).
Proof. exact @twin_mask. Qed.
Print Assumptions C11_twin_mask.

Theorem C11_twin_sig_partial : forall (g : genv) (d : fdesc) (n : nat) (kw : list (name * N)) (pobj : N), bound_ok g d -> res_map (observe g) (sig_partial (up (eager_twin g d)) n kw pobj) = res_map (observe g) (sig_partial (up d) n kw pobj).
Proof. exact @twin_sig_partial. Qed.
Print Assumptions C11_twin_sig_partial.

Theorem C11_pep563_embed : forall rho : N -> N, injective rho -> forall (g : genv) (ss : list sigT) (uva uvk : bool), Forall (coherent_sig rho g) ss -> res_map (observe g) (embed (map (eagerize rho) ss) uva uvk) = res_map (observe g) (embed ss uva uvk).
Proof. exact @pep563_embed. Qed.
Print Assumptions C11_pep563_embed.

Theorem C11_pep563_forwards : forall rho : N -> N, injective rho -> forall (g : genv) (o i : sigT) (n : nat) (names0 : list name) (ha hk uva uvk p : bool), coherent_sig rho g o -> coherent_sig rho g i -> res_map (observe g) (forwards (eagerize rho o) (eagerize rho i) n names0 ha hk uva uvk p) = res_map (observe g) (forwards o i n names0 ha hk uva uvk p).
Proof. exact @pep563_forwards. Qed.
Print Assumptions C11_pep563_forwards.

Theorem C11_pep563_discover : forall rho : N -> N, injective rho -> forall (g : genv) (own plain : sigT) (ha : bool) (calls : list callinfo), coherent_sig rho g own -> coherent_sig rho g plain -> Forall (coherent_call rho g) calls -> observe g (discover (eagerize rho own) (eagerize rho plain) ha (map (Ecall rho) calls)) = observe g (discover own plain ha calls).
Proof. exact @pep563_discover. Qed.
Print Assumptions C11_pep563_discover.

Theorem C11_pep563_mask_gen : forall (rho : N -> N) (g : genv) (s : sigT) (n : nat) (h : hideflags) (named : list (name * N)) (pm : pmode), coherent_sig rho g s -> res_map (observe g) (mask_gen (eagerize rho s) n h named pm) = res_map (observe g) (mask_gen s n h named pm).
Proof. exact @pep563_mask_gen. Qed.
Print Assumptions C11_pep563_mask_gen.

Theorem C11_pep563_merge_local : forall (S : list N) (rho : N -> N), inj_on S rho -> forall (g : genv) (ss : list sigT), Forall (raws_in S) ss -> Forall (coherent_sig rho g) ss -> res_map (observe g) (merge (map (eagerize rho) ss)) = res_map (observe g) (merge ss).
Proof. exact @pep563_merge_local. Qed.
Print Assumptions C11_pep563_merge_local.

Theorem C11_pep563_embed_local : forall (S : list N) (rho : N -> N), inj_on S rho -> forall (g : genv) (ss : list sigT) (uva uvk : bool), Forall (raws_in S) ss -> Forall (coherent_sig rho g) ss -> res_map (observe g) (embed (map (eagerize rho) ss) uva uvk) = res_map (observe g) (embed ss uva uvk).
Proof. exact @pep563_embed_local. Qed.
Print Assumptions C11_pep563_embed_local.

Theorem C11_pep563_forwards_local : forall (S : list N) (rho : N -> N), inj_on S rho -> forall (g : genv) (o i : sigT) (n : nat) (names0 : list name) (ha hk uva uvk p : bool), raws_in S o -> raws_in S i -> coherent_sig rho g o -> coherent_sig rho g i -> res_map (observe g) (forwards (eagerize rho o) (eagerize rho i) n names0 ha hk uva uvk p) = res_map (observe g) (forwards o i n names0 ha hk uva uvk p).
Proof. exact @pep563_forwards_local. Qed.
Print Assumptions C11_pep563_forwards_local.

Theorem C11_pep563_discover_local : forall (S : list N) (rho : N -> N), inj_on S rho -> forall (g : genv) (own plain : sigT) (ha : bool) (calls : list callinfo), raws_in S own -> raws_in S plain -> Forall (raws_in_call S) calls -> coherent_sig rho g own -> coherent_sig rho g plain -> Forall (coherent_call rho g) calls -> observe g (discover (eagerize rho own) (eagerize rho plain) ha (map (Ecall rho) calls)) = observe g (discover own plain ha calls).
Proof. exact @pep563_discover_local. Qed.
Print Assumptions C11_pep563_discover_local.

Theorem C11_embed_twin_refuted : exists (g : genv) (ds : list fdesc) (uva uvk : bool), Forall (bound_ok g) ds /\ res_map (observe g) (embed (map up (map (eager_twin g) ds)) uva uvk) <> res_map (observe g) (embed (map up ds) uva uvk).
Proof. exact @embed_twin_refuted. Qed.
Print Assumptions C11_embed_twin_refuted.

Theorem C11_forwards_twin_refuted : exists (g : genv) (d0 d1 : fdesc), bound_ok g d0 /\ bound_ok g d1 /\ res_map (observe g) (forwards (up (eager_twin g d0)) (up (eager_twin g d1)) 0 [] false false true true false) <> res_map (observe g) (forwards (up d0) (up d1) 0 [] false false true true false).
Proof. exact @forwards_twin_refuted. Qed.
Print Assumptions C11_forwards_twin_refuted.


(* ---- retrieval through a functools.wraps wrapper defined in another module reports the WRAPPER's globals for the
   copied annotations (known finding C11:wraps-globals; Proofs/AnnotWraps.v) ---- *)
Theorem C11_upgrade_defining_context : forall (g : genv) (f : N) (rps : list rawparam) (rr : option N) (p : param), In p (params (upgrade_sig (Some true) f rps rr)) -> match pann p with | Some a => source_value g (puann p) = denotes g f a | None => source_value g (puann p) = None end.
Proof. exact @AnnotWraps.upgrade_defining_context. Qed.
Print Assumptions C11_upgrade_defining_context.

Theorem C11_wraps_reports_wrapper_context : forall (g : genv) (wrapper : N) (rps : list rawparam) (rr : option N) (p : param), In p (params (retrieve_through (Some true) wrapper rps rr)) -> match pann p with | Some a => source_value g (puann p) = denotes g wrapper a | None => source_value g (puann p) = None end.
Proof. exact @AnnotWraps.wraps_reports_wrapper_context. Qed.
Print Assumptions C11_wraps_reports_wrapper_context.

Theorem C11_wraps_globals_refuted : exists (g : genv) (wrapped wrapper : N) (rps : list rawparam) (rr : option N) (p : param) (a : N), (exists raw : N, g wrapped raw <> g wrapper raw) /\ In p (params (retrieve_through (Some true) wrapper rps rr)) /\ pann p = Some a /\ source_value g (puann p) <> denotes g wrapped a /\ source_value g (uret (retrieve_through (Some true) wrapper rps rr)) <> match rr with | Some r => denotes g wrapped r | None => None end.
Proof. exact @AnnotWraps.wraps_globals_refuted. Qed.
Print Assumptions C11_wraps_globals_refuted.


(* ---- annotate() on a plain forwarding function is lost under automatic discovery (known finding
   C11:annotate-lost-in-discovery; Proofs/AnnotDiscover.v) ---- *)
Theorem C11_annotate_lost_in_discovery_refuted : exists (g : genv) (own plain : sigT) (calls : list callinfo) (v r : N), annotate (Some (Some r)) [(1, Some v)] own = Ok plain /\ ann_of g 1 plain = Some v /\ source_value g (uret plain) = Some r /\ ann_of g 1 (discover own plain true calls) = None /\ source_value g (uret (discover own plain true calls)) = None /\ map pname (params (discover own plain true calls)) = [1; 14; 15; 16].
Proof. exact @AnnotDiscover.annotate_lost_in_discovery_refuted. Qed.
Print Assumptions C11_annotate_lost_in_discovery_refuted.

Theorem C11_annotate_kept_by_explicit_forwards : exists (g : genv) (plain r : sigT), annotate None [(1, Some 7)] own_sig = Ok plain /\ forwards plain callee_sig 0 [] false false true true false = Ok r /\ ann_of g 1 r = Some 7.
Proof. exact @AnnotDiscover.annotate_kept_by_explicit_forwards. Qed.
Print Assumptions C11_annotate_kept_by_explicit_forwards.

Theorem C11_discovery_ignores_annotated : forall (own plain plain' : sigT) (ha : bool) (calls : list callinfo) (r : sigT), autoforwards own ha calls = Some r -> discover own plain ha calls = discover own plain' ha calls.
Proof. exact @AnnotDiscover.discovery_ignores_annotated. Qed.
Print Assumptions C11_discovery_ignores_annotated.

