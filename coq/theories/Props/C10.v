(* C10 — defaults, annotations and kinds of combined parameters. *)
From Sigtools.Model Require Import Base Bind Roles Algebra.
From Sigtools.Proofs Require Import SmallModel Basics.

Theorem C10_optional_iff l r : has_def (concile l r) = has_def l && has_def r.
Proof. exact (concile_optional_iff l r). Qed.
Print Assumptions C10_optional_iff.

Theorem C10_default l r d :
  pdef (concile l r) = Some d ->
  exists a b, pdef l = Some a /\ pdef r = Some b /\ ((a = b /\ d = a) \/ (a <> b /\ d = 0%N)).
Proof. exact (concile_default l r d). Qed.
Print Assumptions C10_default.

Theorem C10_annotation l r :
  (pann (concile l r), puann (concile l r)) =
  match pann l, pann r with
  | Some a, Some b => if N.eqb a b then (Some a, puann l) else (None, UEmpty)
  | Some a, None => (Some a, puann l)
  | None, Some b => (Some b, puann r)
  | None, None => (None, UEmpty)
  end.
Proof. exact (concile_annotation l r). Qed.
Print Assumptions C10_annotation.

Theorem C10_name_kind l r : pname (concile l r) = pname l /\ pkind (concile l r) = pkind l.
Proof. exact (concile_name_kind l r). Qed.
Print Assumptions C10_name_kind.
