(* C10 — defaults, annotations and kinds of combined parameters. *)
From Sigtools.Model Require Import Base Bind Roles Algebra.
From Sigtools.Proofs Require Import SmallModel Basics ProvKeys Contrib.

Theorem C10_optional_iff l r : has_def (concile l r) = has_def l && has_def r.
Proof. exact (concile_optional_iff l r). Qed.
Print Assumptions C10_optional_iff.

Theorem C10_default l r d :
  pdef (concile l r) = Some d ->
  exists a b, pdef l = Some a /\ pdef r = Some b /\ ((a = b /\ d = a) \/ (a <> b /\ d = 0%N)).
Proof. exact (concile_default l r d). Qed.
Print Assumptions C10_default.

Theorem C10_annotation l r :
  (pann (concile l r), puann (concile l r)) =
  match pann l, pann r with
  | Some a, Some b => if N.eqb a b then (Some a, puann l) else (None, UEmpty)
  | Some a, None => (Some a, puann l)
  | None, Some b => (Some b, puann r)
  | None, None => (None, UEmpty)
  end.
Proof. exact (concile_annotation l r). Qed.
Print Assumptions C10_annotation.

Theorem C10_name_kind l r : pname (concile l r) = pname l /\ pkind (concile l r) = pkind l.
Proof. exact (concile_name_kind l r). Qed.
Print Assumptions C10_name_kind.

(* ---- the contributor theorem for merge, all signatures (Proofs/Contrib.v): every result parameter is a
   contributor's parameter or the conciliation of two, with the stated rules for default, annotation and
   kind; by name for consistently named inputs ---- *)
Theorem C10_merge2_contrib : forall a b r : sigT, merge [a; b] = Ok r -> Forall (contrib_of (params a) (params b)) (params r).
Proof. exact @Contrib.merge2_contrib. Qed.
Print Assumptions C10_merge2_contrib.

Theorem C10_merge2_rules : forall (a b r : sigT) (p : param), merge [a; b] = Ok r -> In p (params r) -> (exists q : param, (In q (params a) \/ In q (params b)) /\ pname p = pname q /\ kind_ok (pkind q) (pkind p) /\ pdef p = pdef q /\ pann p = pann q /\ puann p = puann q) \/ (exists q1 q2 : param, (In q1 (params a) /\ In q2 (params b) \/ In q1 (params b) /\ In q2 (params a)) /\ partner_ok q1 q2 /\ pname p = pname q1 /\ kind_ok (pkind q1) (pkind p) /\ has_def p = has_def q1 && has_def q2 /\ (forall d : N, pdef p = Some d -> exists d1 d2 : N, pdef q1 = Some d1 /\ pdef q2 = Some d2 /\ (d1 = d2 /\ d = d1 \/ d1 <> d2 /\ d = 0)) /\ (pann p, puann p) = match pann q1 with | Some x => match pann q2 with | Some y => if x =? y then (Some x, puann q1) else (None, UEmpty) | None => (Some x, puann q1) end | None => match pann q2 with | Some y => (Some y, puann q2) | None => (None, UEmpty) end end).
Proof. exact @Contrib.merge2_rules. Qed.
Print Assumptions C10_merge2_rules.

Theorem C10_merge2_optional : forall (a b r : sigT) (p : param), merge [a; b] = Ok r -> In p (params r) -> has_def p = true -> exists q : param, (In q (params a) \/ In q (params b)) /\ pname p = pname q /\ has_def q = true.
Proof. exact @Contrib.merge2_optional. Qed.
Print Assumptions C10_merge2_optional.

Theorem C10_merge2_kind : forall (a b r : sigT) (p : param), merge [a; b] = Ok r -> In p (params r) -> exists q : param, (In q (params a) \/ In q (params b)) /\ pname p = pname q /\ kind_ok (pkind q) (pkind p).
Proof. exact @Contrib.merge2_kind. Qed.
Print Assumptions C10_merge2_kind.

Theorem C10_merge2_by_name : forall a b : sigT, valid_sig (params a) = true -> valid_sig (params b) = true -> name_aligned (params a) (params b) = true -> role_consistent [params a; params b] = true -> forall (r : sigT) (p : param), merge [a; b] = Ok r -> In p (params r) -> is_named p = true -> match find_param (pname p) (params a) with | Some qa => match find_param (pname p) (params b) with | Some qb => restr (concile qa qb) p | None => restr qa p end | None => match find_param (pname p) (params b) with | Some qb => restr qb p | None => False end end.
Proof. exact @Contrib.merge2_by_name. Qed.
Print Assumptions C10_merge2_by_name.

Theorem C10_merge2_by_name_needs_consistency : exists (a b r : sigT) (p : param), valid_sig (params a) = true /\ valid_sig (params b) = true /\ merge [a; b] = Ok r /\ In p (params r) /\ is_named p = true /\ (exists qa qb : param, find_param (pname p) (params a) = Some qa /\ find_param (pname p) (params b) = Some qb /\ ~ restr (concile qa qb) p /\ src_get (srcs r) (pname p) = [100] /\ src_get (srcs b) (pname p) = [101]).
Proof. exact @Contrib.merge2_by_name_needs_consistency. Qed.
Print Assumptions C10_merge2_by_name_needs_consistency.

