(* C10 — defaults, annotations and kinds of combined parameters. *)
From Sigtools.Model Require Import Base Bind Roles Algebra.
From Sigtools.Proofs Require Import SmallModel Basics ProvKeys Contrib ContribEmbed ContribMore.

Theorem C10_optional_iff l r : has_def (concile l r) = has_def l && has_def r.
Proof. exact (concile_optional_iff l r). Qed.
Print Assumptions C10_optional_iff.

Theorem C10_default l r d :
  pdef (concile l r) = Some d ->
  exists a b, pdef l = Some a /\ pdef r = Some b /\ ((a = b /\ d = a) \/ (a <> b /\ d = 0%N)).
Proof. exact (concile_default l r d). Qed.
Print Assumptions C10_default.

Theorem C10_annotation l r :
  (pann (concile l r), puann (concile l r)) =
  match pann l, pann r with
  | Some a, Some b => if N.eqb a b then (Some a, puann l) else (None, UEmpty)
  | Some a, None => (Some a, puann l)
  | None, Some b => (Some b, puann r)
  | None, None => (None, UEmpty)
  end.
Proof. exact (concile_annotation l r). Qed.
Print Assumptions C10_annotation.

Theorem C10_name_kind l r : pname (concile l r) = pname l /\ pkind (concile l r) = pkind l.
Proof. exact (concile_name_kind l r). Qed.
Print Assumptions C10_name_kind.

(* ---- the contributor theorem for merge, all signatures (Proofs/Contrib.v): every result parameter is a
   contributor's parameter or the conciliation of two, with the stated rules for default, annotation and
   kind; by name for consistently named inputs ---- *)
Theorem C10_merge2_contrib : forall a b r : sigT, merge [a; b] = Ok r -> Forall (contrib_of (params a) (params b)) (params r).
Proof. exact @Contrib.merge2_contrib. Qed.
Print Assumptions C10_merge2_contrib.

Theorem C10_merge2_rules : forall (a b r : sigT) (p : param), merge [a; b] = Ok r -> In p (params r) -> (exists q : param, (In q (params a) \/ In q (params b)) /\ pname p = pname q /\ kind_ok (pkind q) (pkind p) /\ pdef p = pdef q /\ pann p = pann q /\ puann p = puann q) \/ (exists q1 q2 : param, (In q1 (params a) /\ In q2 (params b) \/ In q1 (params b) /\ In q2 (params a)) /\ partner_ok q1 q2 /\ pname p = pname q1 /\ kind_ok (pkind q1) (pkind p) /\ has_def p = has_def q1 && has_def q2 /\ (forall d : N, pdef p = Some d -> exists d1 d2 : N, pdef q1 = Some d1 /\ pdef q2 = Some d2 /\ (d1 = d2 /\ d = d1 \/ d1 <> d2 /\ d = 0)) /\ (pann p, puann p) = match pann q1 with | Some x => match pann q2 with | Some y => if x =? y then (Some x, puann q1) else (None, UEmpty) | None => (Some x, puann q1) end | None => match pann q2 with | Some y => (Some y, puann q2) | None => (None, UEmpty) end end).
Proof. exact @Contrib.merge2_rules. Qed.
Print Assumptions C10_merge2_rules.

Theorem C10_merge2_optional : forall (a b r : sigT) (p : param), merge [a; b] = Ok r -> In p (params r) -> has_def p = true -> exists q : param, (In q (params a) \/ In q (params b)) /\ pname p = pname q /\ has_def q = true.
Proof. exact @Contrib.merge2_optional. Qed.
Print Assumptions C10_merge2_optional.

Theorem C10_merge2_kind : forall (a b r : sigT) (p : param), merge [a; b] = Ok r -> In p (params r) -> exists q : param, (In q (params a) \/ In q (params b)) /\ pname p = pname q /\ kind_ok (pkind q) (pkind p).
Proof. exact @Contrib.merge2_kind. Qed.
Print Assumptions C10_merge2_kind.

Theorem C10_merge2_by_name : forall a b : sigT, valid_sig (params a) = true -> valid_sig (params b) = true -> name_aligned (params a) (params b) = true -> role_consistent [params a; params b] = true -> forall (r : sigT) (p : param), merge [a; b] = Ok r -> In p (params r) -> is_named p = true -> match find_param (pname p) (params a) with | Some qa => match find_param (pname p) (params b) with | Some qb => restr (concile qa qb) p | None => restr qa p end | None => match find_param (pname p) (params b) with | Some qb => restr qb p | None => False end end.
Proof. exact @Contrib.merge2_by_name. Qed.
Print Assumptions C10_merge2_by_name.

Theorem C10_merge2_by_name_needs_consistency : exists (a b r : sigT) (p : param), valid_sig (params a) = true /\ valid_sig (params b) = true /\ merge [a; b] = Ok r /\ In p (params r) /\ is_named p = true /\ (exists qa qb : param, find_param (pname p) (params a) = Some qa /\ find_param (pname p) (params b) = Some qb /\ ~ restr (concile qa qb) p /\ src_get (srcs r) (pname p) = [100] /\ src_get (srcs b) (pname p) = [101]).
Proof. exact @Contrib.merge2_by_name_needs_consistency. Qed.
Print Assumptions C10_merge2_by_name_needs_consistency.


(* ---- contributors, dropped defaults and order for embed, mask and partial (Proofs/ContribEmbed.v) ---- *)
Theorem C10_embed2_contrib : forall (o i : sigT) (uva uvk : bool) (r : sigT), embed [o; i] uva uvk = Ok r -> Forall (econtrib (params o) (params i)) (params r).
Proof. exact @ContribEmbed.embed2_contrib. Qed.
Print Assumptions C10_embed2_contrib.

Theorem C10_embed2_outer : forall (o i : sigT) (uva uvk : bool) (r : sigT), embed [o; i] uva uvk = Ok r -> valid_sig (params o) = true -> forall q : param, In q (params o) -> survives uva uvk q -> exists p : param, In p (params r) /\ pname p = pname q /\ pann p = pann q /\ puann p = puann q /\ Contrib.kind_ok (pkind q) (pkind p) /\ pdef p = (if is_positional q && cleared o r then None else pdef q).
Proof. exact @ContribEmbed.embed2_outer. Qed.
Print Assumptions C10_embed2_outer.

Theorem C10_embed2_cleared_required : forall o r : sigT, cleared o r = true -> exists f : param, In f (positional (params r)) /\ mem (pname f) (names_of (positional (params o))) = false /\ has_def f = false.
Proof. exact @ContribEmbed.embed2_cleared_required. Qed.
Print Assumptions C10_embed2_cleared_required.

Theorem C10_embed2_optional : forall (o i : sigT) (uva uvk : bool) (r : sigT) (p : param), embed [o; i] uva uvk = Ok r -> In p (params r) -> has_def p = true -> exists q : param, (In q (params o) \/ In q (params i)) /\ pname q = pname p /\ has_def q = true.
Proof. exact @ContribEmbed.embed2_optional. Qed.
Print Assumptions C10_embed2_optional.

Theorem C10_embed2_order : forall (o i : sigT) (uva uvk : bool) (r : sigT), embed [o; i] uva uvk = Ok r -> valid_sig (params o) = true -> valid_sig (params i) = true -> names_of (positional (params r)) = names_of (positional (params o)) ++ filter (fun x : N => mem x (names_of (positional (params r))) && negb (mem x (names_of (positional (params o))))) (names_of (positional (params i))) /\ names_of (kwonly (params r)) = names_of (kwonly (params o)) ++ filter (fun x : N => mem x (names_of (kwonly (params r))) && negb (mem x (names_of (kwonly (params o))))) (names_of (positional (params i) ++ kwonly (params i))).
Proof. exact @ContribEmbed.embed2_order. Qed.
Print Assumptions C10_embed2_order.

Theorem C10_mask_gen_contrib : forall (s : sigT) (n : nat) (h : hideflags) (named : list (name * N)) (pm : pmode) (r : sigT), mask_gen s n h named pm = Ok r -> Forall (mcontrib pm named (params s)) (params r).
Proof. exact @ContribEmbed.mask_gen_contrib. Qed.
Print Assumptions C10_mask_gen_contrib.

Theorem C10_mask_contrib : forall (s : sigT) (n : nat) (names0 : list name) (h : hideflags) (r : sigT), mask s n names0 h = Ok r -> forall p : param, In p (params r) -> exists q : param, In q (params s) /\ Contrib.restr q p.
Proof. exact @ContribEmbed.mask_contrib. Qed.
Print Assumptions C10_mask_contrib.

Theorem C10_sig_partial_kw : forall (s : sigT) (n : nat) (kw : list (name * N)) (pobj : N) (r : sigT), sig_partial s n kw pobj = Ok r -> forall (x : name) (v : N), In (x, v) kw -> exists p : param, In p (params r) /\ pname p = x /\ pkind p = KO /\ pdef p = Some v /\ ((exists q : param, In q (params s) /\ pname q = x /\ is_kwpassable q = true /\ pann p = pann q /\ puann p = puann q) \/ pann p = None /\ puann p = UEmpty).
Proof. exact @ContribEmbed.sig_partial_kw. Qed.
Print Assumptions C10_sig_partial_kw.

Theorem C10_mask_gen_order : forall (s : sigT) (n : nat) (h : hideflags) (named : list (name * N)) (pm : pmode) (r : sigT), mask_gen s n h named pm = Ok r -> valid_sig (params s) = true -> names_of (positional (params r)) = filter (fun x : N => mem x (names_of (positional (params r)))) (names_of (positional (params s))).
Proof. exact @ContribEmbed.mask_gen_order. Qed.
Print Assumptions C10_mask_gen_order.


(* ---- contributors of forwards, order of positional and keyword-only parameters after merge (Proofs/ContribMore.v) ---- *)
Theorem C10_forwards_contrib : forall (o i : sigT) (n : nat) (names0 : list name) (ha hk uva uvk pt : bool) (r : sigT), forwards o i n names0 ha hk uva uvk pt = Ok r -> Forall (ContribEmbed.econtrib (params o) (finner pt (params i))) (params r).
Proof. exact @ContribMore.forwards_contrib. Qed.
Print Assumptions C10_forwards_contrib.

Theorem C10_forwards_optional : forall (o i : sigT) (n : nat) (names0 : list name) (ha hk uva uvk : bool) (r : sigT) (p : param), forwards o i n names0 ha hk uva uvk false = Ok r -> In p (params r) -> has_def p = true -> exists q : param, (In q (params o) \/ In q (params i)) /\ pname q = pname p /\ has_def q = true.
Proof. exact @ContribMore.forwards_optional. Qed.
Print Assumptions C10_forwards_optional.

Theorem C10_merge2_order_pos : forall a b r : sigT, merge [a; b] = Ok r -> valid_sig (params a) = true -> valid_sig (params b) = true -> let LP := positional (params a) in let RP := positional (params b) in let n := Nat.min (length LP) (length RP) in map erase (firstn n (positional (params r))) = map erase (zipl LP RP) /\ names_of (skipn n (positional (params r))) = filter (fun x : N => mem x (names_of (skipn n (positional (params r))))) (names_of (skipn (length RP) LP ++ skipn (length LP) RP)).
Proof. exact @ContribMore.merge2_order_pos. Qed.
Print Assumptions C10_merge2_order_pos.

Theorem C10_merge2_order_kwo : forall a b r : sigT, merge [a; b] = Ok r -> valid_sig (params a) = true -> valid_sig (params b) = true -> let LP := positional (params a) in let RP := positional (params b) in let lA := names_of (filter (is_kind PK) (skipn (length RP) LP)) in let lB := names_of (filter (is_kind PK) (skipn (length LP) RP)) in let KA := names_of (kwonly (params a)) in let KB := names_of (kwonly (params b)) in names_of (kwonly (params r)) = filter (fun x : N => mem x KB) KA ++ filter (fun x : N => mem x KB || has_kind VK (params b) && negb (has_kind VP (params b))) lA ++ filter (fun x : N => mem x KA || has_kind VK (params a) && negb (has_kind VP (params a))) lB ++ (if has_kind VK (params b) then filter (fun x : N => negb (mem x KB) && negb (mem x lB)) KA else []) ++ (if has_kind VK (params a) then filter (fun x : N => negb (mem x KA) && negb (mem x lA)) KB else []).
Proof. exact @ContribMore.merge2_order_kwo. Qed.
Print Assumptions C10_merge2_order_kwo.


(* ---- order clause for merge (binary and n-ary), contributors and order for forwards (Proofs/ContribOrder.v, ContribForwards.v) ---- *)
From Sigtools.Proofs Require Import ContribOrder.
Theorem C10_merge2_order : forall a b r : sigT, merge [a; b] = Ok r -> valid_sig (params a) = true -> valid_sig (params b) = true -> exists cs : list contribs, Forall2 pos_made cs (positional (params r)) /\ Sub (omap fst cs) (positional (params a)) /\ Sub (omap snd cs) (positional (params b)).
Proof. exact @ContribOrder.merge2_order. Qed.
Print Assumptions C10_merge2_order.

Theorem C10_merge2_order_sorted : forall a b r : sigT, merge [a; b] = Ok r -> exists cs : list contribs, Forall2 pos_made cs (positional (params r)) /\ Sub (omap fst cs) (posargs (sort_params a) ++ pokargs (sort_params a)) /\ Sub (omap snd cs) (posargs (sort_params b) ++ pokargs (sort_params b)).
Proof. exact @ContribOrder.merge2_order_sorted. Qed.
Print Assumptions C10_merge2_order_sorted.

Theorem C10_merge2_order_explicit : forall a b r : sigT, merge [a; b] = Ok r -> valid_sig (params a) = true -> valid_sig (params b) = true -> let LP := positional (params a) in let RP := positional (params b) in exists zs ks kept : list param, positional (params r) = zs ++ ks /\ Forall2 restr (zipl LP RP) zs /\ Forall2 restr kept ks /\ Sub kept (skipn (length RP) LP ++ skipn (length LP) RP).
Proof. exact @ContribOrder.merge2_order_explicit. Qed.
Print Assumptions C10_merge2_order_explicit.

Theorem C10_merge2_order_pairwise : forall a b r : sigT, merge [a; b] = Ok r -> valid_sig (params a) = true -> valid_sig (params b) = true -> forall p p' : param, before p p' (positional (params r)) -> exists c c' : contribs, pos_made c p /\ pos_made c' p' /\ (forall q q' : param, fst c = Some q -> fst c' = Some q' -> before q q' (positional (params a))) /\ (forall q q' : param, snd c = Some q -> snd c' = Some q' -> before q q' (positional (params b))).
Proof. exact @ContribOrder.merge2_order_pairwise. Qed.
Print Assumptions C10_merge2_order_pairwise.

Theorem C10_merge2_order_needs_valid : exists a b r : sigT, valid_sig (params b) = true /\ merge [a; b] = Ok r /\ names_of (positional (params b)) = [] /\ names_of (positional (params a)) = [1; 2] /\ names_of (positional (params r)) = [2; 1].
Proof. exact @ContribOrder.merge2_order_needs_valid. Qed.
Print Assumptions C10_merge2_order_needs_valid.

Theorem C10_merge2_order_kwo_refuted : exists a b r : sigT, valid_sig (params a) = true /\ valid_sig (params b) = true /\ merge [a; b] = Ok r /\ names_of (kwonly (params a)) = [1; 2] /\ names_of (kwonly (params b)) = [2] /\ names_of (kwonly (params r)) = [2; 1] /\ (forall p : param, In p (kwonly (params r)) -> exists q : param, In q (kwonly (params a)) /\ pname q = pname p).
Proof. exact @ContribOrder.merge2_order_kwo_refuted. Qed.
Print Assumptions C10_merge2_order_kwo_refuted.

Theorem C10_merge2_order_kwo_partial : forall a b r : sigT, merge [a; b] = Ok r -> valid_sig (params a) = true -> valid_sig (params b) = true -> let LP := positional (params a) in let RP := positional (params b) in let lA := names_of (filter (is_kind PK) (skipn (length RP) LP)) in let lB := names_of (filter (is_kind PK) (skipn (length LP) RP)) in let KA := names_of (kwonly (params a)) in let KB := names_of (kwonly (params b)) in let RK := names_of (kwonly (params r)) in filter (fun x : N => mem x KA && mem x KB) RK = filter (fun x : N => mem x KB) KA /\ filter (fun x : N => mem x KA && negb (mem x KB) && negb (mem x lB)) RK = (if has_kind VK (params b) then filter (fun x : N => negb (mem x KB) && negb (mem x lB)) KA else []) /\ filter (fun x : N => mem x KB && negb (mem x KA) && negb (mem x lA)) RK = (if has_kind VK (params a) then filter (fun x : N => negb (mem x KA) && negb (mem x lA)) KB else []) /\ filter (fun x : N => mem x lA) RK = filter (fun x : N => mem x KB || has_kind VK (params b) && negb (has_kind VP (params b))) lA /\ filter (fun x : N => mem x lB) RK = filter (fun x : N => mem x KA || has_kind VK (params a) && negb (has_kind VP (params a))) lB.
Proof. exact @ContribOrder.merge2_order_kwo_partial. Qed.
Print Assumptions C10_merge2_order_kwo_partial.

Theorem C10_merge_order : forall (ss : list sigT) (r : sigT), merge ss = Ok r -> exists cvs : list (list (option param)), Forall2 madeN cvs (positional (params r)) /\ Forall (fun cv : list (option param) => length cv = length ss) cvs /\ (forall (k : nat) (s : sigT), nth_error ss k = Some s -> Sub (omap (slot k) cvs) (PS s)).
Proof. exact @ContribOrder.merge_order. Qed.
Print Assumptions C10_merge_order.

Theorem C10_merge_order_valid : forall (ss : list sigT) (r : sigT), merge ss = Ok r -> Forall (fun s : sigT => valid_sig (params s) = true) ss -> exists cvs : list (list (option param)), Forall2 madeN cvs (positional (params r)) /\ Forall (fun cv : list (option param) => length cv = length ss) cvs /\ (forall (k : nat) (s : sigT), nth_error ss k = Some s -> Sub (omap (slot k) cvs) (positional (params s))) /\ (forall (k : nat) (s : sigT) (cv cv' : list (option param)) (q q' : param), nth_error ss k = Some s -> before cv cv' cvs -> slot k cv = Some q -> slot k cv' = Some q' -> before q q' (positional (params s))).
Proof. exact @ContribOrder.merge_order_valid. Qed.
Print Assumptions C10_merge_order_valid.

From Sigtools.Proofs Require Import ContribForwards.
Theorem C10_forwards_made : forall (o i : sigT) (n : nat) (names0 : list name) (ha hk uva uvk pt : bool) (r : sigT) (p : param), forwards o i n names0 ha hk uva uvk pt = Ok r -> In p (params r) -> (exists q : param, In q (params o) /\ pname p = pname q /\ pann p = pann q /\ puann p = puann q /\ kind_ok (pkind q) (pkind p) /\ (pdef p = pdef q \/ is_positional q = true /\ pdef p = None)) \/ (exists q : param, In q (params i) /\ pname p = pname q /\ pann p = pann q /\ puann p = puann q /\ kind_ok (pkind q) (pkind p) /\ pdef p = pdef (if pt then defaulted q else q)) \/ (exists a b : param, In a (params i) /\ In b (params o) /\ (pkind a = VP \/ pkind a = VK) /\ pkind b = pkind a /\ p = concile a b).
Proof. exact @ContribForwards.forwards_made. Qed.
Print Assumptions C10_forwards_made.

Theorem C10_forwards_order : forall (o i : sigT) (n : nat) (names0 : list name) (ha hk uva uvk pt : bool) (r : sigT), forwards o i n names0 ha hk uva uvk pt = Ok r -> valid_sig (params o) = true -> valid_sig (params i) = true -> names_of (positional (params r)) = names_of (positional (params o)) ++ filter (fun x : N => mem x (names_of (positional (params r))) && negb (mem x (names_of (positional (params o))))) (names_of (positional (params i))) /\ (exists m : sigT, mask {| params := finner pt (params i); ret := ret i; uret := uret i; srcs := srcs i; deps := deps i |} n names0 {| h_args := ha; h_kwargs := hk; h_varargs := false; h_varkwargs := false |} = Ok m /\ names_of (positional (params m)) = filter (fun x : N => mem x (names_of (positional (params m)))) (names_of (positional (params i))) /\ names_of (kwonly (params r)) = names_of (kwonly (params o)) ++ filter (fun x : N => mem x (names_of (kwonly (params r))) && negb (mem x (names_of (kwonly (params o))))) (names_of (positional (params m) ++ kwonly (params m)))).
Proof. exact @ContribForwards.forwards_order. Qed.
Print Assumptions C10_forwards_order.

Theorem C10_forwards_order_pairwise : forall (o i : sigT) (n : nat) (names0 : list name) (ha hk uva uvk pt : bool) (r : sigT) (x y : name), forwards o i n names0 ha hk uva uvk pt = Ok r -> valid_sig (params o) = true -> valid_sig (params i) = true -> let RP := names_of (positional (params r)) in let OP := names_of (positional (params o)) in let IP := names_of (positional (params i)) in In x RP -> In y RP -> (before x y OP -> before x y RP) /\ (~ In x OP -> ~ In y OP -> before x y IP -> before x y RP) /\ (In x OP -> ~ In y OP -> before x y RP).
Proof. exact @ContribForwards.forwards_order_pairwise. Qed.
Print Assumptions C10_forwards_order_pairwise.

Theorem C10_mask_gen_valid : forall (s : sigT) (n : nat) (h : hideflags) (named : list (name * N)) (pm : pmode) (r : sigT), mask_gen s n h named pm = Ok r -> valid_sig (params r) = true.
Proof. exact @ContribForwards.mask_gen_valid. Qed.
Print Assumptions C10_mask_gen_valid.

