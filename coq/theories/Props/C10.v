From Sigtools.Model Require Import Base Bind Algebra.
Theorem C10_placeholder : True. Proof. exact I. Qed.
Print Assumptions C10_placeholder.
