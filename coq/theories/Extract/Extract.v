(* Extraction of the executable model for the correspondence check.
   Only ExtrOcamlBasic is used: bool/option/unit/list/prod/sumbool/sumor map to
   OCaml's; numbers (nat, positive, N) stay the extracted inductives. *)
From Coq Require Import ExtrOcamlBasic.
From Sigtools.Model Require Import Base Bind Roles Algebra.
Extraction "../ocaml/model.ml"
  accepts noncolliding shapes_for
  sound_cex sound_pure_cex exact_cex none_cex
  chain chain_sound_cex chain_exact_cex chain_none_cex
  mask_exact_cex mask_none_cex mask_hide_cex partial_exact_cex partial_none_cex incl_cex
  role_consistent all_aligned
  validate valid_sig sort_params apply_params flatten
  merge merge_nested embed mask sig_partial forwards.
