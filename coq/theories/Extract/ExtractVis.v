(* Extraction of the discovery model (visitor + forward_signatures) for the
   correspondence checks of C05 / C06 / C07.  ExtrOcamlBasic only. *)
From Coq Require Import ExtrOcamlBasic.
From Sigtools.Model Require Import Base Bind Roles Algebra Visitor Discover.
Extraction "../ocaml/vmodel.ml"
  visit_function discover autoforwards info_of forward_sigs
  mask sig_partial merge forwards incl_cex accepts.
