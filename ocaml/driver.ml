(* Line-protocol driver around the extracted model (Model).
   One request per input line, one answer line per request.  Hand-written and
   trusted: tokeniser, number conversion, canonical printing. *)
open Model

let rec pos_of_int n =
  if n <= 1 then XH
  else if n land 1 = 0 then XO (pos_of_int (n lsr 1))
  else XI (pos_of_int (n lsr 1))
let n_of_int n = if n = 0 then N0 else Npos (pos_of_int n)
let rec int_of_pos = function
  | XH -> 1 | XO p -> 2 * int_of_pos p | XI p -> 2 * int_of_pos p + 1
let int_of_n = function N0 -> 0 | Npos p -> int_of_pos p
let rec nat_of_int n = if n <= 0 then O else S (nat_of_int (n - 1))
let rec int_of_nat = function O -> 0 | S n -> 1 + int_of_nat n

exception Parse of string

let toks = ref []
let next () = match !toks with
  | [] -> raise (Parse "eof")
  | t :: r -> toks := r; t
let next_int () = let t = next () in
  try int_of_string t with _ -> raise (Parse ("int:" ^ t))
let next_bool () = match next () with "1" -> true | "0" -> false | t -> raise (Parse ("bool:" ^ t))

let kind_of_string = function
  | "PO" -> PO | "PK" -> PK | "VP" -> VP | "KO" -> KO | "VK" -> VK
  | s -> raise (Parse ("kind:" ^ s))
let string_of_kind = function PO -> "PO" | PK -> "PK" | VP -> "VP" | KO -> "KO" | VK -> "VK"

let opt_of_string s = if s = "-" then None else Some (n_of_int (int_of_string s))
let string_of_opt = function None -> "-" | Some v -> string_of_int (int_of_n v)

let uann_of_string s =
  if s = "E" then UEmpty
  else if s.[0] = 'P' then UPre (n_of_int (int_of_string (String.sub s 1 (String.length s - 1))))
  else if s.[0] = 'D' then
    match String.split_on_char '.' (String.sub s 1 (String.length s - 1)) with
    | [a; b] -> UPost (n_of_int (int_of_string a), n_of_int (int_of_string b))
    | _ -> raise (Parse ("uann:" ^ s))
  else raise (Parse ("uann:" ^ s))
let string_of_uann = function
  | UEmpty -> "E"
  | UPre v -> "P" ^ string_of_int (int_of_n v)
  | UPost (r, f) -> "D" ^ string_of_int (int_of_n r) ^ "." ^ string_of_int (int_of_n f)

let param_of_string s =
  match String.split_on_char '/' s with
  | [nm; k; d; a; u] ->
    { pname = n_of_int (int_of_string nm); pkind = kind_of_string k;
      pdef = opt_of_string d; pann = opt_of_string a; puann = uann_of_string u }
  | _ -> raise (Parse ("param:" ^ s))
let string_of_param p =
  String.concat "/" [ string_of_int (int_of_n p.pname); string_of_kind p.pkind;
                      string_of_opt p.pdef; string_of_opt p.pann; string_of_uann p.puann ]

let rec rep n f = if n <= 0 then [] else let x = f () in x :: rep (n - 1) f

(* sig tokens: S np param.. ret uret nsrc [name m f..].. ndep [f d].. *)
let read_sig () =
  (match next () with "S" -> () | t -> raise (Parse ("S expected:" ^ t)));
  let np = next_int () in
  let ps = rep np (fun () -> param_of_string (next ())) in
  let r = opt_of_string (next ()) in
  let ur = uann_of_string (next ()) in
  let ns = next_int () in
  let src = rep ns (fun () ->
      let nm = n_of_int (next_int ()) in
      let m = next_int () in
      let fs = rep m (fun () -> n_of_int (next_int ())) in
      (nm, fs)) in
  let nd = next_int () in
  let dep = rep nd (fun () ->
      let f = n_of_int (next_int ()) in
      let d = n_of_int (next_int ()) in (f, d)) in
  { params = ps; ret = r; uret = ur; srcs = src; deps = dep }

let string_of_sig s =
  let src = List.sort (fun (a, _) (b, _) -> compare (int_of_n a) (int_of_n b)) s.srcs in
  let dep = List.sort (fun (a, _) (b, _) -> compare (int_of_n a) (int_of_n b)) s.deps in
  String.concat " " (
    [ "S"; string_of_int (List.length s.params) ]
    @ List.map string_of_param s.params
    @ [ string_of_opt s.ret; string_of_uann s.uret; string_of_int (List.length src) ]
    @ List.concat_map (fun (nm, fs) ->
        string_of_int (int_of_n nm) :: string_of_int (List.length fs)
        :: List.map (fun f -> string_of_int (int_of_n f)) fs) src
    @ [ string_of_int (List.length dep) ]
    @ List.concat_map (fun (f, d) -> [ string_of_int (int_of_n f); string_of_int (int_of_n d) ]) dep)

let string_of_res = function
  | Ok s -> string_of_sig s
  | Err Incompatible -> "ERR Incompatible"
  | Err ValueErr -> "ERR ValueError"
  | Err (OtherErr t) -> "ERR Other" ^ string_of_int (int_of_n t)

let read_names () = let k = next_int () in rep k (fun () -> n_of_int (next_int ()))
let read_sigs () = let k = next_int () in rep k read_sig
let read_call () =
  let n = next_int () in
  let ks = read_names () in
  { npos = nat_of_int n; kws = ks }

let string_of_cex = function
  | None -> "OK"
  | Some c ->
    "CEX " ^ string_of_int (int_of_nat c.npos) ^ " "
    ^ string_of_int (List.length c.kws)
    ^ String.concat "" (List.map (fun k -> " " ^ string_of_int (int_of_n k)) c.kws)

let pl s = s.params

let handle () =
  match next () with
  | "merge" -> string_of_res (merge (read_sigs ()))
  | "mergen" -> string_of_res (merge_nested (read_sigs ()))
  | "embed" ->
    let uva = next_bool () in let uvk = next_bool () in
    string_of_res (embed (read_sigs ()) uva uvk)
  | "mask" ->
    let s = read_sig () in
    let n = next_int () in
    let names = read_names () in
    let ha = next_bool () in let hk = next_bool () in
    let hva = next_bool () in let hvk = next_bool () in
    string_of_res (mask s (nat_of_int n) names
                     { h_args = ha; h_kwargs = hk; h_varargs = hva; h_varkwargs = hvk })
  | "partial" ->
    let s = read_sig () in
    let n = next_int () in
    let k = next_int () in
    let kw = rep k (fun () ->
        let nm = n_of_int (next_int ()) in let v = n_of_int (next_int ()) in (nm, v)) in
    let pobj = n_of_int (next_int ()) in
    string_of_res (sig_partial s (nat_of_int n) kw pobj)
  | "forwards" ->
    let o = read_sig () in let i = read_sig () in
    let n = next_int () in
    let names = read_names () in
    let ha = next_bool () in let hk = next_bool () in
    let uva = next_bool () in let uvk = next_bool () in
    let p = next_bool () in
    string_of_res (forwards o i (nat_of_int n) names ha hk uva uvk p)
  | "sortapply" ->
    let s = read_sig () in
    string_of_res (apply_params s (sort_params s))
  | "rolecons" -> let ss = read_sigs () in
    if role_consistent (List.map pl ss) then "T" else "F"
  | "aligned" -> let ss = read_sigs () in
    if all_aligned (List.map pl ss) then "T" else "F"
  | "valid" -> let s = read_sig () in if valid_sig (pl s) then "T" else "F"
  | "accepts" ->
    let s = read_sig () in let c = read_call () in
    if accepts (pl s) c then "T" else "F"
  | "acceptsall" ->
    (* one signature, many calls: answer a string of T/F *)
    let s = read_sig () in
    let k = next_int () in
    let cs = rep k read_call in
    String.concat "" (List.map (fun c -> if accepts (pl s) c then "T" else "F") cs)
  | "shapes" ->
    let ss = read_sigs () in
    let cs = shapes_for (List.map pl ss) in
    String.concat ";" (List.map (fun c ->
        string_of_int (int_of_nat c.npos) ^ ":"
        ^ String.concat "," (List.map (fun k -> string_of_int (int_of_n k)) c.kws)) cs)
  | "sound" -> let r = read_sig () in let ss = read_sigs () in
    string_of_cex (sound_cex (pl r) (List.map pl ss))
  | "soundpure" -> let r = read_sig () in let ss = read_sigs () in
    string_of_cex (sound_pure_cex (pl r) (List.map pl ss))
  | "exact" -> let r = read_sig () in let ss = read_sigs () in
    string_of_cex (exact_cex (pl r) (List.map pl ss))
  | "none" -> let ss = read_sigs () in
    string_of_cex (none_cex (List.map pl ss))
  | "incl" -> let a = read_sig () in let b = read_sig () in
    string_of_cex (incl_cex (pl a) (pl b))
  | ("chainsound" | "chainexact") as w ->
    let r = read_sig () in let o = read_sig () in let i = read_sig () in
    let uva = next_bool () in let uvk = next_bool () in
    let n0 = next_int () in let names = read_names () in
    let extra = read_sigs () in
    string_of_cex ((if w = "chainsound" then chain_sound_cex else chain_exact_cex)
                     (pl r) (pl o) (pl i) uva uvk (nat_of_int n0) names (List.map pl extra))
  | "chainnone" ->
    let o = read_sig () in let i = read_sig () in
    let uva = next_bool () in let uvk = next_bool () in
    let n0 = next_int () in let names = read_names () in
    string_of_cex (chain_none_cex (pl o) (pl i) uva uvk (nat_of_int n0) names)
  | "chain" ->
    let o = read_sig () in let i = read_sig () in
    let uva = next_bool () in let uvk = next_bool () in
    let n0 = next_int () in let names = read_names () in
    let c = read_call () in
    if chain (pl o) (pl i) uva uvk (nat_of_int n0) names c then "T" else "F"
  | "maskexact" ->
    let r = read_sig () in let s = read_sig () in
    let n = next_int () in let names = read_names () in
    string_of_cex (mask_exact_cex (pl r) (pl s) (nat_of_int n) names)
  | "maskhide" ->
    let r = read_sig () in let s = read_sig () in
    let n = next_int () in let names = read_names () in
    let ha = next_bool () in let hk = next_bool () in
    string_of_cex (mask_hide_cex (pl r) (pl s) (nat_of_int n) names ha hk)
  | "masknone" ->
    let s = read_sig () in
    let n = next_int () in let names = read_names () in
    string_of_cex (mask_none_cex (pl s) (nat_of_int n) names)
  | "partialnone" ->
    let s = read_sig () in
    let n = next_int () in let names = read_names () in
    string_of_cex (partial_none_cex (pl s) (nat_of_int n) names)
  | "partialexact" ->
    let r = read_sig () in let s = read_sig () in
    let n = next_int () in let names = read_names () in
    string_of_cex (partial_exact_cex (pl r) (pl s) (nat_of_int n) names)
  | t -> raise (Parse ("op:" ^ t))

let () =
  try
    while true do
      let line = input_line stdin in
      toks := List.filter (fun s -> s <> "") (String.split_on_char ' ' line);
      (match !toks with
       | [] -> print_endline ""
       | _ ->
         (try print_endline (handle ())
          with Parse m -> print_endline ("PARSE-ERROR " ^ m)
             | Stack_overflow -> print_endline "DRIVER-ERROR stack"))
    done
  with End_of_file -> ()
