(* Line-protocol driver around the extracted model (Vmodel: visitor + discovery).
   One request per input line, one answer line per request.  Hand-written and
   trusted: tokeniser, number conversion, canonical printing. *)
open Vmodel

let rec pos_of_int n =
  if n <= 1 then XH
  else if n land 1 = 0 then XO (pos_of_int (n lsr 1))
  else XI (pos_of_int (n lsr 1))
let n_of_int n = if n = 0 then N0 else Npos (pos_of_int n)
let rec int_of_pos = function
  | XH -> 1 | XO p -> 2 * int_of_pos p | XI p -> 2 * int_of_pos p + 1
let int_of_n = function N0 -> 0 | Npos p -> int_of_pos p
let rec nat_of_int n = if n <= 0 then O else S (nat_of_int (n - 1))
let rec int_of_nat = function O -> 0 | S n -> 1 + int_of_nat n

exception Parse of string

let toks = ref []
let next () = match !toks with
  | [] -> raise (Parse "eof")
  | t :: r -> toks := r; t
let next_int () = let t = next () in
  try int_of_string t with _ -> raise (Parse ("int:" ^ t))
let next_bool () = match next () with "1" -> true | "0" -> false | t -> raise (Parse ("bool:" ^ t))

let kind_of_string = function
  | "PO" -> PO | "PK" -> PK | "VP" -> VP | "KO" -> KO | "VK" -> VK
  | s -> raise (Parse ("kind:" ^ s))
let string_of_kind = function PO -> "PO" | PK -> "PK" | VP -> "VP" | KO -> "KO" | VK -> "VK"

let opt_of_string s = if s = "-" then None else Some (n_of_int (int_of_string s))
let string_of_opt = function None -> "-" | Some v -> string_of_int (int_of_n v)

let uann_of_string s =
  if s = "E" then UEmpty
  else if s.[0] = 'P' then UPre (n_of_int (int_of_string (String.sub s 1 (String.length s - 1))))
  else if s.[0] = 'D' then
    match String.split_on_char '.' (String.sub s 1 (String.length s - 1)) with
    | [a; b] -> UPost (n_of_int (int_of_string a), n_of_int (int_of_string b))
    | _ -> raise (Parse ("uann:" ^ s))
  else raise (Parse ("uann:" ^ s))
let string_of_uann = function
  | UEmpty -> "E"
  | UPre v -> "P" ^ string_of_int (int_of_n v)
  | UPost (r, f) -> "D" ^ string_of_int (int_of_n r) ^ "." ^ string_of_int (int_of_n f)

let param_of_string s =
  match String.split_on_char '/' s with
  | [nm; k; d; a; u] ->
    { pname = n_of_int (int_of_string nm); pkind = kind_of_string k;
      pdef = opt_of_string d; pann = opt_of_string a; puann = uann_of_string u }
  | _ -> raise (Parse ("param:" ^ s))
let string_of_param p =
  String.concat "/" [ string_of_int (int_of_n p.pname); string_of_kind p.pkind;
                      string_of_opt p.pdef; string_of_opt p.pann; string_of_uann p.puann ]

let rec rep n f = if n <= 0 then [] else let x = f () in x :: rep (n - 1) f

(* sig tokens: S np param.. ret uret nsrc [name m f..].. ndep [f d].. *)
let read_sig () =
  (match next () with "S" -> () | t -> raise (Parse ("S expected:" ^ t)));
  let np = next_int () in
  let ps = rep np (fun () -> param_of_string (next ())) in
  let r = opt_of_string (next ()) in
  let ur = uann_of_string (next ()) in
  let ns = next_int () in
  let src = rep ns (fun () ->
      let nm = n_of_int (next_int ()) in
      let m = next_int () in
      let fs = rep m (fun () -> n_of_int (next_int ())) in
      (nm, fs)) in
  let nd = next_int () in
  let dep = rep nd (fun () ->
      let f = n_of_int (next_int ()) in
      let d = n_of_int (next_int ()) in (f, d)) in
  { params = ps; ret = r; uret = ur; srcs = src; deps = dep }

let string_of_sig s =
  let src = List.sort (fun (a, _) (b, _) -> compare (int_of_n a) (int_of_n b)) s.srcs in
  let dep = List.sort (fun (a, _) (b, _) -> compare (int_of_n a) (int_of_n b)) s.deps in
  String.concat " " (
    [ "S"; string_of_int (List.length s.params) ]
    @ List.map string_of_param s.params
    @ [ string_of_opt s.ret; string_of_uann s.uret; string_of_int (List.length src) ]
    @ List.concat_map (fun (nm, fs) ->
        string_of_int (int_of_n nm) :: string_of_int (List.length fs)
        :: List.map (fun f -> string_of_int (int_of_n f)) fs) src
    @ [ string_of_int (List.length dep) ]
    @ List.concat_map (fun (f, d) -> [ string_of_int (int_of_n f); string_of_int (int_of_n d) ]) dep)

let string_of_res = function
  | Ok s -> string_of_sig s
  | Err Incompatible -> "ERR Incompatible"
  | Err ValueErr -> "ERR ValueError"
  | Err (OtherErr t) -> "ERR Other" ^ string_of_int (int_of_n t)

let read_names () = let k = next_int () in rep k (fun () -> n_of_int (next_int ()))
let read_sigs () = let k = next_int () in rep k read_sig
let read_call () =
  let n = next_int () in
  let ks = read_names () in
  { npos = nat_of_int n; kws = ks }

let string_of_cex = function
  | None -> "OK"
  | Some c ->
    "CEX " ^ string_of_int (int_of_nat c.npos) ^ " "
    ^ string_of_int (List.length c.kws)
    ^ String.concat "" (List.map (fun k -> " " ^ string_of_int (int_of_n k)) c.kws)


(* ---- mini-AST tokens (prefix notation) ----
   N id ctx | A attr <node> | C <func> nargs <args..> nkws <kws..> | S <node>
   K argid|- <node> | F nargs ids.. nkwo ids.. va|- kw|- nbody <nodes..>
   L n ids.. | O n <nodes..> *)
let opt_name s = if s = "-" then None else Some (n_of_int (int_of_string s))
let rec read_node () =
  match next () with
  | "N" -> let id = n_of_int (next_int ()) in
    let c = (match next_int () with 0 -> Load | 1 -> Store | _ -> Del) in NName (id, c)
  | "A" -> let a = n_of_int (next_int ()) in let v = read_node () in NAttr (v, a)
  | "C" -> let f = read_node () in
    let na = next_int () in let args = rep na read_node in
    let nk = next_int () in let kws = rep nk read_node in NCall (f, args, kws)
  | "S" -> NStarred (read_node ())
  | "K" -> let a = opt_name (next ()) in let v = read_node () in NKeyword (a, v)
  | "F" -> let (a, k, va, kw, body) = read_func () in NFunc (a, k, va, kw, body)
  | "L" -> let n = next_int () in NNonlocal (rep n (fun () -> n_of_int (next_int ())))
  | "O" -> let n = next_int () in NOpaque (rep n read_node)
  | t -> raise (Parse ("node:" ^ t))
and read_func () =
  let na = next_int () in let a = rep na (fun () -> n_of_int (next_int ())) in
  let nk = next_int () in let k = rep nk (fun () -> n_of_int (next_int ())) in
  let va = opt_name (next ()) in let kw = opt_name (next ()) in
  let nb = next_int () in let body = rep nb read_node in
  (a, k, va, kw, body)

let rec string_of_marker = function
  | MName id -> "N" ^ string_of_int (int_of_n id)
  | MAttr (v, a) -> "A(" ^ string_of_marker v ^ "." ^ string_of_int (int_of_n a) ^ ")"
  | MArg (_, name) -> "G" ^ string_of_int (int_of_n name)
  | MUnknown -> "U"
let string_of_omarker = function None -> "-" | Some m -> string_of_marker m
let sb b = if b then "1" else "0"
let string_of_callrec c =
  String.concat "|" [
    string_of_marker c.c_wrapped;
    String.concat "," (List.map string_of_marker c.c_args);
    String.concat "," (List.map (fun (k, m) -> string_of_int (int_of_n k) ^ "=" ^ string_of_marker m) c.c_kwargs);
    string_of_omarker c.c_varargs; string_of_omarker c.c_varkwargs;
    sb c.c_use_varargs ^ sb c.c_use_varkwargs ^ sb c.c_hide_args ^ sb c.c_hide_kwargs ]

let read_callinfo () =
  let uva = next_bool () in let uvk = next_bool () in
  let ha = next_bool () in let hk = next_bool () in
  let n = next_int () in let names = read_names () in
  let r = (match next () with
      | "X" -> RUnresolvable
      | "E" -> RNoSig
      | "R" -> let p = next_bool () in let s = read_sig () in RSig (s, p)
      | t -> raise (Parse ("resolved:" ^ t))) in
  { ci_use_varargs = uva; ci_use_varkwargs = uvk; ci_hide_args = ha; ci_hide_kwargs = hk;
    ci_nargs = nat_of_int n; ci_kwnames = names; ci_res = r }

let handle () =
  match next () with
  | "visit" ->
    (match next () with "F" -> () | t -> raise (Parse ("F expected:" ^ t)));
    let (a, k, va, kw, body) = read_func () in
    (match visit_function a k va kw body with
     | None -> "OUT-OF-FUEL"
     | Some calls -> "CALLS " ^ String.concat ";" (List.map string_of_callrec calls))
  | "discover" ->
    let own = read_sig () in let plain = read_sig () in
    let have_ast = next_bool () in
    let n = next_int () in let calls = rep n read_callinfo in
    string_of_sig (discover own plain have_ast calls)
  | "autoforwards" ->
    let own = read_sig () in
    let have_ast = next_bool () in
    let n = next_int () in let calls = rep n read_callinfo in
    (match autoforwards own have_ast calls with
     | None -> "UNKNOWN"
     | Some s -> string_of_sig s)
  | t -> raise (Parse ("op:" ^ t))

let () =
  try
    while true do
      let line = input_line stdin in
      toks := List.filter (fun s -> s <> "") (String.split_on_char ' ' line);
      (match !toks with
       | [] -> print_endline ""
       | _ ->
         (try print_endline (handle ())
          with Parse m -> print_endline ("PARSE-ERROR " ^ m)
             | Stack_overflow -> print_endline "DRIVER-ERROR stack"))
    done
  with End_of_file -> ()
