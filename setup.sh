#!/bin/bash
# MANIFEST.setup_cmd: build the Coq development (full .vo build), extract the
# model and build the OCaml driver.  Offline; uses only what is installed.
set -e
cd "$(dirname "${BASH_SOURCE[0]}")"
cd coq
coq_makefile -f _CoqProject -o Makefile
timeout 3000 make -j16
cd ../ocaml
ocamlfind ocamlopt -O3 -w -a model.mli model.ml driver.ml -o driver
ocamlfind ocamlopt -O3 -w -a vmodel.mli vmodel.ml vdriver.ml -o vdriver
echo "setup ok"
