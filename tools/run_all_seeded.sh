#!/bin/bash
# run every seeded change against the check of its property, JOBS at a time (default 4);
# writes seeded/RESULTS.txt.  /repo must be clean.
cd /verif
JOBS=${JOBS:-4}
OUT=seeded/RESULTS.txt
TMP=$(mktemp -d /tmp/seedres-XXXXXX)
one() {
  n=$1
  d=seeded/$n
  p=$(python3 -c "import json;print(json.load(open('$d/meta.json'))['property'])")
  if ! git -C /repo apply --check $PWD/$d/patch.diff 2>/dev/null; then echo "$n $p PATCH-DOES-NOT-APPLY" > $TMP/$n; return; fi
  r=$(bash tools/run_seeded.sh $n $p 2>&1 | grep -E "^(VIOLATION|OK)" | head -1 | cut -c1-160)
  echo "$n $p $r" > $TMP/$n
}
export -f one; export TMP
ls seeded | while read n; do [ -f seeded/$n/patch.diff ] && echo $n; done | xargs -P $JOBS -I{} bash -c 'one {}'
cat $TMP/* | sort -V > $OUT
rm -rf $TMP
cat $OUT
