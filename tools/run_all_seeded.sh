#!/bin/bash
# run every seeded change against the check of its property (and optional extra checks);
# writes seeded/RESULTS.txt.  /repo must be clean.
cd /verif
OUT=seeded/RESULTS.txt
: > $OUT
for d in seeded/*/; do
  n=$(basename $d)
  [ -f $d/patch.diff ] || continue
  p=$(python3 -c "import json;print(json.load(open('$d/meta.json'))['property'])")
  if ! git -C /repo apply --check $PWD/$d/patch.diff 2>/dev/null; then echo "$n $p PATCH-DOES-NOT-APPLY" >> $OUT; continue; fi
  r=$(bash tools/run_seeded.sh $n $p 2>&1 | grep -E "^(VIOLATION|OK)" | head -1 | cut -c1-160)
  echo "$n $p $r" >> $OUT
done
cat $OUT
