#!/bin/bash
# retarget_seed.sh <seed>: rewrite, in the stored patch, the comparisons `X.default == Y.empty` / `!=`
# as the identity tests the code uses since repairs 4d2de25 / 70c06b6 (context, removed and added lines
# alike: the same change re-expressed), then hand over to rebase_seed.sh (fuzz + re-confirmation).
NAME=$1
D=/verif/seeded/$NAME
cp $D/patch.diff /tmp/retarget-$$.bak
python3 - "$D/patch.diff" <<'PY'
import re,sys
p=sys.argv[1]
t=open(p).read()
t=re.sub(r'(\.(?:default|annotation)) == ((?:\w+(?:\[\d+\])?\.)+empty)', r'\1 is \2', t)
t=re.sub(r'(\.(?:default|annotation)) != ((?:\w+(?:\[\d+\])?\.)+empty)', r'\1 is not \2', t)
open(p,'w').write(t)
PY
if bash /verif/tools/rebase_seed.sh $NAME 2>&1 | tee /tmp/retarget-$$.log | tail -1 | grep -q REBASED; then
  tail -1 /tmp/retarget-$$.log
else
  cp /tmp/retarget-$$.bak $D/patch.diff; tail -2 /tmp/retarget-$$.log; echo "$NAME: NOT RETARGETED"
fi
rm -f /tmp/retarget-$$.bak /tmp/retarget-$$.log
