#!/bin/bash
# run_seeded.sh <seed-name> <check-id>...  : apply the seeded change to a scratch worktree of
# /repo (never to /repo itself), run the checks against it through SIGTOOLS_REPO, remove it.
NAME="$1"; shift
WT=/tmp/seedwt-$$
git -C /repo worktree add -q "$WT" HEAD || exit 2
trap 'git -C /repo worktree remove --force "$WT" >/dev/null 2>&1' EXIT
if ! git -C "$WT" apply /verif/seeded/$NAME/patch.diff; then echo "PATCH DOES NOT APPLY"; exit 2; fi
cd /verif
for c in "$@"; do
  echo "== $NAME / $c"
  SIGTOOLS_REPO="$WT" ./check $c --quick 2>&1 | grep -E "^(VIOLATION|OK|  )" | head -3
done
