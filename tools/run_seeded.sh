#!/bin/bash
# run_seeded.sh <seed-name> <check-id>...  : apply the seeded change to /repo, run the checks, undo.
NAME="$1"; shift
cd /repo || exit 2
if [ -n "$(git status --porcelain)" ]; then echo "/repo not clean"; exit 2; fi
git apply /verif/seeded/$NAME/patch.diff || exit 2
trap 'git -C /repo checkout -- . ; find /repo -name __pycache__ -prune -exec rm -rf {} + 2>/dev/null' EXIT
cd /verif
for c in "$@"; do
  echo "== $NAME / $c"
  ./check $c --quick 2>&1 | grep -E "^(VIOLATION|OK|KNOWN|  )" | head -4
done
