#!/bin/bash
# run every registered thorough check once on the unchanged tree (3 at a time)
cd /verif
ids=$(python3 -c "import json;print(' '.join(c['property_id'] for c in json.load(open('MANIFEST.json'))['checks']))")
echo $ids | tr ' ' '\n' | xargs -P 3 -I{} sh -c 'S=$(date +%s); ./check {} --thorough > /tmp/thorough_{}.log 2>&1; echo "{} exit=$? $(($(date +%s)-S))s $(grep -E "^(OK|VIOLATION)" /tmp/thorough_{}.log | head -1 | cut -c1-140)"'
