#!/bin/bash
# run every registered quick check once on the unchanged tree (4 at a time); summary on stdout
cd /verif
ids=$(python3 -c "import json;print(' '.join(c['property_id'] for c in json.load(open('MANIFEST.json'))['checks']))")
echo $ids | tr ' ' '\n' | xargs -P 4 -I{} sh -c './check {} --quick > /tmp/all_{}.log 2>&1; echo "{} exit=$? $(grep -E "^(OK|VIOLATION)" /tmp/all_{}.log | head -1 | cut -c1-140)"'
