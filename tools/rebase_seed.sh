#!/bin/bash
# rebase_seed.sh <seed-name>: re-create seeded/<name>/patch.diff against the current /repo HEAD when context
# lines changed (after a fix: commit), with patch(1) fuzz; re-confirm (suite 294 passed/10 errors, demo fails
# with the change, passes without) before replacing the stored patch.
NAME=$1
D=/verif/seeded/$NAME
WT=/tmp/rb-$$
git -C /repo worktree add -q $WT HEAD || exit 2
trap 'git -C /repo worktree remove --force $WT >/dev/null 2>&1' EXIT
cd $WT
PYTHONPATH=$WT /venv/bin/python $D/demo.py >/dev/null 2>&1; D0=$?
if ! patch -p1 -F3 -s < $D/patch.diff; then echo "$NAME: patch does not apply even with fuzz"; exit 1; fi
find . -name "*.orig" -delete; find . -name "*.rej" -delete
git diff > /tmp/rb-$$.diff
T=$(/venv/bin/python -m pytest -q -p no:cacheprovider --timeout=900 --continue-on-collection-errors 2>&1 | tail -1)
PYTHONPATH=$WT /venv/bin/python $D/demo.py >/dev/null 2>&1; D1=$?
echo "$NAME: tests: $T ; demo clean=$D0 mutated=$D1"
case "$T" in *"294 passed"*"10 errors"*) ;; *) echo "$NAME: REJECTED (suite)"; exit 1;; esac
if [ $D0 -ne 0 ] || [ $D1 -eq 0 ]; then echo "$NAME: REJECTED (demo)"; exit 1; fi
cp /tmp/rb-$$.diff $D/patch.diff; rm -f /tmp/rb-$$.diff
python3 - "$NAME" <<'PY'
import json,sys,subprocess
p='/verif/seeded/%s/meta.json'%sys.argv[1]
m=json.load(open(p))
head=subprocess.run(['git','-C','/repo','rev-parse','--short','HEAD'],stdout=subprocess.PIPE).stdout.decode().strip()
m['rebased']='patch.diff regenerated against /repo HEAD %s (context lines changed by later fix: commits; same change); re-confirmed: suite 294 passed / 10 errors, demo fails with the change and passes without' % head
json.dump(m,open(p,'w'),indent=1)
PY
echo "$NAME: REBASED"
