#!/bin/bash
# port_seed.sh <seed-name> <edit-script.py>: re-create a seeded change by hand against the current /repo HEAD
# (the python script edits the files of the worktree it is run in: the SAME change, re-expressed on
# the repaired code); re-confirm as rebase_seed.sh does before replacing the stored patch.
NAME=$1; EDIT=$2
D=/verif/seeded/$NAME
WT=/tmp/pt-$$
git -C /repo worktree add -q $WT HEAD || exit 2
trap 'git -C /repo worktree remove --force $WT >/dev/null 2>&1' EXIT
cd $WT
PYTHONPATH=$WT /venv/bin/python $D/demo.py >/dev/null 2>&1; D0=$?
python3 $EDIT || { echo "$NAME: edit script failed"; exit 1; }
git diff > /tmp/pt-$$.diff
T=$(/venv/bin/python -m pytest -q -p no:cacheprovider --timeout=900 --continue-on-collection-errors 2>&1 | tail -1)
PYTHONPATH=$WT /venv/bin/python $D/demo.py >/dev/null 2>&1; D1=$?
echo "$NAME: tests: $T ; demo clean=$D0 mutated=$D1"
case "$T" in *"294 passed"*"10 errors"*) ;; *) echo "$NAME: REJECTED (suite)"; exit 1;; esac
if [ $D0 -ne 0 ] || [ $D1 -eq 0 ]; then echo "$NAME: REJECTED (demo)"; exit 1; fi
cp /tmp/pt-$$.diff $D/patch.diff; rm -f /tmp/pt-$$.diff
python3 - "$NAME" <<'PY'
import json,sys,subprocess
p='/verif/seeded/%s/meta.json'%sys.argv[1]
m=json.load(open(p))
head=subprocess.run(['git','-C','/repo','rev-parse','--short','HEAD'],stdout=subprocess.PIPE).stdout.decode().strip()
m['rebased']='patch.diff re-created by hand against /repo HEAD %s (the lines it edits were changed by a later fix: commit; same change re-expressed); re-confirmed: suite 294 passed / 10 errors, demo fails with the change and passes without' % head
json.dump(m,open(p,'w'),indent=1)
PY
echo "$NAME: PORTED"
