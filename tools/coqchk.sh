#!/bin/bash
# Re-check every compiled file of the development (and everything it depends on) with the
# independent checker and print the axioms relied upon.  Takes 30-60 minutes (the reflective
# sweeps are re-evaluated by coqchk's own, slower, conversion).  Output: /verif/coqchk.log
cd /verif/coq
mods=$(grep -E "^theories/(Proofs|Model)/" _CoqProject | sed 's|^theories/|Sigtools.|; s|/|.|g; s|\.v$||' | tr '\n' ' ')
( date; echo "coqchk -silent -o -Q theories Sigtools $mods"; timeout 7200 coqchk -silent -o -Q theories Sigtools $mods; echo "exit=$?" ) > /verif/coqchk.log 2>&1
tail -15 /verif/coqchk.log
