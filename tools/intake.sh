#!/bin/bash
# intake.sh <PID> <first index> [prefix]: verify /tmp/mut-<PID>-out/m1,m2 in scratch worktrees, keep them as
# seeded/<PID>-m<k>, run the property's check against each
PID=$1; K=${2:-1}; PREFIX=${3:-mut}
for m in m1 m2; do
  src=/tmp/$PREFIX-$PID-out/$m
  [ -f $src/patch.diff ] || continue
  name=$PID-m$K; K=$((K+1))
  bash /verif/tools/verify_seed.sh $src $name $PID 2>&1 | tail -3
  if [ -d /verif/seeded/$name ]; then
    bash /verif/tools/run_seeded.sh $name $PID 2>&1 | grep -E "^(VIOLATION|OK|==)" | cut -c1-220
  fi
done
