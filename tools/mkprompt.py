#!/usr/bin/env python3
"""mkprompt.py <round-prefix> <PID>...: write /tmp/mutprompt-<prefix>-<PID>.txt, the brief of a seeding
sub-agent: the property's text (nothing from /verif beyond it) and one-line summaries of the
changes already tried, so that the new ones differ."""
import json, glob, sys, os, re
props = {json.loads(l)['id']: json.loads(l) for l in open('/verif/properties.jsonl')}
TEMPLATE = open('/verif/tools/mutprompt_template.txt').read()
prefix = sys.argv[1]
for pid in sys.argv[2:]:
    p = props[pid]
    tried = []
    for d in sorted(glob.glob('/verif/seeded/%s-m*/' % pid), key=lambda s: int(re.search(r'-m(\d+)', s).group(1))):
        note = ''
        if os.path.exists(d + 'note.md'):
            note = open(d + 'note.md').read()
        else:
            note = json.load(open(d + 'meta.json')).get('needs_to_manifest', '')
        tried.append('- ' + ' '.join(note.split())[:330])
    text = TEMPLATE.replace('@PID@', pid).replace('@PREFIX@', prefix)
    text = text.replace('@TITLE@', p['title']).replace('@STATEMENT@', p['statement'])
    text = text.replace('@QUANT@', p['quantifier']['text'])
    text = text.replace('@ANCHORS@', json.dumps(p['anchors']))
    text = text.replace('@TRIED@', '\n'.join(tried))
    open('/tmp/mutprompt-%s-%s.txt' % (prefix, pid), 'w').write(text)
    print(pid, len(tried), 'tried')
