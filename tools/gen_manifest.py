#!/usr/bin/env python3
"""Regenerates /verif/MANIFEST.json from the table below (kept valid at all times)."""
import json
import os

VERIF = os.path.dirname(os.path.dirname(os.path.abspath(__file__)))

COMMON_NOTE = ('Trusted: Coq 8.16.1 kernel (vm_compute for reflective/bounded lemmas, no native_compute); the hand-written Gallina model '
               '(coq/theories/Model) is tied to /repo only by the correspondence run of this check (extracted with ExtrOcamlBasic, numbers stay '
               'inductives; ocaml/driver.ml; Python harness encoders/generators); CPython 3.12.1 defines argument binding (binding model compared '
               'with real calls on every run). Print Assumptions of every theorem in Props/<id>.v is parsed on every run (Closed under the global context).')

# id -> (category, text, extra note, technique)
CHECKS = {}


def add(pid, text, note, technique, category='proof'):
    CHECKS[pid] = (category, text, note, technique)


add('C01', 'Coq theorems about the Gallina model of _Merger/merge (Props/C01.v: small-model theorem for call shapes, decider correctness, bounded-universe '
    'soundness for all calls, summary-invariant lemmas) + exhaustive U(2)^2 and random n-ary correspondence of the extracted model with /repo + decision of '
    'soundness on the implementation outputs by the extracted, proved-complete decider.',
    'General unbounded soundness of the n-ary fold for mixed calls is proved only for the bounded universe stated in the theorem; the full statement is kept in the file.',
    'Coq proof (small-model + reflective bounded theorems) + extracted-model correspondence')
add('C02', 'Coq theorems about the Gallina model of _embed/embed (Props/C02.v) + correspondence on U(2,{a,b})xU(2,{c,d}) with 4 flag combinations + decision of '
    'chain soundness/exactness/raise-condition/associativity/neutral element on implementation outputs.',
    'chain semantics (calling outer which forwards its surplus) is a Gallina definition; exactness theorem bounded.',
    'Coq proof over a Gallina model + extracted deciders + correspondence')
add('C03', 'Coq theorems about the Gallina model of _mask (Props/C03.v) + exhaustive/random correspondence + decision of exactness, raise condition, '
    'order independence, composition laws and the hidden-argument clause on implementation outputs by extracted deciders.',
    'names naming positional-only parameters excluded as in the property.',
    'Coq proof over a Gallina model + extracted deciders + correspondence')
add('C04', 'forwards = embed o mask proved as an unfolding of the model and checked on the implementation in parameters and provenance; chain soundness/exactness '
    'decided on implementation outputs; real wrapper programs (function, method, super, apply_forwards_to_super, emulate, partial) executed on every call shape.',
    'PARTIAL: the forger protocol, descriptors and super() lookup are CPython behaviour observed by differential execution only, not modelled.',
    'Coq proof (model) + differential execution of generated programs')
add('C08', 'Coq theorems on provenance bookkeeping of the model (Props/C08.v) + full provenance correspondence (two-stage inputs with shared callables) + '
    'well-formedness/exactness/depth rules decided on every implementation result + shared-object histories.',
    'known finding C08:dup-shared-callable listed in known_findings.json.',
    'Coq proof over a Gallina model + correspondence + invariant checking on implementation results')
add('C09', 'Coq theorems (sort/apply round trip, merge identities on the model, bounded exactness) + exactness/raise-condition decided on implementation outputs '
    'for name-aligned role-consistent pairs, fold law on role-consistent triples in parameters and provenance, unary laws.',
    'exactness theorem bounded to the stated universe.',
    'Coq proof + extracted deciders + correspondence')
add('C10', 'Coq theorems about concile (_concile_meta) and kind changes in the model (Props/C10.v) + full-metadata correspondence on the metadata universe + '
    'contributor rules decided on implementation results.',
    'known finding C10:annotation-fold listed in known_findings.json.',
    'Coq proof over a Gallina model + correspondence')
add('C15', 'Coq theorems: every Ok result of the model validates (C15_wf) and errors are only Incompatible/ValueErr (Props/C15.v) + error-class correspondence '
    'incl. role-inconsistent inputs, duplicate/foreign names, plain inspect.Signature inputs and DeprecationWarning.',
    '',
    'Coq proof over a Gallina model + correspondence')
add('C19', 'Coq theorems about the partial branch of the model (Props/C19.v) + full correspondence + exactness decided by extracted decider and by really '
    'calling functools.partial objects on every shape + discovery through partial.',
    'keywords naming positional-only/star parameters excluded (travel only through **kwargs; version-dependent).',
    'Coq proof over a Gallina model + extracted deciders + real execution')

DISC_NOTE = ('The AST walker is modelled by hand (Model/Visitor.v) and compared with CallListerVisitor on the very tree the implementation sees, for every '
             'generated program (and, in C07, every corpus function); resolving a marker to a Python object and computing the callee signature leave '
             'the model. The semantics of Python statements is NOT formalised: soundness against execution is decided by really running the generated '
             'programs (exploration), which the level note states as PARTIAL.')
add('C05', 'Gallina model of Namespace/markers/CallListerVisitor/forward_signatures (Model/Visitor.v, Model/Discover.v) with theorems in Props/C05.v, extracted '
    '(ocaml/vdriver) and compared with /repo on every generated forwarding program (visitor output and discovered signature); every pristine-forwarding program '
    'is really executed on every non-colliding call shape its reported signature accepts; taint statements placed before the call must hide the callee parameters.',
    'PARTIAL: proof covers the model of the walker and the algebra it feeds; execution semantics of Python is exploration. Known findings C05:bound-parameter-reaccepted, '
    'C05:role-inconsistent-merge, C05:hide-kwargs-named-pok listed in known_findings.json. ' + DISC_NOTE,
    'Coq proof over a Gallina model of the AST walker + extracted-model correspondence + real execution of generated programs')
add('C06', 'Same model as C05; the expected signature and provenance are computed from the generator\'s ground truth with signatures.forwards / merge only and compared '
    'with sigtools.signature(wrapper) over 13 statement contexts x 8 callee routes (global, closure, attribute chain, self.method, parameter via partial, functools.partial, '
    'two-level chains by keyword and by position), plus invariance under irrelevant variation; model discovery = implementation discovery on every program.',
    'PARTIAL in the same sense as C05. ' + DISC_NOTE,
    'Coq proof over a Gallina model of the AST walker + independent ground-truth oracle + extracted-model correspondence')
add('C12', 'Gallina model of _PokTranslator._prepare / __call__ / _merge_other / start= end= auto forms and a value-level CPython binder (Model/Modifiers.v); theorems for all '
    'inputs in Props/C12.v (advertised signature, set-invariance, insert-loop refinement, positional routing); model evaluated inside Coq (vm_compute) against ~1.7k decorated '
    'functions / 40k calls, implementation against a native def with the advertised signature on ~160k real calls.',
    'C12_sig and C12_call are proved in their _partial forms (full statements kept in Proofs/Modifiers.v); known finding C12:bound-self-selected listed in known_findings.json.',
    'Coq proof over a Gallina model + in-Coq evaluation correspondence + differential execution against native defs')

add('C07', 'Same discovery model as C05/C06 (Model/Visitor.v, Model/Discover.v; theorems in Props/C07.v); the walker model is compared with CallListerVisitor on the tree of every '
    'corpus function; sigtools.signature (auto on/off), signatures.signature and the Sphinx hook are run on every function, builtin, class, partial, callable instance and class '
    'attribute of ~190 stdlib / third-party / sigtools modules (~9k objects thorough, every second one quick), on ~70 adversarial sources and on ~450 generated forwarding programs '
    '(including ones whose written call can never succeed): no exception where inspect.signature succeeds, same exception type where it raises, UpgradedSignature results, narrowing '
    'of plain functions decided by the extracted complete decider incl_cex.',
    'PARTIAL: totality over real CPython objects is exploration of a fixed corpus; the proof part covers the walker/forward_signatures model and the completeness of the narrowing decider. '
    'Known finding C07:fabricated-attributes listed in known_findings.json. ' + DISC_NOTE,
    'Coq proof over a Gallina model of the AST walker + corpus run + extracted-model correspondence')
add('C13', 'Gallina model of wrappers.decorator / wrapper_decorator / Combination (call terms, descriptor get, discovery chain of _SimpleWrapped, signatures through the algebra model; Model/Wrappers.v) '
    'with 18 theorems for all stacks and calls in Props/C13.v (composition, exception propagation, Combination fold/flatten, wrappers order, rebinding, method binding, well-formed signatures); '
    '~580 generated decorator stacks (function/method/staticmethod, depth 1-3, Combination of 1-3) really executed on ~130k calls against the hand-written composition; model evaluated inside Coq and through the driver.',
    'PARTIAL: descriptor rebinding, as_forged through inspect.signature and staticmethod placement are CPython behaviour observed by differential execution; acceptance soundness of the forwards/merge results rests on C04/C01. '
    'Known findings C13:self-collision, C13:self-keyword, C13:combination-inspect listed in known_findings.json.',
    'Coq proof over a Gallina model + differential execution of generated decorator stacks')
add('C14', 'Gallina model of CPython\'s rich-comparison dispatch, the __eq__/__hash__/replace bodies of UpgradedSignature / UpgradedParameter / UpgradedAnnotation with an explicit Raise outcome (Model/Eq.v); '
    '20 theorems for all objects in Props/C14.v (total, reflexive, symmetric incl. plain counterparts, != is the negation, hash consistency, hashability, replace); ~36k comparisons / hashes / binds / replaces on '
    'the implementation against plain inspect objects and against the model (evaluated inside Coq).',
    'The model of Python\'s comparison protocol is the trusted part (validated against CPython with ad-hoc classes on every run); foreign partners are assumed not to raise in their own __eq__.',
    'Coq proof over a Gallina model of the comparison protocol + in-Coq evaluation correspondence')

add('C11', 'Gallina model of UpgradedAnnotation.upgrade / source_value / evaluated / annotate on top of the algebra model (Model/Annot.v); 18 theorems in Props/C11.v: every surviving (raw, upgraded) annotation pair of '
    'merge / embed / mask / forwards / partial results is literally an input pair (one invariant walked through every merger step), hence evaluates in its defining function\'s globals; twin (eager vs postponed) '
    'invariance through n-ary merge under an injective environment, refuted without it; real twin functions compiled with/without the future import in shared and per-function globals, every operation, '
    'compared with the model (evaluated inside Coq) and with the generator\'s ground truth.',
    'twin invariance is proved for merge only (full statement kept); known finding C11:raw-compare listed in known_findings.json.',
    'Coq proof over a Gallina model + in-Coq evaluation correspondence + metamorphic twin execution')
add('C16', 'The bodies of cleanup_functools_wrapper.__enter__/__exit__, autoforwards_function and _AsForged.__get__ are REGENERATED from /repo on every run by a fail-closed ast translator (harness/translate_ir.py) into '
    'an imperative IR with a Gallina big-step interpreter (Model/IR.v); Props/C16.v proves on the regenerated term, for every attribute configuration and every crash point (k-th outside call or attribute read raising), '
    'that all attributes are restored and the recursion guard is empty (finite domain stated in the theorems, vm_compute lifted by forallb_forall), plus two generic with/try-finally lemmas for all programs; '
    'the IR semantics is run against the real functions under fault injection (~2k runs) and input purity/aliasing of ~6k algebra cases is decided.',
    'asynchronous exceptions between two statements are outside the fault model; statements after the with block that fall outside the IR subset are abstracted to one oracle step after a syntactic whitelist check (range recorded in the evidence).',
    'Coq proof by exhaustive enumeration over a model regenerated from the source + fault injection on the real code', category='proof')

add('C20', 'Gallina model of support.bind_callsig / sort_callsigs / make_up_callsigs (from the code: zip/enumerate, for/else, the three loops) and a value-level CPython binder, read_sig / func_code at token level '
    '(Model/Support.v); Props/C20.v: C20_bind (model of bind_callsig = binder, same mapping, all inputs), closed form of the loops, sort partition, make_up_callsigs completeness (all inputs), token-level round trip '
    'bounded to U(2,{a,b}); ~117k evaluations per run: s(str(sig)) / func_from_sig / f round trips for every read_sig option, bind_callsig against really calling a def, against the model (inside Coq).',
    'round trip proved only for the bounded universe stated in the theorem (token level; the regular expression, str.split and the compiler are tied by the differential run); signatures with positional-only parameters are excluded from the modifiers spellings as in the property.',
    'Coq proof over a Gallina model + in-Coq evaluation correspondence + differential execution against CPython')

add('C18', 'Gallina model of the modifier stacking algebra (name sets, _merge_other, annotate), of the descriptor cache as a state machine (get / call / retrieve / redecorate / drop) and of an abstract heap with strong and weak '
    'edges (Model/Cache.v); 11 theorems in Props/C18.v for all histories (order independence via Permutation, annotate updates, binding to the right instance, refinement to the cache-less spec under the stated premise, '
    'reclamation for non-caching descriptors) with vm_compute refutation witnesses for the two known findings; ~9k modifier permutations and ~23k histories (all of length <= 4) run on the real code with weak references and gc.collect(), '
    'compared with the model (evaluated inside Coq).',
    'the model\'s reachability is an abstraction of CPython\'s garbage collector; order independence for the start=/end=/auto forms is differential only. Known findings C18:cache-leak, C18:stale-cache, C18:posoargs-self-rebind listed in known_findings.json.',
    'Coq proof over a Gallina state-machine / heap model + in-Coq evaluation correspondence + history execution')

add('C17', 'Gallina small-step model, one transition per source line, of the delete/restore window of cleanup_functools_wrapper / autoforwards_function (machine W) and of the as_forged recursion guard (machine G) '
    '(Model/Sched.v); Props/C17.v: C17_no_loss for ANY number of threads and ANY schedule by an inductive invariant (holders + present = present initially), sequential answers whenever no window is open, '
    'refutation witnesses for the two known races, exhaustive enumeration inside Coq of all 2- and 3-thread plans with <= 2 preemptions (bound in the statements) classifying every violating plan as a window overlap / guard hit; '
    'a deterministic line-level scheduler (settrace + per-thread semaphores) replays ~47k plans on the real code and compares every thread\'s answer and the final attributes with the model; randomized stress with a minimal switch interval.',
    'the model is line-exact: any edit of the modelled functions shows up as model disagreement (no-failing-input-found) until the model is re-synchronised (procedure in notes/C17.md); preemption inside C code and the GIL\'s true granularity '
    'cannot be exhibited by the model (covered by the stress part only). Known findings C17:wrapped-window, C17:guard-race listed in known_findings.json.',
    'Coq proof (inductive invariant) + exhaustive bounded enumeration inside Coq + deterministic schedule replay on the real code', category='proof')


# ---- updates after the proof extensions (statements of record are in coq/theories/Props/Cxx.v) ----
def amend(pid, text=None, note=None, technique=None):
    cat, t0, n0, k0 = CHECKS[pid]
    CHECKS[pid] = (cat, text or t0, n0 if note is None else note, technique or k0)


amend('C01', 'Coq theorems about the Gallina model of _Merger/merge (Props/C01.v): soundness of merge for ALL signatures — pure-positional and pure-keyword calls through the '
      'n-ary fold and the nested form (C01_merge_sound_pos_kw), every non-colliding call for any number of role-consistent inputs (C01_merge_sound_mixed_n), both side conditions forced '
      '(refutations) — plus the small-model theorem for call shapes, decider correctness and the bounded sweeps as an independent cross-check; exhaustive U(2)^2 and random '
      'n-ary correspondence of the extracted model with /repo; soundness decided on the implementation outputs by the extracted, proved-complete decider.',
      note='',
      technique='Coq proof for all signatures (invariants through every merger stage) + reflective bounded theorems + extracted-model correspondence')
amend('C03', 'Coq theorems about the Gallina model of _mask (Props/C03.v): exactness and raise condition for ALL valid signatures and all calls, with positional consumption '
      'and names (C03_positional_exact, C03_names_exact), composition as an equality of whole results, permutation invariance for all 16 hide-flag sets; exhaustive/random '
      'correspondence; exactness, raise condition, order independence, composition and the hidden-argument clause decided on implementation outputs by extracted deciders.',
      note='exactness under hide flags is proved on the bounded universe only.')
amend('C05', note='PARTIAL: the walker model and the algebra it feeds are proved; for wrapper bodies of the statement grammar of Model/Exec.v (own scope: forwarding calls, '
      'rebinding, augmented assignment, del, item assignment, method calls on / hand-off / aliasing of the stars, unrelated calls, branches; any length and nesting) the '
      'walker\'s flags are proved to be a sound abstract interpretation of an execution semantics (C05_walker_is_absint, C05_flag_sound), tied to CPython per run (compile = ast.parse '
      'tree, model flags = CallListerVisitor flags, untouched objects really received); nested scopes are outside that fragment (C05_nested_refuted = known finding); soundness of '
      'the whole reported signature against execution is exploration. Known findings C05:bound-parameter-reaccepted, C05:role-inconsistent-merge, C05:hide-kwargs-named-pok, '
      'C05:nested-scope-mutation listed in known_findings.json. ' + DISC_NOTE)
amend('C08', 'Coq theorems on provenance of whole operations of the model for all inputs (Props/C08.v): exactly one non-empty entry per parameter and nothing else after merge / embed / '
      'mask / forwards / partial, every listed callable comes from an input, exactness for consistently named inputs, depth rules; the cases where the statement is false of the '
      'faithful model are refutations reproduced on the implementation; full provenance correspondence (two-stage inputs with shared callables, star-name collisions) + '
      'well-formedness/exactness/depth rules decided on every implementation result + shared-object histories.')
amend('C09', 'Coq theorems for all signatures (Props/C09.v): sort/apply round trip, right and left neutrality of a bare star signature (exact laws), idempotence, the fold law for any '
      'arity (nested and flat merge differ only where an intermediate result is a plain ValueError), bounded exactness; exactness/raise-condition decided on implementation outputs '
      'for name-aligned role-consistent pairs, fold law on role-consistent triples in parameters and provenance, unary laws.',
      note='general exactness of merge is proved on the bounded universe only.')
amend('C10', 'Coq theorems about concile and the contributor theorem for merge of all signatures (Props/C10.v: every result parameter is a contributor\'s parameter or the conciliation '
      'of two, with the rules for default, annotation and kind; by name for consistently named inputs) + full-metadata correspondence on the metadata universe (annotated stars, '
      'equal-but-not-identical defaults) + contributor rules decided on implementation results.')
amend('C15', 'Coq theorems: every Ok result of the model validates, errors are only Incompatible/ValueErr, and for valid role-consistent inputs (any number) merge never fails in the final '
      'validating constructor (C15_merge_rc_valid_n) (Props/C15.v) + error-class correspondence incl. role-inconsistent inputs, duplicate/foreign names, plain inspect.Signature inputs and DeprecationWarning.')
amend('C19', 'Coq theorems about the partial branch of the model for ALL valid signatures (Props/C19.v): exactness and raise condition with bound positionals and bound keywords '
      '(C19_positional_exact, C19_names_exact) + full correspondence + exactness decided by extracted decider and by really calling functools.partial objects on every shape + '
      'discovery through partial (plain functions and bound methods).')

amend('C12', note='C12_sig (decoration succeeds iff the selection is admissible, exact advertised rewrite) and C12_call (the decorated callable accepts exactly the calls of its advertised '
      'signature with the same bindings) are proved at full strength for every decorator form, the bound copy and autokwoargs with exceptions (Proofs/ModifiersFull.v); the closed form of '
      'the start=/end= selection sets is not stated separately; known finding C12:bound-self-selected listed in known_findings.json.')
amend('C11', note='twin invariance (compute on postponed annotations, then evaluate = compute on the eager twins) is proved for n-ary merge, embed, mask, partial, forwards and the '
      'composition discovery performs; embed / forwards / discover need the environment injective on the spellings that occur (refutations show the forcing inputs), mask and partial need '
      'nothing; known finding C11:raw-compare listed in known_findings.json.')
amend('C20', note='round trip read_sig(print_sig s) + code generation proved for ALL well-formed signatures and every spelling (Proofs/SupportFull.v), with refutations of the hypotheses the '
      'proofs forced (postponed annotations do not survive their own string form; kwoargs spelling with positional-only parameters — excluded by the property); the regular expression, '
      'str.split and the compiler are tied by the differential run only.')
amend('C17', note='for ANY number of threads and ANY schedule: no attribute is lost, every `exclusive` schedule gives every thread its solo answer (C17_sequential_exclusive, C17_concurrent_equals_solo) '
      'and a non-sequential answer needs a window overlap; the same for the as_forged guard and for the once-only transform of emulate=True forgers (machine F); the model is line-exact: any edit '
      'of the modelled functions shows up as model disagreement (no-failing-input-found) until the model is re-synchronised (procedure in notes/C17.md); preemption inside C code and the GIL\'s '
      'true granularity cannot be exhibited by the model (covered by the stress part only). Known findings C17:wrapped-window, C17:guard-race listed in known_findings.json.')

amend('C02', 'Coq theorems about the Gallina model of _embed/embed for ALL valid signatures (Props/C02.v): soundness against the chain semantics (C02_sound), exactness unless an outer default '
      'is cleared (C02_exact, side condition forced by a refutation), the raise condition (C02_raises), associativity of the n-ary fold for any arity (C02_assoc), neutral element; '
      'bounded sweeps kept as a cross-check; correspondence on U(2,{a,b})xU(2,{c,d}) with 4 flag combinations; soundness/exactness/raise-condition/associativity decided on implementation outputs.',
      note='the chain semantics (calling outer, which forwards its surplus) is a Gallina definition; the flat n-ary chain is proved level by level only (C02_sound3_partial).',
      technique='Coq proof for all signatures over a Gallina model + extracted deciders + correspondence')
amend('C04', 'forwards = embed o mask proved as an unfolding of the model and checked on the implementation in parameters and provenance; executing the declared wrapper proved for ALL valid signatures '
      '(C04_exec_sound, C04_exec_exact, C04_partial_sound/exact against the all-optional inner, raise conditions; Props/C04.v); chain soundness/exactness decided on implementation outputs; '
      'real wrapper programs (function, method, super, apply_forwards_to_super incl. a shared decorator object, emulate, partial) executed on every call shape.')
amend('C18', note='order independence is proved for every decorator form (start=, end=, autokwoargs, annotate included: C18_order_forms), reclamation and refinement to the cache-less spec are characterised '
      'exactly (C18_reclaim_exact, C18_refines_exact); what is order dependent is admissibility itself (refutations checked on the code); reachability is an abstraction of CPython\'s GC; '
      'known findings C18:cache-leak, C18:stale-cache, C18:posoargs-self-rebind listed in known_findings.json.')
amend('C09', note='pairs: exactness in both branches (C09_merge_exact); any number of inputs: a successful merge is exact (C09_merge_exact_n_ok), the raise clause is false for three inputs '
      '(known finding C09:nary-raise-order, refutation C09_merge_exact_n_err_refuted).')
amend('C03', note='soundness and the closed form of what each hide flag removes are proved for all signatures and all 16 flag sets (C03_mask_hide_sound, C03_mask_hide_shape); the converse under hide flags is decided per run only.')
amend('C19', note='hypothesis of the exactness theorem: no bound keyword is spelled like a star parameter or like a positional-only parameter the bound positionals do not consume (both conjuncts forced by refutations); '
      'shape clauses and permutation invariance of the bound keywords proved for all signatures.')

amend('C05', 'Gallina model of Namespace/markers/CallListerVisitor/forward_signatures (Model/Visitor.v, Model/Discover.v), an execution semantics for two grammars of wrapper bodies (Model/Exec.v: the '
      'wrapper\'s own scope; Model/ExecNested.v: nested functions / lambdas holding forwarding calls) and theorems in Props/C05.v: the walker\'s flags are a sound abstract interpretation of '
      'execution (C05_flag_sound, C05_flags_sound_nested) and END TO END (C05_end_to_end): a call accepted by the discovered signature makes every executed forwarding site flagged `use` hand '
      'its callee a call the callee\'s signature accepts, with the caller\'s untouched objects; models extracted / evaluated in Coq and compared with /repo on every generated program (tree, '
      'walker output, discovered signature, real execution); every pristine-forwarding program of the wider forwarding grammar is really executed on every non-colliding call shape its reported '
      'signature accepts; taint statements placed before the call must hide the callee parameters.',
      note='PARTIAL: inside the two statement grammars soundness is proved end to end (no step left to testing; tied to CPython per run: compile = ast.parse tree, model flags = CallListerVisitor '
      'flags, untouched objects really received); outside them (loops, try/with, comprehensions, callee routes other than a global name, mutation in nested scopes = known finding with refutation '
      'C05_nested_refuted) soundness against execution is exploration. Known findings C05:bound-parameter-reaccepted, C05:role-inconsistent-merge, C05:hide-kwargs-named-pok, '
      'C05:nested-scope-mutation listed in known_findings.json. ' + DISC_NOTE,
      technique='Coq proof (walker model + execution semantics of a statement grammar, end-to-end theorem) + extracted/in-Coq correspondence + real execution of generated programs')


# ---- amendments after the compound-context model, the invariance / provenance / order proofs and the term-level bridge ----
amend('C05', note='PARTIAL: inside three statement grammars soundness of the walker\'s flags is proved for every execution (Model/Exec.v: the own scope; Model/ExecNested.v: nested functions '
      'and lambdas holding forwarding calls; Model/ExecTry.v: try/except/else/finally at any depth with exceptions raised after any statement, with, comprehensions incl. an iterable that '
      'mutates **kwargs and a loop target shadowing a star: C05_flags_sound_try for every outcome, completed or propagating), and for the own scope END TO END (C05_end_to_end); each grammar is '
      'tied to CPython per run (compile = ast.parse tree, model flags = CallListerVisitor flags, real execution under a fault plan among the model\'s outcomes, untouched objects really received). '
      'A defect was found by proving and repaired (562a505: comprehensions were read element first; C05_flags_sound_old_order_refuted keeps the old order). Outside the grammars (for/while loops, '
      'callee routes other than a global name, mutation in nested scopes = known finding with refutation C05_nested_refuted) soundness against execution is exploration: every generated program is '
      'really run. Known findings C05:bound-parameter-reaccepted, C05:role-inconsistent-merge, C05:hide-kwargs-named-pok, C05:nested-scope-mutation listed in known_findings.json. ' + DISC_NOTE)
_c6 = CHECKS['C06']
amend('C06', note=(_c6[2] + ' ' if _c6[2] else '') + 'Invariance under irrelevant variation is PROVED on the statement grammars at the level of the discovered signature: inserting unrelated calls / reads of *args at any '
      'position (also inside branches), wrapping statements in a two-way branch (C06_discover_neutral_anywhere, C06_discover_branch_anywhere), unrelated nested defs / helper calls / lambdas '
      '(C06_discover_nested_unrelated); the refutations delimit what is NOT irrelevant (handing **kwargs to other code, rebinding the callee name, deferring a call past a later change). For the '
      'full forwarding grammar (13 contexts, 10 routes incl. the stacked pass-through) invariance is exploration.')
_c8 = CHECKS['C08']
amend('C08', note=(_c8[2] + ' ' if _c8[2] else '') + 'n-ary embed: C08_embed_n_src_ok_iff characterises EXACTLY when the result map is well formed (no forwarded star spelled like a parameter the fold keeps; '
      'necessity without side condition), truthfulness / list shape / duplicate-freedom need no star-name hypothesis; plain n-ary merge of ANY signatures: every list is a concatenation of whole '
      'input lists (C08_merge_src_shape_n_partial), at-most-once is refuted without role consistency (= known finding C08:nary-merge-duplicate).')
_c10 = CHECKS['C10']
amend('C10', note=(_c10[2] + ' ' if _c10[2] else '') + 'Order clause proved parameter by parameter for binary and n-ary merge (C10_merge2_order, C10_merge2_order_pairwise, C10_merge_order: contributors of each input '
      'form a subsequence of that input\'s positionals) and for forwards (C10_forwards_made, C10_forwards_order); keyword-only parameters do NOT keep an input\'s order (C10_merge2_order_kwo_refuted), '
      'what holds per class is C10_merge2_order_kwo_partial. Per run the flat n-ary merge is also compared with the merge taken one pair at a time (C09_merge_fold_law).')
_c13 = CHECKS['C13']
amend('C13', note=(_c13[2] + ' ' if _c13[2] else '') + 'The bridge from call shapes to term-level evaluation is proved (Proofs/WrappersBridge.v): value-level binding succeeds iff the shape is accepted '
      '(C13_bind_named_iff_accepts), a generated def raises the binding TypeError iff its shape is rejected, and for a stack of any depth a call accepted by the reported signature never evaluates '
      'to Raise type_error (C13_stack_call_no_type_error; Combination: C13_comb_call_no_type_error), under the non-colliding clause incl. the wrapper\'s own first parameter.')


def main():
    props = [json.loads(l)['id'] for l in open(os.path.join(VERIF, 'properties.jsonl'))]
    extra = {}
    p = os.path.join(VERIF, 'tools', 'manifest_extra.json')
    if os.path.exists(p):
        extra = json.load(open(p))
    checks = []
    for pid in props:
        if pid not in CHECKS:
            continue
        cat, text, note, tech = CHECKS[pid]
        checks.append({
            'property_id': pid,
            'quick_cmd': './check %s --quick' % pid,
            'thorough_cmd': './check %s --thorough' % pid,
            'evidence_file': 'evidence/%s.json' % pid,
            'replay_cmd_template': './check %s --replay {path}' % pid,
            'engine': 'coq-model',
            'level_claimed': {'category': cat, 'text': text, 'design_ref': 'DESIGN.md section 5 (%s)' % pid},
            'level_note': (note + ' ' if note else '') + COMMON_NOTE,
            'technique': tech,
        })
    na = [{'property_id': p_, 'reason': extra.get('na', {}).get(p_, 'check not built yet (work in progress, see DESIGN.md section 9 build order)')}
          for p_ in props if p_ not in CHECKS]
    m = {
        'version': 1,
        'setup_cmd': './setup.sh',
        'hooks': {
            'guard': 'SIGTOOLS_VERIF',
            'enable': "no source hooks are needed: the harness monkeypatches / traces from outside; checks import /repo's working tree via PYTHONPATH=/repo",
            'baseline_off_cmd': 'cd /repo && /venv/bin/python -m pytest -ra -q -p no:cacheprovider --timeout=900 --continue-on-collection-errors',
            'source_commits': [],
            'add_only': True,
        },
        'engines': [{
            'name': 'coq-model', 'path': 'coq/',
            'serves_properties': [c['property_id'] for c in checks],
            'kind_free_text': 'Coq 8.16.1 development (Gallina model of sigtools, theorems, Print Assumptions per property), extracted to OCaml (ocaml/driver) '
                              'and compared with /repo by the Python harness (harness/)',
        }],
        'checks': checks,
        'notes': 'see DESIGN.md; known findings in known_findings.json; seeded changes in seeded/',
        'not_applicable': na,
    }
    with open(os.path.join(VERIF, 'MANIFEST.json'), 'w') as f:
        json.dump(m, f, indent=1)
    print('MANIFEST: %d checks, %d not claimed' % (len(checks), len(na)))


if __name__ == '__main__':
    main()
