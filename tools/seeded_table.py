#!/usr/bin/env python3
"""Fills seeded/*/meta.json['detected_by'] from seeded/RESULTS.txt and rewrites the
table of DESIGN.md section 13 (between the two marker lines)."""
import json
import os
import re

VERIF = os.path.dirname(os.path.dirname(os.path.abspath(__file__)))
BEGIN = '<!-- seeded-table-begin -->'
END = '<!-- seeded-table-end -->'


def first_sentence(text):
    text = re.sub(r'^#.*\n', '', text.strip())
    text = ' '.join(text.split())
    m = re.search(r'(Change:|\*\*What:\*\*|- \*\*Change:\*\*|What:)\s*(.*)', text)
    if m:
        text = m.group(2)
    return text[:170].replace('|', '/')


def main():
    res = {}
    p = os.path.join(VERIF, 'seeded', 'RESULTS.txt')
    for line in open(p):
        parts = line.split(None, 2)
        if len(parts) < 3:
            continue
        name, prop, rest = parts
        if rest.startswith('VIOLATION'):
            res[name] = 'detected' + (' (no-failing-input-found)' if 'no-failing-input-found' in rest else ' (concrete input)')
        elif rest.startswith('OK'):
            res[name] = 'MISSED'
        else:
            res[name] = rest.strip()
    rows = []
    for name in sorted(os.listdir(os.path.join(VERIF, 'seeded'))):
        d = os.path.join(VERIF, 'seeded', name)
        mp = os.path.join(d, 'meta.json')
        if not os.path.isfile(mp):
            continue
        meta = json.load(open(mp))
        r = res.get(name, 'not run')
        if meta.get('obsolete'):
            r = 'obsolete (see meta.json)'
        meta['detected_by'] = [meta['property']] if r.startswith('detected') else []
        meta['last_result'] = r
        meta['what_was_run'] = ('tools/verify_seed.sh (fresh worktree: patch applies, suite 294 passed / 10 errors, demo fails with the '
                                'change and passes without) and tools/run_seeded.sh (scratch worktree through SIGTOOLS_REPO, ./check <property> --quick)')
        json.dump(meta, open(mp, 'w'), indent=1)
        rows.append('| %s | %s | %s | %s |' % (name, meta['property'], first_sentence(meta.get('needs_to_manifest', '')), r))
    table = ['| Seeded change | Property | What it changes | `./check <property> --quick` |', '|---|---|---|---|'] + rows
    dp = os.path.join(VERIF, 'DESIGN.md')
    t = open(dp).read()
    block = BEGIN + '\n' + '\n'.join(table) + '\n' + END
    if BEGIN in t:
        t = re.sub(re.escape(BEGIN) + r'.*?' + re.escape(END), lambda m: block, t, flags=re.S)
    else:
        t = t.rstrip('\n') + '\n\n' + block + '\n'
    open(dp, 'w').write(t)
    print('%d seeded changes; detected %d, missed %d' % (
        len(rows), sum(1 for r in rows if '| detected' in r), sum(1 for r in rows if 'MISSED' in r)))


if __name__ == '__main__':
    main()
