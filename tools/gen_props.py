#!/usr/bin/env python3
"""gen_props.py <prefix> <Module> <theorem>...  : prints Props entries (statement as Coq
prints it with `Check`, `exact`, `Print Assumptions`) for theorems of Sigtools.Proofs.<Module>."""
import re
import subprocess
import sys

prefix, module = sys.argv[1], sys.argv[2]
names = sys.argv[3:]
header = ''
if names and names[0].startswith('--header='):
    header = open(names.pop(0)[len('--header='):]).read()
src = header + '\nFrom Sigtools.Proofs Require Import %s.\nSet Printing Width 100000.\nSet Printing Depth 100000.\n' % module
for n in names:
    src += 'Check @%s.\n' % n
out = subprocess.run(['coqtop', '-Q', 'theories', 'Sigtools'], input=src.encode(), cwd='/verif/coq',
                     stdout=subprocess.PIPE, stderr=subprocess.STDOUT).stdout.decode()
for n in names:
    m = re.search(r'(?m)^(?:Coq < )*@?%s\s*\n?\s*:\s*(.*?)(?=\n(?:Coq <|\s*$))' % re.escape(n), out, re.S)
    if not m:
        sys.stderr.write('no type for %s\n%s\n' % (n, out[-2000:]))
        sys.exit(1)
    ty = ' '.join(m.group(1).split())
    pn = n if n.startswith(prefix + '_') else '%s_%s' % (prefix, n)
    print('Theorem %s : %s.\nProof. exact @%s.%s. Qed.\nPrint Assumptions %s.\n' % (pn, ty, module, n, pn))
