#!/usr/bin/env python3
"""replace_row.py <file> <start marker> <new-row-file>: replace the single line of <file> that
starts with <start marker> (must be unique among line starts) by the content of <new-row-file>."""
import sys
path, marker, newf = sys.argv[1:4]
lines = open(path).read().split('\n')
idx = [i for i, l in enumerate(lines) if l.startswith(marker)]
if len(idx) != 1:
    sys.exit('marker matches %d lines' % len(idx))
new = open(newf).read().rstrip('\n')
assert '\n' not in new
lines[idx[0]] = new
open(path, 'w').write('\n'.join(lines))
print('replaced line', idx[0] + 1)
