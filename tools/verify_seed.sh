#!/bin/bash
# verify_seed.sh <agent-out-dir> <seed-name> <property>
# Confirms a seeded change in a scratch worktree: suite still 294 passed, demo fails with
# the change, passes without. On success stores it under /verif/seeded/<seed-name>/.
set -u
SRC="$1"; NAME="$2"; PROP="$3"
WT=/tmp/vs-$$
git -C /repo worktree add -q "$WT" HEAD || exit 2
cleanup() { git -C /repo worktree remove --force "$WT" >/dev/null 2>&1; }
trap cleanup EXIT
cd "$WT"
if ! git apply --check "$SRC/patch.diff" 2>/dev/null; then echo "PATCH DOES NOT APPLY"; exit 1; fi
PYTHONPATH="$WT" /venv/bin/python "$SRC/demo.py" >/tmp/vs-demo0.$$ 2>&1; D0=$?
git apply "$SRC/patch.diff"
T=$(/venv/bin/python -m pytest -q -p no:cacheprovider --timeout=900 --continue-on-collection-errors 2>&1 | tail -1)
PYTHONPATH="$WT" /venv/bin/python "$SRC/demo.py" >/tmp/vs-demo1.$$ 2>&1; D1=$?
echo "tests: $T"; echo "demo clean exit=$D0  mutated exit=$D1"
tail -3 /tmp/vs-demo1.$$
OK=0
case "$T" in *"294 passed"*"10 errors"*) ;; *) OK=1;; esac
[ $D0 -eq 0 ] || OK=1
[ $D1 -ne 0 ] || OK=1
if [ $OK -eq 0 ]; then
  mkdir -p /verif/seeded/$NAME
  cp "$SRC/patch.diff" "$SRC/demo.py" /verif/seeded/$NAME/
  [ -f "$SRC/note.md" ] && cp "$SRC/note.md" /verif/seeded/$NAME/
  python3 - "$NAME" "$PROP" "$T" "$D0" "$D1" <<'PY'
import json,sys,os
name,prop,t,d0,d1=sys.argv[1:6]
note=open('/verif/seeded/%s/note.md'%name).read() if os.path.exists('/verif/seeded/%s/note.md'%name) else ''
json.dump({'id':name,'property':prop,'needs_to_manifest':note.strip()[:1500],
 'confirmed':{'suite_with_change':t,'demo_exit_clean_tree':int(d0),'demo_exit_with_change':int(d1),
 'how':'tools/verify_seed.sh: fresh worktree of /repo HEAD, git apply, pytest baseline, demo with and without the change'},
 'detected_by':[]},open('/verif/seeded/%s/meta.json'%name,'w'),indent=1)
PY
  echo "KEPT $NAME"
else
  echo "REJECTED $NAME"
fi
rm -f /tmp/vs-demo0.$$ /tmp/vs-demo1.$$
