#!/bin/bash
# update_results.sh <seed>...: re-run the given seeded changes against their property's check and
# replace (or add) their lines in seeded/RESULTS.txt
cd /verif
OUT=seeded/RESULTS.txt
for n in "$@"; do
  d=seeded/$n
  p=$(python3 -c "import json;print(json.load(open('$d/meta.json'))['property'])")
  if ! git -C /repo apply --check $PWD/$d/patch.diff 2>/dev/null; then line="$n $p PATCH-DOES-NOT-APPLY"
  else
    r=$(bash tools/run_seeded.sh $n $p 2>&1 | grep -E "^(VIOLATION|OK)" | head -1 | cut -c1-160)
    line="$n $p $r"
  fi
  grep -v "^$n " $OUT > $OUT.tmp; echo "$line" >> $OUT.tmp
  sort -V $OUT.tmp > $OUT; rm -f $OUT.tmp
  echo "$line"
done
