"""Correspondence run for Model/ExecLoop.v: execcheck_try.py extended with `for` loops
(the model Model/ExecLoop.v is Model/ExecTry.v plus the constructor TFor; this file is
execcheck_try.py plus the generator / renderer cases for it and the LOOPS comparison).

For random programs of the grammar `tstmt` (try / except / else / finally, with, the three
comprehension forms, `for` loops, nested, around flat leaves of Model/Exec.v), one coqc call evaluates
`exec_report_t` and every program is compared with the real code three times, as
execcheck.run / run_nested do:

  TREE   the model's rendering `compile_tblock` = the tree `ast.parse` gives for the rendered
         Python source (execcheck.enc_py: children in the walker's visit order);
  FLAGS  the model's flags = the flags of the real CallListerVisitor on that tree;
  EXEC   the rendered wrapper is really executed, several times, under a deterministic fault
         plan (no fault; the j-th executed stub call raises Exception, or a BaseException that
         `except Exception` does not catch; the iterables of the comprehensions have k = 0, 1, 2
         items).  Each real run (sequence of call sites, did an exception leave the wrapper,
         what every forwarding callee received, final star variables) must be ONE OF the model's
         outcomes: same site sequence, same propagating bit, and wherever that outcome says the
         callee receives the caller's untouched object (code 2) / the star variable is still
         pristine at the end, it really is.  The model is a superset (any statement may raise),
         so the comparison is one-directional by design.
  LOOPS  the model's outcomes are exact for loops too, so EXEC is the same for every program.
         The walker reads a loop body once: its flags are sound only for programs that are
         `loop_stable` (evaluated in Coq with the report).  For those, every real run is also
         held directly against the FLAGS: a forwarding site flagged use_* really receives the
         caller's untouched object (theorem flags_sound_loop_partial); for the others the runs
         that show the known unsoundness are only counted (loop_unstable_unsound_runs).

Names: Exception = n60, the context manager factory = n61, the loop variable = n62, range = n63
(default_tnames of the model); they are ordinary identifiers of the rendered source, bound in
the namespace the wrapper runs in (n60 IS Exception there).  Leaves have no `if` (a leaf is
atomic for the model's exceptions; branches are covered by execcheck.run).
"""
import ast
import random
import sys

import execcheck as E
from coqrun import coq_eval, parse_nat_list, parse_bool

EXC, CM, TGT, RNG = 60, 61, 62, 63
for _i in (EXC, CM, TGT, RNG):                 # number <-> identifier, for the TREE comparison
    E._INV.setdefault(E.ident(_i), _i)

FILENAME = '<exec-loop-grammar>'
MAX_FAULTS = 14                                # fault positions tried per (program, k)


# ---------------------------------------------------------------- generator
def gen_leaf(rng):
    s = E.gen_stmt(rng, 2, [0])                # depth 2: no `if`
    if s[0] == 'lam':
        s = ('other', rng.choice(E.HELPERS))
    return s


def gen_element(rng):
    """a `repeatable` statement: one call that leaves the stars alone"""
    r = rng.random()
    if r < 0.6:
        return ('fwd', rng.choice(E.CALLEES), rng.randrange(0, 3),
                rng.sample(E.KWNAMES, rng.randrange(0, 2)), rng.random() < 0.8, rng.random() < 0.8)
    if r < 0.75:
        return ('other', rng.choice(E.HELPERS))
    if r < 0.9:
        return ('pass', rng.choice(E.HELPERS), 'A')
    name = rng.choice(sorted(E.A_METHODS))
    return ('meth', 'A', E._ATTR_ID[E.A_METHODS[name][0]], E.A_METHODS[name])


def gen_block(rng, depth, budget, lo, hi):
    out = []
    for _ in range(rng.randrange(lo, hi + 1)):
        if budget[0] <= 0:
            break
        out.append(gen_tstmt(rng, depth, budget))
    return out


def gen_tstmt(rng, depth, budget):
    budget[0] -= 1
    r = rng.random()
    if r < 0.42 or (depth >= 2 and r < 0.70):
        return ('leaf', gen_leaf(rng))
    if r < 0.60:
        body = gen_block(rng, depth + 1, budget, 0, 3)
        if rng.random() < 0.7:
            handler = gen_block(rng, depth + 1, budget, 0, 2)
            orelse = gen_block(rng, depth + 1, budget, 1, 2) if rng.random() < 0.35 else []
            final = gen_block(rng, depth + 1, budget, 1, 2) if rng.random() < 0.45 else []
        else:
            handler, orelse = None, []
            final = gen_block(rng, depth + 1, budget, 0, 2)
        return ('try', body, handler, orelse, final)
    if r < 0.68:
        return ('with', gen_block(rng, depth + 1, budget, 0, 3))
    if r < 0.78:
        if rng.random() < 0.35:
            # a forwarding call followed by a taint: the body is (usually) not a fixed point
            budget[0] -= 2
            fwd = ('fwd', rng.choice(E.CALLEES), rng.randrange(0, 2), [], rng.random() < 0.8, True)
            taint = rng.choice([('rebind', 'K'), ('item',), ('del', 'K'), ('rebind', 'A'),
                                ('pass', rng.choice(E.HELPERS), 'K')])
            return ('for', [('leaf', fwd), ('leaf', taint)])
        return ('for', gen_block(rng, depth + 1, budget, 0, 2))
    if r < 0.86:
        return ('rep', gen_element(rng))
    if r < 0.94:
        name = rng.choice(sorted(E.K_METHODS))
        return ('repmut', E._ATTR_ID[E.K_METHODS[name][0]], E.K_METHODS[name], gen_element(rng))
    return ('repshadow', rng.choice(['A', 'K']), gen_element(rng))


MAX_OUTCOMES = 1500                            # raw model outcomes per program (before dedup)


def count_outcomes(prog):
    """number of outcomes of the model's run_t (completed, propagating), leaves without `if`"""
    def seq(l):
        c, p = 1, 0
        for x in reversed(l):
            cx, px = one(x)
            c, p = cx * c, px + cx * (1 + p)
        return c, p

    def blk(l):
        if not l:
            return 1, 0
        c, p = seq(l)
        return c, p + 1

    def one(x):
        t = x[0]
        if t == 'leaf':
            return 1, 0
        if t == 'try':
            cb, pb = blk(x[1])
            co, po = blk(x[3])
            cf, pf = blk(x[4])
            fin = cf + pf
            c = cb * co * cf
            tot = cb * (co + po) * fin + pb * fin
            if x[2] is not None:
                ch, ph = blk(x[2])
                c += pb * ch * cf
                tot += pb * (ch + ph) * fin
            return c, tot - c
        if t == 'with':
            c, p = seq(x[1])
            return c, p + 1
        if t == 'for':
            c, p = seq(x[1])
            lc, lp = 1, 0
            tc, tp = 1, 1                      # no round; the iterable's call raises
            for _ in (1, 2):
                lc, lp = c * lc, p + c * lp
                tc, tp = tc + lc, tp + lp
            return tc, tp
        if t == 'repshadow':
            return 1, 0
        return 3, 0
    return blk(prog)


def gen_tprogram(rng):
    while True:
        budget = [rng.randrange(4, 10)]
        prog = gen_block(rng, 0, budget, 1, 4) or [('leaf', gen_leaf(rng))]
        if sum(count_outcomes(prog)) <= MAX_OUTCOMES:
            return prog


def count_constructors(prog, acc):
    for x in prog:
        t = x[0]
        acc[t] = acc.get(t, 0) + 1
        if t == 'try':
            acc['try_handler' if x[2] is not None else 'try_finally_only'] = \
                acc.get('try_handler' if x[2] is not None else 'try_finally_only', 0) + 1
            for b in (x[1], x[2] or [], x[3], x[4]):
                count_constructors(b, acc)
        elif t in ('with', 'for'):
            count_constructors(x[1], acc)


# ---------------------------------------------------------------- to Coq
def coq_t(x):
    t = x[0]
    if t == 'leaf':
        return '(TLeaf %s)' % E.coq_stmt(x[1])
    if t == 'try':
        h = 'None' if x[2] is None else '(Some %s)' % coq_tblock(x[2])
        return '(TTry %s %s %s %s)' % (coq_tblock(x[1]), h, coq_tblock(x[3]), coq_tblock(x[4]))
    if t == 'with':
        return '(TWith %s)' % coq_tblock(x[1])
    if t == 'for':
        return '(TFor %s)' % coq_tblock(x[1])
    if t == 'rep':
        return '(TRepeat %s)' % E.coq_stmt(x[1])
    if t == 'repmut':
        return '(TRepeatMut %d %s)' % (x[1], E.coq_stmt(x[3]))
    return '(TRepeatShadow %s %s)' % ('SA' if x[1] == 'A' else 'SK', E.coq_stmt(x[2]))


def coq_tblock(l):
    return '[' + '; '.join(coq_t(x) for x in l) + ']'


# ---------------------------------------------------------------- rendering
def _var(x):
    return 'args' if x == 'A' else 'kwargs'


def _call_text(s):
    """(source of the call expression of a single-call statement, kind of site)"""
    t = s[0]
    if t == 'fwd':
        parts = ['0'] * s[2]
        if s[4]:
            parts.append('*args')
        parts += ['%s=0' % E.ident(k) for k in s[3]]
        if s[5]:
            parts.append('**kwargs')
        return '%s(%s)' % (E.ident(s[1]), ', '.join(parts)), 'stub'
    if t == 'meth':
        return '%s.%s(%s)' % (_var(s[1]), s[3][0], s[3][1]), 'line'
    if t == 'pass':
        return '%s(%s)' % (E.ident(s[1]), _var(s[2])), 'stub'
    if t == 'other':
        return '%s(0)' % E.ident(s[1]), 'stub'
    raise ValueError(s)


def render_t(prog):
    """-> (source, {lineno: (site, 'stub' | 'line')}, {site: (literal positionals, keyword names)})
    Sites are numbered as the model numbers them (the walker's call list).  Every call site has
    a line of its own: a comprehension is written on several lines."""
    lines = ['def wrapper(*args, **kwargs):']
    sites = {}
    fw = {}
    counter = [0]

    def new_site():
        counter[0] += 1
        return counter[0] - 1

    def put(text, site=None, kind=None, fwd=None):
        lines.append(text)
        if site is not None:
            sites[len(lines)] = (site, kind)
            if fwd is not None and fwd[0] == 'fwd':
                fw[site] = (fwd[2], set(E.ident(k) for k in fwd[3]))

    def emit_leaf(s, pad):
        t = s[0]
        if t in ('fwd', 'meth', 'pass', 'other'):
            text, kind = _call_text(s)
            put(pad + text, new_site(), kind, s)
        elif t == 'rebind':
            put("%s%s = 'ab'" % (pad, _var(s[1])))
        elif t == 'aug':
            put("%s%s += 'ab'" % (pad, _var(s[1])))
        elif t == 'del':
            put('%sdel %s' % (pad, _var(s[1])))
        elif t == 'item':
            put("%skwargs['zz'] = 0" % pad)
        elif t == 'alias':
            put('%s%s = %s' % (pad, E.ident(s[1]), _var(s[2])))
        else:
            raise ValueError(s)

    def emit_block(block, ind, mandatory=True):
        if not block:
            if mandatory:
                put('    ' * ind + 'pass')
            return
        for x in block:
            emit(x, ind)

    def emit_comp(pad, iter_text, iter_kind, target, elt):
        # the iterable's call is the first site, the element's the second
        isite = new_site() if iter_kind is not None else None
        etext, ekind = _call_text(elt)
        esite = new_site()
        put(pad + '[')
        put(pad + '    ' + etext, esite, ekind, elt)
        put(pad + '    for %s in' % target)
        put(pad + '    ' + iter_text, isite, iter_kind)
        put(pad + ']')

    def emit(x, ind):
        pad = '    ' * ind
        t = x[0]
        if t == 'leaf':
            emit_leaf(x[1], pad)
        elif t == 'try':
            put(pad + 'try:')
            emit_block(x[1], ind + 1)
            if x[2] is not None:
                put(pad + 'except %s:' % E.ident(EXC))
                emit_block(x[2], ind + 1)
            if x[3]:
                put(pad + 'else:')
                emit_block(x[3], ind + 1)
            if x[4] or x[2] is None:
                put(pad + 'finally:')
                emit_block(x[4], ind + 1)
        elif t == 'with':
            put(pad + 'with %s():' % E.ident(CM), new_site(), 'stub')
            emit_block(x[1], ind + 1)
        elif t == 'for':
            put(pad + 'for %s in %s(0):' % (E.ident(TGT), E.ident(RNG)), new_site(), 'stub')
            emit_block(x[1], ind + 1)
        elif t == 'rep':
            emit_comp(pad, '%s(0)' % E.ident(RNG), 'stub', E.ident(TGT), x[1])
        elif t == 'repmut':
            emit_comp(pad, 'kwargs.%s(%s)' % (x[2][0], x[2][1]), 'line', E.ident(TGT), x[3])
        else:
            emit_comp(pad, "['ab']", None, _var(x[1]), x[2])

    emit_block(prog, 1)
    return '\n'.join(lines) + '\n', sites, fw


def has_comprehension(prog):
    """something whose number of rounds is chosen by the run (comprehension, loop)"""
    for x in prog:
        if x[0] in ('rep', 'repmut', 'for'):
            return True
        if x[0] == 'try' and any(has_comprehension(b) for b in (x[1], x[2] or [], x[3], x[4])):
            return True
        if x[0] in ('with', 'for') and has_comprehension(x[1]):
            return True
    return False


def has_loop(prog):
    for x in prog:
        if x[0] == 'for':
            return True
        if x[0] == 'try' and any(has_loop(b) for b in (x[1], x[2] or [], x[3], x[4])):
            return True
        if x[0] == 'with' and has_loop(x[1]):
            return True
    return False


# ---------------------------------------------------------------- real execution
class _Items(E._Sentinel):
    """a value of **kwargs that can be the iterable of a comprehension"""
    def __init__(self, n):
        self.n = n

    def __iter__(self):
        return iter(range(self.n))


class _Escape(BaseException):
    """an exception `except Exception` does not catch"""


class _CM(object):
    def __enter__(self):
        return self

    def __exit__(self, *a):
        return False


def execute_t(source, sites, fw, k, fault, escape):
    """Run the rendered wrapper; the comprehensions' iterables have k items; the `fault`-th
    executed stub call (None: none) raises Exception (or _Escape) after it has been recorded.
    -> (site sequence, {position: (star_ok, dstar_ok)}, name of the exception that left the
        wrapper or None, final (args pristine, kwargs pristine) or None, stub calls, injected)"""
    A = (E._Sentinel(), E._Sentinel())
    K = {'k0': _Items(k), 'k1': _Items(k)}
    K0 = dict(K)
    seq = []
    verdict = {}
    final = [None]
    nstub = [0]
    injected = [False]
    mut = [0]

    def reached(a, kw):
        fr = sys._getframe(2)
        if fr.f_code.co_filename == FILENAME:
            ent = sites.get(fr.f_lineno)
            if ent is not None and ent[1] == 'stub':
                pos = len(seq)
                seq.append(ent[0])
                if ent[0] in fw:
                    nl, kws = fw[ent[0]]
                    star = a[nl:]
                    star_ok = len(star) == len(A) and all(x is y for x, y in zip(star, A))
                    rest = {x: v for x, v in kw.items() if x not in kws}
                    dstar_ok = list(rest.keys()) == list(K0.keys()) and all(rest[x] is K0[x] for x in K0)
                    verdict[pos] = (star_ok, dstar_ok)
        j = nstub[0]
        nstub[0] += 1
        if fault is not None and j == fault:
            injected[0] = True
            raise (_Escape if escape else Exception)('injected')

    def stub(*a, **kw):
        reached(a, kw)

    def helper(*a, **kw):
        # other code: mutates a dict handed to it, every other time
        mut[0] += 1
        if a and isinstance(a[0], dict) and mut[0] % 2:
            a[0]['mutated'] = 1
        reached(a, kw)

    def cm(*a, **kw):
        reached(a, kw)
        return _CM()

    def rng(*a, **kw):
        reached(a, kw)
        return range(k)

    ns = {E.ident(EXC): Exception, E.ident(CM): cm, E.ident(RNG): rng}
    for i in E.CALLEES:
        ns[E.ident(i)] = stub
    for i in E.HELPERS:
        ns[E.ident(i)] = helper
    exec(compile(source, FILENAME, 'exec'), ns)
    wrapper = ns['wrapper']

    def tracer(frame, event, arg):
        if frame.f_code.co_filename != FILENAME:
            return None
        if event == 'line':
            ent = sites.get(frame.f_lineno)
            if ent is not None and ent[1] == 'line':
                seq.append(ent[0])
        elif event == 'return' and frame.f_code is wrapper.__code__:
            loc = frame.f_locals
            la = loc.get('args')
            lk = loc.get('kwargs')
            final[0] = (isinstance(la, tuple) and len(la) == len(A) and all(x is y for x, y in zip(la, A)),
                        isinstance(lk, dict) and list(lk.items()) == list(K0.items())
                        and all(lk[x] is K0[x] for x in K0))
        return tracer

    exc = None
    old = sys.gettrace()
    sys.settrace(tracer)
    try:
        try:
            wrapper(*A, **K)
        except BaseException as e:  # noqa: BLE001
            exc = type(e).__name__
    finally:
        sys.settrace(old)
    return seq, verdict, exc, (final[0] if exc is None else None), nstub[0], injected[0]


# ---------------------------------------------------------------- the report
def parse_report_t(nums):
    """exec_report_t: as exec_report_n, every outcome row = pr_a pr_k propagating #events (site a k)*"""
    it = iter(nums)
    nbody = next(it)
    ne = next(it)
    enc = [next(it) for _ in range(ne)]
    flags = None
    if next(it) == 1:
        nf = next(it)
        flags = [tuple(bool(next(it)) for _ in range(4)) for _ in range(nf)]
    nouts = next(it)
    outs = []
    for _ in range(nouts):
        pa, pk, prop, nev = bool(next(it)), bool(next(it)), bool(next(it)), next(it)
        evs = [(next(it), next(it), next(it)) for _ in range(nev)]
        outs.append((pa, pk, prop, evs))
    return nbody, enc, flags, outs


def index_outcomes(outs):
    idx = {}
    for o in outs:
        idx.setdefault((tuple(e[0] for e in o[3]), o[2]), []).append(o)
    return idx


def consistent(o, verdict, final):
    """-> number of pristine claims of the model outcome confirmed by the run, or None when one
    of them is false of the run"""
    n = 0
    for pos, (_site, a, k) in enumerate(o[3]):
        v = verdict.get(pos)
        if v is None:
            continue
        if (a == 2 and not v[0]) or (k == 2 and not v[1]):
            return None
        n += (a == 2) + (k == 2)
    if final is not None and ((o[0] and not final[0]) or (o[1] and not final[1])):
        return None
    return n


def fault_plan(prog, source, sites, fw):
    """the runs of one program: (k, fault index or None, escape)"""
    ks = (0, 1, 2) if has_comprehension(prog) else (1,)
    plan = []
    for k in ks:
        n = execute_t(source, sites, fw, k, None, False)[4]
        plan.append((k, None, False))
        # a fault changes what runs afterwards (handlers): try a few positions past the count too
        for j in range(min(n + 2, MAX_FAULTS)):
            plan.append((k, j, False))
            plan.append((k, j, True))
    return plan


def run_loop(seed, count, shard=50):
    """-> (stats dict, list of disagreement dicts)"""
    rng = random.Random(seed * 15485863 + 29)
    progs = [gen_tprogram(rng) for _ in range(count)]
    pre = 'From Sigtools.Model Require Import Exec ExecLoop.\nOpen Scope N_scope.\n'
    answers = []
    stable = []
    for i in range(0, count, shard):
        terms = []
        for p in progs[i:i + shard]:
            terms.append('exec_report_t 1 2 %s' % coq_tblock(p))
            terms.append('loop_stable %s' % coq_tblock(p))
        res = coq_eval(pre, terms, name='execlcases')
        answers += res[0::2]
        stable += [parse_bool(x) for x in res[1::2]]
    stats = {'loop_programs': count, 'loop_outcomes': 0, 'loop_runs': 0, 'loop_events': 0,
             'loop_pristine_confirmed': 0, 'loop_exceptions_injected': 0, 'loop_exceptions_natural': 0,
             'loop_runs_propagating': 0, 'loop_flag_tuples': 0, 'loop_used_flags': 0, 'loop_hidden_flags': 0,
             'loop_with_loops': 0, 'loop_stable_programs': 0, 'loop_unstable_programs': 0,
             'loop_use_flags_confirmed': 0, 'loop_unstable_unsound_runs': 0}
    ctors = {}
    bad = []
    for p, ans, stab in zip(progs, answers, stable):
        count_constructors(p, ctors)
        if has_loop(p):
            stats['loop_with_loops'] += 1
            stats['loop_stable_programs' if stab else 'loop_unstable_programs'] += 1
        elif not stab:
            bad.append({'kind': 'loop-flags', 'program': coq_tblock(p), 'prog': p, 'source': '',
                        'problem': 'the model says a loop-free program is not loop_stable'})
            continue
        text = coq_tblock(p)
        nbody, enc, flags, outs = parse_report_t(parse_nat_list(ans))
        src, sites, fw = render_t(p)
        tree = ast.parse(src).body[0]
        # 1. TREE
        real = []
        for st in tree.body:
            E.enc_py(st, real)
        if real != enc or nbody != len(tree.body):
            bad.append({'kind': 'loop-tree', 'program': text, 'prog': p, 'source': src, 'model_tree': enc, 'real_tree': real})
            continue
        # 2. FLAGS
        try:
            fi = E.impl_flags(tree)
        except Exception as e:  # noqa: BLE001
            fi = 'RAISED ' + type(e).__name__
        if flags is None or fi != flags:
            bad.append({'kind': 'loop-flags', 'program': text, 'prog': p, 'source': src, 'model_flags': flags,
                        'impl_flags': fi, 'concrete': impl_flag_violation_t(p, src, sites, fw, fi)})
            continue
        stats['loop_flag_tuples'] += len(flags)
        stats['loop_used_flags'] += sum(1 for f in flags if f[0] or f[1])
        stats['loop_hidden_flags'] += sum(1 for f in flags if f[2] or f[3])
        # 3. EXEC
        stats['loop_outcomes'] += len(outs)
        idx = index_outcomes(outs)
        for k, fault, escape in fault_plan(p, src, sites, fw):
            seq, verdict, exc, final, _n, injected = execute_t(src, sites, fw, k, fault, escape)
            if fault is not None and not injected:
                continue                       # fewer stub calls on this run
            stats['loop_runs'] += 1
            stats['loop_events'] += len(seq)
            stats['loop_exceptions_injected'] += bool(injected)
            stats['loop_runs_propagating'] += exc is not None
            cands = idx.get((tuple(seq), exc is not None), [])
            best = None
            for o in cands:
                c = consistent(o, verdict, final)
                if c is not None and (best is None or c > best):
                    best = c
            if best is None:
                run_desc = {'k': k, 'fault': fault, 'escape': escape, 'sites': seq, 'exception': exc,
                            'received_pristine': verdict, 'final': final}
                if not cands:
                    problem = ('no model outcome has the site sequence %r with propagating=%r'
                               % (seq, exc is not None))
                else:
                    problem = ('every model outcome with this site sequence claims an untouched object the '
                               'run did not see: %r' % [(o[0], o[1], o[3]) for o in cands[:4]])
                bad.append({'kind': 'loop-exec', 'program': text, 'prog': p, 'source': src, 'run': run_desc,
                            'problem': problem, 'model_outcomes': len(outs)})
                break
            stats['loop_pristine_confirmed'] += best
            if exc is not None and not injected:
                stats['loop_exceptions_natural'] += 1
            # the flags themselves against the run (sound when the program is loop_stable)
            wrong = None
            for pos, site in enumerate(seq):
                v = verdict.get(pos)
                if v is None:
                    continue
                if (flags[site][0] and not v[0]) or (flags[site][1] and not v[1]):
                    wrong = (pos, site)
                    break
                stats['loop_use_flags_confirmed'] += flags[site][0] + flags[site][1]
            if wrong is not None:
                if stab:
                    bad.append({'kind': 'loop-exec', 'program': text, 'prog': p, 'source': src,
                                'run': {'k': k, 'fault': fault, 'escape': escape, 'sites': seq, 'exception': exc,
                                        'received_pristine': verdict},
                                'problem': 'loop_stable program: call number %d is flagged use_* %r but its callee '
                                           'received something else (position %d of the run)'
                                           % (wrong[1], flags[wrong[1]], wrong[0])})
                    break
                stats['loop_unstable_unsound_runs'] += 1
    for t, n in sorted(ctors.items()):
        stats['loop_ctor_' + t] = n
    return stats, bad


def impl_flag_violation_t(prog, src, sites, fw, fi):
    """The implementation's flags against real execution: a site marked use_varargs /
    use_varkwargs whose callee really receives something else.  -> dict or None"""
    if not isinstance(fi, list):
        return None
    for k, fault, escape in fault_plan(prog, src, sites, fw):
        seq, verdict, _exc, _final, _n, _inj = execute_t(src, sites, fw, k, fault, escape)
        for pos, site in enumerate(seq):
            if pos not in verdict or site >= len(fi):
                continue
            ua, uk = fi[site][0], fi[site][1]
            if (ua and not verdict[pos][0]) or (uk and not verdict[pos][1]):
                which = '*args (use_varargs)' if ua and not verdict[pos][0] else '**kwargs (use_varkwargs)'
                return {'source': src, 'site': site, 'k': k, 'fault': fault,
                        'problem': 'the walker marks %s of call number %d as forwarded untouched, but executing '
                                   'the wrapper the callee receives something else' % (which, site)}
    return None


def replay_loop(prog):
    """replay of a 'loop-flags' finding from its 'prog' field (the generator's structure; a JSON
    round trip -- tuples become lists -- is fine).  -> description of the violation or None"""
    src, sites, fw = render_t(prog)
    try:
        fi = E.impl_flags(ast.parse(src).body[0])
    except Exception as e:  # noqa: BLE001
        return 'walker raised ' + type(e).__name__
    c = impl_flag_violation_t(prog, src, sites, fw, fi)
    return (c['problem'] + '\n' + c['source']) if c else None


if __name__ == '__main__':
    import time
    t0 = time.time()
    st, bd = run_loop(int(sys.argv[1]) if len(sys.argv) > 1 else 0, int(sys.argv[2]) if len(sys.argv) > 2 else 150)
    print(st)
    print('bad:', len(bd), 'time: %.1fs' % (time.time() - t0))
    for b in bd[:5]:
        print(b)
