"""Shared machinery for the discovery properties (C05, C06, C07):

* conversion of a real `ast` tree into the model's mini-AST (token form), exactly
  along ast.NodeVisitor.generic_visit,
* running the implementation's CallListerVisitor and canonicalising its calls,
* the batch interface to the extracted discovery model (ocaml/vdriver),
* the forwarding-program generator with its ground truth.
"""
import ast
import itertools
import os
import subprocess
import sys
import textwrap

from core import VERIF, tok_sig, parse_sig_tokens

VDRIVER = os.path.join(VERIF, 'ocaml', 'vdriver')

sys.setrecursionlimit(20000)


# ---------------------------------------------------------------- ast -> tokens
class Interner(object):
    def __init__(self):
        self.ids = {}
        self.names = ['']

    def __call__(self, s):
        if s not in self.ids:
            self.ids[s] = len(self.names)
            self.names.append(s)
        return self.ids[s]

    def name(self, i):
        return self.names[i]


_CTX = {ast.Load: 0, ast.Store: 1, ast.Del: 2}


def _func_tokens(node, intern, out):
    a = node.args
    pos = list(getattr(a, 'posonlyargs', [])) + list(a.args)
    out.append(str(len(pos)))
    out.extend(str(intern(x.arg)) for x in pos)
    out.append(str(len(a.kwonlyargs)))
    out.extend(str(intern(x.arg)) for x in a.kwonlyargs)
    out.append(str(intern(a.vararg.arg)) if a.vararg else '-')
    out.append(str(intern(a.kwarg.arg)) if a.kwarg else '-')
    body = node.body if isinstance(node.body, list) else [node.body]
    out.append(str(len(body)))
    for st in body:
        _node_tokens(st, intern, out)


def children_in_visit_order(node):
    """children of a node the walker has no method of its own for, in the order it visits them:
    generic_visit (_fields order) -- except comprehensions, which the walker reads in evaluation
    order since repair 562a505: the for clauses first (each: iterable, target, conditions), then
    the element expression(s)"""
    if isinstance(node, (ast.ListComp, ast.SetComp, ast.GeneratorExp)):
        return list(node.generators) + [node.elt]
    if isinstance(node, ast.DictComp):
        return list(node.generators) + [node.key, node.value]
    if isinstance(node, ast.comprehension):
        return [node.iter, node.target] + list(node.ifs)
    children = []
    for _field, value in ast.iter_fields(node):
        if isinstance(value, list):
            children.extend(v for v in value if isinstance(v, ast.AST))
        elif isinstance(value, ast.AST):
            children.append(value)
    return children


def _node_tokens(node, intern, out):
    if isinstance(node, ast.Name):
        out.append('N')
        out.append(str(intern(node.id)))
        out.append(str(_CTX.get(type(node.ctx), 0)))
    elif isinstance(node, ast.Attribute):
        out.append('A')
        out.append(str(intern(node.attr)))
        _node_tokens(node.value, intern, out)
    elif isinstance(node, ast.Call):
        out.append('C')
        _node_tokens(node.func, intern, out)
        out.append(str(len(node.args)))
        for a in node.args:
            _node_tokens(a, intern, out)
        out.append(str(len(node.keywords)))
        for k in node.keywords:
            _node_tokens(k, intern, out)
    elif isinstance(node, ast.Starred):
        out.append('S')
        _node_tokens(node.value, intern, out)
    elif isinstance(node, ast.keyword):
        out.append('K')
        out.append(str(intern(node.arg)) if node.arg is not None else '-')
        _node_tokens(node.value, intern, out)
    elif isinstance(node, (ast.FunctionDef, ast.Lambda)):
        out.append('F')
        _func_tokens(node, intern, out)
    elif isinstance(node, ast.Nonlocal):
        out.append('L')
        out.append(str(len(node.names)))
        out.extend(str(intern(n)) for n in node.names)
    else:
        children = children_in_visit_order(node)
        out.append('O')
        out.append(str(len(children)))
        for c in children:
            _node_tokens(c, intern, out)


def visit_request(func_ast):
    """-> (request line, interner)"""
    intern = Interner()
    out = ['visit', 'F']
    _func_tokens(func_ast, intern, out)
    return ' '.join(out), intern


# ---------------------------------------------------------------- implementation side
def _marker_str(m, intern, AF):
    if m is None:
        return '-'
    if isinstance(m, AF.Arg):
        return 'G%d' % intern(m.name)
    if isinstance(m, AF.Name):
        return 'N%d' % intern(m.name)
    if isinstance(m, AF.Attribute):
        return 'A(%s.%d)' % (_marker_str(m.value, intern, AF), intern(m.attr))
    if isinstance(m, AF.Unknown):
        return 'U'
    return '?' + type(m).__name__


def impl_calls(func_ast, intern):
    """Run sigtools' CallListerVisitor on the tree and canonicalise its calls in
    the vdriver's output format; exceptions are mapped to 'RAISED <type>'."""
    from sigtools import _autoforwards as AF
    try:
        vis = AF.CallListerVisitor(func_ast)
        calls = list(vis)
    except RecursionError:
        return 'RAISED RecursionError'
    except Exception as e:  # noqa: BLE001
        return 'RAISED ' + type(e).__name__
    items = []
    for c in calls:
        items.append('|'.join([
            _marker_str(c.wrapped, intern, AF),
            ','.join(_marker_str(a, intern, AF) for a in c.args),
            ','.join('%d=%s' % (intern(k), _marker_str(v, intern, AF)) for k, v in c.kwargs.items()),
            _marker_str(c.varargs, intern, AF), _marker_str(c.varkwargs, intern, AF),
            ''.join('1' if x else '0' for x in (c.use_varargs, c.use_varkwargs,
                                               c.hide_args, c.hide_kwargs))]))
    return 'CALLS ' + ';'.join(items)


# ---------------------------------------------------------------- vdriver
def run_vdriver(lines):
    if not lines:
        return []
    data = ('\n'.join(lines) + '\n').encode()
    pr = subprocess.run([VDRIVER], input=data, stdout=subprocess.PIPE, stderr=subprocess.PIPE)
    if pr.returncode != 0:
        raise RuntimeError('vdriver failed: ' + pr.stderr.decode()[:500])
    out = pr.stdout.decode().split('\n')
    if out and out[-1] == '':
        out.pop()
    if len(out) != len(lines):
        raise RuntimeError('vdriver answered %d lines for %d requests' % (len(out), len(lines)))
    return out


def run_vdriver_parallel(lines, jobs=16):
    if len(lines) < 400:
        return run_vdriver(lines)
    from concurrent.futures import ThreadPoolExecutor
    n = (len(lines) + jobs - 1) // jobs
    chunks = [lines[i:i + n] for i in range(0, len(lines), n)]
    with ThreadPoolExecutor(len(chunks)) as ex:
        outs = list(ex.map(run_vdriver, chunks))
    return [x for o in outs for x in o]


def tok_callinfo(uva, uvk, ha, hk, nargs, names, res):
    """res: 'X' unresolvable | 'E' no signature | (desc, partial)"""
    out = ['1' if uva else '0', '1' if uvk else '0', '1' if ha else '0', '1' if hk else '0',
           str(nargs), str(len(names))] + [str(n) for n in names]
    if res in ('X', 'E'):
        out.append(res)
    else:
        d, partial = res
        out += ['R', '1' if partial else '0', tok_sig(d)]
    return ' '.join(out)


def discover_request(own, plain, have_ast, infos):
    return 'discover %s %s %s %d %s' % (tok_sig(own), tok_sig(plain), '1' if have_ast else '0',
                                       len(infos), ' '.join(infos))


def parse_sig_line(line):
    toks = line.split()
    if toks and toks[0] == 'S':
        return parse_sig_tokens(toks)
    raise RuntimeError('vdriver: ' + line[:200])
