"""Entry point of every check:  ./check <Cxx> [--quick|--thorough] [--replay file]

Verdict protocol (DESIGN.md section 2.2):
 1. proof obligations: the Coq development is built, Props/<id>.v is recompiled,
    its Print Assumptions output and a grep for escape hatches are checked;
 2. correspondence model <-> /repo working tree + direct decision of the
    property on the implementation's outputs (property module);
 3. known findings are replayed and printed, everything else is a violation.
"""
import fcntl
import hashlib
import importlib
import json
import os
import re
import shutil
import subprocess
import sys
import tempfile
import time

HERE = os.path.dirname(os.path.abspath(__file__))
VERIF = os.path.dirname(HERE)
COQ = os.path.join(VERIF, 'coq')
OCAML = os.path.join(VERIF, 'ocaml')
sys.path.insert(0, HERE)

ALLOWED_AXIOMS = {
    # axioms of the standard library that some theorem may depend on; each is
    # named in DESIGN.md section 8 when it is actually used
}

FORBIDDEN = re.compile(
    r'\b(Admitted|admit|Axiom|Axioms|Parameter|Parameters|Conjecture|Conjectures|'
    r'bypass_check|Admit Obligations)\b|Unset\s+Guard|Unset\s+Positivity|'
    r'Unset\s+Universe|type-in-type|impredicative-set')


class Report(object):
    def __init__(self, pid):
        self.pid = pid
        self.evaluations = 0
        self.distinct = set()
        self.rule = ''
        self.samples = []
        self.violations = []     # dicts: key, what, replay (data)
        self.viol_counts = {}
        self.corr_breaks = []    # dicts: relation, input, model, impl
        self.coverage = {}
        self.assumptions = []
        self.exhaustive = False
        self.traces = 0

    def sample(self, x, limit=6):
        if len(self.samples) < limit:
            self.samples.append(x)

    def violation(self, key, what, replay):
        self.viol_counts[key] = self.viol_counts.get(key, 0) + 1
        if self.viol_counts[key] <= 5:
            self.violations.append({'key': key, 'what': what, 'replay': replay})

    def corr_break(self, relation, inp, model, impl):
        if len(self.corr_breaks) < 50:
            self.corr_breaks.append({'relation': relation, 'input': inp,
                                     'model': model, 'impl': impl})


class Ctx(object):
    def __init__(self, pid, tier, seed):
        self.pid = pid
        self.tier = tier
        self.seed = seed
        self.quick = tier == 'quick'

    def rng(self, tag):
        import random
        return random.Random('%s/%s/%s' % (self.seed, self.pid, tag))


# ---------------------------------------------------------------- build
def _run(cmd, cwd=None, timeout=3000):
    return subprocess.run(cmd, cwd=cwd, stdout=subprocess.PIPE, stderr=subprocess.STDOUT,
                          timeout=timeout)


def ensure_built(verbose=False):
    """make the Coq development (no-op when up to date), extract, build the driver."""
    lock = open(os.path.join(VERIF, '.build.lock'), 'w')
    fcntl.flock(lock, fcntl.LOCK_EX)
    try:
        mk, proj = os.path.join(COQ, 'Makefile'), os.path.join(COQ, '_CoqProject')
        if not os.path.exists(mk) or os.path.getmtime(mk) < os.path.getmtime(proj):
            r = _run(['coq_makefile', '-f', '_CoqProject', '-o', 'Makefile'], cwd=COQ)
            if r.returncode != 0:
                return False, r.stdout.decode()
        r = _run(['timeout', '2400', 'make', '-j16'], cwd=COQ)
        if r.returncode != 0:
            return False, r.stdout.decode()[-4000:]
        for drv_name, mod_name in (('driver', 'model'), ('vdriver', 'vmodel')):
            drv = os.path.join(OCAML, drv_name)
            srcs = [os.path.join(OCAML, f) for f in (mod_name + '.ml', mod_name + '.mli', drv_name + '.ml')]
            if not all(os.path.exists(s) for s in srcs):
                return False, 'missing extracted sources for ' + drv_name
            if (not os.path.exists(drv)
                    or any(os.path.getmtime(s) > os.path.getmtime(drv) for s in srcs)):
                r = _run(['ocamlfind', 'ocamlopt', '-O3', '-w', '-a', mod_name + '.mli', mod_name + '.ml',
                          drv_name + '.ml', '-o', drv_name], cwd=OCAML, timeout=600)
                if r.returncode != 0:
                    return False, r.stdout.decode()[-4000:]
        return True, ''
    finally:
        fcntl.flock(lock, fcntl.LOCK_UN)
        lock.close()


def grep_escape_hatches():
    """No Admitted / Axiom / Parameter / ... anywhere; Variable / Hypothesis only
    inside sections."""
    bad = []
    # the development = the files of _CoqProject (what `make` builds) + the property files;
    # a .v file that is in neither is not part of any theorem's dependencies
    listed = set()
    for line in open(os.path.join(COQ, '_CoqProject')):
        line = line.strip()
        if line.endswith('.v'):
            listed.add(os.path.normpath(os.path.join(COQ, line)))
    for root, _, files in os.walk(os.path.join(COQ, 'theories')):
        for f in files:
            if not f.endswith('.v'):
                continue
            path = os.path.join(root, f)
            if os.path.normpath(path) not in listed and os.path.basename(root) != 'Props':
                continue
            depth = 0
            text = open(path).read()
            # strip comments (non-nested is enough for this development)
            text_nc = re.sub(r'\(\*.*?\*\)', lambda m: '\n' * m.group(0).count('\n'), text, flags=re.S)
            for i, line in enumerate(text_nc.split('\n'), 1):
                if re.match(r'\s*Section\b', line):
                    depth += 1
                if re.match(r'\s*End\b', line) and depth > 0:
                    depth -= 1
                if FORBIDDEN.search(line):
                    bad.append('%s:%d: %s' % (os.path.relpath(path, VERIF), i, line.strip()))
                if depth == 0 and re.match(r'\s*(Variable|Variables|Hypothesis|Hypotheses|Context)\b', line):
                    bad.append('%s:%d: %s (outside a section)' % (os.path.relpath(path, VERIF), i, line.strip()))
    return bad


def check_obligations(pid, extra_q=()):
    """Recompile Props/<pid>.v; return dict(obligations, discharged, axioms, theorems, errors)."""
    src = os.path.join(COQ, 'theories', 'Props', pid + '.v')
    res = {'obligations': 0, 'discharged': 0, 'axioms': [], 'theorems': [], 'errors': []}
    if not os.path.exists(src):
        res['errors'].append('no Props/%s.v' % pid)
        return res
    text = open(src).read()
    text_nc = re.sub(r'\(\*.*?\*\)', '', text, flags=re.S)
    thms = re.findall(r'^\s*(?:Theorem|Lemma|Corollary|Example)\s+(\w+)', text_nc, flags=re.M)
    prints = re.findall(r'^\s*Print Assumptions\s+(\w+)\s*\.', text_nc, flags=re.M)
    res['theorems'] = thms
    res['obligations'] = len(thms)
    missing = [t for t in thms if t not in prints]
    if missing:
        res['errors'].append('no Print Assumptions for: ' + ' '.join(missing))
    tmp = tempfile.mkdtemp(prefix='verif-props-')
    try:
        cmd = ['timeout', '900', 'coqc', '-Q', os.path.join(COQ, 'theories'), 'Sigtools']
        for d, n in extra_q:
            cmd += ['-Q', d, n]
        cmd += ['-o', os.path.join(tmp, pid + '.vo'), src]
        r = _run(cmd, cwd=COQ, timeout=1000)
        out = r.stdout.decode()
        if r.returncode != 0:
            res['errors'].append('coqc failed: ' + out[-1500:])
            return res
        # Print Assumptions blocks, in order
        blocks = re.split(r'(?m)^(?=Closed under the global context|Axioms:)', out)
        blocks = [bl for bl in blocks if bl.startswith('Closed under') or bl.startswith('Axioms:')]
        if len(blocks) != len(prints):
            res['errors'].append('expected %d Print Assumptions answers, got %d' % (len(prints), len(blocks)))
        for name, bl in zip(prints, blocks):
            if bl.startswith('Closed under'):
                res['discharged'] += 1
            else:
                axs = re.findall(r'(?m)^([A-Za-z_][\w.\']*)\s*:', bl)
                res['axioms'].extend('%s <- %s' % (a, name) for a in axs)
                if all(a in ALLOWED_AXIOMS for a in axs):
                    res['discharged'] += 1
                else:
                    res['errors'].append('%s depends on axioms %s' % (name, axs))
    finally:
        shutil.rmtree(tmp, ignore_errors=True)
    return res


# ---------------------------------------------------------------- known findings
def load_known():
    p = os.path.join(VERIF, 'known_findings.json')
    if not os.path.exists(p):
        return []
    return json.load(open(p)).get('findings', [])


# ---------------------------------------------------------------- evidence
TRUSTED_BASE = [
    'Coq 8.16.1 kernel and coqc; vm_compute (reflective bounded theorems and refutation witnesses); no native_compute',
    'Extraction with ExtrOcamlBasic only (Extract Inductive bool/option/unit/list/prod/sumbool/sumor; inlined andb/orb/negb/fst/snd); numbers stay extracted inductives',
    'OCaml 4.13.1 and ocaml/driver.ml, ocaml/vdriver.ml (tokenisers, number conversion, canonical printing); Extract/ExtractVis.v for the discovery model',
    'harness/coqrun.py: model terms evaluated inside Coq with vm_compute from a generated cases file (C11 C12 C13 C14 C17 C18 C20)',
    'harness/translate_ir.py: fail-closed ast -> IR translator whose output Props/C16.v is stated about (C16)',
    'Python harness: encoders inspect<->line protocol, generators, canonicalisation (harness/*.py)',
    'CPython 3.12.1 as the definition of argument binding (the binding model is compared against real calls on every run)',
    'hand-written Gallina model of sigtools (coq/theories/Model/*.v) tied to /repo by the correspondence run of this check',
]


def write_evidence(pid, tier, seed, level, rep, obl, wall, n_viol, checker_cmd):
    cov = {
        'evaluations': int(rep.evaluations),
        'distinct_nontrivial': int(len(rep.distinct)) if isinstance(rep.distinct, (set, dict, list)) else int(rep.distinct),
        'rule': rep.rule,
        'samples': rep.samples[:8] or ['(none)'],
        'obligations': int(obl['obligations']),
        'discharged': int(obl['discharged']),
        'checker_cmd': checker_cmd,
        'trusted_base': TRUSTED_BASE + ['axioms reported by Print Assumptions: '
                                        + (', '.join(obl['axioms']) if obl['axioms'] else 'none (Closed under the global context)')],
        'theorems': obl['theorems'],
        'obligation_errors': obl['errors'],
        'disagreements_checked': int(rep.evaluations),
        'correspondence_breaks': len(rep.corr_breaks),
        'traces_validated_against_impl': int(rep.traces or rep.evaluations),
        'exhaustive': bool(rep.exhaustive),
    }
    cov.update(rep.coverage)
    ev = {
        'property_id': pid, 'tier': tier, 'seed': int(seed), 'level': level,
        'coverage': cov, 'assumptions': rep.assumptions, 'wall_s': round(wall, 2),
        'violations': int(n_viol),
    }
    # a run against another tree (seeded change in a scratch worktree) must not
    # overwrite the evidence of the tree under /repo
    evdir = 'evidence' if os.environ.get('SIGTOOLS_REPO', '/repo') == '/repo' else os.path.join('replays', 'evidence-other-tree')
    os.makedirs(os.path.join(VERIF, evdir), exist_ok=True)
    path = os.path.join(VERIF, evdir, pid + '.json')
    tmp = path + '.tmp%d' % os.getpid()
    with open(tmp, 'w') as f:
        json.dump(ev, f, indent=1, sort_keys=True, default=str)
    os.replace(tmp, path)


def write_replay(pid, data):
    os.makedirs(os.path.join(VERIF, 'replays'), exist_ok=True)
    blob = json.dumps(data, sort_keys=True, default=str)
    h = hashlib.sha1(blob.encode()).hexdigest()[:10]
    path = os.path.join(VERIF, 'replays', '%s-%s.json' % (pid, h))
    with open(path, 'w') as f:
        json.dump(data, f, indent=1, sort_keys=True, default=str)
    return path


def main(argv):
    if not argv:
        print('usage: check <Cxx> [--quick|--thorough] [--replay file]')
        return 2
    pid = argv[0]
    tier = os.environ.get('VERIF_TIER') or 'quick'
    replay = None
    i = 1
    while i < len(argv):
        if argv[i] == '--quick':
            tier = os.environ.get('VERIF_TIER') or 'quick'
        elif argv[i] == '--thorough':
            tier = os.environ.get('VERIF_TIER') or 'thorough'
        elif argv[i] == '--replay':
            replay = argv[i + 1]
            i += 1
        i += 1
    if tier not in ('quick', 'thorough'):
        tier = 'quick'
    seed = int(os.environ.get('VERIF_SEED', '0') or 0)
    t0 = time.time()

    ok, msg = ensure_built()
    mod = importlib.import_module('props.' + pid.lower())
    ctx = Ctx(pid, tier, seed)

    if replay:
        if not ok:
            print('build failed:\n' + msg)
            return 2
        data = json.load(open(replay))
        again = mod.replay(ctx, data)
        if again:
            print('VIOLATION property=%s replay=%s' % (pid, replay))
            print(again)
            return 1
        print('replay: the recorded input no longer violates %s' % pid)
        return 0

    level = getattr(mod, 'LEVEL', 'proof')
    obl = {'obligations': 0, 'discharged': 0, 'axioms': [], 'theorems': [], 'errors': []}
    broken = []
    if not ok:
        obl['errors'].append('build failed: ' + msg[-1500:])
    else:
        hatches = grep_escape_hatches()
        if hatches:
            obl['errors'].append('escape hatches: ' + '; '.join(hatches[:5]))
    rep = Report(pid)
    if ok:
        extra_q = ()
        if hasattr(mod, 'pre_obligations'):
            # property modules with a regenerated model build it here
            extra_q, gen_errors = mod.pre_obligations(ctx, rep)
            obl['errors'].extend(gen_errors)
        o2 = check_obligations(pid, extra_q)
        o2['errors'] = obl['errors'] + o2['errors']
        obl = o2
        try:
            mod.run(ctx, rep)
            import algebra
            if getattr(mod, 'PURITY_IS_VIOLATION', False):
                for pb in algebra.PURITY_BREAKS:
                    rep.violation('%s:input-mutated' % pid, '%s: %s' % (pb['case'], pb['what']),
                                  dict(pb['data'], kind='purity'))
                for pb in algebra.ALIAS_BREAKS:
                    rep.violation('%s:aliased:%s' % (pid, pb['data'].get('op')), '%s: %s' % (pb['case'], pb['what']),
                                  dict(pb['data'], kind='purity'))
                del algebra.PURITY_BREAKS[:]
                del algebra.ALIAS_BREAKS[:]
            else:
                algebra.report_purity(rep)
        except Exception:  # noqa: BLE001
            # the comparison itself could not be carried out on this tree (the implementation
            # raised somewhere the harness has no expectation for): the correspondence is broken
            import traceback
            tb = traceback.format_exc()
            broken.append({'relation': 'correspondence-run-aborted', 'detail': tb[-1800:]})
        finally:
            if hasattr(mod, 'cleanup'):
                mod.cleanup(ctx)
    if obl['errors'] or obl['discharged'] != obl['obligations'] or obl['obligations'] == 0:
        broken.append({'relation': 'proof-obligations', 'detail': obl['errors'] or ['obligations not all discharged']})

    # known findings: replay each listed witness, print, and filter
    known = [k for k in load_known() if k.get('property') == pid and k.get('status') == 'known']
    known_keys = set()
    for k in known:
        still = True
        if hasattr(mod, 'replay_known'):
            still = mod.replay_known(ctx, k)
        if still:
            print('KNOWN-FINDING: property=%s %s' % (pid, k['what']))
            known_keys.add(k['key'])
        else:
            print('note: listed finding %s no longer reproduces' % k['key'])
    new_viol = [v for v in rep.violations if v['key'] not in known_keys]

    wall = time.time() - t0
    checker_cmd = 'make -C coq && coqc -Q coq/theories Sigtools coq/theories/Props/%s.v  (Print Assumptions parsed; grep for Admitted/Axiom/...)' % pid
    code = 0
    if new_viol:
        v = new_viol[0]
        path = write_replay(pid, {'property': pid, 'kind': 'failing-input', 'key': v['key'],
                                  'what': v['what'], 'replay': v['replay'],
                                  'others': [x['what'] for x in new_viol[1:10]]})
        print('VIOLATION property=%s replay=%s' % (pid, path))
        print('  ' + v['what'])
        code = 1
    elif rep.corr_breaks or broken:
        data = {'property': pid, 'kind': 'no-failing-input-found',
                'broken': broken,
                'correspondence': rep.corr_breaks[:10]}
        path = write_replay(pid, data)
        print('VIOLATION property=%s replay=%s no-failing-input-found' % (pid, path))
        for bk in broken:
            print('  broken: %s %s' % (bk['relation'], str(bk['detail'])[:600]))
        for cb in rep.corr_breaks[:3]:
            print('  correspondence %s: input=%s model=%s impl=%s' % (
                cb['relation'], str(cb['input'])[:300], str(cb['model'])[:300], str(cb['impl'])[:300]))
        code = 1
    write_evidence(pid, tier, seed, level, rep, obl, wall, len(new_viol), checker_cmd)
    if code == 0:
        print('OK property=%s tier=%s evaluations=%d distinct_nontrivial=%d obligations=%d/%d wall=%.1fs' % (
            pid, tier, rep.evaluations, len(rep.distinct) if hasattr(rep.distinct, '__len__') else rep.distinct,
            obl['discharged'], obl['obligations'], wall))
    return code


if __name__ == '__main__':
    sys.exit(main(sys.argv[1:]))
