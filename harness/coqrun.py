"""Evaluating model terms inside Coq (vm_compute) for the correspondence checks
that do not go through the extracted OCaml driver.

The harness writes a cases file: it imports the model, defines the case list
(the same inputs the implementation ran on, together with the implementation's
canonicalised answers) and asks Coq for the *indices of the cases on which the
model's answer differs* (plus whatever small summaries the caller wants), so
that Coq's wrapped pretty-printing only ever has to carry short lists of
numbers.
"""
import os
import re
import shutil
import subprocess
import tempfile

VERIF = os.path.dirname(os.path.dirname(os.path.abspath(__file__)))
THEORIES = os.path.join(VERIF, 'coq', 'theories')


class CoqError(RuntimeError):
    pass


def coq_eval(preamble, terms, timeout=600, extra_q=(), name='cases'):
    """preamble: Coq source text (Require Imports, Definitions).
    terms: list of Coq terms; each is evaluated with `Eval vm_compute in`.
    Returns the list of answers as strings with whitespace normalised
    (the text between '=' and the final ': type')."""
    tmp = tempfile.mkdtemp(prefix='verif-coq-')
    try:
        src = os.path.join(tmp, name + '.v')
        with open(src, 'w') as f:
            f.write(preamble)
            f.write('\n')
            for i, t in enumerate(terms):
                f.write('Definition verif_case_%d := %s.\n' % (i, t))
                f.write('Eval vm_compute in verif_case_%d.\n' % i)
        cmd = ['timeout', str(timeout), 'coqc', '-Q', THEORIES, 'Sigtools']
        for d, n in extra_q:
            cmd += ['-Q', d, n]
        cmd += [src]
        pr = subprocess.run(cmd, cwd=tmp, stdout=subprocess.PIPE, stderr=subprocess.STDOUT)
        out = pr.stdout.decode()
        if pr.returncode != 0:
            raise CoqError('coqc failed (%d): %s' % (pr.returncode, out[-2000:]))
        # answers: blocks starting with "     = " and ending with "     : type"
        blocks = re.split(r'(?m)^\s*=\s', out)[1:]
        answers = []
        for bl in blocks:
            # cut at the last "\n     : " (the type annotation)
            m = list(re.finditer(r'\n\s*:\s', bl))
            body = bl[:m[-1].start()] if m else bl
            answers.append(' '.join(body.split()))
        if len(answers) != len(terms):
            raise CoqError('expected %d answers, got %d: %s' % (len(terms), len(answers), out[-1500:]))
        return answers
    finally:
        shutil.rmtree(tmp, ignore_errors=True)


def parse_nat_list(ans):
    """'[1; 2; 3]' or '[1%nat; ...]' or '[]' -> [1, 2, 3]"""
    ans = ans.strip()
    if ans in ('[]', 'nil'):
        return []
    inner = ans.strip('[]')
    out = []
    for tok in inner.split(';'):
        tok = tok.strip()
        tok = re.sub(r'%\w+$', '', tok)
        if tok:
            out.append(int(tok))
    return out


def parse_bool(ans):
    return ans.strip() == 'true'


def coq_list(items):
    return '[' + '; '.join(items) + ']'


def coq_N(i):
    return '%d%%N' % i


def coq_nat(i):
    return '%d%%nat' % i


def coq_bool(x):
    return 'true' if x else 'false'


def coq_option(x, f=str):
    return 'None' if x is None else '(Some %s)' % f(x)


def compile_file(path, timeout=600, extra_q=()):
    """coqc one file of the development in place (used for regenerated files)."""
    cmd = ['timeout', str(timeout), 'coqc', '-Q', THEORIES, 'Sigtools']
    for d, n in extra_q:
        cmd += ['-Q', d, n]
    cmd += [path]
    pr = subprocess.run(cmd, cwd=os.path.join(VERIF, 'coq'), stdout=subprocess.PIPE,
                        stderr=subprocess.STDOUT)
    return pr.returncode == 0, pr.stdout.decode()
