"""Evaluation of one generated forwarding program against /repo: what sigtools
reports, what the explicit declaration gives (public algebra, ground truth of
the generator), what the model's discovery gives, and real execution."""
import functools
import inspect
import itertools
import types
import warnings

import sigtools
from sigtools import signatures as PS, _signatures as S, _autoforwards as AF, _util

import core
from core import describe_sig, name_of, id_of_name, show_sig, tok_sig
import discovery as D
import programs as PG


def fn_key(f):
    """stable, identity-free name of a callable appearing in provenance"""
    if isinstance(f, types.MethodType):
        return 'bound:' + fn_key(f.__func__)
    if isinstance(f, functools.partial):
        return 'partial:' + fn_key(f.func)
    return getattr(f, '__qualname__', None) or type(f).__name__


def canon(sig):
    """(parameters, provenance) with callables named, not identified"""
    def dflt(v):
        # identity-free: a callable default is named, not shown with its address
        return 'fn:' + fn_key(v) if callable(v) else repr(v)
    ps = tuple((p.name, p.kind.name, ('E' if p.default is p.empty else dflt(p.default)))
               for p in sig.parameters.values())
    src = getattr(sig, 'sources', None) or {}
    prov = tuple(sorted((k, tuple(fn_key(f) for f in v)) for k, v in src.items() if k != '+depths'))
    deps = tuple(sorted((fn_key(f), d) for f, d in src.get('+depths', {}).items()))
    return ps, prov, deps


def canon_params(sig):
    return canon(sig)[0]


def get_sig(obj):
    try:
        with warnings.catch_warnings():
            warnings.simplefilter('ignore')
            return ('ok', sigtools.signature(obj))
    except Exception as e:  # noqa: BLE001
        return ('err', type(e).__name__ + ': ' + str(e)[:200])


class Evaluated(object):
    pass


def wrapper_function(p, ns):
    """the function object whose source is analysed, the object whose signature
    is asked for, and how the discovered signature is post-processed"""
    w = ns['wrapper']
    if p.route == 'method':
        return ns['K'].__dict__['wrapper'], w
    if p.route in ('parameter', 'param_default'):
        return ns['wrapper_'], w
    if p.route == 'modifiers':
        f = w
        while hasattr(f, 'func') and not hasattr(f, '__code__'):
            f = f.func
        return f, w
    return w, w


def own_function(p, fn):
    """the function whose def gives the wrapper's OWN parameters: for a wrapper under
    functools.wraps / update_wrapper, a bare twin sharing its code, defaults, globals and closure
    (without the copied __dict__ and the __wrapped__ link, which are not part of the def)"""
    if p.route != 'wraps_sig':
        return fn
    twin = types.FunctionType(fn.__code__, fn.__globals__, fn.__name__, fn.__defaults__, fn.__closure__)
    twin.__kwdefaults__ = fn.__kwdefaults__
    twin.__qualname__ = fn.__qualname__
    return twin


def callee_object(p, ns, key):
    if p.route == 'method':
        return getattr(ns['inst'], key)
    if p.route == 'closure_stack' and key == list(p.callees)[0]:
        return ns['stk_']       # the inner application of the shared pass-through
    return ns[key]


def expected_declared(p, ns):
    """C06 ground truth: forwards() for each written forwarding call, merged
    (in any order), post-processed as the route requires; ValueError -> plain."""
    fn, obj = wrapper_function(p, ns)
    plain = PS.signature(obj)
    own = PS.signature(own_function(p, fn))
    if p.route == 'modifiers':
        own = plain          # the rewritten signature advertised by the modifiers object
    has_va = p.va_name is not None
    has_vk = p.vk_name is not None
    sigs = []
    try:
        for c in p.calls:
            uva, uvk, ha, hk = c.flags(has_va, has_vk)
            if not (uva or uvk):
                continue
            if getattr(c, 'unresolvable', False):
                return [plain], plain       # the callee cannot be resolved statically
            cs = sigtools.signature(callee_object(p, ns, c.callee))
            try:
                cs.bind_partial(*([0] * c.n), **{name_of(k): 0 for k in c.names})
            except TypeError:
                # the written call cannot succeed at all: 'incompatible callee'
                # (for the stacked pass-through the generator could not foresee the inner
                # application's discovered signature: such programs are outside the generated domain)
                if p.route in ('chain_kw', 'chain_pos', 'chain_pick') or (
                        p.route == 'closure_stack' and c.callee == list(p.callees)[0]):
                    return None, plain      # which level falls back is not specified
                return [plain], plain
            n, names = c.n, [name_of(k) for k in c.names]
            if p.route in ('chain_kw', 'chain_pos', 'chain_pick'):
                # two-level chain: the wrapper calls mid(..., callee, ...) which
                # forwards both stars to the callee it received; declared
                # equivalent of mid given that argument
                mid = ns['mid_' + p.route]
                cs = PS.forwards(PS.signature(mid), cs, 0)
                if p.route == 'chain_kw':
                    names = names + ['fparam']
                elif p.route == 'chain_pick':
                    n = n + 3       # a run-time-only value, the callee, a second known callable
                else:
                    n = n + 1
            sigs.append(PS.forwards(own, cs, n, *names,
                                    use_varargs=uva, use_varkwargs=uvk,
                                    hide_args=ha, hide_kwargs=hk, partial=c.partial))
            continue
            sigs.append(PS.forwards(own, cs, c.n, *[name_of(k) for k in c.names],
                                    use_varargs=uva, use_varkwargs=uvk,
                                    hide_args=ha, hide_kwargs=hk, partial=c.partial))
    except ValueError:
        return [plain], plain
    if not sigs:
        return [plain], plain
    outs = []
    for perm in itertools.permutations(sigs):
        try:
            m = PS.merge(*perm)
        except ValueError:
            outs.append(plain)
            continue
        try:
            if p.route == 'method':
                m = PS.mask(m, 1)
            elif p.route == 'parameter':
                m = S._mask(m, 1, False, False, False, False, {}, obj)
        except ValueError:
            m = plain
        outs.append(m)
    return outs, plain


# ---------------------------------------------------------------- marker resolution (harness side)
def resolve_marker(text, intern, fn, bound_args):
    """Resolve a canonical marker string against real objects the way
    forward_signatures does (globals, closure cells, bound arguments, getattr).
    Returns (True, object) or (False, None)."""
    def parse(s):
        if s.startswith('N'):
            name = intern.name(int(s[1:]))
            code = fn.__code__
            if name in code.co_freevars:
                try:
                    return True, fn.__closure__[code.co_freevars.index(name)].cell_contents
                except ValueError:
                    return False, None
            if name in fn.__globals__:
                return True, fn.__globals__[name]
            return False, None
        if s.startswith('G'):
            name = intern.name(int(s[1:]))
            if name in bound_args:
                return True, bound_args[name]
            return False, None
        if s.startswith('A('):
            inner, _, attr = s[2:-1].rpartition('.')
            ok, o = parse(inner)
            if not ok:
                return False, None
            name = intern.name(int(attr))
            try:
                return True, getattr(o, name)
            except AttributeError:
                return False, None
        return False, None
    return parse(text)


def model_discover(p, ns):
    """Run the model's discovery on the wrapper: the visitor (model and
    implementation compared), resolution by the harness, forward_signatures /
    merge / fallback by the extracted model.  Returns dict with the visitor
    answers and the model's final description (or None when not applicable)."""
    fn, obj = wrapper_function(p, ns)
    out = {'visitor_model': None, 'visitor_impl': None, 'final': None}
    if p.route == 'modifiers':
        return out           # analysed through the hint protocol: oracle comparison only
    tree = _util.get_ast(fn)
    if tree is None:
        return out
    req, intern = D.visit_request(tree)
    vm = D.run_vdriver([req])[0]
    vi = D.impl_calls(tree, intern)
    out['visitor_model'], out['visitor_impl'] = vm, vi
    if not vm.startswith('CALLS'):
        return out
    bound = {}
    if p.route == 'method':
        bound = {'self': ns['inst']}
    elif p.route == 'parameter':
        bound = {'fparam': ns[list(p.callees)[0]]}
    elif p.route == 'param_default':
        bound = {'first_': 0}
    own = describe_sig(PS.signature(own_function(p, fn)))
    plain_sig = PS.signature(obj)
    infos = []
    memo = {}
    body = vm[len('CALLS '):]
    for item in (body.split(';') if body else []):
        wrapped, args, kwargs, va, vk, flags = item.split('|')
        uva, uvk, ha, hk = [ch == '1' for ch in flags]
        nargs = len([a for a in args.split(',') if a])
        names = [id_of_name(intern.name(int(kv.split('=')[0]))) for kv in kwargs.split(',') if kv]
        res = 'X'
        if uva or uvk:
            ok, o = resolve_marker(wrapped, intern, fn, bound)
            if ok:
                def rn(text):
                    ok_, o_ = resolve_marker(text, intern, fn, bound)
                    return o_ if ok_ else AF.Unknown(text)
                # bound methods are created afresh by every getattr but compare
                # (and hash) equal: keep one representative per marker
                if isinstance(o, types.MethodType):
                    o = memo.setdefault(wrapped, o)
                argvals = [rn(a) for a in args.split(',') if a]
                if va != '-':
                    argvals.extend(rn(va))
                kwvals = dict((intern.name(int(kv.split('=')[0])), rn(kv.split('=', 1)[1]))
                              for kv in kwargs.split(',') if kv)
                if vk != '-':
                    kwvals.update(rn(vk))
                partial = (o == functools.partial)
                if partial and not argvals:
                    res = 'E'
                else:
                    if partial:
                        o = argvals.pop(0)
                    # the callee's own signature is computed by sigtools itself
                    # (recursively, with the known arguments): outside the model
                    try:
                        with warnings.catch_warnings():
                            warnings.simplefilter('ignore')
                            cs = sigtools.signature(o, args=argvals, kwargs=kwvals)
                        res = (describe_sig(cs), partial)
                    except (ValueError, TypeError):
                        res = 'E'
        infos.append(D.tok_callinfo(uva, uvk, ha, hk, nargs, names, res))
    # the model returns the discovered signature of fn; post-processing for
    # bound methods / partial objects is applied through the algebra by the caller
    line = D.run_vdriver(['autoforwards %s 1 %d %s' % (tok_sig(own), len(infos), ' '.join(infos))])[0]
    out['final_raw'] = line
    return out


# ---------------------------------------------------------------- execution
def shapes_for_exec(sig, extra_names):
    """call shapes (npos, kw names) to try on a wrapper with signature sig"""
    ps = list(sig.parameters.values())
    npos = len([p for p in ps if p.kind in (p.POSITIONAL_ONLY, p.POSITIONAL_OR_KEYWORD)])
    names = [p.name for p in ps if p.kind in (p.POSITIONAL_OR_KEYWORD, p.KEYWORD_ONLY)]
    names = names + [n for n in extra_names if n not in names]
    out = []
    for n in range(0, npos + 2):
        for r in range(0, len(names) + 1):
            for ks in itertools.combinations(names, r):
                out.append((n, ks))
    return out


def binds(sig, shape):
    n, ks = shape
    try:
        sig.bind(*([0] * n), **{k: 0 for k in ks})
    except TypeError:
        return False
    return True


def noncolliding(sig, shape, all_input_names):
    """every keyword is a keyword-passable parameter of the result or is not a
    parameter name of any input"""
    n, ks = shape
    kwable = {p.name for p in sig.parameters.values()
              if p.kind in (p.POSITIONAL_OR_KEYWORD, p.KEYWORD_ONLY)}
    return all(k in kwable or k not in all_input_names for k in ks)


def execute(ns, obj, shape):
    """really call; returns None if fine, the TypeError message otherwise"""
    n, ks = shape
    try:
        obj(*([0] * n), **{k: 0 for k in ks})
    except TypeError as e:
        return str(e)
    return None


def own_choices(p):
    """choices for the program's own (non-forwarded) star arguments: the
    'angelic' reading of hidden arguments"""
    need_va = any(c.own_va for c in p.calls)
    need_vk = any(c.own_vk for c in p.calls)
    vas = [()]
    vks = [{}]
    if need_va:
        vas = [(), (0,), (0, 0)]
    if need_vk:
        names = sorted({name_of(q[0]) for ps in p.callees.values() for q in ps
                        if q[1] in ('PK', 'KO')})
        vks = [dict.fromkeys(c, 0) for r in range(len(names) + 1)
               for c in itertools.combinations(names, r)]
    return vas, vks
