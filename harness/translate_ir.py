"""Fail-closed translator: Python source of the retrieval skeletons -> IR terms (Coq text).

(T-gen) of DESIGN.md section 2.1.  The bodies of

  sigtools/_autoforwards.py : cleanup_functools_wrapper.{__init__,__enter__,__exit__},
                              autoforwards_function
  sigtools/specifiers.py    : _AsForged.{__init__,__get__}

are re-read from the working tree of SIGTOOLS_REPO on every run and turned into
terms of the IR of coq/theories/Model/IR.v.  Every `ast` node outside the
supported subset raises TranslatorError; the check reports that as a broken tie
between model and code (never silently skipped).

What is deliberately NOT supported (each raises): loops with else/break/continue,
while, bare except, `except ... as`, `with ... as`, several with-items,
starred / keyword-splat arguments, non-empty dict/set literals, augmented
assignment, calls to anything that is not (a) getattr/setattr/delattr/set,
(b) a translated class, (c) `.add/.discard` on an attribute-held set,
(d) `.items()` as a for-iterable, (e) a whitelisted opaque callee.
The whitelist is the list of callees the model treats as "outside": the proof
quantifies over their outcome (return a true value / None / raise) and assumes
only that they do not touch the inspected object's attributes; a call to
anything else could do anything to the object, so it is refused.
"""
import ast
import os


class TranslatorError(Exception):
    pass


# well-known symbols defined in Model/IR.v
KNOWN_ATTRS = {'__wrapped__': 'A_wrapped', '__signature__': 'A_signature',
               'currently_computing': 'A_currently_computing'}
KNOWN_ATTR_IDS = {'__wrapped__': 1, '__signature__': 2, 'currently_computing': 3}
KNOWN_EXC = {'AttributeError': 'X_AttributeError', 'NotImplementedError': 'X_NotImplementedError',
             'UnknownForwards': 'X_UnknownForwards', 'TypeError': 'X_TypeError',
             'BaseException': 'X_BaseException', 'Exception': 'X_Exception', 'KeyError': 'X_KeyError'}
KNOWN_EXC_IDS = {'AttributeError': 1, 'NotImplementedError': 3, 'UnknownForwards': 4, 'TypeError': 5}
KNOWN_CLASSES = {'cleanup_functools_wrapper': 'C_cleanup', '_AsForged': 'C_asforged'}
KNOWN_METHODS = {'__init__': 'M_init', '__enter__': 'M_enter', '__exit__': 'M_exit', '__get__': 'M_get'}

# callees treated as leaving the translated code, per module
EXTERNAL = {
    '_autoforwards': ('_signatures.signature', 'any_params_star', '_util.get_ast', 'autoforwards_ast'),
    'specifiers': ('signature',),
}

TARGETS = {
    '_autoforwards': {'classes': {'cleanup_functools_wrapper': ('__init__', '__enter__', '__exit__')},
                      'functions': ('autoforwards_function',)},
    'specifiers': {'classes': {'_AsForged': ('__init__', '__get__')}, 'functions': ()},
}


def _dotted(node):
    if isinstance(node, ast.Name):
        return node.id
    if isinstance(node, ast.Attribute):
        base = _dotted(node.value)
        if base is None:
            return None
        return base + '.' + node.attr
    return None


class Interner(object):
    def __init__(self):
        self.tables = {}       # kind -> {name: id}
        self.next = 100

    def get(self, kind, name):
        t = self.tables.setdefault(kind, {})
        if name not in t:
            t[name] = self.next
            self.next += 1
        return t[name]


class FunctionTranslator(object):
    def __init__(self, tr, module, fn, classes):
        self.tr = tr
        self.module = module
        self.fn = fn
        self.classes = classes           # translated class names of this module
        self.locals = set()
        self.ext_sites = []              # external callee names in syntactic order
        self.self_name = None            # first parameter, when fn is a method of a translated class
        self.handler_depth = 0
        self.opaque_from = None

    def err(self, node, why):
        raise TranslatorError('%s.%s line %s: unsupported %s: %s' % (
            self.module, self.fn.name, getattr(node, 'lineno', '?'), type(node).__name__, why))

    # ---- names
    def attr(self, name):
        if name in KNOWN_ATTRS:
            return KNOWN_ATTRS[name]
        return str(self.tr.intern.get('attr', name))

    def local(self, name):
        return str(self.tr.intern.get('local', name))

    def exc_class(self, node):
        d = _dotted(node)
        if d is None:
            self.err(node, 'exception class expression')
        last = d.split('.')[-1]
        if last in KNOWN_EXC:
            return KNOWN_EXC[last]
        return str(self.tr.intern.get('exc', last))

    # ---- parameters
    def params(self):
        a = self.fn.args
        if a.kwonlyargs or a.kwarg or a.defaults or a.kw_defaults or a.posonlyargs:
            self.err(self.fn, 'parameter list (only plain positionals and *rest)')
        names = [x.arg for x in a.args]
        if a.vararg is not None:
            names.append(a.vararg.arg)
        for n in names:
            self.locals.add(n)
        return [self.local(n) for n in names]

    def collect_locals(self, body):
        for node in ast.walk(ast.Module(body=body, type_ignores=[])):
            if isinstance(node, ast.Name) and isinstance(node.ctx, ast.Store):
                self.locals.add(node.id)
            if isinstance(node, (ast.FunctionDef, ast.Lambda, ast.ClassDef, ast.AsyncFunctionDef,
                                 ast.Global, ast.Nonlocal, ast.ListComp, ast.DictComp, ast.SetComp,
                                 ast.GeneratorExp, ast.NamedExpr, ast.Yield, ast.YieldFrom, ast.Await)):
                self.err(node, 'nested scope / generator / walrus')

    # ---- expressions
    def expr(self, e):
        if isinstance(e, ast.Constant):
            if e.value is None:
                return '(EConst (VS VNone))'
            if e.value is True or e.value is False:
                return '(EConst (VS (VBool %s)))' % ('true' if e.value else 'false')
            if isinstance(e.value, str):
                return '(EConst (VS (VStr %s)))' % self.attr(e.value)
            self.err(e, 'constant %r' % (e.value,))
        if isinstance(e, ast.Name):
            if not isinstance(e.ctx, ast.Load):
                self.err(e, 'name context')
            if e.id not in self.locals:
                self.err(e, 'global name %r used as a value' % e.id)
            return '(EVar %s)' % self.local(e.id)
        if isinstance(e, ast.Attribute):
            if not isinstance(e.ctx, ast.Load):
                self.err(e, 'attribute context')
            return '(EAttr %s %s)' % (self.expr(e.value), self.attr(e.attr))
        if isinstance(e, ast.Dict):
            if e.keys or e.values:
                self.err(e, 'non-empty dict literal')
            return 'ENewDict'
        if isinstance(e, ast.UnaryOp) and isinstance(e.op, ast.Not):
            return '(ENot %s)' % self.expr(e.operand)
        if isinstance(e, ast.IfExp):
            return '(EIfExp %s %s %s)' % (self.expr(e.test), self.expr(e.body), self.expr(e.orelse))
        if isinstance(e, ast.Compare):
            if len(e.ops) != 1:
                self.err(e, 'chained comparison')
            op, rhs = e.ops[0], e.comparators[0]
            if isinstance(op, ast.In):
                return '(EIn %s %s)' % (self.expr(e.left), self.expr(rhs))
            if isinstance(op, ast.NotIn):
                return '(ENot (EIn %s %s))' % (self.expr(e.left), self.expr(rhs))
            if isinstance(op, (ast.Is, ast.IsNot)) and isinstance(rhs, ast.Constant) and rhs.value is None:
                t = '(EIsNone %s)' % self.expr(e.left)
                return t if isinstance(op, ast.Is) else '(ENot %s)' % t
            self.err(e, 'comparison operator')
        if isinstance(e, ast.Subscript):
            # vars(x)[k]: the attribute as stored in x's own __dict__
            v = e.value
            if (isinstance(e.ctx, ast.Load) and isinstance(v, ast.Call) and _dotted(v.func) == 'vars'
                    and len(v.args) == 1 and not v.keywords and not isinstance(v.args[0], ast.Starred)):
                return '(EVarsItem %s %s)' % (self.expr(v.args[0]), self.expr(e.slice))
            self.err(e, 'subscript other than vars(x)[k]')
        if isinstance(e, ast.Call):
            return self.call(e)
        self.err(e, 'expression')

    def args(self, call, allow_kw):
        out = []
        for a in call.args:
            if isinstance(a, ast.Starred):
                self.err(a, 'starred argument')
            out.append(self.expr(a))
        for k in call.keywords:
            if k.arg is None or not allow_kw:
                self.err(call, 'keyword argument')
            out.append(self.expr(k.value))
        return out

    def call(self, e):
        f = e.func
        d = _dotted(f)
        if isinstance(f, ast.Name) and f.id in self.locals:
            self.err(e, 'call of a local value')
        if d == 'getattr':
            if len(e.args) != 2 or e.keywords:
                self.err(e, 'getattr with a default')
            return '(EGetAttr %s %s)' % (self.expr(e.args[0]), self.expr(e.args[1]))
        if d == 'set':
            if e.args or e.keywords:
                self.err(e, 'set(...) with arguments')
            return 'ENewSet'
        if d in self.classes:
            return '(ENew %s [%s])' % (KNOWN_CLASSES[d], '; '.join(self.args(e, False)))
        if (isinstance(f, ast.Attribute) and isinstance(f.value, ast.Name) and self.self_name is not None
                and f.value.id == self.self_name and f.attr in KNOWN_METHODS):
            # self.<translated method>(...): runs the translated body in a fresh frame
            return '(ECallMethod %s %s [%s])' % (self.expr(f.value), KNOWN_METHODS[f.attr],
                                                 '; '.join(self.args(e, False)))
        if d in EXTERNAL.get(self.module, ()):
            self.ext_sites.append(d)
            return '(ECallExt %d [%s])' % (self.tr.intern.get('ext', self.module + ':' + d),
                                          '; '.join(self.args(e, True)))
        self.err(e, 'call of %r (not a translated class, not a whitelisted outside callee)' % (d,))

    # ---- statements
    def block(self, stmts):
        out = [s for s in (self.stmt(x) for x in stmts) if s is not None]
        if not out:
            return 'SSkip'
        t = out[-1]
        for s in reversed(out[:-1]):
            t = '(SSeq %s %s)' % (s, t)
        return t

    def stmt(self, s):
        if isinstance(s, ast.Pass):
            return 'SSkip'
        if isinstance(s, ast.Expr):
            v = s.value
            if isinstance(v, ast.Constant) and isinstance(v.value, str):
                return None      # docstring
            if isinstance(v, ast.Call):
                d = _dotted(v.func)
                if d == 'delattr':
                    if len(v.args) != 2 or v.keywords:
                        self.err(v, 'delattr arity')
                    return '(SDelAttrDyn %s %s)' % (self.expr(v.args[0]), self.expr(v.args[1]))
                if d == 'setattr':
                    if len(v.args) != 3 or v.keywords:
                        self.err(v, 'setattr arity')
                    return '(SSetAttrDyn %s %s %s)' % tuple(self.expr(a) for a in v.args)
                if (isinstance(v.func, ast.Attribute) and v.func.attr in ('add', 'discard')
                        and isinstance(v.func.value, ast.Attribute)):
                    if len(v.args) != 1 or v.keywords:
                        self.err(v, 'set method arity')
                    if not isinstance(v.args[0], ast.Name):
                        self.err(v, 'set method argument must be a local')
                    holder = v.func.value
                    return '(%s %s %s %s)' % ('SSetAdd' if v.func.attr == 'add' else 'SSetDiscard',
                                              self.expr(holder.value), self.attr(holder.attr),
                                              self.expr(v.args[0]))
            return '(SExpr %s)' % self.expr(v)
        if isinstance(s, ast.Assign):
            if len(s.targets) != 1:
                self.err(s, 'multiple assignment targets')
            t = s.targets[0]
            if isinstance(t, ast.Name):
                return '(SAssign %s %s)' % (self.local(t.id), self.expr(s.value))
            if isinstance(t, ast.Attribute):
                return '(SSetAttr %s %s %s)' % (self.expr(t.value), self.attr(t.attr), self.expr(s.value))
            if isinstance(t, ast.Subscript) and isinstance(t.value, ast.Attribute):
                return '(SSetItem %s %s %s %s)' % (self.expr(t.value.value), self.attr(t.value.attr),
                                                   self.expr(t.slice), self.expr(s.value))
            self.err(s, 'assignment target')
        if isinstance(s, ast.If):
            return '(SIf %s %s %s)' % (self.expr(s.test), self.block(s.body), self.block(s.orelse))
        if isinstance(s, ast.For):
            if s.orelse:
                self.err(s, 'for/else')
            for n in ast.walk(ast.Module(body=s.body, type_ignores=[])):
                if isinstance(n, (ast.Break, ast.Continue)):
                    self.err(n, 'break/continue')
            if isinstance(s.target, ast.Name):
                return '(SFor %s %s %s)' % (self.local(s.target.id), self.expr(s.iter), self.block(s.body))
            if (isinstance(s.target, ast.Tuple) and len(s.target.elts) == 2
                    and all(isinstance(x, ast.Name) for x in s.target.elts)
                    and isinstance(s.iter, ast.Call) and isinstance(s.iter.func, ast.Attribute)
                    and s.iter.func.attr == 'items' and not s.iter.args and not s.iter.keywords):
                return '(SForItems %s %s %s %s)' % (self.local(s.target.elts[0].id),
                                                    self.local(s.target.elts[1].id),
                                                    self.expr(s.iter.func.value), self.block(s.body))
            self.err(s, 'for target / iterable')
        if isinstance(s, ast.Try):
            hs = []
            for h in s.handlers:
                if h.type is None:
                    self.err(h, 'bare except')
                if h.name is not None:
                    self.err(h, 'except ... as name')
                types = h.type.elts if isinstance(h.type, ast.Tuple) else [h.type]
                classes = '; '.join(self.exc_class(t) for t in types)
                self.handler_depth += 1
                try:
                    hbody = self.block(h.body)
                finally:
                    self.handler_depth -= 1
                hs.append('([%s], %s)' % (classes, hbody))
            body = self.block(s.body)
            return '(STry %s [%s] %s %s)' % (body, '; '.join(hs),
                                             self.block(s.orelse), self.block(s.finalbody))
        if isinstance(s, ast.With):
            if len(s.items) != 1 or s.items[0].optional_vars is not None:
                self.err(s, 'with: several items / as-target')
            return '(SWith %s %s)' % (self.expr(s.items[0].context_expr), self.block(s.body))
        if isinstance(s, ast.Raise):
            if s.cause is not None:
                self.err(s, 'raise from')
            if s.exc is None:
                if self.handler_depth == 0:
                    self.err(s, 'bare raise outside an except block')
                return 'SReraise'
            ex = s.exc
            if isinstance(ex, ast.Call):
                if not all(isinstance(a, ast.Constant) for a in ex.args) or ex.keywords:
                    self.err(s, 'exception constructor arguments')
                ex = ex.func
            return '(SRaise %s)' % self.exc_class(ex)
        if isinstance(s, ast.Return):
            if s.value is None:
                return '(SReturn (EConst (VS VNone)))'
            return '(SReturn %s)' % self.expr(s.value)
        self.err(s, 'statement')

    # ---- opaque tail (module-level functions only, see translate())
    def tail_is_safe(self, stmts, subject):
        """The statements never touch the inspected object `subject` except by
        passing it to a whitelisted outside callee or to id(); they contain no
        attribute primitive and no nested scope/with.  Such a tail cannot change
        the object's attributes; its control-flow effect (return a value or
        raise) is over-approximated by one oracle-decided step."""
        allowed = set()
        for node in ast.walk(ast.Module(body=stmts, type_ignores=[])):
            if isinstance(node, ast.Call):
                d = _dotted(node.func)
                if d == 'id' or d in EXTERNAL.get(self.module, ()):
                    for a in node.args:
                        if isinstance(a, ast.Name) and a.id == subject:
                            allowed.add(id(a))
        for node in ast.walk(ast.Module(body=stmts, type_ignores=[])):
            if isinstance(node, ast.Name):
                if node.id == subject and id(node) not in allowed:
                    return 'uses %r at line %d' % (subject, node.lineno)
                if node.id in ('setattr', 'delattr', 'getattr', 'vars', 'object', 'globals', 'locals',
                               'eval', 'exec', 'cleanup_functools_wrapper'):
                    return 'uses %s at line %d' % (node.id, node.lineno)
            if isinstance(node, (ast.With, ast.FunctionDef, ast.Lambda, ast.ClassDef, ast.AsyncFunctionDef,
                                 ast.Global, ast.Nonlocal, ast.Delete, ast.Starred, ast.Yield, ast.YieldFrom,
                                 ast.Await, ast.Import, ast.ImportFrom)):
                return '%s at line %d' % (type(node).__name__, node.lineno)
        return None

    def translate(self, opaque_tail=False):
        ps = self.params()
        if not opaque_tail:
            self.collect_locals(self.fn.body)
            return ps, self.block(self.fn.body)
        # translate a prefix precisely; the first statement AFTER the `with`
        # that is outside the subset starts the opaque tail
        body = self.fn.body
        out = []
        seen_with = False
        self.opaque_from = None
        for i, st in enumerate(body):
            saved_sites = list(self.ext_sites)
            try:
                self.collect_locals([st])
                t = self.stmt(st)
            except TranslatorError as e:
                if not seen_with:
                    raise
                why = self.tail_is_safe(body[i:], self.fn.args.args[0].arg)
                if why is not None:
                    raise TranslatorError('%s; and the rest of the function cannot be abstracted: %s' % (e, why))
                self.ext_sites = saved_sites + ['<opaque tail from line %d>' % st.lineno]
                self.opaque_from = st.lineno
                out.append('(SReturn (ECallExt %d []))' % self.tr.intern.get('ext', self.module + ':<tail>'))
                break
            if isinstance(st, ast.With):
                seen_with = True
            if t is not None:
                out.append(t)
        if not out:
            return ps, 'SSkip'
        t = out[-1]
        for x in reversed(out[:-1]):
            t = '(SSeq %s %s)' % (x, t)
        return ps, t


class Translation(object):
    def __init__(self):
        self.intern = Interner()
        self.methods = []        # (class symbol, method symbol, def name, params, body, source name)
        self.cattrs = {}         # class symbol -> [(attr, value text)]
        self.ext_sites = {}      # def name -> [callee names]
        self.opaque_tails = []   # function tails abstracted as one oracle step
        self.sources = []

    def module(self, modname, path):
        src = open(path).read()
        self.sources.append(path)
        try:
            tree = ast.parse(src)
        except SyntaxError as e:
            raise TranslatorError('cannot parse %s: %s' % (path, e))
        spec = TARGETS[modname]
        found_c, found_f = set(), set()
        classes = set(spec['classes'])
        for node in tree.body:
            if isinstance(node, ast.ClassDef) and node.name in spec['classes']:
                if node.name in found_c:
                    raise TranslatorError('%s: class %s defined twice' % (modname, node.name))
                found_c.add(node.name)
                self.klass(modname, node, spec['classes'][node.name], classes)
            elif isinstance(node, ast.FunctionDef) and node.name in spec['functions']:
                if node.name in found_f:
                    raise TranslatorError('%s: function %s defined twice' % (modname, node.name))
                found_f.add(node.name)
                if node.decorator_list:
                    raise TranslatorError('%s.%s: decorated' % (modname, node.name))
                ft = FunctionTranslator(self, modname, node, classes)
                ps, body = ft.translate(opaque_tail=True)
                if ft.opaque_from is not None:
                    self.opaque_tails.append('%s.%s from line %d' % (modname, node.name, ft.opaque_from))
                self.methods.append(('C_module', 'F_' + node.name, 'f_' + node.name, ps, body,
                                     '%s.%s' % (modname, node.name)))
                self.ext_sites[node.name] = ft.ext_sites
        missing = (set(spec['classes']) - found_c) | (set(spec['functions']) - found_f)
        if missing:
            raise TranslatorError('%s: not found at module level: %s' % (modname, sorted(missing)))

    def klass(self, modname, node, wanted, classes):
        if node.decorator_list or node.keywords:
            raise TranslatorError('%s.%s: decorated class / metaclass' % (modname, node.name))
        bases = [_dotted(b) for b in node.bases]
        if bases not in ([], ['object']):
            raise TranslatorError('%s.%s: base classes %s' % (modname, node.name, bases))
        csym = KNOWN_CLASSES[node.name]
        seen = set()
        for item in node.body:
            if isinstance(item, ast.Expr) and isinstance(item.value, ast.Constant) and isinstance(item.value.value, str):
                continue
            if isinstance(item, ast.Assign):
                # class-level constant: NAME = [str, ...]
                if (len(item.targets) == 1 and isinstance(item.targets[0], ast.Name)
                        and isinstance(item.value, (ast.List, ast.Tuple))
                        and all(isinstance(x, ast.Constant) and isinstance(x.value, str) for x in item.value.elts)):
                    a = item.targets[0].id
                    asym = KNOWN_ATTRS.get(a) or str(self.intern.get('attr', a))
                    elts = '; '.join('VStr %s' % (KNOWN_ATTRS.get(x.value) or str(self.intern.get('attr', x.value)))
                                     for x in item.value.elts)
                    self.cattrs.setdefault(csym, []).append((asym, 'VList [%s]' % elts))
                    continue
                raise TranslatorError('%s.%s line %d: unsupported class-level assignment' % (modname, node.name, item.lineno))
            if isinstance(item, ast.FunctionDef):
                if item.name in seen:
                    raise TranslatorError('%s.%s.%s defined twice' % (modname, node.name, item.name))
                seen.add(item.name)
                if item.name not in KNOWN_METHODS:
                    raise TranslatorError('%s.%s: unexpected method %s' % (modname, node.name, item.name))
                if item.decorator_list:
                    raise TranslatorError('%s.%s.%s: decorated' % (modname, node.name, item.name))
                ft = FunctionTranslator(self, modname, item, classes)
                if item.args.args:
                    ft.self_name = item.args.args[0].arg
                ps, body = ft.translate()
                self.methods.append((csym, KNOWN_METHODS[item.name],
                                     'm_%s_%s' % (node.name.strip('_'), item.name.strip('_')), ps, body,
                                     '%s.%s.%s' % (modname, node.name, item.name)))
                self.ext_sites['%s.%s' % (node.name, item.name)] = ft.ext_sites
                continue
            raise TranslatorError('%s.%s line %d: unsupported class body statement %s' % (
                modname, node.name, item.lineno, type(item).__name__))
        missing = set(wanted) - seen
        # __init__ may be absent (object.__init__); the others are required
        if missing - {'__init__'}:
            raise TranslatorError('%s.%s: methods not found: %s' % (modname, node.name, sorted(missing)))

    def coq_text(self):
        out = ['(* GENERATED on every run by harness/translate_ir.py -- do not edit.',
               '   sources: %s' % ', '.join(self.sources), '   interned names:']
        for kind, t in sorted(self.intern.tables.items()):
            out.append('     %s: %s' % (kind, ', '.join('%s=%d' % (k.replace('*)', '* )'), v) for k, v in sorted(t.items(), key=lambda kv: kv[1]))))
        out.append('*)')
        out.append('From Coq Require Import List NArith.')
        out.append('Import ListNotations.')
        out.append('From Sigtools Require Import Model.IR.')
        out.append('Local Open Scope N_scope.')
        out.append('')
        for csym, msym, dname, ps, body, src in self.methods:
            out.append('(* %s *)' % src)
            out.append('Definition %s : list N * stmt :=\n  ([%s],\n   %s).' % (dname, '; '.join(ps), body))
            out.append('')
        ms = ';\n     '.join('((%s, %s), %s)' % (c, m, d) for c, m, d, _, _, _ in self.methods)
        cs = ';\n     '.join('(%s, [%s])' % (c, '; '.join('(%s, %s)' % av for av in avs))
                             for c, avs in sorted(self.cattrs.items()))
        out.append('Definition prog : program :=\n  {| methods :=\n    [%s];\n     cattrs :=\n    [%s] |}.' % (ms, cs))
        out.append('')
        return '\n'.join(out)


def translate_repo(repo):
    """-> (coq text, Translation).  Raises TranslatorError."""
    tr = Translation()
    tr.module('_autoforwards', os.path.join(repo, 'sigtools', '_autoforwards.py'))
    tr.module('specifiers', os.path.join(repo, 'sigtools', 'specifiers.py'))
    return tr.coq_text(), tr


if __name__ == '__main__':
    import sys
    text, tr = translate_repo(sys.argv[1] if len(sys.argv) > 1 else os.environ.get('SIGTOOLS_REPO', '/repo'))
    sys.stdout.write(text)
