"""Generator of the forwarding-program grammar of C05 / C06 with its ground truth.

A program is a module source defining a callee (or several), helper objects and
one `wrapper`; the generator knows which calls in the wrapper's body forward
which star parameter to which callee with which literal arguments — the ground
truth the checks compare sigtools' discovery against (never derived from the
AST walker).

Everything random derives from the rng handed in.
"""
import itertools
import linecache
import textwrap

from core import name_of, id_of_name, mk_param, universe, random_sig

_COUNTER = [0]


def load_module(source, tag='prog'):
    """exec the source as a module whose source inspect.getsource can find."""
    _COUNTER[0] += 1
    filename = '<verif-%s-%d>' % (tag, _COUNTER[0])
    lines = source.splitlines(True)
    linecache.cache[filename] = (len(source), None, lines, filename)
    ns = {'__name__': 'verif_prog_%d' % _COUNTER[0], '__file__': filename}
    code = compile(source, filename, 'exec')
    exec(code, ns)
    return ns


def unload(ns):
    linecache.cache.pop(ns.get('__file__'), None)


def param_list_src(ps, with_defaults=True):
    parts = []
    prev = None
    for (nm, k, de, an, ua) in ps:
        if prev == 'PO' and k != 'PO':
            parts.append('/')
        if k == 'KO' and prev not in ('VP', 'KO'):
            parts.append('*')
        s = {'VP': '*', 'VK': '**'}.get(k, '') + name_of(nm)
        if de is not None and with_defaults:
            s += '=%s' % ('None' if de == 0 else de)
        parts.append(s)
        prev = k
    if prev == 'PO':
        parts.append('/')
    return ', '.join(parts)


class Call(object):
    """One call written in the wrapper body."""
    def __init__(self, callee, n, names, va, vk, own_va=False, own_vk=False, partial=False):
        self.callee = callee        # key into prog.callees
        self.n = n                  # literal positional arguments
        self.names = list(names)    # keyword argument names (name ids)
        self.va = va                # passes the wrapper's *args
        self.vk = vk                # passes the wrapper's **kwargs
        self.own_va = own_va        # passes *OWN_ARGS (some other star value)
        self.own_vk = own_vk        # passes **OWN_KWARGS
        self.partial = partial      # written as functools.partial(callee, ...)
        self.nested = False         # sits in a nested def / lambda
        self.unresolvable = False   # callee reached through a subscripted registry
        self.inline = False         # an argument expression of this very call mutates **kwargs
        self.tail = 0               # how many of the n literal positionals are written AFTER the star argument

    def expr(self, callee_expr, va_name, vk_name, chain=None):
        args = [str(100 + i) for i in range(self.n)]
        if self.inline and args:
            # evaluated before **kwargs is unpacked: the callee no longer gets the pristine mapping
            args[0] = "%s.pop('zz_', 100)" % vk_name
        tail = min(self.tail, len(args)) if (self.va or self.own_va) else 0
        args, after = args[:len(args) - tail], args[len(args) - tail:]
        if chain == 'chain_pos':
            args.insert(0, self.callee)
        if chain == 'chain_pick':
            # a dispatcher called with a run-time-only value BEFORE two known callables: it calls the first
            args[0:0] = ['len(OWN_ARGS)', self.callee, 'pick_other_']
        if self.va:
            args.append('*' + va_name)
        if self.own_va:
            args.append('*OWN_ARGS')
        # literal positionals written after the star argument (legal since Python 3.5)
        args += after
        kwvals = ['%d' % (200 + i) for i in range(len(self.names))]
        if self.inline and not self.n and kwvals:
            kwvals[0] = "%s.setdefault('zz_', 200) and %s.pop('zz_')" % (vk_name, vk_name)
        args += ['%s=%s' % (name_of(k), v) for k, v in zip(self.names, kwvals)]
        if chain == 'chain_kw':
            args.append('fparam=' + self.callee)
        if self.vk:
            args.append('**' + vk_name)
        if self.own_vk:
            args.append('**OWN_KWARGS')
        if self.partial:
            return 'functools.partial(%s)' % ', '.join([callee_expr] + args)
        return '%s(%s)' % (callee_expr, ', '.join(args))

    # ground truth of the declaration equivalent to this call
    def flags(self, outer_has_va, outer_has_vk):
        uva = self.va and outer_has_va and not self.own_va
        uvk = self.vk and outer_has_vk and not self.own_vk
        # a star argument that is not (only) the wrapper's own star hides the
        # callee's corresponding parameters
        ha = (self.own_va or self.va) and not uva
        hk = (self.own_vk or self.vk) and not uvk
        return uva, uvk, ha, hk

    def describe(self):
        return {'callee': self.callee, 'n': self.n, 'names': [name_of(k) for k in self.names],
                'va': self.va, 'vk': self.vk, 'own_va': self.own_va, 'own_vk': self.own_vk,
                'partial': self.partial, 'nested': self.nested, 'unresolvable': self.unresolvable,
                'inline': self.inline, 'tail': self.tail}


CONTEXTS = ['return', 'assign', 'if', 'try', 'with', 'comprehension', 'nested_def',
            'lambda', 'decoy_before', 'decoy_wrap', 'ifelse2', 'nested_decoy', 'lambda_decoy']
ROUTES = ['global', 'closure', 'attribute', 'method', 'parameter', 'partial_route', 'chain_kw', 'chain_pos',
          'modifiers', 'param_default']
WRAPS_KINDS = ['stored', 'stored', 'annotate', 'upgraded', 'stored_update', 'plain']
TAINTS = ['rebind', 'augassign', 'mutate_method', 'mutate_item', 'delete', 'pass_on',
          'nonlocal', 'read', 'inline']


class Prog(object):
    def __init__(self):
        self.outer = None           # parameter tuples of the wrapper (without self)
        self.callees = {}           # key -> parameter tuples
        self.calls = []             # Call objects, in source order
        self.context = 'return'
        self.route = 'global'
        self.taint = None           # (kind, star 'args'|'kwargs', 'before'|'after') or None
        self.decoys = 0
        self.rename_locals = False
        self.nosource = False       # callees defined through exec: no retrievable source
        self.falsy_inst = False     # method route: the instance's truth value is False (an empty container)
        self.wraps_kind = None      # wraps_sig route: how the wrapped callee came to carry a stored __signature__
        self.source = None

    @property
    def va_name(self):
        for p in self.outer:
            if p[1] == 'VP':
                return name_of(p[0])
        return None

    @property
    def vk_name(self):
        for p in self.outer:
            if p[1] == 'VK':
                return name_of(p[0])
        return None

    def describe(self):
        return {'outer': '(%s)' % param_list_src(self.outer),
                'callees': {k: '(%s)' % param_list_src(v) for k, v in self.callees.items()},
                'calls': [c.describe() for c in self.calls], 'context': self.context,
                'route': self.route, 'taint': self.taint, 'decoys': self.decoys, 'nosource': self.nosource,
                'falsy_inst': self.falsy_inst, 'wraps_kind': self.wraps_kind}

    # ------------------------------------------------------------ rendering
    def callee_expr(self, key):
        if self.route == 'global':
            return key
        if self.route in ('closure', 'closure_stack'):
            return 'c_' + key
        if self.route == 'attribute':
            return 'ns.sub.' + key
        if self.route == 'method':
            return 'self.' + key
        if self.route in ('parameter', 'param_default'):
            return 'fparam'
        if self.route in ('chain_kw', 'chain_pos', 'chain_pick'):
            return 'mid_' + self.route
        return key

    def taint_stmt(self, kind, star):
        name = self.va_name if star == 'args' else self.vk_name
        if kind == 'rebind':
            return ['%s = %s(%s)' % (name, 'tuple' if star == 'args' else 'dict', name)]
        if kind == 'augassign':
            return ['%s += ()' % name] if star == 'args' else ['%s |= {}' % name]
        if kind == 'mutate_method':
            return ['%s.count(0)' % name] if star == 'args' else ["%s.pop('zz_', None)" % name]
        if kind == 'mutate_item':
            return ['decoy(%s[0:0])' % name] if star == 'args' else ["%s['zz_'] = %s.pop('zz_', 0)" % (name, name), "del %s['zz_']" % name]
        if kind == 'delete':
            return ['del %s' % name]
        if kind == 'pass_on':
            return ['decoy(%s)' % name]
        if kind == 'read':
            return ['loc_ = %s' % name]
        if kind == 'inline':
            return []        # the taint sits inside the forwarding call's own argument list
        if kind == 'nonlocal':
            return ['def rebinder_():', '    nonlocal %s' % name,
                    '    %s = %s' % (name, '()' if star == 'args' else '{}'), 'decoy(rebinder_)']
        raise ValueError(kind)

    def render(self):
        body = []
        reg = lambda c: c.unresolvable and self.route != 'param_default' and self.context != 'lambda_kwshadow'
        exprs = [c.expr("REG['%s']" % c.callee if reg(c) else self.callee_expr(c.callee),
                        self.va_name, self.vk_name, None if reg(c) else self.route) for c in self.calls]
        for i in range(self.decoys):
            body.append('decoy(%d, k=%d)' % (i, i))
        taint_before = taint_after = []
        if self.taint:
            kind, star, where = self.taint
            st = [] if where == 'comp_iter' else self.taint_stmt(kind, star)
            if where == 'before':
                taint_before = st
            elif where == 'comp_iter':
                pass                 # rendered inside the comprehension, see below
            else:
                taint_after = st
        body += taint_before
        e = exprs[0]
        ctx = self.context
        res = 'res_' if not self.rename_locals else 'zq'
        if ctx == 'return' and not taint_after:
            body.append('return ' + e)
        elif ctx in ('assign', 'return'):
            body.append('%s = %s' % (res, e))
            body += taint_after
            taint_after = []
            body.append('return ' + res)
        elif ctx == 'if':
            body += ['if OWN_FLAG:', '    %s = %s' % (res, e), 'else:', '    %s = None' % res]
            body += taint_after
            taint_after = []
            body.append('return ' + res)
        elif ctx == 'ifelse2':
            e2 = exprs[1] if len(exprs) > 1 else e
            body += ['if OWN_FLAG:', '    %s = %s' % (res, e), 'else:', '    %s = %s' % (res, e2)]
            body += taint_after
            taint_after = []
            body.append('return ' + res)
        elif ctx == 'try':
            body += ['try:', '    %s = %s' % (res, e), 'finally:', '    decoy()']
            body += taint_after
            taint_after = []
            body.append('return ' + res)
        elif ctx == 'with':
            body += ['with contextlib.nullcontext():', '    %s = %s' % (res, e)]
            body += taint_after
            taint_after = []
            body.append('return ' + res)
        elif ctx == 'comprehension' and self.taint and self.taint[2] == 'comp_iter':
            # the taint sits in the comprehension's iterable (or is its loop target): it runs before
            # the element expression, although the element comes first in the ast's field order
            kind, star, _ = self.taint
            name = self.va_name if star == 'args' else self.vk_name
            if kind == 'mutate_method':
                it = '[%s.count(0)]' % name if star == 'args' else "[%s.pop('zz_', None)]" % name
                body.append('%s = [%s for it_ in %s][0]' % (res, e, it))
            elif kind == 'pass_on':
                body.append('%s = [%s for it_ in [decoy(%s)]][0]' % (res, e, name))
            elif kind == 'rebind':
                # (an assignment expression is not allowed in the iterable: in the condition)
                body.append('%s = [%s for it_ in range(1) if (%s := %s(%s)) is not None][0]' % (
                    res, e, name, 'tuple' if star == 'args' else 'dict', name))
            elif kind == 'shadow':
                body.append('%s = [%s for %s in [%s]][0]' % (res, e, name, '()' if star == 'args' else '{}'))
            else:
                raise ValueError(kind)
            body.append('return ' + res)
        elif ctx == 'comprehension':
            body.append('%s = [%s for it_ in range(1)][0]' % (res, e))
            body += taint_after
            taint_after = []
            body.append('return ' + res)
        elif ctx == 'nested_def':
            body += ['def inner_():', '    return ' + e, '%s = inner_()' % res]
            body += taint_after
            taint_after = []
            body.append('return ' + res)
        elif ctx == 'nested_decoy':
            body += ['def inner_():', '    return decoy(%s)' % e, '%s = inner_()' % res]
            body += taint_after
            taint_after = []
            body.append('return ' + res)
        elif ctx == 'lambda_decoy':
            body.append('%s = (lambda: decoy(0, k=%s))()' % (res, e))
            body += taint_after
            taint_after = []
            body.append('return ' + res)
        elif ctx == 'lambda_kwshadow':
            # a keyword-only parameter of the lambda, spelled like the wrapper's own (known) parameter,
            # is what the call really uses: the callee cannot be resolved statically
            body.append('%s = (lambda *, fparam=other_: %s)()' % (res, e))
            body += taint_after
            taint_after = []
            body.append('return ' + res)
        elif ctx == 'lambda':
            body.append('%s = (lambda: %s)()' % (res, e))
            body += taint_after
            taint_after = []
            body.append('return ' + res)
        elif ctx == 'decoy_before':
            body += ['decoy(1, 2, x=3)', '%s = %s' % (res, e)]
            body += taint_after
            taint_after = []
            body.append('return ' + res)
        elif ctx == 'decoy_wrap':
            body.append('%s = decoy(%s)' % (res, e))
            body += taint_after
            taint_after = []
            body.append('return ' + res)
        else:
            raise ValueError(ctx)
        if ctx != 'ifelse2':
            # further calls, each as its own statement before the final return
            extra = ['decoy(%s)' % x for x in exprs[1:]]
            body = body[:-1] + extra + body[-1:]
        for c in self.calls:
            c.nested = False
        if ctx in ('nested_def', 'lambda', 'nested_decoy', 'lambda_decoy', 'lambda_kwshadow'):
            self.calls[0].nested = True

        outer_src = param_list_src(self.outer)
        lines = ['import functools, contextlib', 'OWN_ARGS = ()', 'OWN_KWARGS = {}', 'OWN_FLAG = True',
                 'def decoy(*a_, **k_):', '    return None', 'def other_():', '    return None']
        cal_defs = []
        for key, ps in self.callees.items():
            if self.route == 'method':
                sig = param_list_src([mk_param(id_of_name('self'), 'PK')] + list(ps))
            else:
                sig = param_list_src(ps)
            cal_defs.append(('def %s(%s):' % (key, sig), '    return None'))
        if self.route == 'method':
            lines.append('class K(object):')
            if self.falsy_inst:
                lines += ['    def __len__(self):', '        return 0']
            for d in cal_defs:
                lines += ['    ' + d[0], '    ' + d[1]]
            sig = ', '.join(x for x in ['self', outer_src] if x)
            lines.append('    def wrapper(%s):' % sig)
            lines += ['        ' + b for b in body]
            lines.append('inst = K()')
            lines.append('wrapper = inst.wrapper')
        else:
            for d in cal_defs:
                if self.nosource:
                    lines.append('exec(%r)' % (d[0] + '\n' + d[1] + '\n'))
                else:
                    lines += [d[0], d[1]]
            lines.append('REG = {%s}' % ', '.join("'%s': %s" % (k, k) for k in self.callees))
            lines += ['def mid_chain_kw(*args, fparam, **kwargs):', '    return fparam(*args, **kwargs)',
                      'def mid_chain_pos(fparam, *args, **kwargs):', '    return fparam(*args, **kwargs)']
            if self.route == 'chain_pick':
                lines += ['def pick_other_(p1_, p2_=1, *, p3_=2):', '    return None',
                          'def mid_chain_pick(flag_, fparam, second_, *args, **kwargs):', '    return fparam(*args, **kwargs)']
            if self.route == 'attribute':
                lines += ['class NS(object):', '    pass', 'ns = NS()', 'ns.sub = NS()']
                for key in self.callees:
                    lines.append('ns.sub.%s = %s' % (key, key))
            if self.route in ('closure', 'closure_stack'):
                keys = list(self.callees)
                for k in keys:
                    # a module global of the same name as the closure variable, bound to
                    # something else: the closure cell is what Python calls
                    lines += ['def c_%s(q1, q2=1, *, q3):' % k, '    return None']
                lines.append('def make_(%s):' % ', '.join('c_' + k for k in keys))
                lines.append('    def wrapper(%s):' % outer_src)
                lines += ['        ' + b for b in body]
                lines.append('    return wrapper')
                if self.route == 'closure_stack':
                    # the same pass-through applied twice: two function objects that share ONE code
                    # object, the outer forwarding to the inner, the inner to the callee
                    lines.append('stk_ = make_(%s)' % ', '.join(keys))
                    lines.append('wrapper = make_(%s)' % ', '.join(['stk_'] + keys[1:]))
                else:
                    lines.append('wrapper = make_(%s)' % ', '.join(keys))
            elif self.route == 'parameter':
                sig = ', '.join(x for x in ['fparam', outer_src] if x)
                lines.append('def wrapper_(%s):' % sig)
                lines += ['    ' + b for b in body]
                lines.append('wrapper = functools.partial(wrapper_, %s)' % list(self.callees)[0])
            elif self.route == 'param_default':
                # the callee is a parameter that merely HAS a default: the analysis runs with a
                # known argument (functools.partial binds first_) that does not cover it, so the
                # callee cannot be resolved statically (the caller may still pass another one)
                pre = [q for q in self.outer if q[1] != 'VK']
                parts = ['first_']
                if pre:
                    parts.append(param_list_src(pre))
                if not any(q[1] in ('VP', 'KO') for q in pre):
                    parts.append('*')
                parts.append('fparam=%s' % list(self.callees)[0])
                if self.vk_name:
                    parts.append('**' + self.vk_name)
                lines.append('def wrapper_(%s):' % ', '.join(parts))
                lines += ['    ' + b for b in body]
                lines.append('wrapper = functools.partial(wrapper_, 0)')
            elif self.route == 'wraps_sig':
                # a decorator that only wraps: functools.wraps(callee) / update_wrapper copy the callee's
                # __dict__ -- including a __signature__ stored there -- and set __wrapped__; what is
                # analysed is still the wrapper's own def
                first = self.calls[0].callee
                lines.insert(1, 'import inspect')
                for k in self.callees:
                    if self.wraps_kind in ('stored', 'stored_update'):
                        lines.append('%s.__signature__ = inspect.signature(%s)' % (k, k))
                    elif self.wraps_kind == 'annotate':
                        lines += ['from sigtools import modifiers', '%s = modifiers.annotate(int)(%s)' % (k, k)]
                    elif self.wraps_kind == 'upgraded':
                        lines += ['from sigtools import signatures as sigs_', '%s.__signature__ = sigs_.signature(%s)' % (k, k)]
                if self.wraps_kind == 'stored_update':
                    lines.append('def wrapper(%s):' % outer_src)
                    lines += ['    ' + b for b in body]
                    lines.append('wrapper = functools.update_wrapper(wrapper, %s)' % first)
                else:
                    lines.append('@functools.wraps(%s)' % first)
                    lines.append('def wrapper(%s):' % outer_src)
                    lines += ['    ' + b for b in body]
            elif self.route == 'modifiers':
                # two stacked modifiers: the analysis goes through the autoforwards hint
                named = [name_of(q[0]) for q in self.outer if q[1] == 'PK']
                lines.append('from sigtools import modifiers')
                lines.append("@modifiers.kwoargs('%s')" % named[-1])
                lines.append("@modifiers.posoargs('%s')" % named[0])
                lines.append('def wrapper(%s):' % outer_src)
                lines += ['    ' + b for b in body]
            else:
                lines.append('def wrapper(%s):' % outer_src)
                lines += ['    ' + b for b in body]
        self.source = '\n'.join(lines) + '\n'
        return self.source


def literal_part_binds(cps, n, names):
    """could the literal arguments of the written call ever be accepted by the
    callee?  (programs whose call can never succeed are not generated)"""
    import inspect
    from core import KINDS, py_default
    params = [inspect.Parameter(name_of(nm), KINDS[k], default=py_default(de))
              for (nm, k, de, an, ua) in cps]
    try:
        inspect.Signature(params).bind_partial(*([0] * n), **{name_of(k): 0 for k in names})
    except TypeError:
        return False
    return True


def outer_universe():
    """wrapper signatures: 0..2 named parameters + at least one star"""
    out = []
    for ps in universe(2, ['a', 'b']):
        kinds = [p[1] for p in ps]
        if 'VP' in kinds or 'VK' in kinds:
            out.append(ps)
    return out


def callee_universe(pool=('x', 'y')):
    return universe(2, list(pool))


def gen_programs(rng, count, tainted=False, contexts=None, routes=None, valid_only=True, second_unresolvable=False):
    outers = outer_universe()
    cal_xy = callee_universe(('x', 'y'))
    cal_ab = callee_universe(('a', 'x'))     # may collide with wrapper names
    progs = []
    contexts = contexts or CONTEXTS
    routes = routes or ROUTES
    tries = 0
    while len(progs) < count and tries < count * 20:
        tries += 1
        p = Prog()
        p.outer = rng.choice(outers)
        if routes == ['closure_stack'] and rng.random() < 0.7:
            # stacking one pass-through on itself repeats the wrapper's own named parameters (a name
            # clash, hence the fallback): mostly star-only wrappers
            p.outer = rng.choice([o for o in outers if all(q[1] in ('VP', 'VK') for q in o)])
        # positional-only wrapper parameters cannot carry the method route's self
        p.route = rng.choice(routes)
        if p.route in ('method', 'parameter', 'param_default') and any(k == 'PO' for (_, k, _, _, _) in p.outer):
            continue
        if p.route == 'modifiers':
            named = [q for q in p.outer if q[1] in ('PO', 'PK', 'KO')]
            # needs two plain positional-or-keyword parameters, the converted ones without default order trouble
            if len(named) != 2 or any(q[1] != 'PK' for q in named) or named[0][2] is not None:
                continue
        p.context = rng.choice(contexts)
        ncalls = 2 if p.context == 'ifelse2' else rng.choice([1, 1, 1, 2])
        if second_unresolvable:
            # a resolvable forwarding call followed by one whose callee cannot be resolved
            # statically (and is a different function): the answer must be the plain signature
            if p.route not in ('global', 'closure', 'attribute'):
                continue
            ncalls = 2
        if p.route in ('parameter', 'param_default'):
            ncalls = 1
            if p.context == 'ifelse2':
                p.context = 'if'
        keys = ['callee', 'callee2'][:ncalls] if (second_unresolvable or rng.random() < 0.7) else ['callee'] * ncalls
        if p.route in ('partial_route', 'chain_kw', 'chain_pos', 'chain_pick'):
            # reading a global name as an argument makes the walker forget it
            # (visit_Name), so a second partial(callee, ...) of the same name is
            # 'unresolvable' and yields the fallback: covered by the property's
            # cannot-be-resolved clause, not generated
            keys = ['callee', 'callee2'][:ncalls]
        for key in sorted(set(keys)):
            pool = cal_ab if rng.random() < 0.15 else cal_xy
            p.callees[key] = rng.choice(pool)
        has_va = p.va_name is not None
        has_vk = p.vk_name is not None
        ok = True
        for key in keys:
            cps = p.callees[key]
            kwable = [q[0] for q in cps if q[1] in ('PK', 'KO')]
            n = rng.choice([0, 0, 0, 1, 2])
            names = []
            if kwable and rng.random() < 0.35:
                names = rng.sample(kwable, rng.randint(1, len(kwable)))
            if rng.random() < 0.05:
                names.append(id_of_name('z'))
            if valid_only and not literal_part_binds(cps, n, names):
                ok = False
                break
            va = has_va and rng.random() < 0.85
            vk = has_vk and rng.random() < 0.85
            own_va = rng.random() < 0.08
            own_vk = rng.random() < 0.08
            if not (va or vk):
                if has_va:
                    va = True
                else:
                    vk = True
            partial = (p.route == 'partial_route')
            cobj = Call(key, n, names, va, vk, own_va, own_vk, partial)
            if n and (va or own_va):
                # where the literal positionals stand relative to the star argument (no draw from rng)
                cobj.tail = (0, n, 1)[(tries + len(progs) + n) % 3]
            if (len(p.calls) == 1 and p.route in ('global', 'closure', 'attribute')
                    and (second_unresolvable or rng.random() < 0.25)):
                cobj.unresolvable = True
            if p.route == 'param_default':
                cobj.unresolvable = True
            if p.route == 'parameter' and not tainted and rng.random() < 0.2:
                p.context = 'lambda_kwshadow'
                cobj.unresolvable = True
            p.calls.append(cobj)
        if not ok:
            continue
        if p.route == 'partial_route':
            p.route = 'global'
            for c in p.calls:
                c.partial = True
        if p.route == 'wraps_sig':
            p.wraps_kind = rng.choice(WRAPS_KINDS)
        p.decoys = rng.choice([0, 0, 1, 2])
        p.rename_locals = rng.random() < 0.3
        p.nosource = p.route != 'method' and rng.random() < 0.12
        # every second method program: an instance whose truth value is False (no draw from rng:
        # the stream of programs stays what it was)
        p.falsy_inst = p.route == 'method' and (len(p.outer) + p.decoys + len(p.calls)) % 2 == 0
        if tainted:
            stars = [s for s, present in (('args', has_va), ('kwargs', has_vk)) if present]
            star = rng.choice(stars)
            kind = rng.choice(TAINTS)
            where = rng.choice(['before', 'before', 'after'])
            if kind == 'delete' and where == 'before':
                where = 'after'          # a deleted name cannot be forwarded at run time
            if p.context == 'comprehension' and rng.random() < 0.6:
                # inside the comprehension's for clause: evaluated before the element's call
                kind = rng.choice(['mutate_method', 'pass_on', 'rebind', 'shadow'])
                where = 'comp_iter'
            if kind == 'inline':
                c0 = p.calls[0]
                if not (len(p.calls) == 1 and has_vk and c0.vk and (c0.n or c0.names) and not c0.partial
                        and p.route not in ('chain_kw', 'chain_pos', 'chain_pick')):
                    continue
                c0.inline = True
                star, where = 'kwargs', 'before'
            p.taint = (kind, star, where)
        try:
            p.render()
        except Exception:  # noqa: BLE001
            continue
        progs.append(p)
    return progs
