"""Cases of the signature algebra: one object knows how to ask the model
(driver request line) and how to run the implementation in /repo."""
import functools
import itertools
import warnings

from core import (PS, S, b, build_sig, describe_sig, mk_desc, name_of, run_impl,
                  tok_names, tok_sig, tok_sigs, show_sig, shape_of, run_driver_parallel,
                  parse_result, parse_cex, fn_of, id_of_name, tok_call)


class Case(object):
    op = None

    def request(self):
        raise NotImplementedError

    def thunk(self):
        raise NotImplementedError

    def impl(self):
        del _BUILT[:]
        holder = []
        th = self.thunk()

        def wrapped():
            r = th()
            holder.append(r)
            return r
        res = run_impl(wrapped)
        for rec in _BUILT:
            bad = _snapshot_ok(*rec)
            if bad and len(PURITY_BREAKS) < 20:
                PURITY_BREAKS.append({'case': self.show(), 'what': bad, 'data': self.data()})
        if holder:
            bad = _aliasing(holder[0], _BUILT)
            if bad and len(ALIAS_BREAKS) < 20:
                ALIAS_BREAKS.append({'case': self.show(), 'what': bad, 'data': self.data()})
        del _BUILT[:]
        return res

    def show(self):
        raise NotImplementedError

    def data(self):
        """JSON-able replay data"""
        raise NotImplementedError


# Every signature object handed to the implementation is remembered here so
# that Case.impl() can verify, after the call, that the implementation left it
# unchanged (the validity condition of a functional model; C16, first sentence).
_BUILT = []
PURITY_BREAKS = []     # an input object was modified
ALIAS_BREAKS = []      # a result shares a provenance map/list with an input (decided by C16 only)


def _build(d, upgraded=True):
    s = build_sig(d, upgraded)
    if upgraded:
        _BUILT.append((d, s, list(s.parameters.values()), s.sources,
                       {k: v for k, v in s.sources.items()}))
    return s


def _sigs(ds, upgraded=True):
    return [_build(d, upgraded) for d in ds]


def _snapshot_ok(d, s, params, srcmap, srclists):
    if list(s.parameters.values()) != params or any(a is not b for a, b in zip(s.parameters.values(), params)):
        return 'parameter objects replaced'
    if s.sources is not srcmap:
        return 'sources map replaced'
    now = describe_sig(s)
    if (now['params'], now['srcs'], now['deps']) != (list(d['params']), d['srcs'], d['deps']):
        return 'input changed from %s %s %s to %s %s %s' % (d['params'], d['srcs'], d['deps'], now['params'], now['srcs'], now['deps'])
    for k, v in s.sources.items():
        if srclists.get(k) is not v:
            return 'source list of %r replaced' % (k,)
    return None


def _aliasing(result, built):
    if not hasattr(result, 'sources'):
        return None
    for d, s, params, srcmap, srclists in built:
        if result.sources is s.sources:
            return 'result shares its sources map with an input'
        for k, v in result.sources.items():
            if k in s.sources and v is s.sources[k] and v not in ({}, []):
                return 'result shares the %r entry of its sources with an input' % (k,)
    return None


class Merge(Case):
    op = 'merge'

    def __init__(self, ds, upgraded=True):
        self.ds = ds
        self.upgraded = upgraded

    def request(self):
        return 'merge ' + tok_sigs(self.ds)

    def thunk(self):
        return lambda: PS.merge(*_sigs(self.ds, self.upgraded))

    def show(self):
        return 'merge(%s)' % ', '.join(show_sig(d) for d in self.ds)

    def data(self):
        return {'op': 'merge', 'sigs': self.ds}


class MergeNested(Merge):
    op = 'mergen'

    def request(self):
        return 'mergen ' + tok_sigs(self.ds)

    def thunk(self):
        return lambda: functools.reduce(PS.merge, _sigs(self.ds, self.upgraded))

    def show(self):
        return 'nested-merge(%s)' % ', '.join(show_sig(d) for d in self.ds)

    def data(self):
        return {'op': 'mergen', 'sigs': self.ds}


class Embed(Case):
    op = 'embed'

    def __init__(self, ds, uva=True, uvk=True, upgraded=True):
        self.ds = ds
        self.uva = uva
        self.uvk = uvk
        self.upgraded = upgraded

    def request(self):
        return 'embed %s %s %s' % (b(self.uva), b(self.uvk), tok_sigs(self.ds))

    def thunk(self):
        return lambda: PS.embed(*_sigs(self.ds, self.upgraded), use_varargs=self.uva,
                                use_varkwargs=self.uvk)

    def show(self):
        return 'embed(%s, use_varargs=%s, use_varkwargs=%s)' % (
            ', '.join(show_sig(d) for d in self.ds), self.uva, self.uvk)

    def data(self):
        return {'op': 'embed', 'sigs': self.ds, 'uva': self.uva, 'uvk': self.uvk}


class Mask(Case):
    op = 'mask'

    def __init__(self, d, n, names, flags=(False, False, False, False), upgraded=True):
        self.d = d
        self.n = n
        self.names = list(names)
        self.flags = tuple(bool(f) for f in flags)
        self.upgraded = upgraded

    def request(self):
        return 'mask %s %d %s %s' % (tok_sig(self.d), self.n, tok_names(self.names),
                                     ' '.join(b(f) for f in self.flags))

    def thunk(self):
        ha, hk, hva, hvk = self.flags
        return lambda: PS.mask(_build(self.d, self.upgraded), self.n,
                               *[name_of(k) for k in self.names],
                               hide_args=ha, hide_kwargs=hk, hide_varargs=hva,
                               hide_varkwargs=hvk)

    def show(self):
        fl = [n for n, f in zip(('hide_args', 'hide_kwargs', 'hide_varargs', 'hide_varkwargs'),
                                self.flags) if f]
        return 'mask(%s, %d, %s%s)' % (show_sig(self.d), self.n,
                                       [name_of(k) for k in self.names],
                                       ''.join(', %s=True' % f for f in fl))

    def data(self):
        return {'op': 'mask', 'sig': self.d, 'n': self.n, 'names': self.names,
                'flags': list(self.flags)}


class Partial(Case):
    """signatures.signature(functools.partial(f, *n args, **kw)) where f is a real
    function with the described parameters."""
    op = 'partial'

    def __init__(self, d, n, kw, pobj=200):
        self.d = d
        self.n = n
        self.kw = list(kw)     # [(name_id, value)]
        self.pobj = pobj

    def request(self):
        return 'partial %s %d %d %s %d' % (
            tok_sig(self.d), self.n, len(self.kw),
            ' '.join('%d %d' % kv for kv in self.kw), self.pobj)

    def thunk(self):
        def th():
            return S._mask(_build(self.d), self.n, False, False, False, False,
                           dict((name_of(k), v) for k, v in self.kw), fn_of(self.pobj))
        return th

    def show(self):
        return 'partial(%s, <%d positionals>, %s)' % (
            show_sig(self.d), self.n, ', '.join('%s=%d' % (name_of(k), v) for k, v in self.kw))

    def data(self):
        return {'op': 'partial', 'sig': self.d, 'n': self.n, 'kw': self.kw, 'pobj': self.pobj}


class Forwards(Case):
    op = 'forwards'

    def __init__(self, o, i, n, names, ha=False, hk=False, uva=True, uvk=True, partial=False,
                 upgraded=True):
        self.o, self.i, self.n, self.names = o, i, n, list(names)
        self.ha, self.hk, self.uva, self.uvk, self.partial = ha, hk, uva, uvk, partial
        self.upgraded = upgraded

    def request(self):
        return 'forwards %s %s %d %s %s' % (
            tok_sig(self.o), tok_sig(self.i), self.n, tok_names(self.names),
            ' '.join(b(f) for f in (self.ha, self.hk, self.uva, self.uvk, self.partial)))

    def thunk(self):
        return lambda: PS.forwards(_build(self.o, self.upgraded), _build(self.i, self.upgraded),
                                   self.n, *[name_of(k) for k in self.names],
                                   hide_args=self.ha, hide_kwargs=self.hk,
                                   use_varargs=self.uva, use_varkwargs=self.uvk,
                                   partial=self.partial)

    def show(self):
        return 'forwards(%s, %s, %d, %s, hide_args=%s, hide_kwargs=%s, use_varargs=%s, use_varkwargs=%s, partial=%s)' % (
            show_sig(self.o), show_sig(self.i), self.n, [name_of(k) for k in self.names],
            self.ha, self.hk, self.uva, self.uvk, self.partial)

    def data(self):
        return {'op': 'forwards', 'o': self.o, 'i': self.i, 'n': self.n, 'names': self.names,
                'ha': self.ha, 'hk': self.hk, 'uva': self.uva, 'uvk': self.uvk,
                'partial': self.partial}


class SortApply(Case):
    op = 'sortapply'

    def __init__(self, d):
        self.d = d

    def request(self):
        return 'sortapply ' + tok_sig(self.d)

    def thunk(self):
        def th():
            s = _build(self.d)
            return PS.apply_params(s, *PS.sort_params(s))
        return th

    def show(self):
        return 'apply_params(s, *sort_params(s)) s=%s' % show_sig(self.d)

    def data(self):
        return {'op': 'sortapply', 'sig': self.d}


def case_from_data(d):
    op = d['op']
    fix = _fix_desc
    if op == 'merge':
        return Merge([fix(x) for x in d['sigs']])
    if op == 'mergen':
        return MergeNested([fix(x) for x in d['sigs']])
    if op == 'embed':
        return Embed([fix(x) for x in d['sigs']], d['uva'], d['uvk'])
    if op == 'mask':
        return Mask(fix(d['sig']), d['n'], d['names'], d['flags'])
    if op == 'partial':
        return Partial(fix(d['sig']), d['n'], [tuple(x) for x in d['kw']], d.get('pobj', 200))
    if op == 'forwards':
        return Forwards(fix(d['o']), fix(d['i']), d['n'], d['names'], d['ha'], d['hk'],
                        d['uva'], d['uvk'], d['partial'])
    if op == 'sortapply':
        return SortApply(fix(d['sig']))
    raise ValueError(op)


def _fix_desc(d):
    """JSON round trip turns tuples into lists and int keys into strings."""
    return {
        'params': [(p[0], p[1], p[2], p[3], tuple(p[4])) for p in d['params']],
        'ret': d['ret'], 'uret': tuple(d['uret']),
        'srcs': {int(k): list(v) for k, v in d['srcs'].items()},
        'deps': {int(k): int(v) for k, v in d['deps'].items()},
    }


# ---------------------------------------------------------------- projections
def proj_shape(r):
    if r[0] == 'err':
        return r
    return ('ok', shape_of(r[1]))


def proj_params(r):
    if r[0] == 'err':
        return r
    return ('ok', tuple(r[1]['params']), r[1]['ret'], r[1]['uret'])


def proj_prov(r):
    if r[0] == 'err':
        return r
    return ('ok', tuple(p[0] for p in r[1]['params']),
            tuple(sorted((k, tuple(v)) for k, v in r[1]['srcs'].items())),
            tuple(sorted(r[1]['deps'].items())))


def proj_full(r):
    if r[0] == 'err':
        return r
    return (proj_params(r), proj_prov(r))


def proj_errclass(r):
    if r[0] == 'err':
        return r
    return ('ok',)


def run_cases(cases, jobs=None, rep=None):
    """-> list of (case, model_result, impl_result)"""
    outs = run_driver_parallel([c.request() for c in cases], jobs)
    res = []
    for c, o in zip(cases, outs):
        res.append((c, parse_result(o), c.impl()))
    return res


def report_purity(rep):
    """Input mutation / aliasing invalidates the functional reading of every
    theorem: reported by each check as a broken correspondence."""
    for pb in PURITY_BREAKS:
        rep.corr_break('inputs-unchanged (functional model validity)', pb['case'], 'inputs unchanged, result not aliased', pb['what'])
    n = len(PURITY_BREAKS)
    del PURITY_BREAKS[:]
    del ALIAS_BREAKS[:]
    return n


def ask(lines):
    return run_driver_parallel(lines)


# ---------------------------------------------------------------- binding model vs CPython
def def_source(d, name='f'):
    """Source of a real function with the described parameters."""
    parts = []
    prev = None
    ps = d['params']
    for idx, (nm, k, de, an, ua) in enumerate(ps):
        if prev == 'PO' and k != 'PO':
            parts.append('/')
        if k == 'KO' and prev not in ('VP', 'KO'):
            parts.append('*')
        s = {'VP': '*', 'VK': '**'}.get(k, '') + name_of(nm)
        if de is not None:
            s += '=%s' % ('None' if de == 0 else de)
        parts.append(s)
        prev = k
    if prev == 'PO':
        parts.append('/')
    return 'def %s(%s):\n    return None\n' % (name, ', '.join(parts))


def real_function(d, name='f'):
    ns = {}
    exec(def_source(d, name), ns)
    return ns[name]


def really_accepts(f, call):
    n, ks = call
    try:
        f(*([0] * n), **{name_of(k): 0 for k in ks})
    except TypeError:
        return False
    return True


def check_binding_model(rep, descs, limit=150):
    """Compare the Gallina `accepts` with really calling a def with the same
    parameters, on every shape of the finite family.  A disagreement breaks the
    correspondence (it would invalidate every acceptance theorem's reading)."""
    descs = descs[:limit]
    if not descs:
        return 0
    shape_lines = ask(['shapes 1 ' + tok_sig(d) for d in descs])
    n = 0
    reqs = []
    allcalls = []
    for d, sl in zip(descs, shape_lines):
        calls = []
        for item in sl.split(';'):
            np_, _, ks = item.partition(':')
            calls.append((int(np_), [int(k) for k in ks.split(',') if k]))
        allcalls.append(calls)
        reqs.append('acceptsall %s %d %s' % (tok_sig(d), len(calls),
                                             ' '.join(tok_call(c) for c in calls)))
    answers = ask(reqs)
    for d, calls, ans in zip(descs, allcalls, answers):
        f = real_function(d)
        for c, a in zip(calls, ans):
            n += 1
            real = really_accepts(f, c)
            if real != (a == 'T'):
                rep.corr_break('accepts-vs-CPython', {'sig': show_sig(d), 'call': c},
                               a == 'T', real)
    return n
