"""Shared machinery of the correspondence harness.

* encoding of inspect / sigtools objects into the driver's line protocol
* the signature universes (mirrors coq/theories/Model/Universe.v)
* a batch interface to the extracted model (ocaml/driver)

Everything imports sigtools from /repo's working tree (PYTHONPATH is forced by
./check) and every random choice derives from VERIF_SEED.
"""
import inspect
import itertools
import os
import random
import subprocess
import sys
import warnings

VERIF = os.path.dirname(os.path.dirname(os.path.abspath(__file__)))
DRIVER = os.path.join(VERIF, 'ocaml', 'driver')

sys.path.insert(0, os.environ.get('SIGTOOLS_REPO', '/repo'))
from sigtools import _signatures as S  # noqa: E402
from sigtools import signatures as PS  # noqa: E402

P = inspect.Parameter
KINDS = {'PO': P.POSITIONAL_ONLY, 'PK': P.POSITIONAL_OR_KEYWORD, 'VP': P.VAR_POSITIONAL,
         'KO': P.KEYWORD_ONLY, 'VK': P.VAR_KEYWORD}
KIND_NAMES = {v: k for k, v in KINDS.items()}

# ---------------------------------------------------------------- interning
NAME_TABLE = ['', 'a', 'b', 'c', 'd', 'e', 'f', 'g', 'h',
              'args', 'kwargs', 'va', 'vk', 'self', 'x', 'y', 'z']
NAME_ID = {n: i for i, n in enumerate(NAME_TABLE)}


def name_of(i):
    if i < len(NAME_TABLE):
        return NAME_TABLE[i]
    return 'n%d' % i


def id_of_name(n):
    if n in NAME_ID:
        return NAME_ID[n]
    if n.startswith('n') and n[1:].isdigit():
        return int(n[1:])
    # unknown names get a stable id on first use
    NAME_ID[n] = len(NAME_TABLE)
    NAME_TABLE.append(n)
    return NAME_ID[n]


_FN = {}
_FN_ID = {}


def fn_of(i):
    """A real function object standing for callable number i (>= 100)."""
    if i not in _FN:
        ns = {}
        exec('def fn%d(*args, **kwargs): pass' % i, ns)
        f = ns['fn%d' % i]
        _FN[i] = f
        _FN_ID[id(f)] = i
    return _FN[i]


def register_fn(obj, i=None):
    if id(obj) in _FN_ID:
        return _FN_ID[id(obj)]
    if i is None:
        i = 1000 + len(_FN)
    _FN[i] = obj
    _FN_ID[id(obj)] = i
    return i


def id_of_fn(f):
    if id(f) in _FN_ID:
        return _FN_ID[id(f)]
    return register_fn(f)


# ---------------------------------------------------------------- descriptions
# A signature description is plain data:
#   {'params': [(name_id, kind, default|None, ann|None, uann)], 'ret': None|int,
#    'uret': uann, 'srcs': {name_id: [fid..]}, 'deps': {fid: depth}}
# default: None = empty, 0 = Python None, v>0 = the int v
# uann: ('E',) | ('P', v) | ('D', raw, fid)

E = ('E',)


def mk_param(nm, kind, default=None, ann=None, uann=E):
    return (nm, kind, default, ann, uann)


def mk_desc(params, fid=None, ret=None, uret=E, srcs=None, deps=None):
    params = list(params)
    if srcs is None:
        if fid is None:
            srcs, deps = {}, {}
        else:
            srcs = {p[0]: [fid] for p in params}
            deps = {fid: 0}
    return {'params': params, 'ret': ret, 'uret': uret, 'srcs': srcs, 'deps': deps or {}}


def _tok_opt(v):
    return '-' if v is None else str(v)


def _tok_uann(u):
    if u[0] == 'E':
        return 'E'
    if u[0] == 'P':
        return 'P%d' % u[1]
    return 'D%d.%d' % (u[1], u[2])


def tok_sig(d):
    out = ['S', str(len(d['params']))]
    for nm, k, de, an, ua in d['params']:
        out.append('%d/%s/%s/%s/%s' % (nm, k, _tok_opt(de), _tok_opt(an), _tok_uann(ua)))
    out.append(_tok_opt(d['ret']))
    out.append(_tok_uann(d['uret']))
    srcs = sorted(d['srcs'].items())
    out.append(str(len(srcs)))
    for nm, fs in srcs:
        out.append(str(nm))
        out.append(str(len(fs)))
        out.extend(str(f) for f in fs)
    deps = sorted(d['deps'].items())
    out.append(str(len(deps)))
    for f, v in deps:
        out.append(str(f))
        out.append(str(v))
    return ' '.join(out)


def tok_names(names):
    return ' '.join([str(len(names))] + [str(n) for n in names])


def tok_sigs(ds):
    return ' '.join([str(len(ds))] + [tok_sig(d) for d in ds])


def tok_call(c):
    return '%d %s' % (c[0], tok_names(c[1]))


def b(x):
    return '1' if x else '0'


def _parse_uann(t):
    if t == 'E':
        return E
    if t[0] == 'P':
        return ('P', int(t[1:]))
    a, bb = t[1:].split('.')
    return ('D', int(a), int(bb))


def parse_sig_tokens(toks):
    """Inverse of tok_sig; returns a description (canonical: sorted maps)."""
    it = iter(toks)
    assert next(it) == 'S'
    n = int(next(it))
    params = []
    for _ in range(n):
        nm, k, de, an, ua = next(it).split('/')
        params.append((int(nm), k, None if de == '-' else int(de),
                       None if an == '-' else int(an), _parse_uann(ua)))
    r = next(it)
    ret = None if r == '-' else int(r)
    uret = _parse_uann(next(it))
    srcs = {}
    for _ in range(int(next(it))):
        nm = int(next(it))
        m = int(next(it))
        srcs[nm] = [int(next(it)) for _ in range(m)]
    deps = {}
    for _ in range(int(next(it))):
        f = int(next(it))
        deps[f] = int(next(it))
    return {'params': params, 'ret': ret, 'uret': uret, 'srcs': srcs, 'deps': deps}


def parse_result(line):
    """Model answer -> ('ok', desc) | ('err', class)"""
    toks = line.split()
    if not toks:
        return ('err', 'EMPTY')
    if toks[0] == 'ERR':
        return ('err', toks[1])
    if toks[0] in ('PARSE-ERROR', 'DRIVER-ERROR'):
        raise RuntimeError('driver: ' + line)
    return ('ok', parse_sig_tokens(toks))


def parse_cex(line):
    toks = line.split()
    if toks[0] == 'OK':
        return None
    if toks[0] != 'CEX':
        raise RuntimeError('driver: ' + line)
    n = int(toks[1])
    k = int(toks[2])
    return (n, [int(t) for t in toks[3:3 + k]])


# ---------------------------------------------------------------- to / from Python objects
class _Wildcard(object):
    """a default value that compares equal to everything (like unittest.mock.ANY): only used
    by soundness-only batches, never in a comparison with the model (default value 3)"""
    def __eq__(self, other):
        return True

    def __ne__(self, other):
        return False

    def __hash__(self):
        return 3

    def __repr__(self):
        return '<ANY>'


WILDCARD = _Wildcard()


def py_default(v):
    if v is None:
        return P.empty
    if v == 3:
        return WILDCARD
    if v == 0:
        return None
    if v == 2:
        # an equal but not identical object every time: default conciliation compares values
        return float(2)
    return v


def desc_default(v):
    if v is P.empty:
        return None
    if v is WILDCARD:
        return 3
    if v is None:
        return 0
    if isinstance(v, float) and v == 2.0:
        return 2
    if isinstance(v, int) and not isinstance(v, bool) and v > 0:
        return v
    return 999000 + (hash(repr(v)) % 1000)


def py_uann(u):
    if u[0] == 'E':
        return S.EmptyAnnotation
    if u[0] == 'P':
        return S._PreEvaluatedAnnotation(u[1])
    return S._PostponedAnnotation(str(u[1]), fn_of(u[2]))


def desc_uann(u):
    if isinstance(u, S._EmptyAnnotation):
        return E
    if isinstance(u, S._PreEvaluatedAnnotation):
        v = u._annotation
        return ('P', v if isinstance(v, int) else 999000 + (hash(repr(v)) % 1000))
    if isinstance(u, S._PostponedAnnotation):
        raw = u._raw_annotation
        return ('D', int(raw) if str(raw).isdigit() else 999000 + (hash(raw) % 1000),
                id_of_fn(u._function))
    return ('P', 999999)


def py_ann(v):
    return P.empty if v is None else v


def desc_ann(v):
    if v is P.empty:
        return None
    if isinstance(v, int):
        return v
    if isinstance(v, str) and v.isdigit():
        return int(v)
    return 999000 + (hash(repr(v)) % 1000)


def build_sig(d, upgraded=True):
    """Description -> fresh UpgradedSignature (or a plain inspect.Signature)."""
    if not upgraded:
        params = [P(name_of(nm), KINDS[k], default=py_default(de), annotation=py_ann(an))
                  for nm, k, de, an, ua in d['params']]
        return inspect.Signature(params, return_annotation=py_ann(d['ret']))
    params = [S.UpgradedParameter(name_of(nm), KINDS[k], default=py_default(de),
                                  annotation=py_ann(an), upgraded_annotation=py_uann(ua))
              for nm, k, de, an, ua in d['params']]
    srcs = {name_of(nm): [fn_of(f) for f in fs] for nm, fs in d['srcs'].items()}
    srcs['+depths'] = {fn_of(f): v for f, v in d['deps'].items()}
    return S.UpgradedSignature(params, return_annotation=py_ann(d['ret']),
                               upgraded_return_annotation=py_uann(d['uret']),
                               sources=srcs)


def describe_sig(sig):
    """UpgradedSignature (or inspect.Signature) -> description."""
    params = []
    for p in sig.parameters.values():
        ua = desc_uann(getattr(p, 'upgraded_annotation', S.EmptyAnnotation))
        params.append((id_of_name(p.name), KIND_NAMES[p.kind], desc_default(p.default),
                       desc_ann(p.annotation), ua))
    srcs = {}
    deps = {}
    sources = getattr(sig, 'sources', {}) or {}
    for k, v in sources.items():
        if k == '+depths':
            for f, dpt in v.items():
                deps[id_of_fn(f)] = int(dpt)
        else:
            srcs[id_of_name(k)] = [id_of_fn(f) for f in v]
    return {'params': params, 'ret': desc_ann(sig.return_annotation),
            'uret': desc_uann(getattr(sig, 'upgraded_return_annotation', S.EmptyAnnotation)),
            'srcs': srcs, 'deps': deps, 'has_depths': '+depths' in sources}


def classify_exc(e):
    if isinstance(e, S.IncompatibleSignatures):
        return 'Incompatible'
    if type(e) is ValueError:
        return 'ValueError'
    if isinstance(e, ValueError):
        return 'ValueError:' + type(e).__name__
    return 'Other:' + type(e).__name__


def run_impl(fn):
    """Run an implementation thunk; -> ('ok', desc) | ('err', class)."""
    try:
        with warnings.catch_warnings():
            warnings.simplefilter('ignore')
            r = fn()
    except Exception as e:  # noqa: BLE001
        return ('err', classify_exc(e))
    return ('ok', describe_sig(r))


def shape_of(d):
    """Acceptance projection: name:kind:has_default per parameter."""
    return tuple((nm, k, de is not None) for nm, k, de, an, ua in d['params'])


def show_sig(d):
    """Human-readable rendering of a description."""
    out = []
    prev = None
    for nm, k, de, an, ua in d['params']:
        if prev == 'PO' and k != 'PO':
            out.append('/')
        if k == 'KO' and prev not in ('VP', 'KO'):
            out.append('*')
        s = {'VP': '*', 'VK': '**'}.get(k, '') + name_of(nm)
        if an is not None:
            s += ':%s' % an
        if de is not None:
            s += '=%s' % ('None' if de == 0 else de)
        out.append(s)
        prev = k
    if prev == 'PO':
        out.append('/')
    return '(' + ', '.join(out) + ')'


def show_call(c):
    return 'npos=%d kws=%s' % (c[0], [name_of(k) for k in c[1]])


# ---------------------------------------------------------------- driver
def run_driver(lines):
    """Send request lines to the extracted model; return answer lines."""
    if not lines:
        return []
    data = ('\n'.join(lines) + '\n').encode()
    pr = subprocess.run([DRIVER], input=data, stdout=subprocess.PIPE, stderr=subprocess.PIPE)
    if pr.returncode != 0:
        raise RuntimeError('driver failed: ' + pr.stderr.decode()[:500])
    out = pr.stdout.decode().split('\n')
    if out and out[-1] == '':
        out.pop()
    if len(out) != len(lines):
        raise RuntimeError('driver answered %d lines for %d requests' % (len(out), len(lines)))
    for ln in out:
        if ln.startswith('PARSE-ERROR') or ln.startswith('DRIVER-ERROR'):
            raise RuntimeError('driver: ' + ln)
    return out


def run_driver_parallel(lines, jobs=None):
    """Same as run_driver, sharded over processes."""
    jobs = jobs or min(16, os.cpu_count() or 4)
    if len(lines) < 2000 or jobs <= 1:
        return run_driver(lines)
    from concurrent.futures import ThreadPoolExecutor
    n = (len(lines) + jobs - 1) // jobs
    chunks = [lines[i:i + n] for i in range(0, len(lines), n)]
    with ThreadPoolExecutor(len(chunks)) as ex:
        outs = list(ex.map(run_driver, chunks))
    return [x for o in outs for x in o]


# ---------------------------------------------------------------- universes
def universe(k, pool, stars=(('args', 'kwargs'),), permute=True):
    """All valid signatures (as parameter lists) with at most k named
    parameters from pool: every PO/PK/KO split, every admissible default suffix
    among positionals, every default flag on keyword-only ones, each star absent
    or present (named from each pair in stars)."""
    pool = [id_of_name(n) if isinstance(n, str) else n for n in pool]
    out = []
    star_opts = [(None, None)]
    for va, vk in stars:
        va_i, vk_i = id_of_name(va), id_of_name(vk)
        for o in ((va_i, None), (None, vk_i), (va_i, vk_i)):
            if o not in star_opts:
                star_opts.append(o)
    for m in range(k + 1):
        seqs = itertools.permutations(pool, m) if permute else itertools.combinations(pool, m)
        for names in seqs:
            for npo in range(m + 1):
                for npk in range(m - npo + 1):
                    nko = m - npo - npk
                    npos = npo + npk
                    for ndef in range(npos + 1):
                        for kodef in itertools.product((False, True), repeat=nko):
                            for va, vk in star_opts:
                                ps = []
                                for i, nm in enumerate(names):
                                    if i < npo:
                                        kind = 'PO'
                                    elif i < npos:
                                        kind = 'PK'
                                    else:
                                        kind = 'KO'
                                    if i < npos:
                                        de = 1 if i >= npos - ndef else None
                                    else:
                                        de = 1 if kodef[i - npos] else None
                                    if kind == 'KO' and va is not None and False:
                                        pass
                                    ps.append(mk_param(nm, kind, de))
                                if va is not None:
                                    # *args goes before keyword-only parameters
                                    ps = ps[:npos] + [mk_param(va, 'VP')] + ps[npos:]
                                if vk is not None:
                                    ps = ps + [mk_param(vk, 'VK')]
                                if len({p[0] for p in ps}) != len(ps):
                                    continue
                                out.append(ps)
    return out


def rng_for(seed, tag):
    return random.Random('%s/%s' % (seed, tag))


def random_sig(rng, pool, maxn=4, star_names=(('args', 'kwargs'), ('va', 'vk')),
               meta=False):
    """A random valid parameter list (ids), optionally with varied defaults and
    annotations."""
    pool = [id_of_name(n) if isinstance(n, str) else n for n in pool]
    m = rng.randint(0, min(maxn, len(pool)))
    names = rng.sample(pool, m)
    npo = rng.choice([0, 0, 0, 1, 2]) if m else 0
    npo = min(npo, m)
    nko = rng.randint(0, m - npo) if rng.random() < 0.5 else 0
    npk = m - npo - nko
    npos = npo + npk
    ndef = rng.randint(0, npos) if rng.random() < 0.6 else 0
    ps = []
    for i, nm in enumerate(names):
        kind = 'PO' if i < npo else ('PK' if i < npos else 'KO')
        if i < npos:
            has = i >= npos - ndef
        else:
            has = rng.random() < 0.5
        de = None
        if has:
            de = rng.choice([0, 1, 2]) if meta else 1
        an, ua = None, E
        if meta and rng.random() < 0.5:
            an = rng.choice([11, 12])
            # parameters of classes / callable instances / hand-built ones carry a raw
            # annotation without an upgraded one
            ua = ('P', an) if rng.random() < 0.7 else E
        ps.append(mk_param(nm, kind, de, an, ua))
    va, vk = rng.choice(star_names)

    def star_meta():
        # star parameters carry annotations too (conciliation applies to them as well)
        if meta and rng.random() < 0.35:
            an = rng.choice([11, 12])
            return an, (('P', an) if rng.random() < 0.7 else E)
        return None, E
    if rng.random() < 0.5:
        an, ua = star_meta()
        ps = ps[:npos] + [mk_param(id_of_name(va), 'VP', None, an, ua)] + ps[npos:]
    if rng.random() < 0.5:
        an, ua = star_meta()
        ps = ps + [mk_param(id_of_name(vk), 'VK', None, an, ua)]
    if len({p[0] for p in ps}) != len(ps):
        return random_sig(rng, pool, maxn, star_names, meta)
    return ps
