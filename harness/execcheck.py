"""Correspondence run for coq/theories/Model/Exec.v (the grammar of wrapper bodies
the theorems C05_walker_is_absint / C05_flag_sound are stated about).

For random programs of the grammar, one coqc call evaluates `exec_report`
(vm_compute) and this module compares, per program:

 1. TREE    the model's `compile` of the program  ==  the tree Python's `ast`
            gives for the rendered source (converted along generic_visit);
 2. FLAGS   the model walker's flags  ==  the flags of sigtools' CallListerVisitor
            run on the real tree;
 3. EXEC    for every execution path (the model's `exec_block` outcomes, in
            order): really executing the rendered wrapper along that path visits
            the same call sites in the same order (up to the first exception),
            and wherever the model says the callee receives the caller's
            untouched *args / **kwargs, it really does (object identity of every
            element).

Everything random derives from one seed; a disagreement is returned with the
program, the rendered source and the path.
"""
import ast
import random
import sys

from coqrun import coq_eval, parse_nat_list
from discovery import children_in_visit_order

VA, VK = 1, 2
# attribute ids -> real method names (all take one constant argument)
K_METHODS = {30: ('pop', "'k0'"), 31: ('get', "'k0'"), 32: ('setdefault', "'zz'"),
             33: ('__contains__', "'k0'"), 34: ('__getitem__', "'k0'")}
A_METHODS = {40: ('count', '0'), 41: ('__contains__', '0'), 42: ('__getitem__', '0')}
SETITEM = 50        # kwargs.__setitem__(<c>, <c>) inside an immediately called lambda
CALLEES = [5, 6]
HELPERS = [12, 13]
ALIASES = [20, 21]
KWNAMES = [7, 8, 9]


def ident(i):
    if i == VA:
        return 'args'
    if i == VK:
        return 'kwargs'
    for tab in (K_METHODS, A_METHODS):
        if i in tab:
            return tab[i][0]
    if i == SETITEM:
        return '__setitem__'
    return 'n%d' % i


_INV = {}
for _i in [VA, VK] + list(K_METHODS) + list(A_METHODS) + CALLEES + HELPERS + ALIASES + KWNAMES:
    _INV.setdefault(ident(_i), _i)
# '__contains__' and '__getitem__' are shared between the two tables: map the
# attribute name to one id and normalise programs accordingly
_ATTR_ID = {}
for tab in (K_METHODS, A_METHODS):
    for i, (nm, _) in tab.items():
        _ATTR_ID.setdefault(nm, i)
_ATTR_ID['__setitem__'] = SETITEM


def gen_stmt(rng, depth, budget):
    r = rng.random()
    star = lambda: rng.choice(['A', 'K'])
    if r < 0.34:
        return ('fwd', rng.choice(CALLEES), rng.randrange(0, 3),
                rng.sample(KWNAMES, rng.randrange(0, 3)), rng.random() < 0.8, rng.random() < 0.8)
    if r < 0.42:
        return ('rebind', star())
    if r < 0.45:
        return ('aug', star())
    if r < 0.49:
        return ('del', star())
    if r < 0.56:
        return ('item',)
    if r < 0.68:
        s = star()
        tab = K_METHODS if s == 'K' else A_METHODS
        name = rng.choice(sorted(tab))
        return ('meth', s, _ATTR_ID[tab[name][0]], tab[name])
    if r < 0.76:
        return ('pass', rng.choice(HELPERS), star())
    if r < 0.83:
        return ('alias', rng.choice(ALIASES), star())
    if r < 0.86:
        return ('other', rng.choice(HELPERS))
    if r < 0.89:
        return ('lam', SETITEM)          # outside the theorems' fragment: tree and flags are still compared
    if depth >= 2 or budget[0] <= 0:
        return ('other', rng.choice(HELPERS))
    budget[0] -= 1
    a = [gen_stmt(rng, depth + 1, budget) for _ in range(rng.randrange(1, 4))]
    b = [gen_stmt(rng, depth + 1, budget) for _ in range(rng.randrange(0, 3))]
    return ('if', a, b)


def gen_program(rng):
    budget = [3]
    return [gen_stmt(rng, 0, budget) for _ in range(rng.randrange(1, 8))]


# ---------------------------------------------------------------- to Coq
def coq_stmt(s):
    t = s[0]
    st = lambda x: 'SA' if x == 'A' else 'SK'
    b = lambda x: 'true' if x else 'false'
    if t == 'fwd':
        return '(SFwd %d %d%%nat [%s] %s %s)' % (s[1], s[2], '; '.join(str(k) for k in s[3]), b(s[4]), b(s[5]))
    if t == 'rebind':
        return '(SRebind %s)' % st(s[1])
    if t == 'aug':
        return '(SAug %s)' % st(s[1])
    if t == 'del':
        return '(SDel %s)' % st(s[1])
    if t == 'item':
        return 'SItemSet'
    if t == 'meth':
        return '(SMethod %s %d)' % (st(s[1]), s[2])
    if t == 'pass':
        return '(SPass %d %s)' % (s[1], st(s[2]))
    if t == 'alias':
        return '(SAlias %d %s)' % (s[1], st(s[2]))
    if t == 'other':
        return '(SOther %d)' % s[1]
    if t == 'lam':
        return '(SLambdaMut %d)' % s[1]
    return '(SIf %s %s)' % (coq_block(s[1]), coq_block(s[2]))


def coq_block(l):
    return '[' + '; '.join(coq_stmt(x) for x in l) + ']'


# ---------------------------------------------------------------- rendering
def render(prog, assign):
    """-> (source, {lineno: site})   `assign`: {id(if-stmt): bool}"""
    lines = ['def wrapper(*args, **kwargs):']
    sites = {}
    counter = [0]

    def site():
        sites[len(lines) + 1] = counter[0]
        counter[0] += 1

    def var(x):
        return 'args' if x == 'A' else 'kwargs'

    def emit(block, ind):
        pad = '    ' * ind
        for s in block:
            t = s[0]
            if t == 'fwd':
                site()
                parts = ['0'] * s[2]
                if s[4]:
                    parts.append('*args')
                parts += ['%s=0' % ident(k) for k in s[3]]
                if s[5]:
                    parts.append('**kwargs')
                lines.append('%s%s(%s)' % (pad, ident(s[1]), ', '.join(parts)))
            elif t == 'rebind':
                lines.append("%s%s = 'ab'" % (pad, var(s[1])))
            elif t == 'aug':
                lines.append("%s%s += 'ab'" % (pad, var(s[1])))
            elif t == 'del':
                lines.append('%sdel %s' % (pad, var(s[1])))
            elif t == 'item':
                lines.append("%skwargs['zz'] = 0" % pad)
            elif t == 'meth':
                site()
                lines.append('%s%s.%s(%s)' % (pad, var(s[1]), s[3][0], s[3][1]))
            elif t == 'pass':
                site()
                lines.append('%s%s(%s)' % (pad, ident(s[1]), var(s[2])))
            elif t == 'alias':
                lines.append('%s%s = %s' % (pad, ident(s[1]), var(s[2])))
            elif t == 'other':
                site()
                lines.append('%s%s(0)' % (pad, ident(s[1])))
            elif t == 'lam':
                site()
                lines.append("%s(lambda: kwargs.__setitem__('zz', 0))()" % pad)
            else:
                lines.append('%sif %s:' % (pad, 'True' if assign.get(id(s), True) else 'False'))
                emit(s[1], ind + 1)
                if s[2]:
                    lines.append('%selse:' % pad)
                    emit(s[2], ind + 1)

    emit(prog, 1)
    return '\n'.join(lines) + '\n', sites


def paths_block(block):
    if not block:
        return [{}]
    out = []
    for p1 in paths_stmt(block[0]):
        for p2 in paths_block(block[1:]):
            d = dict(p1)
            d.update(p2)
            out.append(d)
    return out


def paths_stmt(s):
    if s[0] != 'if':
        return [{}]
    out = []
    for p in paths_block(s[1]):
        d = {id(s): True}
        d.update(p)
        out.append(d)
    for p in paths_block(s[2]):
        d = {id(s): False}
        d.update(p)
        out.append(d)
    return out


# ---------------------------------------------------------------- real tree -> numbers
_CTX = {ast.Load: 0, ast.Store: 1, ast.Del: 2}


def enc_py(node, out):
    if isinstance(node, ast.Name):
        out += [0, _INV[node.id], _CTX.get(type(node.ctx), 0)]
    elif isinstance(node, ast.Attribute):
        out += [1, _ATTR_ID[node.attr]]
        enc_py(node.value, out)
    elif isinstance(node, ast.Call):
        out.append(2)
        enc_py(node.func, out)
        out.append(len(node.args))
        for a in node.args:
            enc_py(a, out)
        out.append(len(node.keywords))
        for k in node.keywords:
            enc_py(k, out)
    elif isinstance(node, ast.Starred):
        out.append(3)
        enc_py(node.value, out)
    elif isinstance(node, ast.keyword):
        out += [4, 0 if node.arg is None else _INV[node.arg] + 1]
        enc_py(node.value, out)
    elif isinstance(node, ast.Lambda):
        a = node.args
        pos = list(a.posonlyargs) + list(a.args)
        out += [5, len(pos)] + [_INV[x.arg] for x in pos] + [len(a.kwonlyargs)] + [_INV[x.arg] for x in a.kwonlyargs]
        out += [0 if a.vararg is None else _INV[a.vararg.arg] + 1, 0 if a.kwarg is None else _INV[a.kwarg.arg] + 1, 1]
        enc_py(node.body, out)
    elif isinstance(node, (ast.FunctionDef, ast.Nonlocal)):
        raise ValueError('not in the grammar')
    else:
        children = children_in_visit_order(node)
        out += [7, len(children)]
        for c in children:
            enc_py(c, out)


# ---------------------------------------------------------------- real execution
class _Sentinel(object):
    pass


def execute(source, sites, nlits_kw):
    """Run the rendered wrapper.  -> (site sequence, {position in sequence: (star_ok, dstar_ok)},
    exception type or None, final (args_pristine, kwargs_pristine) or None)"""
    A = (_Sentinel(), _Sentinel())
    K = {'k0': _Sentinel(), 'k1': _Sentinel()}
    K0 = dict(K)
    seq = []
    received = {}
    final = [None]
    rng_mut = [0]

    def stub(*a, **k):
        fr = sys._getframe(1)
        pos = len(seq) - 1
        if fr.f_code.co_name == 'wrapper' and sites.get(fr.f_lineno) == seq[pos]:
            received[pos] = (a, k)
        return None

    def helper(*a, **k):
        # other code: mutates a dict handed to it, every other time
        stub_fr = sys._getframe(1)
        pos = len(seq) - 1
        if stub_fr.f_code.co_name == 'wrapper' and sites.get(stub_fr.f_lineno) == seq[pos]:
            received[pos] = (a, k)
        rng_mut[0] += 1
        if a and isinstance(a[0], dict) and rng_mut[0] % 2:
            a[0]['mutated'] = 1
        return None

    ns = {}
    for i in CALLEES:
        ns[ident(i)] = stub
    for i in HELPERS:
        ns[ident(i)] = helper
    code = compile(source, '<exec-grammar>', 'exec')
    exec(code, ns)
    wrapper = ns['wrapper']

    def tracer(frame, event, arg):
        if frame.f_code is not wrapper.__code__:
            return None
        if event == 'line' and frame.f_lineno in sites:
            seq.append(sites[frame.f_lineno])
        elif event == 'return':
            loc = frame.f_locals
            la = loc.get('args')
            final[0] = (isinstance(la, tuple) and len(la) == len(A) and all(x is y for x, y in zip(la, A)),
                        loc.get('kwargs') is not None and isinstance(loc.get('kwargs'), dict)
                        and list(loc['kwargs'].items()) == list(K0.items())
                        and all(loc['kwargs'][x] is K0[x] for x in K0))
        return tracer

    exc = None
    old = sys.gettrace()
    sys.settrace(tracer)
    try:
        try:
            wrapper(*A, **K)
        except Exception as e:  # noqa: BLE001
            exc = type(e).__name__
    finally:
        sys.settrace(old)
    verdict = {}
    for pos, (a, k) in received.items():
        nl, kws = nlits_kw.get(seq[pos], (None, None))
        if nl is None:
            continue
        star = a[nl:]
        star_ok = len(star) == len(A) and all(x is y for x, y in zip(star, A))
        rest = {x: v for x, v in k.items() if x not in kws}
        dstar_ok = list(rest.keys()) == list(K0.keys()) and all(rest[x] is K0[x] for x in K0)
        verdict[pos] = (star_ok, dstar_ok)
    return seq, verdict, exc, (final[0] if exc is None else None)


def fwd_sites(prog):
    """{site: (number of literal positionals, explicit keyword names)} for the forwarding calls"""
    out = {}
    counter = [0]

    def go(block):
        for s in block:
            t = s[0]
            if t == 'fwd':
                out[counter[0]] = (s[2], set(ident(k) for k in s[3]))
                counter[0] += 1
            elif t in ('meth', 'pass', 'other', 'lam'):
                counter[0] += 1
            elif t == 'if':
                go(s[1])
                go(s[2])

    go(prog)
    return out


# ---------------------------------------------------------------- parsing the report
def parse_report(nums):
    it = iter(nums)
    nbody = next(it)
    ne = next(it)
    enc = [next(it) for _ in range(ne)]
    flags = None
    if next(it) == 1:
        nf = next(it)
        flags = [tuple(bool(next(it)) for _ in range(4)) for _ in range(nf)]
    nouts = next(it)
    outs = []
    for _ in range(nouts):
        pa, pk, nev = bool(next(it)), bool(next(it)), next(it)
        evs = [(next(it), next(it), next(it)) for _ in range(nev)]
        outs.append((pa, pk, evs))
    return nbody, enc, flags, outs


def impl_flags(func_ast):
    from sigtools import _autoforwards as AF
    calls = list(AF.CallListerVisitor(func_ast))
    return [(bool(c.use_varargs), bool(c.use_varkwargs), bool(c.hide_args), bool(c.hide_kwargs))
            for c in calls]


def run(seed, count):
    """-> (stats dict, list of disagreement dicts)"""
    rng = random.Random(seed * 7919 + 17)
    progs = [gen_program(rng) for _ in range(count)]
    pre = 'From Sigtools.Model Require Import Exec.\nOpen Scope N_scope.\n'
    answers = coq_eval(pre, ['exec_report 1 2 %s' % coq_block(p) for p in progs], name='execcases')
    stats = {'exec_programs': count, 'exec_paths': 0, 'exec_events': 0, 'exec_pristine_confirmed': 0,
             'exec_exceptions': 0, 'exec_flag_tuples': 0, 'exec_used_flags': 0, 'exec_hidden_flags': 0}
    bad = []
    for p, ans in zip(progs, answers):
        nbody, enc, flags, outs = parse_report(parse_nat_list(ans))
        paths = paths_block(p)
        src0, sites0 = render(p, paths[0])
        tree = ast.parse(src0).body[0]
        # 1. TREE
        real = []
        for st in tree.body:
            enc_py(st, real)
        if real != enc or nbody != len(tree.body):
            bad.append({'kind': 'tree', 'program': coq_block(p), 'source': src0,
                        'model_tree': enc, 'real_tree': real})
            continue
        # 2. FLAGS
        try:
            fi = impl_flags(tree)
        except Exception as e:  # noqa: BLE001
            fi = 'RAISED ' + type(e).__name__
        if flags is None or fi != flags:
            bad.append({'kind': 'flags', 'program': coq_block(p), 'source': src0,
                        'model_flags': flags, 'impl_flags': fi, 'concrete': impl_flag_violation(p, fi)})
            continue
        stats['exec_flag_tuples'] += len(flags)
        stats['exec_used_flags'] += sum(1 for f in flags if f[0] or f[1])
        stats['exec_hidden_flags'] += sum(1 for f in flags if f[2] or f[3])
        # 3. EXEC
        if len(paths) != len(outs):
            bad.append({'kind': 'paths', 'program': coq_block(p), 'source': src0,
                        'model_outcomes': len(outs), 'real_paths': len(paths)})
            continue
        fw = fwd_sites(p)
        for path, (pa, pk, evs) in zip(paths, outs):
            src, sites = render(p, path)
            seq, verdict, exc, final = execute(src, sites, fw)
            stats['exec_paths'] += 1
            stats['exec_events'] += len(evs)
            msites = [e[0] for e in evs]
            problem = None
            if exc is None:
                if seq != msites:
                    problem = 'call sites executed %r, model %r' % (seq, msites)
                elif final is not None and ((pa and not final[0]) or (pk and not final[1])):
                    problem = 'model final state pristine=%r, really %r' % ((pa, pk), final)
            else:
                stats['exec_exceptions'] += 1
                if seq != msites[:len(seq)]:
                    problem = 'call sites executed before %s %r, model %r' % (exc, seq, msites)
            if problem is None:
                for pos, (site, a, k) in enumerate(evs):
                    if a != 2 and k != 2:
                        continue
                    if pos >= len(seq):
                        break          # after the exception
                    v = verdict.get(pos)
                    if v is None:
                        if exc is not None and pos == len(seq) - 1:
                            # the call itself raised: only a disagreement when the model says that
                            # every star argument written there is the untouched object
                            if a != 1 and k != 1:
                                problem = ('model: callee of site %d receives the untouched object(s); really '
                                           'the call raised %s' % (site, exc))
                        else:
                            problem = 'site %d: the callee was not reached' % site
                        break
                    if (a == 2 and not v[0]) or (k == 2 and not v[1]):
                        problem = ('model: callee of site %d receives the untouched %s; really it did not'
                                   % (site, '*args' if a == 2 and not v[0] else '**kwargs'))
                        break
                    stats['exec_pristine_confirmed'] += (a == 2) + (k == 2)
            if problem:
                bad.append({'kind': 'exec', 'program': coq_block(p), 'source': src, 'problem': problem})
                break
    return stats, bad


def impl_flag_violation(prog, fi):
    """The implementation's flags `fi` (one tuple per call site) against real
    execution: a site marked use_varargs / use_varkwargs whose callee really
    receives something else than the caller's untouched object.  -> dict or None"""
    if not isinstance(fi, list):
        return None
    fw = fwd_sites(prog)
    for path in paths_block(prog):
        src, sites = render(prog, path)
        seq, verdict, exc, _final = execute(src, sites, fw)
        for pos, site in enumerate(seq):
            if site not in fw or pos not in verdict or site >= len(fi):
                continue
            ua, uk = fi[site][0], fi[site][1]
            if ua and not verdict[pos][0]:
                return {'source': src, 'site': site,
                        'problem': 'the walker marks *args of call number %d as forwarded untouched (use_varargs), '
                                   'but executing the wrapper the callee receives other positional arguments' % site}
            if uk and not verdict[pos][1]:
                return {'source': src, 'site': site,
                        'problem': 'the walker marks **kwargs of call number %d as forwarded untouched (use_varkwargs), '
                                   'but executing the wrapper the callee receives a different mapping' % site}
    return None


def prog_from_coq(text):
    """inverse of coq_block, for replays"""
    toks = text.replace('(', ' ( ').replace(')', ' ) ').replace('[', ' [ ').replace(']', ' ] ').replace(';', ' ; ').split()
    pos = [0]

    def peek():
        return toks[pos[0]]

    def nxt():
        pos[0] += 1
        return toks[pos[0] - 1]

    def block():
        assert nxt() == '['
        out = []
        while peek() != ']':
            if peek() == ';':
                nxt()
                continue
            out.append(stmt())
        nxt()
        return out

    def nlist():
        assert nxt() == '['
        out = []
        while peek() != ']':
            t = nxt()
            if t != ';':
                out.append(int(t))
        nxt()
        return out

    def star():
        return 'A' if nxt() == 'SA' else 'K'

    def stmt():
        if peek() == 'SItemSet':
            nxt()
            return ('item',)
        assert nxt() == '('
        h = nxt()
        if h == 'SFwd':
            c = int(nxt())
            n = int(nxt().split('%')[0])
            kw = nlist()
            pa = nxt() == 'true'
            pk = nxt() == 'true'
            r = ('fwd', c, n, kw, pa, pk)
        elif h == 'SRebind':
            r = ('rebind', star())
        elif h == 'SAug':
            r = ('aug', star())
        elif h == 'SDel':
            r = ('del', star())
        elif h == 'SMethod':
            s = star()
            m = int(nxt())
            tab = dict(K_METHODS)
            tab.update(A_METHODS)
            name = tab[m][0]
            src = K_METHODS if s == 'K' else A_METHODS
            arg = [v for v in src.values() if v[0] == name][0]
            r = ('meth', s, m, arg)
        elif h == 'SPass':
            f = int(nxt())
            r = ('pass', f, star())
        elif h == 'SAlias':
            y = int(nxt())
            r = ('alias', y, star())
        elif h == 'SOther':
            r = ('other', int(nxt()))
        elif h == 'SLambdaMut':
            r = ('lam', int(nxt()))
        elif h == 'SIf':
            a = block()
            b = block()
            r = ('if', a, b)
        else:
            raise ValueError(h)
        assert nxt() == ')'
        return r

    return block()


# ================================================================ nested scopes (Model/ExecNested.v)
NESTED_FUNCS = [60, 61]           # names of nested functions (disjoint from callees / helpers / aliases)
for _i in NESTED_FUNCS:
    _INV.setdefault(ident(_i), _i)


def gen_ncall(rng):
    if rng.random() < 0.75:
        return ('nfwd', rng.choice(CALLEES), rng.randrange(0, 3), rng.sample(KWNAMES, rng.randrange(0, 3)),
                rng.random() < 0.8, rng.random() < 0.8)
    return ('nother', rng.choice(HELPERS))


def gen_nprogram(rng):
    """top-level statements: flat leaves (no lambda mutation), def h(): <calls>, h(), (lambda: call)()"""
    out = []
    defined = []
    for _ in range(rng.randrange(2, 9)):
        r = rng.random()
        if r < 0.5:
            budget = [1]
            s = gen_stmt(rng, 1, budget)
            while s[0] == 'lam':
                s = gen_stmt(rng, 1, budget)
            out.append(('leaf', s))
        elif r < 0.68:
            h = rng.choice(NESTED_FUNCS)
            out.append(('def', h, [gen_ncall(rng) for _ in range(rng.randrange(0, 3))]))
            defined.append(h)
        elif r < 0.86 and defined:
            out.append(('callh', rng.choice(defined)))
        else:
            out.append(('nlam', gen_ncall(rng)))
    return out


def coq_ncall(c):
    b = lambda x: 'true' if x else 'false'
    if c[0] == 'nfwd':
        return '(NCFwd %d %d%%nat [%s] %s %s)' % (c[1], c[2], '; '.join(str(k) for k in c[3]), b(c[4]), b(c[5]))
    return '(NCOther %d)' % c[1]


def coq_nblock(l):
    parts = []
    for x in l:
        if x[0] == 'leaf':
            parts.append('(NLeaf %s)' % coq_stmt(x[1]))
        elif x[0] == 'def':
            parts.append('(NDef %d [%s])' % (x[1], '; '.join(coq_ncall(c) for c in x[2])))
        elif x[0] == 'callh':
            parts.append('(NCallH %d)' % x[1])
        else:
            parts.append('(NLam %s)' % coq_ncall(x[1]))
    return '[' + '; '.join(parts) + ']'


def ncall_src(c):
    if c[0] == 'nfwd':
        parts = ['0'] * c[2]
        if c[4]:
            parts.append('*args')
        parts += ['%s=0' % ident(k) for k in c[3]]
        if c[5]:
            parts.append('**kwargs')
        return '%s(%s)' % (ident(c[1]), ', '.join(parts))
    return '%s(0)' % ident(c[1])


def render_n(prog, assign):
    """-> (source, {(scope, lineno): site}, {site: (nlit, kw names)})   scope: 'wrapper' | nested
    function name | '<lambda>'"""
    # number of main-scope calls of the whole program
    def mcalls(x):
        if x[0] == 'leaf':
            return len(fwd_sites([x[1]])) + sum(1 for _ in _other_calls([x[1]]))
        return 0 if x[0] == 'def' else 1
    M = sum(mcalls(x) for x in prog)
    lines = ['def wrapper(*args, **kwargs):']
    sites = {}
    fw = {}
    off = [0]
    noff = [0]
    for x in prog:
        if x[0] == 'leaf':
            src, st = render([x[1]], assign)
            body = src.split('\n')[1:]
            base = len(lines)
            leaf_fw = fwd_sites([x[1]])
            for ln, s in st.items():
                sites[('wrapper', base + ln - 1)] = off[0] + s
            for s, v in leaf_fw.items():
                fw[off[0] + s] = v
            lines += [b for b in body if b != '']
            off[0] += mcalls(x)
        elif x[0] == 'def':
            lines.append('    def %s():' % ident(x[1]))
            if not x[2]:
                lines.append('        pass')
            for c in x[2]:
                sites[(ident(x[1]) + '@%d' % (len(lines) + 1), len(lines) + 1)] = M + noff[0]
                if c[0] == 'nfwd':
                    fw[M + noff[0]] = (c[2], set(ident(k) for k in c[3]))
                lines.append('        ' + ncall_src(c))
                noff[0] += 1
        elif x[0] == 'callh':
            sites[('wrapper', len(lines) + 1)] = off[0]
            lines.append('    %s()' % ident(x[1]))
            off[0] += 1
        else:
            sites[('wrapper', len(lines) + 1)] = off[0]
            sites[('<lambda>', len(lines) + 1)] = M + noff[0]
            if x[1][0] == 'nfwd':
                fw[M + noff[0]] = (x[1][2], set(ident(k) for k in x[1][3]))
            lines.append('    (lambda: %s)()' % ncall_src(x[1]))
            off[0] += 1
            noff[0] += 1
    return '\n'.join(lines) + '\n', sites, fw


def _other_calls(block):
    for s in block:
        if s[0] in ('meth', 'pass', 'other', 'lam'):
            yield s
        elif s[0] == 'if':
            for y in _other_calls(s[1]):
                yield y
            for y in _other_calls(s[2]):
                yield y


def npaths(prog):
    """path assignments in the order of exec_n's outcomes"""
    out = [{}]
    for x in prog:
        if x[0] == 'leaf':
            ps = paths_stmt(x[1])
            out = [dict(list(a.items()) + list(b.items())) for a in out for b in ps]
    return out


def execute_n(source, sites, fw):
    """as `execute`, with nested frames: -> (site sequence, {position: (star_ok, dstar_ok)}, exception, final)"""
    A = (_Sentinel(), _Sentinel())
    K = {'k0': _Sentinel(), 'k1': _Sentinel()}
    K0 = dict(K)
    seq = []
    received = {}
    final = [None]
    cnt = [0]

    def site_of(frame):
        name = frame.f_code.co_name
        if name == 'wrapper' or name == '<lambda>':
            return sites.get((name, frame.f_lineno))
        return sites.get((name + '@%d' % frame.f_lineno, frame.f_lineno))

    def stub(*a, **k):
        fr = sys._getframe(1)
        pos = len(seq) - 1
        if fr.f_code.co_filename == '<exec-grammar>' and pos >= 0 and site_of(fr) == seq[pos]:
            received[pos] = (a, k)
        return None

    def helper(*a, **k):
        stub_fr = sys._getframe(1)
        pos = len(seq) - 1
        if stub_fr.f_code.co_filename == '<exec-grammar>' and pos >= 0 and site_of(stub_fr) == seq[pos]:
            received[pos] = (a, k)
        cnt[0] += 1
        if a and isinstance(a[0], dict) and cnt[0] % 2:
            a[0]['mutated'] = 1
        return None

    ns = {}
    for i in CALLEES:
        ns[ident(i)] = stub
    for i in HELPERS:
        ns[ident(i)] = helper
    exec(compile(source, '<exec-grammar>', 'exec'), ns)
    wrapper = ns['wrapper']

    def tracer(frame, event, arg):
        if frame.f_code.co_filename != '<exec-grammar>':
            return None
        if event == 'line':
            s = site_of(frame)
            if s is not None:
                seq.append(s)
        elif event == 'return' and frame.f_code is wrapper.__code__:
            loc = frame.f_locals
            la = loc.get('args')
            lk = loc.get('kwargs')
            final[0] = (isinstance(la, tuple) and len(la) == len(A) and all(x is y for x, y in zip(la, A)),
                        isinstance(lk, dict) and list(lk.items()) == list(K0.items()) and all(lk[x] is K0[x] for x in K0))
        return tracer

    exc = None
    old = sys.gettrace()
    sys.settrace(tracer)
    try:
        try:
            wrapper(*A, **K)
        except Exception as e:  # noqa: BLE001
            exc = type(e).__name__
    finally:
        sys.settrace(old)
    verdict = {}
    for pos, (a, k) in received.items():
        nl, kws = fw.get(seq[pos], (None, None))
        if nl is None:
            continue
        star = a[nl:]
        star_ok = len(star) == len(A) and all(x is y for x, y in zip(star, A))
        rest = {x: v for x, v in k.items() if x not in kws}
        dstar_ok = list(rest.keys()) == list(K0.keys()) and all(rest[x] is K0[x] for x in K0)
        verdict[pos] = (star_ok, dstar_ok)
    return seq, verdict, exc, (final[0] if exc is None else None)


def run_nested(seed, count):
    """the same three comparisons (TREE, FLAGS, EXEC) for the grammar of Model/ExecNested.v"""
    rng = random.Random(seed * 104729 + 5)
    progs = [gen_nprogram(rng) for _ in range(count)]
    pre = 'From Sigtools.Model Require Import Exec ExecNested.\nOpen Scope N_scope.\n'
    answers = coq_eval(pre, ['exec_report_n 1 2 %s' % coq_nblock(p) for p in progs], name='execncases')
    stats = {'nested_programs': count, 'nested_paths': 0, 'nested_events': 0, 'nested_pristine_confirmed': 0,
             'nested_deferred_calls': 0, 'nested_exceptions': 0}
    bad = []
    for p, ans in zip(progs, answers):
        nbody, enc, flags, outs = parse_report(parse_nat_list(ans))
        paths = npaths(p)
        src0, sites0, fw0 = render_n(p, paths[0])
        tree = ast.parse(src0).body[0]
        real = []
        for st in tree.body:
            enc_py_n(st, real)
        if real != enc or nbody != len(tree.body):
            bad.append({'kind': 'nested-tree', 'program': coq_nblock(p), 'source': src0, 'model_tree': enc, 'real_tree': real})
            continue
        try:
            fi = impl_flags(tree)
        except Exception as e:  # noqa: BLE001
            fi = 'RAISED ' + type(e).__name__
        if flags is None or fi != flags:
            bad.append({'kind': 'nested-flags', 'program': coq_nblock(p), 'source': src0, 'model_flags': flags, 'impl_flags': fi})
            continue
        stats['nested_deferred_calls'] += sum(len(x[2]) if x[0] == 'def' else (1 if x[0] == 'nlam' else 0) for x in p)
        if len(paths) != len(outs):
            bad.append({'kind': 'nested-paths', 'program': coq_nblock(p), 'source': src0,
                        'model_outcomes': len(outs), 'real_paths': len(paths)})
            continue
        for path, (pa, pk, evs) in zip(paths, outs):
            src, sites, fw = render_n(p, path)
            seq, verdict, exc, final = execute_n(src, sites, fw)
            stats['nested_paths'] += 1
            stats['nested_events'] += len(evs)
            msites = [e[0] for e in evs]
            problem = None
            if exc is None:
                if seq != msites:
                    problem = 'call sites executed %r, model %r' % (seq, msites)
                elif final is not None and ((pa and not final[0]) or (pk and not final[1])):
                    problem = 'model final state pristine=%r, really %r' % ((pa, pk), final)
            else:
                stats['nested_exceptions'] += 1
                if seq != msites[:len(seq)]:
                    problem = 'call sites executed before %s %r, model %r' % (exc, seq, msites)
            if problem is None:
                for pos, (site, a, k) in enumerate(evs):
                    if a != 2 and k != 2:
                        continue
                    if pos >= len(seq):
                        break
                    v = verdict.get(pos)
                    if v is None:
                        if exc is not None and pos == len(seq) - 1:
                            if a != 1 and k != 1:
                                problem = ('model: callee of site %d receives the untouched object(s); really the '
                                           'call raised %s' % (site, exc))
                        else:
                            problem = 'site %d: the callee was not reached' % site
                        break
                    if (a == 2 and not v[0]) or (k == 2 and not v[1]):
                        problem = ('model: callee of site %d receives the untouched %s; really it did not'
                                   % (site, '*args' if a == 2 and not v[0] else '**kwargs'))
                        break
                    stats['nested_pristine_confirmed'] += (a == 2) + (k == 2)
            if problem:
                bad.append({'kind': 'nested-exec', 'program': coq_nblock(p), 'source': src, 'problem': problem})
                break
    return stats, bad


def enc_py_n(node, out):
    """enc_py extended with nested FunctionDef (no parameters)"""
    if isinstance(node, ast.FunctionDef):
        a = node.args
        pos = list(a.posonlyargs) + list(a.args)
        out += [5, len(pos)] + [_INV[x.arg] for x in pos] + [len(a.kwonlyargs)] + [_INV[x.arg] for x in a.kwonlyargs]
        out += [0 if a.vararg is None else _INV[a.vararg.arg] + 1, 0 if a.kwarg is None else _INV[a.kwarg.arg] + 1,
                len(node.body)]
        for st in node.body:
            enc_py_n(st, out)
        return
    if isinstance(node, (ast.Name, ast.Attribute, ast.Starred, ast.keyword, ast.Lambda)):
        return enc_py(node, out)
    if isinstance(node, ast.Call):
        out.append(2)
        enc_py_n(node.func, out)
        out.append(len(node.args))
        for a in node.args:
            enc_py_n(a, out)
        out.append(len(node.keywords))
        for k in node.keywords:
            enc_py_n(k, out)
        return
    children = children_in_visit_order(node)
    out += [7, len(children)]
    for c in children:
        enc_py_n(c, out)
