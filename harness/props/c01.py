"""C01 — merge: a call accepted by the merged signature is accepted by every input."""
import itertools

from core import (universe, mk_desc, show_sig, show_call, tok_sig, tok_sigs, parse_cex,
                  shape_of, random_sig, name_of)
from algebra import (Merge, MergeNested, run_cases, ask, proj_shape, proj_full,
                     check_binding_model, case_from_data)

LEVEL = 'proof'


def gen_inputs(ctx):
    rng = ctx.rng('gen')
    U2 = universe(2, ['a', 'b'])
    U3 = universe(3, ['a', 'b', 'c'])
    tuples = []
    # exhaustive pairs over U(2)
    for x in U2:
        for y in U2:
            tuples.append([x, y])
    nrand = 12000 if ctx.quick else 250000
    if not ctx.quick:
        # exhaustive triples over a sub-universe, pairs over U(3) sample
        U2s = universe(2, ['a', 'b'], permute=True)
        for x in rng.sample(U2s, 60):
            for y in rng.sample(U2s, 60):
                for z in rng.sample(U2s, 60):
                    tuples.append([x, y, z])
    for _ in range(nrand):
        n = rng.choice([2, 3, 3, 3, 4])
        kind = rng.random()
        if kind < 0.5:
            tuples.append([rng.choice(U3) for _ in range(n)])
        elif kind < 0.58:
            tuples.append([random_sig(rng, 'abcd', 4) for _ in range(n)])
        elif kind < 0.64:
            # parameters that carry annotations and varied default values on some inputs only: what a
            # merged parameter keeps of them must never make it optional where an input requires it
            tuples.append([random_sig(rng, 'abcd', 4, meta=True) for _ in range(n)])
        elif kind < 0.72:
            # inputs that agree on a prefix of their positional parameters and then name the next
            # slots differently (several parameters renamed in one step), followed by inputs that
            # lack those slots and have stars
            names = [1, 2, 3, 4, 14, 15]
            rng.shuffle(names)
            k = rng.randint(0, 2)
            w = rng.randint(1, 2)
            prefix = [(x, 'PK', None, None, ('E',)) for x in names[:k]]
            dflt = rng.choice([None, 1])
            t1 = prefix + [(x, 'PK', dflt, None, ('E',)) for x in names[k:k + w]]
            t2 = prefix + [(x, 'PK', dflt, None, ('E',)) for x in names[k + w:k + 2 * w]]
            rest = []
            for _ in range(n - 2):
                r = list(prefix[:rng.randint(0, k)])
                if rng.random() < 0.4:
                    r.append((9, 'VP', None, None, ('E',)))
                if rng.random() < 0.8:
                    r.append((10, 'VK', None, None, ('E',)))
                rest.append(r)
            tuples.append([t1, t2] + rest if n > 2 else [t1, t2])
        elif kind < 0.8:
            # names of more than one letter, some spelled with the letters of the others
            tuples.append([random_sig(rng, ['a', 'ab', 'ba', 'b', 'self'], 4) for _ in range(n)])
        else:
            # same names, role-consistent by construction with different star names
            base = random_sig(rng, 'abcde', 5)
            tuples.append([mutate(rng, base) for _ in range(n)])
    return tuples


def mutate(rng, ps):
    """A variation of ps that keeps every name's role: drop a suffix of
    positionals / some keyword-only parameters / stars, toggle defaults."""
    pos = [p for p in ps if p[1] in ('PO', 'PK')]
    ko = [p for p in ps if p[1] == 'KO']
    va = [p for p in ps if p[1] == 'VP']
    vk = [p for p in ps if p[1] == 'VK']
    pos = pos[:rng.randint(0, len(pos))]
    ko = [p for p in ko if rng.random() < 0.7]
    if rng.random() < 0.3:
        va = [] if va else [(9, 'VP', None, None, ('E',))]
    if rng.random() < 0.3:
        vk = [] if vk else [(10, 'VK', None, None, ('E',))]
    # defaults: make a suffix optional
    nd = rng.randint(0, len(pos))
    # default VALUES vary between the variations of one base signature (1 or 2):
    # conciliation of unequal defaults must keep the parameter optional
    pos = [(p[0], p[1], (rng.choice([1, 1, 2]) if i >= len(pos) - nd else None), p[3], p[4]) for i, p in enumerate(pos)]
    ko = [(p[0], p[1], (rng.choice([1, 1, 2]) if rng.random() < 0.5 else None), p[3], p[4]) for p in ko]
    out = pos + va + ko + vk
    if len({p[0] for p in out}) != len(out):
        return ps
    return out


def decide(triples):
    reqs, meta, out = [], [], []
    rc = ask(['rolecons ' + tok_sigs(c.ds) for c, m, i in triples])
    for (c, m, i), r in zip(triples, rc):
        if i[0] == 'err':
            if i[1] not in ('Incompatible', 'ValueError'):
                out.append((c, 'C01:exception', '%s raised %s' % (c.show(), i[1])))
            continue
        reqs.append('soundpure %s %s' % (tok_sig(i[1]), tok_sigs(c.ds)))
        meta.append((c, i, 'pure'))
        if r == 'T':
            reqs.append('sound %s %s' % (tok_sig(i[1]), tok_sigs(c.ds)))
            meta.append((c, i, 'mixed'))
    for (c, i, kind), ans in zip(meta, ask(reqs)):
        cex = parse_cex(ans)
        if cex is None:
            continue
        if kind == 'pure':
            out.append((c, 'C01:pure', '%s = %s accepts the all-positional/all-keyword call %s which an input rejects' % (c.show(), show_sig(i[1]), show_call(cex))))
        else:
            out.append((c, 'C01:mixed', '%s = %s (role-consistent inputs) accepts the non-colliding call %s which an input rejects' % (c.show(), show_sig(i[1]), show_call(cex))))
    return out, rc


def run(ctx, rep):
    tuples = gen_inputs(ctx)
    cases = [Merge([mk_desc(ps, 100 + k) for k, ps in enumerate(t)]) for t in tuples]
    rep.rule = ('exhaustive pairs over U(2,{a,b}) (220^2) + random pairs/triples/quadruples from U(3,{a,b,c}), '
                'random 4-name signatures and role-preserving variations of a 5-name signature; '
                'non-trivial = merge succeeded with a result different from its first input, or raised')
    sample_sigs = [mk_desc(t[0], 100) for t in tuples[::max(1, len(tuples) // 150)]]
    rep.coverage['binding_model_calls_vs_cpython'] = check_binding_model(rep, sample_sigs, 150)
    triples = run_cases(cases)
    rep.evaluations = len(triples)
    nerr = 0
    for c, m, i in triples:
        if proj_shape(m) != proj_shape(i):
            rep.corr_break('merge shape/error-class', c.show(), str(proj_shape(m)), str(proj_shape(i)))
        if i[0] == 'err':
            nerr += 1
            rep.distinct.add(c.request())
        elif shape_of(i[1]) != shape_of(c.ds[0]):
            rep.distinct.add(c.request())
    res, rc = decide(triples)
    rep.coverage['error_results'] = nerr
    rep.coverage['role_consistent_tuples'] = sum(1 for r in rc if r == 'T')
    rep.coverage['arity_histogram'] = {str(k): sum(1 for t in tuples if len(t) == k) for k in (2, 3, 4)}
    for c, key, what in res:
        rep.violation(key, what, dict(c.data(), kind='decide'))
    # a broken correspondence without a failing input so far: search the neighbourhood of the
    # disagreeing tuples (every order, every sub-tuple, a bare star signature appended) for an
    # input on which the implementation's merge is unsound
    broken = [c for c, m, i in triples if proj_shape(m) != proj_shape(i)]
    if broken and not res:
        import itertools
        bare = mk_desc([(9, 'VP', None, None, ('E',)), (10, 'VK', None, None, ('E',))], 150)
        near, seen = [], set()
        for c in broken[:40]:
            ds = list(c.ds)
            cands = [list(pm) for pm in itertools.permutations(ds)] if len(ds) <= 4 else [ds]
            for r in range(2, len(ds)):
                cands += [list(sub) for sub in itertools.combinations(ds, r)]
            cands += [ds + [bare], [bare] + ds]
            for cand in cands:
                nc = Merge(cand)
                if nc.request() not in seen:
                    seen.add(nc.request())
                    near.append(nc)
        near = near[:4000]
        nres, _ = decide(run_cases(near))
        rep.coverage['failing_input_search_cases'] = len(near)
        for c, key, what in nres[:5]:
            rep.violation(key, what + ' (found by searching around a disagreement between model and implementation)',
                          dict(c.data(), kind='decide'))
    # soundness only (no comparison with the model, whose defaults are plain values): some defaults
    # are an object that compares equal to everything, like unittest.mock.ANY
    wrng = ctx.rng('wildcard')
    wcases = []
    for _ in range(1500 if ctx.quick else 20000):
        base = random_sig(wrng, 'abcde', 5)
        ts = [mutate(wrng, base) for _ in range(wrng.choice([2, 2, 3]))]
        ts = [[(p[0], p[1], (3 if (p[2] is not None and wrng.random() < 0.5) else p[2]), p[3], p[4]) for p in ps] for ps in ts]
        wcases.append(Merge([mk_desc(ps, 100 + k) for k, ps in enumerate(ts)]))
    wtr = [(c, None, c.impl()) for c in wcases]
    rep.evaluations += len(wtr)
    rep.coverage['wildcard_default_tuples'] = len(wtr)
    for c, key, what in decide(wtr)[0]:
        rep.violation(key, what + ' (default 3 stands for an object that compares equal to everything)', dict(c.data(), kind='decide'))
    for c, m, i in triples[:2] + triples[-3:]:
        rep.sample({'case': c.show(), 'impl': show_sig(i[1]) if i[0] == 'ok' else i[1]})
    rep.assumptions = ['parameter objects of the inputs are fresh objects',
                       'calls are decided on the finite shape family justified by Proofs/SmallModel.v']


def replay(ctx, data):
    c = case_from_data(data['replay'])
    res, _ = decide(run_cases([c]))
    return res[0][2] if res else None
